"""C20 -- DEF data is extracted as written, with wildcards and via arrays expanded."""
import random
from harness import defgen as dg, circgen as cg, def_elab as de, def_text as dt, def_route_src as drs, def_callbacks_src as dcs

THEOREMS = ['C20_wildcard_resolve', 'C20_wildcard_nearest', 'C20_via_location', 'C20_wire_vias_listing',
            'C20_via_array_members', 'C20_via_array_count', 'C20_via_array_nodup', 'C20_via_array_order',
            'C20_per_layer_wires', 'C20_per_type_vias', 'C20_listing_keys_unique', 'C20_routed_accumulates', 'C20_routed_only',
            'C20_row_horizontal', 'C20_row_vertical', 'C20_row_negative_step_refuted',
            # transformer callbacks (Model/DefElab.v)
            'C20_tree_components', 'C20_tree_pins', 'C20_tree_vias', 'C20_tree_nets', 'C20_tree_specialnets',
            'C20_components_exactly_once', 'C20_pins_exactly_once', 'C20_vias_exactly_once', 'C20_nets_exactly_once',
            'C20_specialnets_exactly_once', 'C20_dict_last_wins', 'C20_rows_in_order', 'C20_tracks_in_order', 'C20_units_in_order',
            'C20_header', 'C20_diearea', 'C20_point_as_written', 'C20_net_as_written', 'C20_net_attr_as_written',
            'C20_rwire_as_written', 'C20_spwire_as_written', 'C20_def_of_tree_listing',
            # text level (Model/DefText.v)
            'C20_lexer_word', 'C20_lexer_ignores', 'C20_text_as_words', 'C20_words_roundtrip', 'C20_parse_words', 'C20_parse_words_comment',
            'C20_parse_print', 'C20_wf_id_iff', 'C20_wf_rvia_iff', 'C20_def_of_text_print', 'C20_def_of_text_words', 'C20_text_components',
            'C20_text_pins', 'C20_text_nets', 'C20_text_specialnets', 'C20_text_rows_tracks']

# source tie (translation): Gen/DefRouteSrc.v = Model/DefRoute.v
THEOREMS += ['C20_route_source_is_model', 'C20_dnet_source_is_model', 'C20_route_source_nonvacuous']
# source tie (translation): Gen/DefCallbacksSrc.v = the callbacks pins_opt / pins_stmt / comp_stmt of Model/DefElab.v
THEOREMS += ['C20_callbacks_source_is_model', 'C20_callbacks_source_precondition_needed', 'C20_callbacks_source_nonvacuous']

WHAT = {'regular-net-wires': 'DefNet.wires raises TypeError on a regular net (int(None): wire() never sets a width)',
        'wildcard-wire-points': 'DefWire.wire_points / DefNet.wires leave a "*" coordinate as None instead of the previous value',
        'unrouted-net-listing': 'DefNet.wires / .vias raise AttributeError on a net without "+ ROUTED" statement',
        'repeated-routed': 'a second "+ ROUTED" statement of a net replaces the wires of the first'}


def parse(text):
    from kyupy import def_file
    return def_file.parse(text)


def features(gt):
    f = set()
    for sec in ('specialnets', 'nets'):
        for n in gt[sec]:
            nr = sum(1 for it in n['items'] if it[0] == 'wiring' and it[1] == 'ROUTED')
            f.add(f'{sec}:routed-statements={min(nr, 2)}')
            for it in n['items']:
                if it[0] != 'wiring':
                    continue
                if it[1] != 'ROUTED': f.add('other-wiring-keyword')
                if len(it[2]) > 1: f.add('NEW-segments')
                for w in it[2]:
                    if not any(e[0] == 'pt' for e in w['elems']): f.add('via-only-wire')
                    for e in w['elems']:
                        if e[0] == 'pt' and (e[4] or e[5]): f.add('wildcard')
                        if e[0] == 'pt' and e[4] and e[5]: f.add('double-wildcard')
                        if e[0] == 'pt' and e[3] is not None: f.add('ext-value')
                        if e[0] == 'via' and e[2] is None: f.add('via-plain')
                        if e[0] == 'via' and e[2] is not None: f.add('via-' + e[2][0])
    return f


def run(ck):
    # translation (tie T): Gen/DefRouteSrc.v is regenerated from the current text of def_file.py; C20_route_source_is_model then re-proves
    # that the translated DefWire.wire_points / .vias and DefNet.wires / .vias are the hand model the routing theorems are stated on
    src_ok = drs.translate(ck)
    # translation (tie T): Gen/DefCallbacksSrc.v is regenerated from the current text of def_file.py; C20_callbacks_source_is_model then
    # re-proves that the translated pins_opt / pins_stmt / comp_stmt are the hand transcription of Model/DefElab.v
    cbs_ok = dcs.translate(ck)
    dcs.install()
    del dcs.LOG[:]
    dcs.SEEN.clear()
    proved, _ = ck.prove('C20', THEOREMS)
    if not proved:
        from vcheck import core
        core.coq_make(core.support_targets())     # the models must exist for the correspondence even when a proof broke
        if src_ok:
            core.coq_make(['theories/Gen/DefRouteSrc.vo'])
        if cbs_ok:
            core.coq_make(['theories/Gen/DefCallbacksSrc.vo'])
    src_cases, src_meta = [], []
    rng = random.Random(ck.seed * 7919 + 20)
    fails = {}            # key -> (replay input, message)   (first failing input per kind of failure)
    net_cases, wire_cases, misc_cases, meta = [], [], [], []
    feat = {}
    # callback level / text level: per file (definitions shared by its cases, cases, what they are)
    file_units, cb_seen, cb_cases, cb_count = [], {}, [], {}
    n_model = ck.scale(70, 1500)
    CB_CAP = ck.scale(160, 4000)

    def note(key, inp, msg):
        if key not in fails:
            fails[key] = (inp, msg)

    # ---- stream 1: DEF text from a structured ground truth -------------------------------------------------------
    n_files = ck.scale(150, 4000)
    for i in range(n_files):
        gt = dg.gen_def(rng)
        text = dg.render(gt, rng)
        inp = {'text': text, 'gt': gt}
        ck.count(1, 'file:' + gt['style'])
        for f in features(gt):
            feat[f] = feat.get(f, 0) + 1
        ck.nontrivial(('f', gt['style'], len(text), gt['design'], len(gt['nets']), len(gt['specialnets'])))
        try:
            d = parse(text)
        except Exception as e:                                 # noqa
            note('parse-error', inp, f'def_file.parse raises {type(e).__name__}: {str(e).splitlines()[0][:200]}')
            continue
        for key, msg in dg.check_file(gt, d):
            note(key, inp, msg)
        if i < 2:
            ck.sample({'style': gt['style'], 'text': text[:400]})
        # callback level and text level: the tree lark builds, what every callback receives / returns, the DefFile
        if i < n_model and dt.in_domain(text):
            tree, exc = de.lark_tree(text)
            try:
                d2, log, exc2 = de.real_run(text)
            except de.OutOfDomain:
                d2, log, exc2, tree = None, [], 'out-of-domain', None
            if tree is None or d2 is None:
                note('parse-error', inp, f'recording run: lark tree {exc}, transformer {exc2}')
            elif de.dump(d2) != de.dump(d):
                note('recorder-differs', inp, 'the DefFile of the recording transformer differs from def_file.parse')
            else:
                defs = [(f'txt_{i}', de.cstr(text)), (f'tr_{i}', de.coq_tree(tree)), (f'df_{i}', de.coq_deffile(d2))]
                cs = [(f'defelab_case tr_{i} (Some df_{i})', 'elab'), (f'deftext_case txt_{i} (Some tr_{i})', 'text'),
                      (f'deftext_file_case txt_{i} (Some df_{i})', 'textfile')]
                for sec, special in (('specialnets', True), ('nets', False)):
                    for nm, got in getattr(d2, sec).items():
                        act = dg.net_actual(got)
                        if isinstance(act['wires'], tuple) or isinstance(act['vias'], tuple):
                            continue
                        try:
                            cs.append((f'deffile_listing_case df_{i} {"true" if special else "false"} {de.cstr(nm)} '
                                       f'(Some ({dg.coq_wires(act["wires"])})%Z) (Some ({dg.coq_vias(act["vias"])})%Z)', 'listing'))
                        except Exception:                      # noqa
                            pass
                # the printer: print_def of the tree (python twin) is read back by lark as the same tree; the tree is well-formed
                ptext = dt.py_print(tree)
                tree2, _ = de.lark_tree(ptext)
                if tree2 is None or de.coq_tree(tree2) != de.coq_tree(tree):
                    note('print-roundtrip', inp, 'lark does not read the printed words of the tree back as the tree')
                cs.append((f'print_case tr_{i} {de.cstr(ptext)} true', 'print'))
                file_units.append((defs, cs, inp))
                for name, ccs in log:
                    cb_count[name] = cb_count.get(name, 0) + 1
                    for c in ccs:
                        k = cb_seen.setdefault(name, set())
                        if c not in k and len(k) < CB_CAP:
                            k.add(c)
                            cb_cases.append((c, name, inp))
        # correspondence cases: model on the ground-truth statements vs. what the implementation returned
        for sec, special in (('specialnets', True), ('nets', False)):
            for n in gt[sec]:
                got = getattr(d, sec).get(n['name'])
                if got is None:
                    continue
                act = dg.net_actual(got)
                net_cases.append(dg.coq_net_case(n, act))
                meta.append(('net', inp, f'{sec}[{n["name"]!r}]'))
                src_cases.append(drs.net_case(got))
                src_meta.append((inp, f'{sec}[{n["name"]!r}]'))
                for w in (getattr(got, 'routed', None) or [])[:3]:
                    src_cases.append(drs.wire_case(w))
                    src_meta.append((inp, f'{sec}[{n["name"]!r}] wire'))
                for kw in dg.WIRING_KW:
                    ws_gt = [w for it in n['items'] if it[0] == 'wiring' and it[1].lower() == kw for w in it[2]]
                    ws = getattr(got, kw, None) or []
                    if len(ws) == len(ws_gt):
                        for w, wg in zip(ws, ws_gt):
                            try:
                                wire_cases.append(dg.coq_wire_case(wg, dg.norm(w.wire_points), dg.norm(list(w.vias.items()))))
                            except Exception:                  # noqa
                                wire_cases.append('false')
        if len(d.rows) == len(gt['rows']):
            misc_cases += [dg.coq_row_case(r, g) for r, g in zip(gt['rows'], d.rows)]
        if len(d.tracks) == len(gt['tracks']):
            misc_cases += [dg.coq_track_case(t, g) for t, g in zip(gt['tracks'], d.tracks)]
    # ---- stream 2: DefNet / DefWire objects built directly (values the grammar cannot write) -----------------------
    n_direct = ck.scale(250, 6000)
    for i in range(n_direct):
        special = rng.random() < 0.5
        style = rng.choice(['typical', 'wildcards', 'arrays', 'via-only', 'long'])
        net = dg.gen_net(rng, special, style, f'd{i}', ['u1', 'u2'], ['via1', 'via2', 'V'], big=True)
        inp = {'direct_net': net, 'special': special}
        ck.count(1, 'direct:' + ('special' if special else 'regular'))
        ck.nontrivial(('d', special, style, str(net['items'])[:80]))
        out = []
        try:
            dn = dg.build_net(net, special)
            dg.check_net('direct', net, special, dn, out)
            net_cases.append(dg.coq_net_case(net, dg.net_actual(dn)))
            meta.append(('net', inp, 'direct'))
            src_cases.append(drs.net_case(dn))
            src_meta.append((inp, 'direct'))
            for w in (getattr(dn, 'routed', None) or [])[:3]:
                src_cases.append(drs.wire_case(w))
                src_meta.append((inp, 'direct wire'))
        except Exception as e:                                 # noqa
            out.append(('direct-raises', f'{type(e).__name__}: {e}'))
        for key, msg in out:
            note(key, inp, msg)
    # ---- stream 3: TEXT level -- what lark accepts and the tree it builds (Model/DefText.v) ---------------------------
    rng3 = random.Random(ck.seed * 104729 + 20)
    text_units, tstream, n_ood = [], {}, 0        # (text, cases, info)
    tab_cases, tab_descs, tab_fails = dt.table_cases()
    for msg in tab_fails:
        note('lark-table', {'table': msg}, msg)
    corner = [(t, 'corner', None) for t in dt.CORNER_TEXTS]
    for text, stream, must in corner + [dt.gen_text(rng3) for _ in range(ck.scale(330, 8000))]:
        if not dt.in_domain(text):
            n_ood += 1
            continue
        try:
            cs, info, fail = dt.text_cases(text)
        except de.OutOfDomain:
            n_ood += 1
            continue
        inp3 = {'text': text, 'stream': stream}
        ok = info['raises'] is None
        tstream[(stream, ok)] = tstream.get((stream, ok), 0) + 1
        ck.count(1, 'text:' + stream)
        ck.nontrivial(('t', stream, text[:300], ok))
        if fail:
            note('text-' + stream, inp3, fail)
        if must and not ok:
            note('parse-error', inp3, f'a rendered DEF file is rejected: {info["raises"]}')
        if stream == 'corner' and info.get('raises_parse') not in (None, 'ValueError') and ok:
            note('text-corner', inp3, f'transformer raises {info["raises_parse"]}')
        text_units.append((text, cs, inp3, info))
    # ---- Coq evaluation ------------------------------------------------------------------------------------------
    mfiles, mspans = [], []                        # model files of the callback / text level: (text of the .v, [(kind, input)])
    k = 0
    while k < len(file_units):
        chunk = file_units[k:k + 6]
        k += 6
        mfiles.append(de.cases_file([c for _, cs, _ in chunk for c, _ in cs], [dd_ for defs, _, _ in chunk for dd_ in defs]))
        mspans.append([(kind, inp) for _, cs, inp in chunk for _, kind in cs])
    for k in range(0, len(cb_cases), 500):
        mfiles.append(de.cases_file([c for c, _, _ in cb_cases[k:k + 500]]))
        mspans.append([('callback:' + name, inp) for _, name, inp in cb_cases[k:k + 500]])
    mfiles.append(de.cases_file(tab_cases + dt.int_limit_cases()))
    mspans.append([('table', d_) for d_ in tab_descs] + [('int-limit', {})] * len(dt.int_limit_cases()))
    k, size, chunk = 0, 0, []
    for unit in text_units + [None]:
        if unit is None or (chunk and size + len(unit[0]) > 30000):
            defs = [(f'txt_{j}', de.cstr(u[0])) for j, u in enumerate(chunk)]
            cs, sp = [], []
            for j, u in enumerate(chunk):
                for c in u[1]:
                    cs.append(c.replace(de.cstr(u[0]), f'txt_{j}', 1))
                    sp.append(('text:' + u[2]['stream'], u[2]))
            mfiles.append(de.cases_file(cs, defs))
            mspans.append(sp)
            chunk, size = [], 0
        if unit is not None:
            chunk.append(unit)
            size += len(unit[0])
    mouts = ck.coq_eval_many('defm', mfiles, jobs=14)
    mbad, mran = {}, True
    for sp, (ok, out) in zip(mspans, mouts):
        lst = cg.parse_nat_list(out) if ok else None
        if lst is None:
            mran = False
            mbad.setdefault('coqc', []).append(({}, out[-600:]))
        else:
            for j in lst:
                mbad.setdefault(sp[j][0], []).append(sp[j][1])

    def mok(*kinds):
        return mran and not any(kk == p or kk.startswith(p + ':') for kk in mbad for p in kinds)
    n_cb = len(cb_cases)
    n_files = len(file_units)
    n_listing = sum(1 for _, cs, _ in file_units for _, kind in cs if kind == 'listing')
    ck.obligation(f'Coq transcription of every DefTransformer callback (Model/DefElab.v) = the real callback on {n_cb} distinct invocations '
                  f'(arguments as received from lark / from the child callbacks, value returned or entry stored; {sum(cb_count.values())} calls seen)',
                  mok('callback'), 'correspondence', f'failing: {sorted(kk for kk in mbad if kk.startswith("callback"))}')
    ck.obligation(f'elab (all callbacks in lark\'s order) of the parse tree = the DefFile def_file.parse returns, every attribute, on {n_files} files',
                  mok('elab'), 'correspondence', f'{len(mbad.get("elab", []))} files differ')
    ck.obligation(f'callbacks ; DefRoute (dnet_wires / dnet_vias of the extracted net) = DefNet.wires / DefNet.vias on {n_listing} nets',
                  mok('listing'), 'correspondence', f'{len(mbad.get("listing", []))} nets differ')
    n_text = len(text_units) + n_files
    ck.obligation(f'parse_def (Model/DefText.v: contextual lexer + LALR language of def_file.GRAMMAR) = lark on {n_text} texts: accepts exactly the '
                  f'same texts and builds the same tree (rendered files, blanks removed, token / character mutations, truncations, {len(dt.CORNER_TEXTS)} probes)',
                  mok('text'), 'correspondence', f'failing streams: {sorted(kk for kk in mbad if kk.startswith("text"))}')
    ck.obligation(f'printer and domain: print_def of the tree lark builds = the python twin, which lark reads back as the same tree; wf_tree holds '
                  f'for the tree of every generated file ({n_files} files): the round-trip theorems apply to them', mok('print'), 'correspondence',
                  f'{len(mbad.get("print", []))} files differ')
    ck.obligation(f'def_of_text (parse_def ; elab) = def_file.parse as a whole (DefFile or exception) on the same texts',
                  mok('textfile', 'text'), 'correspondence', f'{len(mbad.get("textfile", []))} rendered files differ')
    ck.obligation('lark\'s tables: every accept set the model names is the accept set of an LALR state entered by a terminal; the scanner lark '
                  f'builds for each of the {len(tab_cases) - 1} accept sets (terminal order, keywords scanned for, strings embedded in ID) is the one '
                  'the model derives; int() digit limit', mok('table', 'int-limit'), 'correspondence', str(mbad.get('table', ''))[:300])
    acc_streams = {st for (st, ok) in tstream if ok}
    rej_streams = {st for (st, ok) in tstream if not ok}
    ck.obligation('text streams: accepted AND rejected texts among the probes, the blank-free renderings and the mutations; every callback of '
                  'DefTransformer was invoked', {'corner', 'glued', 'rendered', 'separators', 'char-mutation'} <= acc_streams and
                  {'corner', 'glued', 'token-mutation', 'char-mutation', 'truncated'} <= rej_streams and
                  set(cb_count) >= {'point', 'do_step', 'sppoints_via', 'points_via', 'spwire', 'wire', 'spnet_wires', 'net_wires', 'net_pin', 'net_opt',
                                    'spnets_stmt', 'nets_stmt', 'vias_opt', 'vias_stmt', 'comp_stmt', 'pins_opt', 'pins_stmt', 'design_stmt', 'file_stmt',
                                    'design', 'start'}, 'coverage', f'{sorted(tstream.items())} {sorted(cb_count.items())}')
    ck.dist.update({f'text:{st}:{"accepted" if ok else "rejected"}': v for (st, ok), v in tstream.items()})
    ck.dist['text:outside-domain(code point >= 256 or DO count > 10000)'] = n_ood
    texts, spans = [], []
    for tag, cases, per in (('net', net_cases, 120), ('wire', wire_cases, 400), ('misc', misc_cases, 600)):
        for k in range(0, len(cases), per):
            texts.append(dg.cases_file(cases[k:k + per]))
            spans.append((tag, k))
    outs = ck.coq_eval_many('def', texts, jobs=12)
    bad = {'net': [], 'wire': [], 'misc': []}
    ran = True
    for (tag, k), (ok, out) in zip(spans, outs):
        lst = cg.parse_nat_list(out) if ok else None
        if lst is None:
            ran = False
            bad[tag].append(('coqc', out[-600:]))
        else:
            bad[tag] += [k + j for j in lst]
    ck.obligation(f'Coq model of DefNet.wires / DefNet.vias (with the collection of "+ ROUTED" statements) = implementation on {len(net_cases)} nets '
                  '(exact per-layer / per-type listings incl. key order)', ran and not bad['net'], 'correspondence', f'failing nets {bad["net"][:8]}')
    ck.obligation(f'Coq model of DefWire.wire_points / DefWire.vias = implementation on {len(wire_cases)} parsed routing statements',
                  ran and not bad['wire'], 'correspondence', f'failing wires {bad["wire"][:8]}')
    sbad, sran = [], True
    if src_ok:
        per = 150
        souts = ck.coq_eval_many('defsrc', [drs.cases_file(src_cases[k:k + per]) for k in range(0, len(src_cases), per)], jobs=12)
        for ci, (ok, out) in enumerate(souts):
            lst = cg.parse_nat_list(out) if ok else None
            if lst is None:
                sran = False
                sbad.append(('coqc', out[-600:]))
            else:
                sbad += [ci * per + j for j in lst]
        ck.obligation(f'translated source Gen/DefRouteSrc.v = implementation on {len(src_cases)} real DefNet / DefWire objects (parsed files and '
                      'directly built nets; objects and results written as the Python values they are): wire_points, vias, wires, vias '
                      'listings incl. key order; raises iff the implementation raises', sran and not sbad, 'correspondence',
                      f'failing cases {sbad[:8]}')
    cbad, cmeta = [], []
    if cbs_ok:
        cseen, ccount = set(), {}
        for name, c in list(dcs.LOG):
            ccount[name] = ccount.get(name, 0) + 1
            if c not in cseen and len(cseen) < ck.scale(900, 6000):
                cseen.add(c)
                cmeta.append((name, c, 'argument list seen by the recording transformer'))
        cmeta += dcs.direct_cases()
        per, cran = 300, True
        couts = ck.coq_eval_many('defcbsrc', [dcs.cases_file([c for _, c, _ in cmeta[k:k + per]]) for k in range(0, len(cmeta), per)], jobs=12)
        for ci, (ok, out) in enumerate(couts):
            lst = cg.parse_nat_list(out) if ok else None
            if lst is None:
                cran = False
                cbad.append(('coqc', out[-600:]))
            else:
                cbad += [ci * per + j for j in lst]
        ck.obligation(f'translated source Gen/DefCallbacksSrc.v = the real DefTransformer.pins_opt / pins_stmt / comp_stmt on {len(cmeta)} distinct '
                      f'argument lists ({sum(ccount.values())} calls seen while lark parsed the generated files: {sorted(ccount.items())}; plus direct '
                      'calls incl. wrong shapes): value returned / entry stored (key, vars() in order); raises iff the implementation raises',
                      cran and not cbad and all(ccount.get(n, 0) > 0 for n in dcs.CALLBACKS), 'correspondence',
                      f'failing cases {[(cmeta[j][0], cmeta[j][1][:300]) if isinstance(j, int) else j for j in cbad[:4]]}')
        ck.dist.update({f'callback-source:{k}': v for k, v in ccount.items()})
        ck.dist['callback-source:calls with a text outside printable ASCII (no case)'] = sum(dcs.SEEN.values()) - sum(ccount.values())
    ck.obligation(f'Coq model of the ROW / TRACKS branch of design_stmt = implementation on {len(misc_cases)} statements',
                  ran and not bad['misc'], 'correspondence', f'failing statements {bad["misc"][:8]}')
    ck.obligation('every routing feature of the property\'s quantifier was generated (wildcards, double wildcards, ext values, vias plain / with '
                  'orientation / with DO-BY-STEP, NEW segments, via-only wires, 0 / 1 / several ROUTED statements, other wiring keywords)',
                  all(feat.get(f, 0) > 0 for f in ('wildcard', 'double-wildcard', 'ext-value', 'via-plain', 'via-orient', 'via-array', 'NEW-segments',
                                                   'via-only-wire', 'nets:routed-statements=0', 'nets:routed-statements=1', 'nets:routed-statements=2',
                                                   'specialnets:routed-statements=1', 'other-wiring-keyword')), 'coverage', str(sorted(feat.items())))
    ck.dist.update({'feature:' + k: v for k, v in feat.items()})
    ck.rule('DEF texts rendered from a structured ground truth (header, UNITS, DIEAREA, ROW, TRACKS, VIAS with options, COMPONENTS, PINS, SPECIALNETS, '
            'NETS with pins / USE / ROUTED|FIXED|COVER|NOSHIELD / NEW segments / wildcards / vias plain, oriented, DO-BY-STEP; noise sections; '
            'whitespace, comment and section-order variation): everything parse() returns is compared with the ground truth, which owns the resolved '
            'coordinates; plus DefNet objects built directly with negative / 30-digit coordinates; all listings compared with the Coq model; '
            'callback level: the recording DefTransformer on the same files (every callback: arguments received, value returned / entry stored; '
            'whole DefFile); text level: the rendered files, the same token lists with blanks removed / other ignored text, one unusual name or '
            'number, token- and character-level mutations, truncations, and the probes of harness/def_text.py, each compared with what lark does')
    ck.trust('modelled, not verified: lark\'s contextual lexer + LALR parser for def_file.GRAMMAR (Model/DefText.v: hand-written recursive descent with '
             'the accept set of the LALR state at every token; exact correspondence of accepted language and tree on every generated text, accept '
             'sets and scanners compared with lark\'s tables) and the DefTransformer callbacks (Model/DefElab.v; exact correspondence per callback and '
             'per file); domain: code points < 256',
             'DefWire.wire_points, DefWire.vias, DefNet.wires, DefNet.vias (Model/DefRoute.v): PROVED equal to the translated source '
             '(C20_route_source_is_model) and still compared by exact correspondence on every generated net; modelled, not verified: the '
             'accumulation of "+ ROUTED" statements and the ROW arithmetic (hand transcription of the repaired code; exact correspondence)',
             'domain of the theorems: first point of a routing statement fully specified (DEF requires it); ROW theorems need a non-negative '
             'step and one of the two counts = 1 (C20_row_negative_step_refuted shows max(dx, dy) is wrong otherwise)')
    order = ['parse-error', 'regular-net-wires', 'wildcard-wire-points', 'unrouted-net-listing', 'repeated-routed']
    for key in sorted(fails, key=lambda k: (order.index(k) if k in order else 99, k))[:8]:
        inp, msg = fails[key]
        ck.fail(key, 'def_file: ' + (WHAT.get(key, key) + ' -- ' if key in WHAT else '') + msg,
                {'component': 'kyupy.def_file', 'input': inp, 'actual': msg})
    if not fails and mbad:
        kk = sorted(mbad, key=lambda q: (q == 'coqc', q.startswith('table'), not q.startswith('text:corner'), q))[0]
        ck.fail('model-disagrees', f'Coq model and implementation disagree ({kk})', {'component': 'Model/DefElab.v / Model/DefText.v',
                'input': mbad[kk][0] if isinstance(mbad[kk][0], dict) else {}, 'where': kk + ' ' + str(mbad[kk][0])[:300]}, found_input=bool(mbad[kk][0]))
    if not fails and sbad:
        first = sbad[0] if isinstance(sbad[0], int) else None
        ck.fail('source-disagrees', 'translated source and implementation disagree', {'component': 'Gen/DefRouteSrc.v',
                'input': src_meta[first][0] if first is not None else {}, 'where': src_meta[first][1] if first is not None else str(sbad)[:500]},
                found_input=False)
    if not fails and cbad:
        first = cbad[0] if isinstance(cbad[0], int) else None
        ck.fail('callback-source-disagrees', 'translated callback source and implementation disagree', {'component': 'Gen/DefCallbacksSrc.v',
                'input': {}, 'where': (cmeta[first][0] + ': ' + cmeta[first][1][:400]) if first is not None else str(cbad)[:500]}, found_input=False)
    if not fails and any(bad.values()):
        first = bad['net'][0] if bad['net'] and isinstance(bad['net'][0], int) else None
        ck.fail('model-disagrees', 'Coq model and implementation disagree', {'component': 'Model/DefRoute.v',
                'input': meta[first][1] if first is not None else {}, 'where': meta[first][2] if first is not None else str(bad)[:500]}, found_input=False)


def replay(rp):
    inp = rp['input']
    if 'text' in inp:
        try:
            d = parse(inp['text'])
        except Exception:                                      # noqa
            return True
        return any(k == rp['key'] for k, _ in dg.check_file(inp['gt'], d)) or (rp['key'] not in WHAT and bool(dg.check_file(inp['gt'], d)))
    if 'direct_net' in inp:
        out = []
        try:
            dg.check_net('direct', inp['direct_net'], inp['special'], dg.build_net(inp['direct_net'], inp['special']), out)
        except Exception:                                      # noqa
            return True
        return bool(out)
    return True
