"""C15 -- logic-value encodings convert losslessly and follow the axis convention."""
import os
import random
from vcheck import gen_all, core
from harness import enc_corr as ec, circgen as cg, nd_corr as nc

THEOREMS = ['C15_bp_roundtrip', 'C15_bp_roundtrip_nd', 'C15_bp_roundtrip_vec', 'C15_mv_roundtrip', 'C15_bit_planes',
            'C15_axis_convention', 'C15_single_pattern', 'C15_characters_one_vector',
            'C15_render_parse', 'C15_alias_table', 'C15_str_roundtrip', 'C15_mv_str_roundtrip',
            'C15_unpackbits_testbit', 'C15_pack_unpack', 'C15_unpack_pack', 'C15_pack_extend',
            'C15_popcount_table', 'C15_popcount_spec',
            # any rank, on the shape-polymorphic array model (Model/NdArray.v, Model/MvWrappers.v)
            'C15_roundtrip_any_rank', 'C15_roundtrip_rank1', 'C15_roundtrip_get', 'C15_axis_convention_any_rank',
            'C15_axis_convention_rank1', 'C15_swapaxes_index', 'C15_conv_low_rank', 'C15_any_rank_example']


def _run_case(kind, d):
    """re-runs one generated input on the implementation: (coq cases, oracle message)"""
    if kind == 'strings':
        return ec.run_strings(d)
    if kind == 'mv_bp':
        return ec.run_mv_bp(None, tuple(d['shape']), d['data'], random.Random(d['layout_seed']) if d.get('layout_seed') is not None else None)
    if kind == 'bp_mv':
        return ec.run_bp_mv(tuple(d['shape']), d['data'])
    if kind == 'pack':
        return ec.run_pack(random.Random(d['extra_seed']), d['dtype'], tuple(d['shape']), d['vals'], d['width'], d['dtype_form'])
    if kind == 'unpack_pack':
        return ec.run_unpack_pack(None, d['dtype'], d['rows'])
    if kind == 'popcount':
        return ec.run_popcount(tuple(d['shape']), d['bits'], d.get('signed', False))
    if kind == 'mv_bp_big':
        return ec.run_mv_bp_big(tuple(d['shape']), d['seed'])
    if kind == 'popcount_big':
        return ec.run_popcount_big(tuple(d['shape']), d['seed'], d.get('signed', False))
    if kind == 'tables':
        r = ec.table_oracle()
        return [], (r[2] if r else None)
    raise ValueError(kind)


COMPONENT = {'strings': 'logic.interpret/mvarray/mv_str/bparray', 'mv_bp': 'logic.mv_to_bp/bp_to_mv', 'bp_mv': 'logic.bp_to_mv/mv_to_bp',
             'pack': 'logic.unpackbits/packbits', 'unpack_pack': 'logic.packbits/unpackbits', 'popcount': 'kyupy.popcount', 'popcount_big': 'kyupy.popcount', 'mv_bp_big': 'logic.mv_to_bp/bp_to_mv',
             'tables': 'logic constants / interpret / mv_str'}


def gen_inputs(ck, rng):
    """the input stream: (kind, json-able description)"""
    out = []
    n = ck.scale(1, 12)
    for _ in range(170 * n):
        c = ec.gen_args(rng)
        c['delim'] = rng.choice(['\n', '\n', '\n', ',', '', ' | '])
        out.append(('strings', c))
    for i in range(90 * n):
        edge = rng.random() < 0.2
        shape = ec.gen_shape(rng, edge=edge)
        data = ec.nested(rng, shape, (lambda: rng.randrange(8)) if i % 5 else (lambda: rng.choice((0, 3))))
        out.append(('mv_bp', {'shape': list(shape), 'data': data, 'layout_seed': rng.randrange(1 << 30)}))
    for _ in range(40 * n):
        edge = rng.random() < 0.15
        base = ec.gen_shape(rng, last=rng.choice([1, 1, 2, 3, 5]), edge=edge)
        planes = 3 if rng.random() < 0.8 else rng.choice([1, 2, 4, 8, 9])
        shape = tuple(base[:-1]) + (planes, base[-1]) if len(base) >= 2 else (base[0], planes, 1)
        data = ec.nested(rng, shape, lambda: rng.choice([0, 255, 1, 128]) if rng.random() < 0.2 else rng.randrange(256))
        out.append(('bp_mv', {'shape': list(shape), 'data': data}))
    for i in range(64 * n):
        name = ec.DTYPES[i % 8]
        lo, hi, bits = ec.dt_range(name)
        nd = rng.choice([0, 1, 1, 2, 3])
        shape = tuple(rng.choice([1, 2, 3, 4]) for _ in range(nd))
        if rng.random() < 0.08 and nd:
            shape = shape[:-1] + (0,)
        it = iter(ec.gen_ints(rng, name, max(1, int(__import__('math').prod(shape)))))
        vals = ec.nested(rng, shape, lambda: next(it))
        width = rng.choice([bits, bits, 0, 1, 2, 3, 7, 8, 9, bits - 1, bits + 1, bits + 5, rng.randrange(1, bits + 1)])
        out.append(('pack', {'dtype': name, 'shape': list(shape), 'vals': vals, 'width': width,
                             'dtype_form': rng.choice(['name', 'type', 'dtype']), 'extra_seed': rng.randrange(1 << 30)}))
    for i in range(16 * n):
        name = ec.DTYPES[i % 8]
        lo, hi, bits = ec.dt_range(name)
        rows = [[rng.randrange(2) for _ in range(bits)] for _ in range(rng.randint(1, 4))]
        if i < 8:
            rows += [[1] * bits, [0] * bits, [0] * (bits - 1) + [1], [1] * (bits - 1) + [0]]
        out.append(('unpack_pack', {'dtype': name, 'rows': rows}))
    for _ in range(25 * n):
        shape = ec.gen_shape(rng, edge=rng.random() < 0.2)
        shape = shape[-3:]
        bits = ec.nested(rng, tuple(shape) + (8,), lambda: rng.randrange(2))
        out.append(('popcount', {'shape': list(shape), 'bits': bits, 'signed': rng.random() < 0.4}))
    for shape in [(65536,), (65537,), (100000,), (400, 250), (3, 70000), (1 << 17,), ((1 << 17) + 1,), (2, 3, 40000)][:4 + 4 * min(n, 1)]:
        out.append(('popcount_big', {'shape': list(shape), 'seed': rng.randrange(1 << 30), 'signed': rng.random() < 0.3}))
    for shape in [(4200, 300), ((1 << 20) + 5,), (70001,), (3, 70001), (2, 5, 110000)][:3 + 2 * min(n, 1)]:
        out.append(('mv_bp_big', {'shape': list(shape), 'seed': rng.randrange(1 << 30)}))
    return out


def any_rank(ck):
    """mv_to_bp / bp_to_mv / mvarray / bparray and the numpy primitives they use, at ranks 0..5 (axes of length 0 and 1 included),
    against the shape-polymorphic Coq model; plus the round trip / bit-plane layout stated by multi-index on the implementation's results."""
    from kyupy import logic
    okc, log = core.coq_make(['theories/Model/NdCorr.vo'], timeout=600)
    if not okc:
        ck.obligation('build Model/NdCorr.vo', False, 'correspondence', core.coq_first_error(log))
        return
    rng = random.Random(ck.seed * 7919 + 1515)
    n = ck.scale(110, 1500)
    cases, owner, descs, fails = [], [], [], []
    for i in range(n):
        c, d, f = nc.conv_cases(rng, logic)
        descs.append(d)
        ck.count(1, f'any-rank:mv_to_bp:{len(d["shape"])}-D')
        ck.nontrivial(('any-rank', str(d['shape']), str(d['data'])[:40]))
        for x in c:
            cases.append(x)
            owner.append(i)
        for key, msg in f:
            fails.append((key, d, msg))
        extra = nc.bp_case(rng, logic) + nc.primitive_cases_c15(rng, logic) + (nc.args_cases(rng, logic) if i % 2 == 0 else [])
        for x in extra:
            cases.append(x)
            owner.append(None)
            ck.count(1, 'any-rank:' + x.split(' ', 1)[0])
    chunk = 150
    chunks = [cases[i:i + chunk] for i in range(0, len(cases), chunk)]
    outs = ck.coq_eval_many('nd', [nc.cases_file(ch) for ch in chunks], jobs=12)
    bad = [ci * chunk + j for ci, (okk, out) in enumerate(outs) for j in ((cg.parse_nat_list(out) if okk else None) or [])]
    ran = all(okk and cg.parse_nat_list(out) is not None for okk, out in outs)
    detail = ''
    if not ran:
        detail = next((core.coq_first_error(out) for okk, out in outs if not okk or cg.parse_nat_list(out) is None), '')
    elif bad:
        detail = 'model and implementation differ on: ' + ' ;; '.join(cases[b][:300] for b in bad[:4])
    ck.obligation(f'Coq model Model/NdArray.v + Model/MvWrappers.v = numpy / logic on {len(cases)} calls at ranks 0..5 (swapaxes, packbits axis -1 / -2, '
                  'unpackbits, logic.unpackbits / packbits, mv_to_bp, bp_to_mv, mvarray, bparray; results and exceptions)', ran and not bad,
                  'correspondence', detail)
    ck.rule('any rank: mv arrays of rank 0..5 with axes of length 0 / 1 and pattern counts 0..25, values < 8 (15% up to 255); random bit-parallel bytes with 0..9 planes; '
            'swapaxes / packbits / unpackbits on random arrays; mvarray / bparray on generated argument lists incl. nested groups (flat array model)')
    seen = set()
    for key, d, msg in fails:
        if key in seen:
            continue
        seen.add(key)
        ck.fail(key, f'logic.mv_to_bp/bp_to_mv: {msg}', {'component': 'logic.mv_to_bp/bp_to_mv', 'case_kind': 'any_rank', 'input': d, 'actual': msg})
    if not fails and bad:
        b = bad[0]
        d = descs[owner[b]] if owner[b] is not None else {'call': cases[b][:200]}
        ck.fail('model:any_rank', 'the implementation differs from the Coq array model (for which the any-rank C15 theorems are proved) on a generated input',
                {'component': 'logic (array model)', 'case_kind': 'any_rank', 'input': d, 'coq_case': cases[b][:6000],
                 'actual': 'implementation result differs from Model/MvWrappers.v', 'model_case': True})


def run(ck):
    res = gen_all.generate(['LogicTables'])
    ck.obligation('evaluate interpret / mv_str / _pop_count_lut and read the documented aliases -> Gen/LogicTables.v',
                  res['LogicTables'] is None, 'translation', res['LogicTables'] or '')
    ck.trust('translator translate/gen_logic_tables.py: evaluates the real interpret on all 256 one-character strings and the scalars, the real '
             'mv_str on the eight values, copies kyupy._pop_count_lut, and reads the ``...`` alias tokens of the constants\' docstrings with ast',
             'numpy packbits/unpackbits (bitorder=little, axis), pad (edge/constant), view on a little-endian host, swapaxes, choose, '
             'np.array(nested list) are modelled by small Coq functions (Model/Encodings.v); these models are assumptions, compared '
             'with the real calls on every generated input')
    ok, _ = ck.prove('C15', THEOREMS)
    okc, log = core.coq_make(['theories/Model/EncodingsCorr.vo'], timeout=600)
    if not okc:
        ck.obligation('build Model/EncodingsCorr.vo', False, 'correspondence', core.coq_first_error(log))
    rng = random.Random(ck.seed * 7919 + 15)
    fails = []
    # ---- finite part, complete on every run -------------------------------------------------------------
    t = ec.table_oracle()
    ck.count(8 + 260 + 7 + 8, 'tables (complete)')
    if t:
        fails.append(('tables', t[1], t[0], t[2]))
    # ---- generated inputs -------------------------------------------------------------------------------
    inputs = gen_inputs(ck, rng)
    coq_cases, owner = [], []
    for idx, (kind, d) in enumerate(inputs):
        try:
            coq, msg = _run_case(kind, d)
        except Exception as e:  # an implementation result the harness cannot even look at
            coq, msg = [], f'{type(e).__name__}: {e}'
        tag = kind if kind != 'strings' else f'strings:{d["kind"]}'
        if kind == 'mv_bp':
            tag += f':{len(d["shape"])}-D' + (':patterns%8!=0' if d['shape'][-1] % 8 else '')
        if kind == 'pack':
            tag += ':' + d['dtype']
        ck.count(1, tag)
        ck.nontrivial((kind, str(d.get('shape', '')), str(d.get('args', d.get('dtype', '')))[:60], str(d.get('data', d.get('vals', '')))[:40]))
        if idx % 37 == 0:
            ck.sample({'kind': kind, **{k: (v if len(str(v)) < 120 else str(v)[:120] + '...') for k, v in d.items() if k in ('args', 'shape', 'dtype', 'width', 'vals')}})
        if msg:
            fails.append((kind, d, kind, msg))
        for c in coq:
            coq_cases.append(c)
            owner.append(idx)
    chunk = 60
    chunks = [coq_cases[i:i + chunk] for i in range(0, len(coq_cases), chunk)]
    outs = ck.coq_eval_many('enc', [ec.cases_file(ch) for ch in chunks], jobs=12)
    bad = [ci * chunk + j for ci, (okk, out) in enumerate(outs) for j in ((cg.parse_nat_list(out) if okk else None) or [])]
    ran = all(okk and cg.parse_nat_list(out) is not None for okk, out in outs)
    detail = ''
    if not ran:
        detail = next((core.coq_first_error(out) for okk, out in outs if not okk or cg.parse_nat_list(out) is None), '')
    elif bad:
        detail = 'model and implementation differ on: ' + ' ;; '.join(coq_cases[b][:300] for b in bad[:4])
    ck.obligation(f'Coq model Model/Encodings.v = implementation on {len(coq_cases)} calls (interpret, mvarray, mv_str, bparray, mv_to_bp, '
                  f'bp_to_mv, result shapes, unpackbits, packbits, popcount) from {len(inputs)} generated inputs', ran and not bad,
                  'correspondence', detail)
    ck.rule('tables: all 256 one-character strings + scalars + the eight values, complete; generated: pattern sets (1..17 patterns x 0..13 signals; '
            'canonical / alias / junk / unicode characters; strings, lists, tuples, booleans, None, ints; nested groups -> 3-D/4-D; ragged), '
            'mv arrays 1-D..5-D with pattern counts 1..33 (mostly not multiples of 8), empty axes, C / Fortran / strided layouts; random bit-parallel '
            'bytes with 1..9 planes; all 8 integer dtypes x boundary and random values x 0-D..3-D x bit-axis lengths 0..width+5; popcount on 1-D..3-D uint8 and int8 arrays')
    try:   # documentation-only inconsistency: the numeric code quoted in a constant's docstring
        from translate import gen_logic_tables as glt
        from kyupy import logic as lg
        with open(os.path.join(core.REPO, 'src', 'kyupy', 'logic.py')) as f:
            docs = glt.doc_aliases(f.read())
        for name, (code, _, _) in docs.items():
            if code is not None and int(code, 2) != getattr(lg, name):
                ec.NOTES.add(f'docstring of logic.{name} quotes the code {code} but {name} = {getattr(lg, name):#05b} (documentation only)')
    except Exception:
        pass
    any_rank(ck)
    for note in sorted(ec.NOTES):
        ck.assumptions.append('outside the stated domain (observed, not counted as violation): ' + note)
    seen = set()
    for kind, d, key, msg in fails:
        if key in seen:
            continue
        seen.add(key)
        ck.fail(key, f'{COMPONENT[kind]}: {msg}', {'component': COMPONENT[kind], 'case_kind': kind, 'input': d, 'actual': msg})
    if not fails and bad:
        b = bad[0]
        kind, d = inputs[owner[b]]
        ck.fail('model:' + kind, f'{COMPONENT[kind]}: the implementation differs from the Coq model (for which the C15 theorems are proved) on a generated input',
                {'component': COMPONENT[kind], 'case_kind': kind, 'input': d, 'coq_case': coq_cases[b][:3000], 'actual': 'implementation result differs from Model/Encodings.v',
                 'model_case': True})


def replay_any_rank(rp):
    import numpy as np
    from kyupy import logic
    if rp.get('model_case'):
        if len(rp.get('coq_case', '')) >= 6000:
            return True
        ck = core.Check('C15', 'quick', 0)
        okk, out = ck.coq_eval('replay', nc.cases_file([rp['coq_case']]))
        r = cg.parse_nat_list(out) if okk else None
        return r is None or bool(r)
    d = rp['input']
    x = np.array(d['data'], dtype=np.uint8).reshape(d['shape'])
    try:
        bp = logic.mv_to_bp(x)
        back = logic.bp_to_mv(bp)
    except Exception:
        return len(d['shape']) >= 1
    xs = tuple(d['shape']) if len(d['shape']) >= 2 else (d['shape'][0], 1)
    p = xs[-1]
    nb = -(-p // 8)
    if tuple(bp.shape) != xs[:-1] + (3, nb) or tuple(back.shape) != xs[:-1] + (8 * nb,):
        return True
    want = np.zeros(xs[:-1] + (8 * nb,), dtype=np.uint8)
    want[..., :p] = x.reshape(xs) & 7
    if not np.array_equal(back, want):
        return True
    for k in range(3):
        for j in range(8 * nb):
            if not np.array_equal((bp[..., k, j // 8] >> (j % 8)) & 1, (want[..., j] >> k) & 1):
                return True
    return False


def replay(rp):
    kind, d = rp['case_kind'], rp['input']
    if kind == 'any_rank':
        return replay_any_rank(rp)
    if kind == 'tables':
        return ec.table_oracle() is not None
    try:
        coq, msg = _run_case(kind, d)
    except Exception:
        return True
    if msg:
        return True
    if rp.get('model_case'):
        ck = core.Check('C15', 'quick', 0)
        okk, out = ck.coq_eval('replay', ec.cases_file(coq))
        r = cg.parse_nat_list(out) if okk else None
        return r is None or bool(r)
    return False
