"""C17 -- graph traversals and name lookups are complete and correctly ordered."""
import random
import re
import numpy as np
from harness import circgen as cg, oracle_net as on, traversals_src as ts

THEOREMS = ['C17_topo_nodup', 'C17_sources_first', 'C17_drivers_first', 'C17_complete', 'C17_levels', 'C17_levels_domain',
            'C17_line_order', 'C17_reverse_is_mirror', 'C17_reverse_complete', 'C17_readers_first', 'C17_locs_numeric_order',
            'C17_fanin_order', 'C17_fanin_nodup', 'C17_fanin_sound', 'C17_fanin_complete_comb', 'C17_fanin_exact_comb',
            'C17_fanin_unfold', 'C17_fanin_comb_node', 'C17_fanin_seq_node', 'C17_acyclic_rev_b_sound']
THEOREMS += ['C17_traversals_source_is_model', 'C17_s_nodes_source_is_model', 'C17_line_order_source_relative', 'C17_source_complete',
             'C17_source_reverse_is_mirror', 'C17_traversals_source_hypotheses_needed', 'C17_traversals_source_nonvacuous']
HEADER = '''From Coq Require Import List NArith ZArith Bool Arith String.
From KV Require Import Model.Netlist Model.Locs Model.Corr Proofs.WfCheck Proofs.FaninProofs.
Import ListNotations.
Local Open Scope list_scope.
Local Open Scope string_scope.
'''


def traversal_oracle(c, origins):
    """graph-theoretic checks on what the implementation yields"""
    n = len(c.nodes)
    topo = [x.index for x in c.topological_order()]
    if sorted(topo) != list(range(n)):
        missing = sorted(set(range(n)) - set(topo))
        return f'topological_order yields {len(topo)} of {n} nodes (missing {missing[:5]}, duplicates {len(topo) - len(set(topo))})'
    pos = {x: i for i, x in enumerate(topo)}
    src = lambda nd: all(l is None for l in nd.ins) or on.is_seq(nd)
    first_nonsrc = min([pos[x.index] for x in c.nodes if not src(x)], default=n)
    if any(pos[x.index] > first_nonsrc for x in c.nodes if src(x)):
        return 'inputs / state elements are not yielded first'
    for nd in c.nodes:
        if not src(nd):
            for l in nd.ins:
                if l is not None and pos[l.driver.index] >= pos[nd.index]:
                    return f'node {nd.index} is yielded before its driver {l.driver.index}'
    lv = {}
    for nd, l in c.topological_order_with_level():
        lv[nd.index] = int(l)
    for nd in c.nodes:
        exp = 0 if src(nd) else 1 + max(lv[l.driver.index] for l in nd.ins if l is not None)
        if lv.get(nd.index) != exp:
            return f'level of node {nd.index} is {lv.get(nd.index)}, longest combinational distance from a source is {exp}'
    lo = [l.index for l in c.topological_line_order()]
    if sorted(lo) != list(range(len(c.lines))):
        return 'topological_line_order does not cover every line exactly once'
    rt = [x.index for x in c.reversed_topological_order()]
    if sorted(rt) != list(range(n)):
        return f'reversed_topological_order yields {len(rt)} of {n} nodes'
    rpos = {x: i for i, x in enumerate(rt)}
    for nd in c.nodes:
        if not (all(l is None for l in nd.outs) or on.is_seq(nd)):
            for l in nd.outs:
                if l is not None and rpos[l.reader.index] >= rpos[nd.index]:
                    return f'reverse order: node {nd.index} before its reader {l.reader.index}'
    # fan-in: every node with a combinational path to an origin; no node without any path
    fi = [x.index for x in c.fanin([c.nodes[o] for o in origins])]
    comb, anyp = set(origins), set(origins)
    changed = True
    while changed:
        changed = False
        for l in c.lines:
            d, r = l.driver.index, l.reader.index
            if r in anyp and d not in anyp:
                anyp.add(d); changed = True
            if r in comb and d not in comb and (r in origins or not on.is_seq(c.nodes[r])) and not on.is_seq(c.nodes[d]):
                comb.add(d); changed = True
    if not comb <= set(fi):
        return f'fanin misses nodes with a combinational path to an origin: {sorted(comb - set(fi))[:5]}'
    if not set(fi) <= anyp:
        return f'fanin yields nodes without any path to an origin: {sorted(set(fi) - anyp)[:5]}'
    if len(fi) != len(set(fi)):
        return 'fanin yields a node twice'
    if not any(on.is_seq(x) for x in c.nodes) and set(fi) != anyp:
        return 'fanin is not exactly the transitive fan-in in a combinational circuit'
    if [x for x in rt if x in set(fi)] != fi:
        return 'fanin is not in reversed topological order'
    return None


# ---- prefix lookups ---------------------------------------------------------------------------------
def gen_names(rng):
    """a naming scheme with ground truth: {prefix: expected result}"""
    style = rng.choice(['bracket', 'underscore', 'bracket2d', 'mixed'])
    names, expect = [], {}
    buses = rng.randint(1, 3)
    bases = rng.sample(['data', 'addr', 'q', 'state', 'cnt', 'din'], buses)
    for b in bases:
        if style == 'bracket2d':
            rows = sorted(rng.sample(range(0, 4), rng.randint(2, 3)))
            cols = sorted(rng.sample(range(0, 13), rng.randint(2, 4)))
            for r in rows:
                for col in cols:
                    names.append((f'{b}[{r}][{col}]', (b, r, col)))
        else:
            idxs = sorted(rng.sample(range(0, 40), rng.randint(1, 12)))
            for i in idxs:
                nm = f'{b}[{i}]' if style == 'bracket' or (style == 'mixed' and rng.random() < 0.5) else f'{b}_{i}'
                names.append((nm, (b, i)))
    singles = rng.sample(['clk', 'rst', 'en', 'sel'], rng.randint(0, 2))
    for s in singles:
        names.append((s, (s,)))
    rng.shuffle(names)
    return names, bases, singles, style


def expected_locs(names, prefix):
    """positions of the names starting with prefix, nested by key path, LSB..MSB by numeric index, outer keys alphabetical"""
    tree = {}
    for pos, (nm, path) in enumerate(names):
        if not nm.startswith(prefix):
            continue
        d = tree
        for k in path[:-1]:
            d = d.setdefault(k, {})
        d[path[-1]] = pos

    def sv(d):
        return [sv(v) for k, v in sorted(d.items())] if isinstance(d, dict) else d
    l = sv(tree)
    while isinstance(l, list) and len(l) == 1:
        l = l[0]
    return None if isinstance(l, list) and len(l) == 0 else l


def coq_res(r):
    if r is None:
        return 'Some None'
    def f(x):
        return f'RLeaf {x}' if isinstance(x, int) else 'RList [' + '; '.join(f(y) for y in x) + ']'
    return f'Some (Some ({f(r)}))'


LOCS_CASES = []


def locs_check(rng):
    from kyupy.circuit import Circuit, Node
    names, bases, singles, style = gen_names(rng)
    c = Circuit()
    n_io = rng.randint(0, len(names))
    for i, (nm, _) in enumerate(names):
        kind = 'input' if i < n_io else 'DFF'
        nd = Node(c, nm, kind)
        if i < n_io:
            c.io_nodes.append(nd)
    desc = {'names': [nm for nm, _ in names], 'n_io': n_io, 'style': style}
    for prefix in bases + singles + ([bases[0][:2]] if bases else []):
        exp = expected_locs(names, prefix)
        try:
            got = c.s_locs(prefix)
        except Exception as e:
            return desc, f's_locs({prefix!r}) raises {type(e).__name__}: {e}'
        if got != exp:
            return dict(desc, prefix=prefix), f's_locs({prefix!r}) = {got}, expected {exp} (LSB to MSB by numeric index, nested per dimension)'
        if len(LOCS_CASES) < 400:
            snames = [n.name for n in c.s_nodes]
            LOCS_CASES.append(f'locs_case "{prefix}" [' + '; '.join(f'"{x}"' for x in snames) + f'] ({coq_res(got)})')
        exp_io = expected_locs(names[:n_io], prefix)
        if c.io_locs(prefix) != exp_io:
            return dict(desc, prefix=prefix), f'io_locs({prefix!r}) = {c.io_locs(prefix)}, expected {exp_io}'
    return desc, None


def direct_state_circuit(rng):
    """Directed shape: state elements and gates wired DIRECTLY (no fork in between) to sources, to each other and in chains, nodes
    created in a random order -- the traversals see sources that are already numbered / levelled when a latch or flip-flop is visited."""
    from kyupy.circuit import Circuit, Node, Line
    c = Circuit('direct')
    plan = [('pi%d' % i, 'input') for i in range(rng.randint(1, 3))]
    plan += [('la%d' % i, rng.choice(['LATCH', 'latchx1', 'DLATCH'])) for i in range(rng.randint(1, 3))]
    plan += [('ff%d' % i, rng.choice(['DFF', 'sdffx1'])) for i in range(rng.randint(0, 2))]
    plan += [('g%d' % i, rng.choice(['AND2', 'OR2', 'INV1', 'BUF1', 'XOR2'])) for i in range(rng.randint(0, 3))]
    plan += [('po%d' % i, 'output') for i in range(rng.randint(1, 2))]
    rng.shuffle(plan)
    nodes = {nm: Node(c, nm, kd) for nm, kd in plan}
    for nm, kd in plan:
        if kd in ('input', 'output'):
            c.io_nodes.append(nodes[nm])
    drivers = [n for n in nodes.values() if n.kind != 'output']
    for n in nodes.values():
        if n.kind == 'input':
            continue
        npins = 2 if n.kind in ('AND2', 'OR2', 'XOR2') else 1
        for p in range(npins):
            cand = [d for d in drivers if d is not n and (d.kind == 'input' or 'latch' in d.kind.lower() or 'dff' in d.kind.lower()
                                                             or (d.name.startswith('g') and n.name.startswith('g') and d.name < n.name)
                                                             or (d.name.startswith('g') and not n.name.startswith('g')))]
            if cand and rng.random() < 0.9:
                d = rng.choice(cand)
                # one output pin per driver may feed several readers only through a fork: use a fresh output pin each time
                Line(c, (d, len(d.outs)) if d.kind != 'input' and 'dff' not in d.kind.lower() else d, (n, p)) if len(d.outs) == 0 else \
                    Line(c, (d, len(d.outs)), (n, p))
    return c, None


def gap_circuit(rng):
    """Directed shape: a combinational DAG of multi-output cells (unresolved library cells such as half / full adders) whose OUTPUT pin
    lists have gaps -- outs[0] unconnected while a higher pin is wired -- and whose input pins may be left open as well; every net goes
    through a fork.  Purely combinational, so fanin must be exactly the transitive fan-in."""
    from kyupy.circuit import Circuit, Node, Line
    c = Circuit('gap')
    nets = []
    for i in range(rng.randint(2, 4)):
        pi = Node(c, f'i{i}', 'input'); c.io_nodes.append(pi)
        f = Node(c, f'i{i}', '__fork__'); Line(c, pi, f); nets.append(f)
    for g in range(rng.randint(3, 9)):
        cell = Node(c, f'u{g}', rng.choice(['HAX1', 'FAX1', 'ADDHX1', 'CELL3']))
        for p in sorted(rng.sample([0, 1, 2], rng.randint(1, 3))):
            Line(c, rng.choice(nets), (cell, p))
        for q in sorted(rng.sample([0, 1, 2], rng.choice([1, 1, 2]))):
            f = Node(c, f'n{g}_{q}', '__fork__'); Line(c, (cell, q), f); nets.append(f)
    for i, f in enumerate(rng.sample(nets, min(len(nets), rng.randint(1, 3)))):
        po = Node(c, f'o{i}', 'output'); c.io_nodes.append(po); Line(c, f, po)
    return c, None


def wide_circuit(rng):
    """Directed shape: ONE net with several hundred readers (a clock / reset / enable stem) -- counters of seen lines per node must not
    be narrower than the fan-out."""
    from kyupy.circuit import Circuit, Node, Line
    c = Circuit('wide')
    n = rng.choice([255, 256, 257, 300, 513])
    a = Node(c, 'a', 'input'); c.io_nodes.append(a)
    g = Node(c, 'g', 'BUF1'); Line(c, a, g)
    f = Node(c, 'f', '__fork__'); Line(c, g, f)
    for i in range(n):
        b = Node(c, f'b{i}', rng.choice(['BUF1', 'INV1']))
        Line(c, f, b)
        if i % 64 == 0:
            o = Node(c, f'o{i}', 'output'); c.io_nodes.append(o); Line(c, b, o)
    return c, None


def traverse_then_edit(rng, c, op=None):
    """A circuit object is traversed, EDITED, and traversed again: everything is queried once (results dropped), then one line is added
    without changing the node count (from a fork to a free input pin of a node of a higher level, so the graph stays acyclic) or one
    line is removed; the checks that follow see the edited circuit.  Returns a description of the edit or None."""
    from kyupy.circuit import Line
    for it in (c.topological_order(), c.topological_order_with_level(), c.topological_line_order(), c.reversed_topological_order(),
               c.fanin([n for n in c.nodes if len(n.outs) == 0][:2] or c.nodes[:1])):
        for _ in it:
            pass
    lvl = {n.index: int(l) for n, l in c.topological_order_with_level()}
    cands = []
    for f in c.nodes:
        if f.kind != '__fork__':
            continue
        for g in c.nodes:
            if g is f or g.kind in ('input', '__fork__') or on.is_seq(g) or lvl[g.index] <= lvl[f.index]:
                continue
            pins = [p for p in range(min(4, len(g.ins) + 1)) if p >= len(g.ins) or g.ins[p] is None]
            if g.kind == 'output':
                pins = [p for p in pins if p == 0]
            if pins:
                cands.append((f, g, pins[0]))
    if op is None:
        if cands and rng.random() < 0.8:
            f, g, p = rng.choice(cands)
            op = ['add', f.index, g.index, p]
        elif len(c.lines) > 1:
            op = ['rm', rng.choice(list(c.lines)).index]
        else:
            return None, None
    if op[0] == 'add':
        Line(c, c.nodes[op[1]], (c.nodes[op[2]], op[3]))
        return f'line added from fork {op[1]} to pin {op[3]} of node {op[2]} after a first round of traversals', op
    l = c.lines[op[1]]
    what = f'line {l.index} ({l.driver.index} -> {l.reader.index}) removed after a first round of traversals'
    l.remove()
    return what, op


def run(ck):
    # translation (tie T): Gen/TraversalsSrc.v is regenerated from the current text of the traversal generators; C17_traversals_source_is_model
    # then re-proves that the translated functions are the hand models all C17 theorems are stated on
    ok_src = ts.translate_traversals(ck)
    proved, _ = ck.prove('C17', THEOREMS)
    if not proved and ok_src:
        from vcheck import core
        core.coq_make(['theories/Gen/TraversalsSrc.vo'] + core.support_targets())   # the translated source must exist for its correspondence
    rng = random.Random(ck.seed * 7919 + 17)
    fails, cases, meta, src_cases = [], [], [], []
    for i in range(ck.scale(120, 3000)):
        c, a = wide_circuit(rng) if i in (7, 57) else direct_state_circuit(rng) if i % 5 == 4 else gap_circuit(rng) if i % 5 == 2 else cg.gen_circuit(rng)
        edit, pre, eop = None, None, None
        if i % 4 == 3:
            pre = cg.describe(c)
            try:
                edit, eop = traverse_then_edit(rng, c)
            except Exception as e:
                fails.append(('traversal', {'circuit': cg.describe(c)}, f'traversal / edit raises {type(e).__name__}: {e}'))
                continue
            ck.count(int(edit is not None), 'traversed, edited, traversed again')
        k = rng.randint(1, 3)
        origins = sorted(rng.sample(range(len(c.nodes)), min(k, len(c.nodes))))
        desc = {'circuit': cg.describe(c), 'origins': origins}
        if edit:
            desc.update({'history': edit, 'circuit_before_edit': pre, 'edit_op': eop})
        ck.count(1, 'traversal')
        ck.nontrivial(('t', len(c.nodes), len(c.lines), tuple(origins)))
        try:
            what = traversal_oracle(c, origins)
        except Exception as e:
            what = f'traversal raises {type(e).__name__}: {e}'
        if what:
            fails.append(('traversal', desc, what))
            continue
        exp = ([x.index for x in c.topological_order()], [(n.index, int(l)) for n, l in c.topological_order_with_level()],
               [l.index for l in c.topological_line_order()], [x.index for x in c.reversed_topological_order()],
               [x.index for x in c.fanin([c.nodes[o] for o in origins])])
        cases.append(f'wf_netlist_b {cg.coq_netlist(c)} && acyclic_b {cg.coq_netlist(c)} && acyclic_rev_b {cg.coq_netlist(c)} && trav_case {cg.coq_netlist(c)} {cg.coq_list(origins)} ({cg.coq_list(exp[0])}, '
                     f'{cg.coq_list(exp[1], lambda p: f"({p[0]}, {p[1]})")}, {cg.coq_list(exp[2])}, {cg.coq_list(exp[3])}, {cg.coq_list(exp[4])})')
        meta.append(desc)
        src_cases.append(ts.coq_src_case(c, origins, exp, [x.index for x in c.s_nodes]))
        if i < 2:
            ck.sample({'nodes': len(c.nodes), 'origins': origins, 'topological_order': exp[0][:12]})
    chunks = [cases[i:i + 60] for i in range(0, len(cases), 60)]
    outs = ck.coq_eval_many('trav', [HEADER + 'Definition results : list bool := [\n ' + ';\n '.join(ch) + '].\nEval vm_compute in (failing results).\n'
                                     for ch in chunks], jobs=12)
    bad = [ci * 60 + j for ci, (ok, out) in enumerate(outs) for j in ((cg.parse_nat_list(out) if ok else None) or [])]
    ran = all(ok and cg.parse_nat_list(out) is not None for ok, out in outs)
    ck.obligation(f'Coq model of topological_order / _with_level / line order / reversed order / fanin = implementation on {len(cases)} '
                  'circuits (exact sequences); the hypotheses wf_netlist / comb_acyclic / comb_acyclic_rev of the theorems are discharged for each circuit by the proved-sound checkers wf_netlist_b / acyclic_b / acyclic_rev_b', ran and not bad, 'correspondence', f'failing cases {bad[:8]}')
    sbad = []
    if ok_src:
        chunks = [src_cases[i:i + 60] for i in range(0, len(src_cases), 60)]
        outs = ck.coq_eval_many('travsrc', [ts.cases_file(ch) for ch in chunks], jobs=12)
        sbad = [ci * 60 + j for ci, (ok, out) in enumerate(outs) for j in ((cg.parse_nat_list(out) if ok else None) or [])]
        sran = all(ok and cg.parse_nat_list(out) is not None for ok, out in outs)
        from vcheck import core
        ck.obligation(f'translated source Gen/TraversalsSrc.v (s_nodes, topological_order, _with_level, line order, reversed order, fanin; fuel = '
                      f'nodes + 1) = implementation on {len(src_cases)} circuits (exact sequences)', sran and not sbad, 'correspondence',
                      f'failing cases {sbad[:8]}' if sran else core.coq_first_error(outs[0][1] if outs else ''))
    for i in range(ck.scale(150, 4000)):
        desc, what = locs_check(rng)
        ck.count(1, 'locs:' + desc['style'])
        ck.nontrivial(('n', tuple(desc['names'][:6])))
        if what:
            fails.append(('locs', desc, what))
    del LOCS_CASES[ck.scale(150, 400):]
    chunks = [LOCS_CASES[i:i + 80] for i in range(0, len(LOCS_CASES), 80)]
    outs = ck.coq_eval_many('locs', [HEADER + 'Definition results : list bool := [\n ' + ';\n '.join(ch) + '].\nEval vm_compute in (failing results).\n'
                                     for ch in chunks], jobs=12)
    lbad = [ci * 80 + j for ci, (ok, out) in enumerate(outs) for j in ((cg.parse_nat_list(out) if ok else None) or [])]
    lran = all(ok and cg.parse_nat_list(out) is not None for ok, out in outs)
    ck.obligation(f'Coq model of Circuit._locs (name matching, integer splitting, nested dictionary, sorted flattening) = s_locs on '
                  f'{len(LOCS_CASES)} lookups', lran and not lbad, 'correspondence', f'failing lookups {lbad[:8]}')
    ck.rule('random circuits (unconnected pins, state elements, dangling nodes) x random origin sets: exact sequences vs the Coq model + '
            'graph-theoretic oracle; naming schemes (bracket / underscore / 2-D / mixed, gaps, shared prefixes) vs ground-truth positions')
    ck.trust('hand models of Circuit.topological_order, topological_order_with_level, topological_line_order, '
             'reversed_topological_order, fanin, s_nodes (Model/Netlist.v): since round 3 PROVED equal to the translated source '
             '(C17_traversals_source_is_model) and still compared by exact sequence correspondence; wf_netlist is what C09 establishes for '
             'every Circuit; the prefix lookup _locs is transcribed for literal prefixes (Model/Locs.v: the regular expression is '
             'modelled as literal prefix + maximal trailing index run) and compared exactly; the fan-in sandwich (comb. path => yielded => path) is '
             'a theorem about the model of fanin (C17_fanin_sound / _complete_comb / _unfold) and is re-checked on the implementation by the oracle')
    for kind, desc, what in fails[:5]:
        ck.fail(kind, ('Circuit traversal: ' if kind == 'traversal' else 'Circuit._locs: ') + what,
                {'component': 'circuit.Circuit', 'input': desc, 'actual': what})
    if not fails and sbad and not bad:
        ck.fail('source-disagrees', 'translated source and implementation disagree', {'component': 'Gen/TraversalsSrc.v', 'input': meta[sbad[0]]}, found_input=False)
    if not fails and bad:
        ck.fail('model-disagrees', 'Coq model and implementation disagree', {'component': 'Model/Netlist.v', 'input': meta[bad[0]]}, found_input=False)


def replay(rp):
    inp = rp['input']
    if 'circuit' in inp:
        try:
            if inp.get('edit_op'):
                c = cg.from_description(inp['circuit_before_edit'])
                traverse_then_edit(random.Random(0), c, inp['edit_op'])
            else:
                c = cg.from_description(inp['circuit'])
            return traversal_oracle(c, inp['origins']) is not None
        except Exception:
            return True
    return True
