"""C19 -- built-in library cells have consistent pins and datasheet Boolean functions."""
import io
import os
import re
import contextlib
import itertools
import numpy as np

from vcheck import gen_all, core
from harness import oracle_net as on

THEOREMS = ['C19_pins_once', 'C19_names_unique', 'C19_cell_function',
            # from the library TEXT (Model/TechLibText.v, Gen/TechLibTexts.v)
            'C19_text_matches_translation', 'C19_expand_names_product', 'C19_expand_names_order', 'C19_names_distinct_alternatives',
            'C19_tuples_distinct_iff', 'C19_alternatives_distinct_names', 'C19_alternatives_distinct_names_prefix_free',
            'C19_names_collision_witness']


# ---- independent datasheet oracle (python twin of Model/TechlibSpec.v) --------------------------------
def family_of(lib, name):
    def digits(s):
        m = re.match(r'\d+', s)
        return [int(ch) for ch in m.group(0)] if m else []
    rules = [('AOBUF', lambda r: ('buf',)), ('AOINV', lambda r: ('inv',)),
             ('NAND', lambda r: ('nand', digits(r)[0]) if digits(r) else None), ('NOR', lambda r: ('nor', digits(r)[0]) if digits(r) else None),
             ('AND', lambda r: ('and', digits(r)[0]) if digits(r) else None), ('XNOR', lambda r: ('xnor', digits(r)[0]) if digits(r) else None),
             ('XOR', lambda r: ('xor', digits(r)[0]) if digits(r) else None), ('OR', lambda r: ('or', digits(r)[0]) if digits(r) else None),
             ('AOI', lambda r: ('ao', True, True, digits(r)) if len(digits(r)) > 1 else None),
             ('OAI', lambda r: ('ao', True, False, digits(r)) if len(digits(r)) > 1 else None),
             ('AO', lambda r: ('ao', False, True, digits(r)) if len(digits(r)) > 1 else None),
             ('OA', lambda r: ('ao', False, False, digits(r)) if len(digits(r)) > 1 else None),
             ('CLKBUF', lambda r: ('buf',)), ('NBUFF', lambda r: ('buf',)), ('DELLN', lambda r: ('buf',)), ('BUF', lambda r: ('buf',)),
             ('IBUFF', lambda r: ('inv',)), ('INV', lambda r: ('inv',)),
             ('MUX41', lambda r: ('mux4',)), ('MUX21', lambda r: ('mux2',)), ('MUX2', lambda r: ('mux2',)), ('MX2', lambda r: ('mux2',)),
             ('ADDH', lambda r: ('ha',)), ('HADD', lambda r: ('ha',)), ('HA_', lambda r: ('ha',)),
             ('ADDF', lambda r: ('fa',)), ('FADD', lambda r: ('fa',)), ('FA_', lambda r: ('fa',))]
    for pre, k in rules:
        if name.startswith(pre):
            return k(name[len(pre):])
    return None


def family_fn(lib, fam, row, out):
    k = fam[0]
    if k == 'buf': return row[0]
    if k == 'inv': return 1 - row[0]
    if k in ('and', 'nand', 'or', 'nor', 'xor', 'xnor'):
        if len(row) != fam[1]: return None
        v = {'and': all(row), 'nand': all(row), 'or': any(row), 'nor': any(row), 'xor': sum(row) & 1, 'xnor': sum(row) & 1}[k]
        return int(v) ^ (1 if k in ('nand', 'nor', 'xnor') else 0)
    if k == 'ao':
        _, inv, ao, groups = fam
        if sum(groups) != len(row): return None
        g = sorted(groups) if lib.startswith('NANGATE') else groups
        parts, p = [], 0
        for n in g:
            parts.append(row[p:p + n]); p += n
        v = any(all(x) for x in parts) if ao else all(any(x) for x in parts)
        return int(v) ^ int(inv)
    if k == 'mux2': return row[1] if row[2] else row[0]
    if k == 'mux4': return (row[3] if row[4] else row[2]) if row[5] else (row[1] if row[4] else row[0])
    if k == 'ha':
        return (row[0] ^ row[1]) if out in ('S', 'SO') else ((row[0] & row[1]) if out in ('CO', 'C1') else None)
    if k == 'fa':
        return (row[0] ^ row[1] ^ row[2]) if out == 'S' else (int(row[0] + row[1] + row[2] >= 2) if out == 'CO' else None)
    return None


def truth_table(circ):
    """LogicSim(m=2) truth table of an implementation circuit: {output pin name: tuple of bits per input row}"""
    from kyupy import logic, logic_sim
    ins = [n for n in circ.io_nodes if len(n.ins) == 0]
    outs = [n for n in circ.io_nodes if len(n.ins) > 0]
    rows = list(itertools.product((0, 1), repeat=len(ins)))
    if not rows or not outs:
        return ins, outs, {}
    with contextlib.redirect_stdout(io.StringIO()):
        s = logic_sim.LogicSim(circ, sims=len(rows), m=2)
    stim = np.zeros((len(circ.s_nodes), len(rows)), dtype=np.uint8)
    pos = {n.name: i for i, n in enumerate(circ.s_nodes)}
    for r, row in enumerate(rows):
        for n, v in zip(ins, row):
            stim[pos[n.name], r] = 3 * v
    s.s[0] = logic.mv_to_bp(stim)
    s.s_to_c(); s.c_prop(); s.c_to_s()
    res = logic.bp_to_mv(s.s[1])[:, :len(rows)]
    return ins, outs, {o.name: tuple(int(x == 3) for x in res[pos[o.name]]) for o in outs}


def run(ck):
    from translate import gen_techlibs
    from kyupy import techlib
    res = gen_all.generate(['SimTables', 'TechLibs', 'TechLibTexts'])
    ck.obligation('translate techlib.py library strings -> Gen/TechLibs.v', res['TechLibs'] is None, 'translation', res['TechLibs'] or '')
    ck.obligation('emit the five library source strings verbatim -> Gen/TechLibTexts.v', res['TechLibTexts'] is None, 'translation', res['TechLibTexts'] or '')
    ck.obligation('translate sim.py LUTs -> Gen/SimTables.v', res['SimTables'] is None, 'translation', res['SimTables'] or '')
    ck.trust('translator translate/gen_techlibs.py: ast extraction of the five library strings (evaluation of `+` and .replace) and their '
             'emission as Coq string literals.  Its re-implementation of TechLib.__init__ (split, brace products, bench mini-grammar) that '
             'produces Gen/TechLibs.v is no longer trusted: theorem C19_text_matches_translation proves that the Coq transcription of '
             'TechLib.__init__ + bench.GRAMMAR (Model/TechLibText.v, Model/BenchText.v) computes exactly Gen/TechLibs.v from the emitted strings',
             'modelled, not verified: TechLib.__init__ text processing (Model/TechLibText.v) -- exact correspondence with TechLib(text).cells on '
             'generated library texts and on the five built-in libraries on every run',
             'Model/TechlibSpec.v (what a family name denotes, per library pin-grouping convention) is the specification and is trusted')
    ck.prove('C19', THEOREMS)
    fails = []
    corr_ok = True
    parsed = None
    try:
        parsed = gen_techlibs.generate(os.path.join(core.REPO, 'src', 'kyupy', 'techlib.py'))[1]
    except Exception as e:
        corr_ok = False
    n_cells = 0
    for lib in gen_techlibs.LIBS:
        tl = getattr(techlib, lib)
        mine = {}
        if parsed:
            for pattern, names, ins, outs, gates in parsed[lib]:
                for n in names:
                    mine[n] = (ins, outs, gates)
            if set(mine) != set(tl.cells):
                corr_ok = False
                fails.append((lib, sorted(set(mine) ^ set(tl.cells))[0], 'cell name expands differently in translator and TechLib'))
        seen_circ = {}
        for name, (circ, pin_dict) in tl.cells.items():
            n_cells += 1
            ck.count(1, lib)
            key = id(circ)
            if key not in seen_circ:
                try:
                    seen_circ[key] = truth_table(circ)
                except Exception as e:
                    seen_circ[key] = e
                ck.nontrivial((lib, circ.name))
            tt = seen_circ[key]
            if isinstance(tt, Exception):
                fails.append((lib, name, f'implementation circuit does not simulate: {type(tt).__name__}: {tt}'))
                continue
            ins, outs, table = tt
            # pin numbering: inputs and outputs 0..n-1 in declaration order, each once, agreeing with the implementation
            exp_pins = {n.name: (i, False) for i, n in enumerate(ins)}
            exp_pins.update({n.name: (i, True) for i, n in enumerate(outs)})
            if pin_dict != exp_pins or len(exp_pins) != len(ins) + len(outs):
                fails.append((lib, name, f'pin table {pin_dict} is not 0..n-1 in declaration order of the implementation {exp_pins}'))
            if parsed and name in mine:
                mi, mo_, _ = mine[name]
                if [n.name for n in ins] != mi or [n.name for n in outs] != mo_:
                    corr_ok = False
                    fails.append((lib, name, 'translator and TechLib disagree on the pin lists'))
            seq = any(on.is_seq(n) for n in circ.nodes)
            fam = family_of(lib, name)
            if seq or fam is None or not outs:
                continue
            rows = list(itertools.product((0, 1), repeat=len(ins)))
            for o in outs:
                exp = tuple(family_fn(lib, fam, list(r), o.name) for r in rows)
                if None in exp:
                    fails.append((lib, name, f'pin {o.name} / arity {len(ins)} does not fit the family {fam}'))
                elif exp != table[o.name]:
                    r = next(i for i in range(len(rows)) if exp[i] != table[o.name][i])
                    fails.append((lib, name, f'output {o.name} for inputs {dict(zip([n.name for n in ins], rows[r]))} is {table[o.name][r]}, '
                                              f'the datasheet function of the family gives {exp[r]}'))
                    break
    ck.obligation('translator output agrees with TechLib.cells (names, pin lists) for all five libraries', corr_ok and parsed is not None, 'correspondence')
    # ---- TEXT level: TechLib(text) against tcells_of_text on generated library texts and on the built-in ones -------------
    import random
    from harness import bench_text as bt, circgen as cg
    rng = random.Random(ck.seed * 7919 + 19)
    tcases, tmeta = [], []
    n_raise = 0
    for _ in range(ck.scale(240, 4000)):
        cs, d, of = bt.techlib_case(rng)
        ck.count(1, 'libtext:' + (d['raises'] or 'ok'))
        ck.nontrivial(('libtext', d['text'][:200]))
        n_raise += 1 if d['raises'] else 0
        if of:
            fails.append(('TEXT', d['text'], of))
        tcases += cs
        tmeta += [d] * len(cs)
    try:
        cs, ds = bt.builtin_lib_cases()
    except Exception as e:
        cs, ds = [f'false (* {type(e).__name__} *)'], [{'kind': 'techlib-builtin', 'error': repr(e)[:300]}]
    for d in ds:
        ck.count(1, 'libtext:builtin')
    chunks = [tcases[i:i + 60] for i in range(0, len(tcases), 60)] + [[c] for c in cs]
    cmeta = [tmeta[i:i + 60] for i in range(0, len(tmeta), 60)] + [[d] for d in ds]
    outs = ck.coq_eval_many('lt', [bt.cases_file(ch) for ch in chunks], jobs=12)
    tbad = [cmeta[ci][j] for ci, (ok, out) in enumerate(outs) for j in ((cg.parse_nat_list(out) if ok else None) or [])]
    tran = all(ok and cg.parse_nat_list(out) is not None for ok, out in outs)
    terr = next((out[-600:] for ok, out in outs if not ok), '')
    ck.obligation(f'Coq transcription of TechLib.__init__ (re.split on ";" + white space, cell name up to the first space, bench.parse, '
                  f'eliminate_1to1_forks (which leaves an undriven internal signal alone since the fix of D38), pins from io_nodes, brace products, dict insertion) = TechLib(text).cells on {len(tcases)} generated '
                  f'library texts ({n_raise} on which the constructor raises: both must reject) and on the five built-in library texts',
                  tran and not tbad, 'correspondence', f'failing cases {tbad[:2]} {terr}')
    if tbad and not fails:
        ck.fail('model-disagrees-text', 'Coq model of TechLib.__init__ and the implementation disagree',
                {'component': 'Model/TechLibText.v', 'input': tbad[0]}, found_input=False)
    ck.cov['exhaustive'] = True
    ck.rule('all cells of GSC180, NANGATE, NANGATE_ZN, SAED32, SAED90 (every expanded name) x all input rows; distinct = distinct implementation circuits')
    ck.sample({'library': 'NANGATE', 'cell': 'AOI221_X1', 'family': 'AOI with groups 2-2-1, single pin first', 'rows': 32})
    seen = set()
    for lib, name, what in fails:
        if lib == 'TEXT':
            if 'libtext' not in seen:
                seen.add('libtext')
                ck.fail('libtext:pin-table', f'TechLib({name[:80]!r}..): {what}', {'component': 'techlib.TechLib.__init__', 'input': {'text': name}, 'actual': what})
            continue
        key = f'cell:{lib}:{name}'
        if key in seen:
            continue
        seen.add(key)
        if len(seen) > 8:
            break
        ck.fail(key, f'{lib}.{name}: {what}', {'component': f'techlib.{lib}', 'input': {'library': lib, 'cell': name}, 'actual': what})


def replay(rp):
    from kyupy import techlib
    if 'text' in rp['input']:
        from harness import bench_text as bt
        return bt.real_techlib(rp['input']['text'])[2] is not None
    if 'library' not in rp['input']:
        return True
    lib, name = rp['input']['library'], rp['input']['cell']
    circ, pins = getattr(techlib, lib).cells[name]
    ins, outs, table = truth_table(circ)
    fam = family_of(lib, name)
    if fam is None:
        return True
    rows = list(itertools.product((0, 1), repeat=len(ins)))
    return any(tuple(family_fn(lib, fam, list(r), o.name) for r in rows) != table[o.name] for o in outs)
