"""C01 -- 2-valued logic simulation computes the netlist's Boolean function."""
import numpy as np

from harness import circgen as cg, logicsim_corr as lc, oracle_net as on, simops_corr as sc, simcheck as sk

THEOREMS = ['C01_lut_correct', 'C01_dispatch2_correct', 'C01_select_prim', 'C01_opcodes_injective', 'C01_lanes',
            'C01_build_ops_solution', 'C01_solution_unique', 'C01_logic2_gate_by_gate', 'C01_end_to_end_default', 'C01_build_total',
            'C01_cycles_iter_sem', 'C01_cycles_are_iter_sem', 'C01_cycle_next_state', 'C01_cycles_no_data_line', 'C01_gates_known_b_sound',
            'C01_model_c_prop_refines', 'C01_model_build_conditions', 'C01_logicsim_model_correct', 'C01_logicsim_model_capture',
            'C01_cycles_model_correct', 'C01_sim_case2_correct']
THEOREMS += ['C01_simops_ops_source_is_model', 'C01_simops_ops_source_is_model_wf', 'C01_simops_ops_source_nonvacuous']
THEOREMS += ['C01_simops_ops_source_uses_translated_order']
THEOREMS += ['C01_logicsim_chain2_agrees_trace', 'C01_logicsim_loop_source_is_model', 'C01_logicsim_drivers_source_is_model_partial',
             'C01_logicsim_loop_source_nonvacuous']
THEOREMS += ['C01_logicsim_s_to_c_source_is_model', 'C01_logicsim_c_to_s_source_is_model', 'C01_logicsim_s_ppo_to_ppi_source_is_model',
             'C01_logicsim_drivers_source_is_model', 'C01_logicsim_drivers_source_correct', 'C01_logicsim_drivers_source_is_sim_case2',
             'C01_logicsim_drivers_source_nonvacuous']


def oracle_cycles(c, stim_bits, k):
    """k-fold next-state iteration with the primary inputs held (independent evaluator)."""
    n_io = len(c.io_nodes)
    st = list(stim_bits)
    cap = None
    for _ in range(k):
        _, cap = on.evaluate(c, st, on.Alg2)
        for p in range(n_io, len(st)):
            # a state element without data line: its unconnected data pin reads constant 0 (the property's reading of unconnected pins)
            st[p] = cap[p] if cap[p] is not None else 0
    return st, cap


# Constant-zero slot liveness across cycles (Proofs/LogicSimGlue.v zero_kept_g: the slot is pinned, no op ever writes its location).
# The last SIGNIFICANT read of the constant slot (an unconnected lower pin of g1) is followed only by a 4-input gate, so an
# allocator that released the slot would hand its location to the line y; from the second cycle on g1 would read the old y.
ZERO_SLOT = {'nodes': [['b', 'input', 0, 0], ['cc', 'input', 0, 0], ['d', 'input', 0, 0], ['e', 'input', 0, 0], ['ff', 'DFF', 0, 0],
                       ['g1', 'OR2', 0, 0], ['g2', 'OR2', 0, 0], ['g3', 'AND4', 0, 0], ['y', 'output', 0, 0]],
             'lines': [[0, 0, 6, 0], [1, 0, 6, 1], [2, 0, 7, 2], [3, 0, 7, 3], [4, 0, 5, 1], [4, 1, 4, 0], [5, 0, 7, 0], [6, 0, 7, 1], [7, 0, 8, 0]],
             'io': [0, 1, 2, 3, 8]}


def targeted_cases():
    out = []
    for reuse, strip, k in [(True, False, 2), (True, True, 3), (False, False, 2)]:
        c = cg.from_description(ZERO_SLOT, name='zero_slot')
        # s_nodes = b, cc, d, e, y, ff: lane 0 all inputs 1 and state 1 (y = state, toggling), lane 1 state 0
        stim = np.array([[3, 3], [3, 3], [3, 3], [3, 3], [0, 0], [3, 0]], dtype=np.uint8)
        out.append((c, 2, stim, reuse, strip, k))
    return out


def run(ck):
    import random
    ok_t = sk.regen_tables(ck)
    ok_src = sc.translate_simops(ck)
    from harness import traversals_src as ts
    from harness import lsim_drivers_corr as ld
    ok_drv = ld.translate_drivers(ck)   # evaluation loops / driver methods of logic_sim.py (Gen/LogicSimDriversSrc.v)
    ts.translate_traversals(ck)       # circuit.topological_order / s_nodes, which the translated scheduler iterates over (Gen/TraversalsSrc.v)
    ck.prove('C01', THEOREMS)
    if ok_src:
        sc.run_source_corr(ck, random.Random(ck.seed * 7919 + 101), ck.scale(8, 200), 'op list')
    if ok_t:
        sk.validate_dispatch(ck, ['disp2_cpu', 'disp2_cb'])
    drv_fails = ld.run(ck, random.Random(ck.seed * 7919 + 103), ck.scale(36, 300)) if ok_drv else []
    rng = random.Random(ck.seed * 7919 + 1)
    nrng = np.random.default_rng(ck.seed + 1)
    ncirc = ck.scale(60, 1500)
    coq_cases, meta, so_cases, sol_cases, line_cases = [], [], [], [], []
    full_cases, full_meta = [], []
    from harness import lsim_full_corr as lf
    fails = []
    dom_circs = []
    targeted = targeted_cases()
    for i in range(ncirc + len(targeted)):
        if i < ncirc:
            c, a, sims, stim = sk.gen_case(rng, nrng, [0, 3])
            reuse, strip = rng.random() < 0.5, rng.random() < 0.5
            k = rng.choice([1, 1, 2, 3, 5])
        else:
            c, sims, stim, reuse, strip, k = targeted[i - ncirc]
        # every third case (and the targeted ones) on a simulator object that has already simulated another batch
        used = i % 3 == 1 or i >= ncirc
        lc.WARM['on'] = used
        # every fourth case through the callback copy of the 2-valued evaluation loop, with a callback that only observes
        observer = (lambda line, values: None) if i % 4 == 2 else None
        res, err = sk.safe(lc.run_logicsim, c, 2, stim, reuse, strip, k, observer)
        lc.WARM['on'] = False
        ck.count(int(observer is not None), 'observer-callback rounds')
        desc = {'circuit': cg.describe(c), 'c_reuse': reuse, 'strip_forks': strip, 'cycles': k, 'stimulus': stim.tolist(), 'used_simulator': used, 'observer_callback': observer is not None}
        ck.count(int(used), 'used-simulator rounds')
        ck.count(sims, f'sims={sims}')
        ck.count(0, f'cycles={k}')
        if err is not None:
            fails.append(('raises', desc, err[-400:]))
            continue
        sim, s1, s0 = res
        mask = lc.ppo_mask(sim)
        ck.nontrivial(sk.circuit_fingerprint(c))
        dom_circs.append(c)
        # oracle: gate-by-gate evaluation, k-fold next-state function
        for lane in range(sims):
            st, cap = oracle_cycles(c, (stim[:, lane] == 3).astype(int).tolist(), k)
            got1 = (s1[:, lane] == 3).astype(int)
            bad = [(p, cap[p], int(got1[p])) for p in range(len(cap)) if cap[p] is not None and mask[p] and cap[p] != got1[p]]
            got0 = (s0[:, lane] == 3).astype(int)
            bad0 = [(p, st[p], int(got0[p])) for p in range(len(c.io_nodes), len(st)) if st[p] != got0[p]]
            if bad or bad0:
                fails.append(('value', dict(desc, lane=lane), f'lane {lane}: captured (pos, expected, got) {bad[:4]}; state after {k} cycles {bad0[:4]}'))
                break
        # correspondence with the Coq model: two lanes per circuit
        for lane in sorted(set([0, sims - 1])):
            coq_cases.append(lc.case2(c, reuse, strip, k, (stim[:, lane] == 3).tolist(), (s0[:, lane] == 3).tolist(),
                                      ((s1[:, lane] == 3) & mask).tolist()))
            meta.append(dict(desc, lane=lane))
            line_cases.append(lc.case_line(c, strip, k, (stim[:, lane] == 3).tolist(), (s0[:, lane] == 3).tolist(),
                                           ((s1[:, lane] == 3) & mask).tolist()))
        if ok_drv and (i % 10 == 0 or i >= ncirc):
            # the instantiated source-level model (Proofs/LogicSimDriversFull.v) against a FRESH real simulator: c, s[0], s[1], all planes
            rr, rerr = sk.safe(lf.run_real, c, stim, reuse, strip, k)
            if rerr is None:
                for lane in sorted(set([0, sims - 1])):
                    full_cases.append(lf.case(c, reuse, strip, k, rr[0], rr[1], rr[2], lane))
                    full_meta.append(dict(desc, lane=lane, used_simulator=False, observer_callback=False))
        if i % 3 == 0 or i >= ncirc:
            _, d = sc.run_impl(c, 1, 1, reuse, strip)
            so_cases.append((c, 1, 1, reuse, strip, d))
            nlc = cg.coq_netlist(c)
            sol_cases.append(f'(wf_netlist_b {nlc} && acyclic_b {nlc} && sol2_case {nlc} {cg.coq_list((stim[:, 0] == 3).tolist(), lc.b)})')
        if i < 2:
            ck.sample({'nodes': len(c.nodes), 'lines': len(c.lines), 'kinds': sorted(set(n.kind for n in c.nodes))[:8],
                       'sims': sims, 'cycles': k, 'c_reuse': reuse, 'strip_forks': strip})
    # directed: every gate kind alone x all operand tuples, through the plain loop and through the callback copy (observer only)
    for cb in (None, lambda line, values: None):
        for d_, what_ in sk.single_gate_sweep(ck, 2, rng, inject_cb=cb):
            fails.append(('value', d_, what_))
    ck.rule('random circuits (all 33 primitive kinds, forks, DFF Q/QN, latches, unconnected pins, output-less gates) x 0/1 stimuli x '
            'sims in {1,3,7,8,9,17} and one case in seven in {63,65,130,257} x cycles 1..5 x c_reuse x strip_forks; distinct = circuit fingerprint (sizes, kind set)')
    # evaluate the model inside Coq
    chunks = [coq_cases[i:i + 120] for i in range(0, len(coq_cases), 120)]
    outs = ck.coq_eval_many('ls', [lc.cases_file(ch) for ch in chunks])
    mism = []
    allok = True
    for ci, (ok, out) in enumerate(outs):
        idx = cg.parse_nat_list(out) if ok else None
        if idx is None:
            allok = False
            ck.obligation('model evaluation (LogicSim 2-valued) ran', False, 'correspondence', out[-800:])
            continue
        mism += [ci * 120 + j for j in idx]
    ok2, out2 = ck.coq_eval('so', sc.cases_file(so_cases))
    idx2 = cg.parse_nat_list(out2) if ok2 else None
    ck.obligation(f'Coq model of SimOps.build = sim.SimOps on {len(so_cases)} generated circuits (ops, levels, c_locs, c_caps, c_len)',
                  idx2 == [], 'correspondence', '' if idx2 == [] else f'failing cases {idx2} {out2[-400:]}')
    ok3, out3 = ck.coq_eval('sol', sc.HEADER.replace('Model.Corr.', 'Model.Corr Model.NetlistSem Proofs.WfCheck.') +
                            'Definition results : list bool := [\n ' + ';\n '.join(sol_cases) + '].\nEval vm_compute in (failing results).\n')
    idx3 = cg.parse_nat_list(out3) if ok3 else None
    ck.obligation(f'the model\'s op list executed gate by gate is a solution of the per-node netlist equations on {len(sol_cases)} '
                  'generated circuits (executable twin of C01_build_ops_solution) and the theorem\'s hypotheses wf_netlist / comb_acyclic are discharged for each of them by the proved-sound checkers wf_netlist_b / acyclic_b',
                  idx3 == [], 'correspondence', '' if idx3 == [] else out3[-400:])
    ck.obligation(f'Coq model of LogicSim(m=2) s_to_c/c_prop/c_to_s/cycle = implementation on {len(coq_cases)} lanes',
                  allok and not mism, 'correspondence', f'failing cases {mism[:10]}')
    fmism, fran = [], True
    if full_cases:
        fchunks = [full_cases[i:i + 20] for i in range(0, len(full_cases), 20)]
        fouts = ck.coq_eval_many('lsf', [lf.cases_file(ch) for ch in fchunks])
        fmism = [ci * 20 + j for ci, (ok, out) in enumerate(fouts) for j in ((cg.parse_nat_list(out) if ok else None) or [])]
        fran = all(ok and cg.parse_nat_list(out) is not None for ok, out in fouts)
        ck.obligation(f'source-level model of LogicSim(m=2) (pinned s_to_c / c_to_s / s_ppo_to_ppi / cycle around the translated _prop_cpu loop, '
                      f'instantiated on the Coq build() result: object of C01_logicsim_drivers_source_is_model) = signal memory c and all planes of '
                      f's[0], s[1] after LogicSim.cycle(k) of a fresh real simulator on {len(full_cases)} lanes',
                      fran and not fmism, 'correspondence', f'failing cases {fmism[:10]}' if fran else fouts[0][1][-600:])
    # line-level k-cycle iteration: the definition the multi-cycle theorems are about
    lchunks = [line_cases[i:i + 20] for i in range(0, len(line_cases), 20)]
    louts = ck.coq_eval_many('lsl', [lc.line_cases_file(ch) for ch in lchunks])
    lmism = [ci * 20 + j for ci, (ok, out) in enumerate(louts) for j in ((cg.parse_nat_list(out) if ok else None) or [])]
    lran = all(ok and cg.parse_nat_list(out) is not None for ok, out in louts)
    ck.obligation(f'line-level k-cycle iteration line_cycles / line_cycles_strip (Model/CycleSem.v, object of C01_cycles_are_iter_sem) = '
                  f's[0], s[1] after LogicSim.cycle(k) on {len(line_cases)} lanes, for every c_reuse / strip_forks setting',
                  lran and not lmism, 'correspondence', f'failing cases {lmism[:10]}' if lran else louts[0][1][-600:])
    # the hypotheses of the model-level theorems (C01_logicsim_model_correct, C01_cycles_model_correct, C01_sim_case2_correct: the compared
    # model sim_case2 itself computes the k-fold next-state function) discharged per generated circuit
    sc.run_domain(ck, dom_circs[::2], 'model-level end-to-end theorems', min_frac=0.2)
    ck.trust('modelled, not verified: SimOps.__init__ and LogicSim s_to_c/c_prop/c_to_s/s_ppo_to_ppi/cycle (hand-written Gallina '
             'in Model/SimOps.v, Model/LogicSimModel.v, tied by exact comparison on generated circuits).  Proved about that model '
             '(Proofs/LogicSimGlue.v): for every well-formed acyclic netlist of known gates, all c_reuse / strip_forks settings and every '
             'stimulus the compared entry point sim_case2 returns the k-fold synchronous Boolean semantics (C01_sim_case2_correct); '
             'outside that domain (output-less gates, unknown kinds, forks without input) the tie is correspondence + per-case certificates')
    if not fails:
        for key, what, rp in drv_fails[:3]:
            ck.fail(key, what, rp, found_input=False)
    for kind, desc, what in fails[:5]:
        ck.fail(f'logicsim2:{kind}', 'LogicSim(m=2) ' + what, {'component': 'logic_sim.LogicSim m=2', 'input': desc, 'actual': what})
    if not fails:
        for j in lmism[:3]:
            ck.fail('model-disagrees', 'Coq line-level cycle model and implementation disagree',
                    {'component': 'Model/CycleSem.v: line_case2', 'input': meta[j], 'broken': ['correspondence LogicSim.cycle line level']}, found_input=False)
        for j in fmism[:3]:
            ck.fail('model-disagrees', 'source-level model of the LogicSim drivers and implementation disagree',
                    {'component': 'Proofs/LogicSimDriversFull.v: cycle_src on the build() result', 'input': full_meta[j],
                     'broken': ['correspondence LogicSim m=2 source level']}, found_input=False)
        for j in mism[:3]:
            # model and implementation disagree but the oracle found nothing wrong with the implementation
            ck.fail('model-disagrees', 'Coq model and implementation disagree',
                    {'component': 'Model/LogicSimModel.v: sim_case2', 'input': meta[j], 'broken': ['correspondence LogicSim m=2']}, found_input=False)


def replay(rp):
    inp = rp['input']
    c = cg.from_description(inp['circuit'])
    stim = np.array(inp['stimulus'], dtype=np.uint8)
    lc.WARM['on'] = bool(inp.get('used_simulator'))
    res, err = sk.safe(lc.run_logicsim, c, 2, stim, inp['c_reuse'], inp['strip_forks'], inp['cycles'],
                       (lambda line, values: None) if inp.get('observer_callback') else None)
    lc.WARM['on'] = False
    if err is not None:
        return True
    sim, s1, s0 = res
    mask = lc.ppo_mask(sim)
    for lane in range(stim.shape[1]):
        st, cap = oracle_cycles(c, (stim[:, lane] == 3).astype(int).tolist(), inp['cycles'])
        got1 = (s1[:, lane] == 3).astype(int)
        if any(cap[p] is not None and mask[p] and cap[p] != got1[p] for p in range(len(cap))):
            return True
    return False
