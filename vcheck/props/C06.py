"""C06 -- results do not depend on performance options, lane position or code path."""
import random
import traceback
import numpy as np

from harness import circgen as cg, logicsim_corr as lc, simcheck as sk, wavecheck as wk, waveoracle as wo, wavesim_corr as wc, launch_corr

THEOREMS = ['C06_gpu_threads_cover', 'C06_lane_independent', 'C06_release_order_irrelevant', 'C06_strip_forks_irrelevant',
            'C06_cycles_strip_irrelevant',
            'C06_c_reuse_irrelevant', 'C06_c_reuse_same_interface', 'C06_end_to_end_reuse', 'C06_options_irrelevant_spec',
            'C06_options_irrelevant',
            'C06_buf_zero_delay_identity', 'C06_buf_zero_delay_overflow', 'C06_buf_zero_delay_nonmonotone_refuted', 'C06_wexec_alias_id',
            'C06_wave_strip_forks_irrelevant', 'C06_wave_strip_forks_polfree', 'C06_wave_strip_nonmonotone_refuted', 'C06_wavesim_options_irrelevant',
            'C06_dataset_selection', 'C06_dataset_selection_lanes',
            'C06_launcher_source_is_model', 'C06_launcher_source_nonvacuous']
THEOREMS += ['C06_capture_cpu_source_is_model', 'C06_capture_gpu_source_is_model', 'C06_capture_cpu_gpu_same_source_model',
             'C06_capture_source_example', 'C06_select_source_is_model']   # kernel bodies from the source text (Gen/WaveEvalSrc.v)
COLS = [3, 4, 5, 6, 7, 10]


THEOREMS += ['C06_kernels_lane_run', 'C06_kernels_lane_local', 'C06_launch_is_cpu_loop', 'C06_level_order_is_cpu_order',
             'C06_assign_gpu_instance_is_model', 'C06_assign_gpu_lane_is_model', 'C06_assign_cpu_gpu_same_source_model',
             'C06_assign_hyps_example', 'C06_assign_bits_needed',
             'C06_state_transfer_gpu_instance_partial', 'C06_state_transfer_gpu_out_of_range', 'C06_state_transfer_io_position_refuted',
             'C06_state_transfer_example',
             'C06_eval_cpu_instance_is_model', 'C06_accumulate_cpu_gpu_same_source_model', 'C06_eval_gpu_out_of_range', 'C06_eval_instance_example',
             'C06_capture_writeback_cpu_gpu_same_source_model', 'C06_capture_gpu_no_slot',
             'C06_capture_instance_example']   # driver code from the source text (Gen/WaveDriversSrc.v)
THEOREMS += ['C06_state_transfer_cpu_is_per_position', 'C06_state_transfer_cpu_gpu_same_source_model', 'C06_state_transfer_cpu_gpu_state_positions',
             'C06_state_transfer_launch_example', 'C06_state_transfer_io_condition_needed']   # state transfer over the whole launch (Proofs/WaveStateTransfer.v)
THEOREMS += ['C06_eval_gpu_instance_is_cpu_instance', 'C06_c_prop_cpu_gpu_same_source_model', 'C06_c_prop_lane', 'C06_level_ranges_cover',
             'C06_c_prop_build_is_model', 'C06_c_prop_model_is_w_c_prop', 'C06_c_prop_example']   # whole propagation CPU = GPU = model (Proofs/WaveCProp.v)


def port_view(w, sims=None):
    s = np.asarray(w.s)[COLS]
    return s if sims is None else s[:, :, :sims]


def has_input_forks(c):
    return all(len(f.ins) > 0 and f.ins[0] is not None for f in c.forks.values())


def logic_options(rng, nrng):
    m = rng.choice([2, 4, 8])
    values = {2: [0, 3], 4: [0, 1, 2, 3], 8: list(range(8))}[m]
    c, a, sims, stim = sk.gen_case(rng, nrng, values)
    desc = {'kind': 'logic', 'circuit': cg.describe(c), 'm': m, 'stimulus': stim.tolist()}
    ref = None
    for reuse in (False, True):
        for strip in (False, True):
            if strip and not has_input_forks(c):
                continue
            sim, s1, _ = lc.run_logicsim(c, m, stim, reuse, strip)
            mask = lc.ppo_mask(sim)
            v = np.where(mask[:, None], s1, 255)
            if ref is None:
                ref = v
            elif not np.array_equal(ref, v):
                p, l = np.argwhere(ref != v)[0]
                return desc, f'LogicSim(m={m}) c_reuse={reuse} strip_forks={strip}: position {p} lane {l} = {v[p, l]}, with both options off {ref[p, l]}'
    # second propagation without re-assignment, with memory reuse
    from kyupy import logic, logic_sim
    for reuse in (False, True):
        s2 = logic_sim.LogicSim(c, sims=sims, m=m, c_reuse=reuse)
        s2.s[0] = logic.mv_to_bp(stim)
        s2.s_to_c(); s2.c_prop(); s2.c_prop(); s2.c_to_s()
        v2 = np.where(mask[:, None], logic.bp_to_mv(s2.s[1])[:, :sims], 255)
        if not np.array_equal(v2, ref):
            return desc, f'LogicSim(m={m}, c_reuse={reuse}): a second c_prop without s_to_c changes the captured results'
    # more lanes allocated / lane permutation
    sims2 = sims + rng.choice([1, 7, 8])
    stim2 = np.concatenate([stim, np.array(values, dtype=np.uint8)[nrng.integers(0, len(values), size=(stim.shape[0], sims2 - sims))]], axis=1)
    _, s1b, _ = lc.run_logicsim(c, m, stim2, False, False)
    if not np.array_equal(np.where(mask[:, None], s1b[:, :sims], 255), ref):
        return desc, f'LogicSim(m={m}): results of the first {sims} lanes change when {sims2} lanes are allocated'
    perm = nrng.permutation(sims)
    _, s1p, _ = lc.run_logicsim(c, m, stim[:, perm], False, False)
    if not np.array_equal(np.where(mask[:, None], s1p, 255), ref[:, perm]):
        return desc, f'LogicSim(m={m}): permuting the lanes of the stimulus does not permute the results'
    return desc, None


def zero_fork_inputs(c, delays):
    d = np.array(delays, copy=True)
    for f in c.forks.values():
        for l in f.ins:
            if l is not None:
                d[..., l.index, :, :] = 0
    return d


def nonmonotone_stem(w, c):
    """True if some fork input carries a waveform whose timestamps are not strictly increasing (possible with
    polarity-dependent delays): a zero-delay fork evaluation is then not the identity"""
    for f in c.forks.values():
        for l in f.ins:
            if l is None:
                continue
            for lane in range(w.sims):
                body, term = wo.waveform(w, l.index, lane)
                if body and any(body[i] >= body[i + 1] for i in range(len(body) - 1)):
                    return True
    return False


def strip_line_mismatch(base, w, c):
    """first (line, lane, stripped waveform, un-stripped waveform) that differ, or None"""
    for line in c.lines:
        for lane in range(base.sims):
            a, b = wo.waveform(base, line.index, lane), wo.waveform(w, line.index, lane)
            if a != b:
                return line.index, lane, b, a
    return None


def wave_line_level(ck, rng, n_strip, n_sel):
    """Line-level models of C06's timing clauses against the implementation's waveform memory:
    wexec_alias (Model/WaveStripModel.v) vs WaveSim(strip_forks=True); wexec_sel vs WaveSim with a dataset table in modes 0 / 1."""
    import json, os
    cases, metas, kinds = [], [], []
    gcases, gmetas = [], []
    corpus = os.path.join(os.path.dirname(os.path.dirname(os.path.dirname(os.path.abspath(__file__)))), 'harness', 'corpus', 'C06_strip_nonmonotone.json')
    queue = [wk.from_description(json.load(open(corpus)))] if os.path.exists(corpus) else []
    made = 0
    while made < n_strip:
        k = queue.pop(0) if queue else wk.gen_wave_case(rng, capmode=rng.choice(['4', '8', '16', 'vec']), sims=rng.choice([1, 2, 3]), reuse=False,
                                                         style=rng.choice(['polfree', 'full', 'spread', 'uniform']))
        if not has_input_forks(k.c) or not k.c.forks:
            continue
        if rng.random() < 0.6:
            k.delays = zero_fork_inputs(k.c, k.delays)
        w = wk.run_case(k, strip=True, reuse=False)
        lane = rng.randrange(k.sims)
        cases.append(wc.coq_strip_case(k.c, k.caps, k.delays, w, lane, k.s0, k.s1, k.s2, k.extra))
        metas.append(dict(wk.describe(k), kind='wave-line-strip', lane=lane)); kinds.append('strip')
        ck.count(1, 'line-level-strip-cases')
        # the end-to-end statement (C06_wavesim_options_irrelevant / C03_wavesim_model_correct): all four option combinations of the
        # implementation against ONE prediction, the capture of the un-stripped line-level waveforms
        for reuse, strip in ((False, True), (True, True), (True, False)):
            wg = w if (strip and not reuse) else wk.run_case(k, strip=strip, reuse=reuse)
            gcases.append(wc.coq_glue_case(k.c, k.caps, strip, k.delays, wg, lane, k.s0, k.s1, k.s2, k.extra, k.tcap, a_ctrl=k.a_ctrl))
            gmetas.append(dict(wk.describe(k), kind='wave-end-to-end', lane=lane, c_reuse=reuse, strip_forks=strip))
        made += 1
    made = 0
    while made < n_sel:
        k = wk.gen_wave_case(rng, capmode=rng.choice(['8', '16']), sims=rng.choice([2, 3]), reuse=False)
        nds = rng.choice([2, 3])
        dsets = np.stack([wc.gen_delays(rng, len(k.c.lines), 'full')[0] for _ in range(nds)])
        for mode in (0, 1):
            g = rng.randrange(nds)
            pick = [rng.randrange(nds) for _ in range(k.sims)]
            pick[rng.randrange(k.sims)] = nds - 1
            ctl = np.array([pick, [mode] * k.sims], dtype=np.int32)
            w = wc.run_wavesim(k.c, dsets, k.sims, k.caps, False, False, k.s0, k.s1, k.s2, k.extra, k.tcap, simctl=ctl, seed=g)
            # mode 0: one lane (all lanes use dataset g); mode 1: every lane (each has its own pick)
            for lane in ([rng.randrange(k.sims)] if mode == 0 else range(k.sims)):
                cases.append(wc.coq_sel_case(k.c, k.caps, dsets, mode, g, pick[lane], w, lane, k.s0, k.s1, k.s2, k.extra))
                metas.append(dict(wk.describe(k), kind='wave-line-dataset', lane=lane, mode=mode, seed=g, simctl0=pick, datasets=dsets.tolist()))
                kinds.append('sel')
                ck.count(1, f'line-level-dataset-mode{mode}-dataset{g if mode == 0 else pick[lane]}-of-{nds}')
        made += 1
    chunks = [cases[i:i + 10] for i in range(0, len(cases), 10)]
    outs = ck.coq_eval_many('sl', [wc.strip_cases_file(ch) for ch in chunks], jobs=12)
    bad, allok = {}, True
    for ci, (ok, out) in enumerate(outs):
        codes = cg.parse_nat_list(out) if ok else None
        if codes is None:
            allok = False
            ck.obligation('line-level evaluation (wexec_alias / wexec_sel) ran', False, 'correspondence', out[-800:])
            continue
        for code in codes:
            bad[ci * 10 + code // 32] = code % 32
    for kind, what in (('strip', 'wexec_alias through the stems (delay row of the operand index named in the op) = every tracked region of '
                                 'WaveSim(strip_forks=True) memory up to its terminator; op list / stems = build_ops c true / build_stems'),
                       ('sel', 'wexec_sel (dataset selected per op evaluation from simctl_int / seed, modes 0 and 1, 2..3 datasets) = every '
                               'tracked region of WaveSim memory up to its terminator')):
        hit = [i for i in bad if kinds[i] == kind]
        ck.obligation(f'line-level {what}: {kinds.count(kind)} lanes', allok and not hit, 'correspondence', f'failing cases {hit[:10]}')
    gbad = wk.glue_level_eval(ck, gcases, gmetas, tag='sg')
    return [dict(metas[i], line_level_failed=bad[i]) for i in sorted(bad)] + gbad


def wave_options(rng, k=None):
    if k is None:
        k = wk.gen_wave_case(rng, capmode=rng.choice(['8', '16']), sims=rng.choice([2, 3, 5]), reuse=False)
        k.tcap = rng.choice([None, 5, 9])
    k.delays = zero_fork_inputs(k.c, k.delays)
    # the CPU s_to_c tests != 0, the kernel >= 0.5: compare on 0/1 stimuli as the property intends
    desc = dict(wk.describe(k), kind='wave')
    base = wk.run_case(k)
    ref = port_view(base)
    for reuse, strip, cuda in ((True, False, False), (False, True, False), (True, True, False), (False, False, True), (True, True, True)):
        if strip and not has_input_forks(k.c):
            continue
        w = wk.run_case(k, cuda=cuda, reuse=reuse, strip=strip)
        v = port_view(w)
        if not np.array_equal(ref, v):
            col, p, l = np.argwhere(ref != v)[0]
            if strip and nonmonotone_stem(base, k.c):
                desc['class'] = 'strip-nonmonotone-stem'
            return desc, (f'{"WaveSimCuda" if cuda else "WaveSim"} c_reuse={reuse} strip_forks={strip}: s[{COLS[col]}] position {p} lane {l} = '
                          f'{v[col, p, l]}, reference (CPU, options off) {ref[col, p, l]}')
        if strip and not reuse and not cuda:
            # what C06_wave_strip_forks_irrelevant states, on the implementation: EVERY line (not only the ports) holds in the
            # stripped run -- at its stem's region, c_locs[line] is aliased -- the waveform of the un-stripped run
            bad = strip_line_mismatch(base, w, k.c)
            if bad is not None:
                if nonmonotone_stem(base, k.c):
                    desc['class'] = 'strip-nonmonotone-stem'
                return desc, f'WaveSim strip_forks=True: line {bad[0]} lane {bad[1]} holds {bad[2]}, un-stripped run {bad[3]}'
        if not reuse and not strip and not np.array_equal(np.asarray(w.c), np.asarray(base.c)):
            return desc, 'WaveSimCuda waveform memory differs from WaveSim'
    # a second propagation without re-assigning the inputs (e.g. to evaluate another delay dataset) must still be
    # independent of memory reuse: inputs stay intact until results are read
    def twice(reuse, strip, cuda):
        w = wk.run_case(k, cuda=cuda, reuse=reuse, strip=strip)
        w.c_prop()
        w.c_to_s(time=(wc.TMAX if k.tcap is None else k.tcap))
        return port_view(w)
    ref2 = twice(False, False, False)
    if not np.array_equal(ref2, ref):
        return desc, 'a second c_prop without s_to_c changes the results (c_reuse off)'
    for reuse, strip, cuda in ((True, False, False), (True, True, True)):
        if strip and not has_input_forks(k.c):
            continue
        if not np.array_equal(twice(reuse, strip, cuda), ref2):
            return desc, f'second c_prop after one s_to_c: results with c_reuse={reuse} strip_forks={strip} {"GPU" if cuda else "CPU"} differ from c_reuse off'
    # more lanes allocated
    k2 = wk.from_description(wk.describe(k))
    extra_l = rng.choice([1, 3])
    k2.sims = k.sims + extra_l
    pad = lambda a: np.concatenate([a, np.ones((a.shape[0], extra_l), dtype=np.float32)], axis=1)
    k2.s0, k2.s1, k2.s2 = pad(k.s0), pad(k.s1), pad(k.s2)
    w2 = wk.run_case(k2)
    if not np.array_equal(port_view(w2, k.sims), ref):
        return desc, f'results of the first {k.sims} lanes change when {k2.sims} lanes are allocated'
    # lane permutation
    perm = list(range(k.sims)); rng.shuffle(perm)
    k3 = wk.from_description(wk.describe(k))
    k3.s0, k3.s1, k3.s2 = k.s0[:, perm], k.s1[:, perm], k.s2[:, perm]
    k3.extra = {(p, perm.index(l)): wf for (p, l), wf in k.extra.items()}
    w3 = wk.run_case(k3)
    if not np.array_equal(port_view(w3)[:, :, [perm.index(l) for l in range(k.sims)]], ref):
        return desc, 'permuting the lanes of the stimulus does not permute the results'
    # propagation restricted to the first j lanes
    j = rng.randint(1, k.sims)
    for cuda in (False, True):
        w4 = wc.run_wavesim(k.c, k.delays, k.sims, k.caps, False, False, k.s0, k.s1, k.s2, k.extra, k.tcap, cuda=cuda, prop_sims=j)
        if not np.array_equal(port_view(w4, j), ref[:, :, :j]):
            return desc, f'c_prop(sims={j}) ({"GPU" if cuda else "CPU"} path): results of the first {j} lanes differ from full propagation'
        w5 = wc.run_wavesim(k.c, k.delays, k.sims, k.caps, False, False, k.s0, k.s1, k.s2, k.extra, k.tcap, cuda=cuda, prop_sims=0 + j)
        untouched = np.asarray(w4.c)[:, j:]
        # lanes >= j: only the input waveforms written by s_to_c, everything else still at its initial TMAX
        for line in k.c.lines:
            loc = int(np.asarray(w4.c_locs)[line.index])
            if loc >= 0 and (untouched[loc] != wc.TMAX).any():
                return desc, f'c_prop(sims={j}) touched lane >= {j} of line {line.index}'
    # delay dataset selection
    nds = 3
    dsets = np.stack([zero_fork_inputs(k.c, wc.gen_delays(rng, len(k.c.lines), 'full')[0]) for _ in range(nds)])
    alone = [port_view(wc.run_wavesim(k.c, dsets[i], k.sims, k.caps, False, False, k.s0, k.s1, k.s2, k.extra, k.tcap)) for i in range(nds)]
    for cuda in (False, True):
        g = rng.randrange(nds)
        ctl = np.zeros((2, k.sims), dtype=np.int32)
        w6 = wc.run_wavesim(k.c, dsets, k.sims, k.caps, False, False, k.s0, k.s1, k.s2, k.extra, k.tcap, cuda=cuda, simctl=ctl, seed=g)
        if not np.array_equal(port_view(w6), alone[g]):
            return desc, f'global dataset selection (mode 0, dataset {g}, {"GPU" if cuda else "CPU"}) differs from simulating with that dataset alone'
        pick = [rng.randrange(nds) for _ in range(k.sims)]
        ctl = np.array([pick, [1] * k.sims], dtype=np.int32)
        w7 = wc.run_wavesim(k.c, dsets, k.sims, k.caps, False, False, k.s0, k.s1, k.s2, k.extra, k.tcap, cuda=cuda, simctl=ctl, seed=7)
        for lane in range(k.sims):
            if not np.array_equal(port_view(w7)[:, :, lane], alone[pick[lane]][:, :, lane]):
                return desc, f'per-simulation dataset selection (mode 1, lane {lane} -> dataset {pick[lane]}, {"GPU" if cuda else "CPU"}) differs from that dataset alone'
        # mixed modes on one simulator: lanes in mode 0 follow the seed, lanes in mode 1 their own entry
        mode = [rng.randint(0, 1) for _ in range(k.sims)]
        if k.sims > 1 and len(set(mode)) == 1:
            mode[rng.randrange(k.sims)] ^= 1
        g2 = rng.randrange(nds)
        ctl = np.array([pick, mode], dtype=np.int32)
        w8 = wc.run_wavesim(k.c, dsets, k.sims, k.caps, False, False, k.s0, k.s1, k.s2, k.extra, k.tcap, cuda=cuda, simctl=ctl, seed=g2)
        for lane in range(k.sims):
            eff = g2 if mode[lane] == 0 else pick[lane]
            if not np.array_equal(port_view(w8)[:, :, lane], alone[eff][:, :, lane]):
                return desc, (f'mixed dataset selection modes {mode} (seed {g2}, entries {pick}, {"GPU" if cuda else "CPU"}): lane {lane} must use dataset {eff} '
                              f'but differs from simulating with that dataset alone')
    return desc, None


def wave_paths(rng, k=None):
    """CPU and GPU code paths on overflowing waveforms (capacities 4 / per-line, busy inputs): identical option settings, so
    memory and every captured column -- including the overflow indicator -- must be identical."""
    if k is None:
        kw = wk.stress_kw(rng)
        kw['capmode'] = rng.choice(['4', '4', 'vec', 'skew'])
        k = wk.gen_wave_case(rng, sims=rng.choice([2, 3, 5]), **kw)
        k.tcap = rng.choice([None, 9, 25])
    desc = dict(wk.describe(k), kind='wavepath')
    for reuse in (False, True):
        a, b = wk.run_case(k, cuda=False, reuse=reuse), wk.run_case(k, cuda=True, reuse=reuse)
        va, vb = port_view(a), port_view(b)
        if not np.array_equal(va, vb):
            col, p, l = np.argwhere(va != vb)[0]
            return desc, f'WaveSimCuda c_reuse={reuse}: s[{COLS[col]}] position {p} lane {l} = {vb[col, p, l]}, WaveSim gives {va[col, p, l]}'
        if not np.array_equal(np.asarray(a.c), np.asarray(b.c)):
            return desc, f'WaveSimCuda c_reuse={reuse}: waveform memory differs from WaveSim'
    # capture times given as 64-bit floats that float32 cannot represent, a hair above an actual transition time of an output: both code
    # paths must decide "before T" alike
    from harness import waveoracle as wo
    times = sorted({t for p in range(len(k.c.s_nodes)) for lane in range(k.sims)
                    for t in ((wo.waveform(a, int(a.ppo_offset) + p, lane)[0] or []) if int(np.asarray(a.c_locs)[int(a.ppo_offset) + p]) >= 0 else [])
                    if np.isfinite(t) and abs(t) < 1e6})
    old_tcap = k.tcap
    try:
        for t in rng.sample(times, min(2, len(times))):
            k.tcap = np.float64(t) * (1 + 1e-9) + 1e-9
            a2, b2 = wk.run_case(k, cuda=False, reuse=False), wk.run_case(k, cuda=True, reuse=False)
            va, vb = port_view(a2), port_view(b2)
            if not np.array_equal(va, vb):
                col, p, l = np.argwhere(va != vb)[0]
                return dict(desc, tcap=float(k.tcap)), (f'capture time {float(k.tcap)!r} (float64, just above the transition at {t}): WaveSimCuda s[{COLS[col]}] position {p} lane {l} = '
                                                        f'{vb[col, p, l]}, WaveSim gives {va[col, p, l]}')
    finally:
        k.tcap = old_tcap
    return desc, None


def wave_acc_paths(rng, k=None):
    """CPU and GPU accumulation wrappers (abuf[a_loc, sim] += ... in level_eval_cpu vs cuda.atomic.add in wave_eval_gpu): generated
    a_ctrl with different rise / fall weights and shared accumulators; abuf must be identical after every propagation."""
    if k is None:
        kw = wk.stress_kw(rng)
        kw['with_actrl'] = True
        k = wk.gen_wave_case(rng, sims=rng.choice([1, 2, 3]), **kw)
    desc = dict(wk.describe(k), kind='waveacc')
    a, b = wk.run_case(k, cuda=False), wk.run_case(k, cuda=True)
    ab_a, ab_b = np.asarray(a.abuf), np.asarray(b.abuf)
    if not np.array_equal(ab_a, ab_b):
        i, l = np.argwhere(ab_a != ab_b)[0]
        return desc, f'WaveSimCuda: abuf[{i}, {l}] = {ab_b[i, l]}, WaveSim gives {ab_a[i, l]} (a_ctrl rows with that accumulator: {[r for r in k.a_ctrl.tolist() if r[0] == i][:4]})'
    if not np.array_equal(np.asarray(a.c), np.asarray(b.c)):
        return desc, 'WaveSimCuda: waveform memory differs from WaveSim'
    return desc, None


def wave_wide(rng, k=None):
    """CPU and GPU code paths with MORE lanes than one thread block covers (block = 32 x 16), over two clock cycles with the
    state transfer s_ppo_to_ppi in between: every s row and the waveform memory must agree after every step."""
    import io, contextlib
    from kyupy import wave_sim
    if k is None:
        k = wk.gen_wave_case(rng, sims=rng.choice([33, 40, 48, 49, 64, 65]), n_gates=rng.choice([2, 3, 5, 8]), seq=True, allow_unconnected=True, p_nodata=rng.choice([0.08, 0.5]),
                             capmode=rng.choice(['4', '8', 'vec']), reuse=rng.random() < 0.5)
        k.tcap = rng.choice([None, 6, 9])
    desc = dict(wk.describe(k), kind='wavewide')
    sims = []
    for cuda in (False, True):
        cls = wave_sim.WaveSimCuda if cuda else wave_sim.WaveSim
        with contextlib.redirect_stdout(io.StringIO()):
            w = cls(k.c, k.delays, sims=k.sims, c_caps=k.caps, c_reuse=k.reuse, strip_forks=k.strip)
            w.simctl_int[1] = 0 if k.delays.ndim == 4 and len(k.delays) > 1 else w.simctl_int[1]
            w.s[0], w.s[1], w.s[2] = k.s0, k.s1, k.s2
        sims.append(w)
    tc = wave_sim.TMAX if k.tcap is None else k.tcap
    steps = ['s_to_c', 'c_prop', 'c_to_s', 's_ppo_to_ppi', 's_to_c', 'c_prop', 'c_to_s']
    # half of the sets: the SAME simulator objects first run a propagation restricted to the first j lanes (j mostly below one block
    # of 32 lanes), then the unrestricted sequence -- a launch configuration or anything else remembered from the restricted call
    # must not leak into the next one
    j = getattr(k, 'first_lanes', None)
    if j is None and not hasattr(k, 'first_lanes'):
        j = rng.choice([None, rng.randint(1, 8), rng.randint(1, 8), rng.randint(1, k.sims)])
    k.first_lanes = j
    desc['first_lanes'] = j
    if j is not None:
        steps = ['s_to_c', ('c_prop', j), 'c_to_s'] + steps
    for step, call in enumerate(steps):
        for w in sims:
            with contextlib.redirect_stdout(io.StringIO()):
                if call == 'c_to_s':
                    w.c_to_s(time=tc)
                elif call == 's_ppo_to_ppi':
                    w.s_ppo_to_ppi(time=1.0)
                elif isinstance(call, tuple):
                    w.c_prop(sims=call[1])
                else:
                    getattr(w, call)()
        if isinstance(call, tuple):
            call = f'c_prop(sims={call[1]})'
        a, b = np.asarray(sims[0].s).copy(), np.asarray(sims[1].s).copy()
        # stimulus rows 0..2 matter only where a PI/PPI slot exists (the CPU transfer also rewrites the rows of state elements
        # without any output line, the GPU kernel skips them: neither is ever read)
        unused = np.ones(a.shape[1], dtype=bool)
        unused[np.asarray(sims[0].pippi_s_locs)] = False
        a[0:3, unused], b[0:3, unused] = 0, 0
        if not np.array_equal(a, b, equal_nan=True):
            row, p, l = np.argwhere(~((a == b) | (np.isnan(a) & np.isnan(b))))[0]
            return desc, f'after step {step} ({call}) with {k.sims} lanes: WaveSimCuda s[{row}] position {p} lane {l} = {b[row, p, l]}, WaveSim gives {a[row, p, l]}'
        if not k.reuse and not np.array_equal(np.asarray(sims[0].c), np.asarray(sims[1].c)):
            l = int(np.argwhere(np.asarray(sims[0].c) != np.asarray(sims[1].c))[0][1])
            return desc, f'after step {step} ({call}) with {k.sims} lanes: waveform memory of lane {l} differs between WaveSimCuda and WaveSim'
    return desc, None


def run(ck):
    wk.regen_kernel(ck)
    wk.regen_drivers(ck)
    if THEOREMS:
        from vcheck import gen_all
        gen_all.generate(['LaunchSrc'])     # tie T for the launcher: regenerated before the build (obligation recorded by launch_corr.run)
        ck.prove('C06', THEOREMS)
    rng = random.Random(ck.seed * 7919 + 6)
    nrng = np.random.default_rng(ck.seed + 6)
    fails = []
    for i in range(ck.scale(40, 1200)):
        try:
            desc, what = logic_options(rng, nrng)
        except Exception:
            desc, what = {'kind': 'logic'}, 'raises ' + traceback.format_exc()[-500:]
        ck.count(1, 'logic-option-sets')
        ck.nontrivial(('l', i))
        if what:
            fails.append((desc, what))
    import json, os
    corpus = os.path.join(os.path.dirname(os.path.dirname(os.path.dirname(os.path.abspath(__file__)))), 'harness', 'corpus', 'C06_strip_nonmonotone.json')
    queue = [wk.from_description(json.load(open(corpus)))] if os.path.exists(corpus) else []
    for i in range(ck.scale(25, 800) + len(queue)):
        try:
            desc, what = wave_options(rng, queue.pop(0) if queue else None)
        except Exception:
            desc, what = {'kind': 'wave'}, 'raises ' + traceback.format_exc()[-500:]
        ck.count(1, 'wave-option-sets')
        ck.nontrivial(('w', i))
        if what:
            fails.append((desc, what))
        if i < 2:
            ck.sample({'kind': 'wave', 'nodes': len(desc.get('circuit', {}).get('nodes', [])), 'sims': desc.get('sims'), 'c_caps': desc.get('c_caps')})
    novl = 0
    for i in range(ck.scale(30, 600)):
        try:
            desc, what = wave_paths(rng)
            novl += int(np.array(desc.get('c_caps')).min() <= 4)
        except Exception:
            desc, what = {'kind': 'wavepath'}, 'raises ' + traceback.format_exc()[-500:]
        ck.count(1, 'wave-cpu-gpu-overflow-sets')
        ck.nontrivial(('p', i))
        if what:
            fails.append((desc, what))
    for i in range(ck.scale(8, 200)):
        try:
            desc, what = wave_wide(rng)
        except Exception:
            desc, what = {'kind': 'wavewide'}, 'raises ' + traceback.format_exc()[-500:]
        ck.count(1, 'wave-cpu-gpu-wide-multicycle-sets')
        ck.nontrivial(('x', i))
        if what:
            fails.append((desc, what))
    arng = random.Random(ck.seed * 7919 + 67)     # own stream: the accumulation wrappers, CPU vs GPU
    for i in range(ck.scale(12, 300)):
        try:
            desc, what = wave_acc_paths(arng)
        except Exception:
            desc, what = {'kind': 'waveacc'}, 'raises ' + traceback.format_exc()[-500:]
        ck.count(1, 'wave-cpu-gpu-accumulation-sets')
        ck.nontrivial(('a', i))
        if what:
            fails.append((desc, what))
    try:
        line_mism = wave_line_level(ck, rng, ck.scale(16, 300), ck.scale(5, 80))
    except Exception:
        line_mism = []
        ck.obligation('line-level correspondence (wexec_alias / wexec_sel) ran', False, 'correspondence', traceback.format_exc()[-800:])
    # the launcher model that C06_gpu_threads_cover is about = the real MockCuda launcher
    lfails = launch_corr.run(ck, rng, ck.scale(24, 200))
    # the driver semantics the C06_assign_* / C06_state_transfer_* / C06_capture_writeback_* theorems are about = the real methods / kernels
    from harness import drivers_corr
    try:
        lfails = lfails + drivers_corr.run(ck, random.Random(ck.seed * 7919 + 66), ck.scale(30, 300))
    except Exception:
        ck.obligation('driver semantics correspondence ran', False, 'correspondence', traceback.format_exc()[-800:])
    # the compositions the C06_c_prop_* theorems are about (Proofs/WaveCProp.v cpu_c_prop / gpu_c_prop / level_ranges) = the two c_prop methods
    from harness import cprop_corr
    try:
        lfails = lfails + cprop_corr.run(ck, random.Random(ck.seed * 7919 + 67), ck.scale(12, 120))
    except Exception:
        ck.obligation('whole-propagation correspondence ran', False, 'correspondence', traceback.format_exc()[-800:])
    keyof = lambda d: 'options:' + d.get('kind', '?') + (':' + d['class'] if 'class' in d else '')
    unknown = [f for f in fails if ck.known_entry(keyof(f[0])) is None]
    ck.obligation('option / lane / code-path invariance holds on every generated configuration set (listed known findings excepted)',
                  not unknown, 'correspondence', unknown[0][1] if unknown else '')
    ck.rule('per circuit: LogicSim m=2/4/8 x {c_reuse} x {strip_forks} x more lanes x lane permutation; WaveSim/WaveSimCuda x {c_reuse} x '
            '{strip_forks with zero delay on fork inputs; every line compared, not only ports} x more lanes x lane permutation x c_prop(sims=j) x delay-dataset modes 0 and 1; WaveSim vs WaveSimCuda on overflowing waveforms (capacity 4 / per-line) incl. memory and overflow flags; '
            'line-level models wexec_alias / wexec_sel evaluated against the waveform memory of WaveSim(strip_forks=True) / WaveSim with 2..3 datasets')
    ck.trust('c_reuse invariance and CPU/GPU equality are decided by differential execution of the implementation against itself over all '
             'option pairs; the models of SimOps/LogicSim/WaveSim (C01-C05) are option-parametric and tied by correspondence for every option setting',
             'timing simulation: the strip_forks and dataset theorems speak about the line-level semantics wexec / wexec_alias / wexec_sel '
             '(Model/WaveOps.v, Model/WaveStripModel.v), which is tied to wave_sim._wave_eval / SimOps by evaluation on the memory the '
             'implementation produced (strip_forks=True and dataset tables, this check; options off, C03/C04/C13); mode 2 of the dataset '
             'selection (seeded pseudo-random pick per op) is a parameter of the model and not covered by a theorem')
    for desc, what in fails[:5]:
        ck.fail(keyof(desc), what, {'component': 'SimOps / LogicSim / WaveSim / WaveSimCuda options', 'input': desc, 'actual': what})
    for key, what, rp in lfails[:3]:
        ck.fail(key, what, dict(rp, actual=what))
    if not unknown:
        for m in line_mism[:3]:
            if 'glue_failed' in m:
                ck.fail('end-to-end-disagrees', 'the proved end-to-end statement (wavesim_model_correct) and the implementation disagree: ' + '; '.join(m['glue_failed']),
                        {'component': 'wave_sim.WaveSim / sim.SimOps (memory map, capture)', 'input': m, 'broken': ['correspondence end to end (wglue_case)']},
                        found_input=False)
                continue
            ck.fail('line-level-disagrees', f'line-level model ({m["kind"]}) and implementation disagree',
                    {'component': 'Model/WaveStripModel.v vs wave_sim._wave_eval / sim.SimOps', 'input': m,
                     'broken': ['correspondence line level (wexec_alias / wexec_sel)']}, found_input=False)


def replay(rp):
    import random
    inp = rp['input']
    if inp.get('kind') == 'wave' and 'circuit' in inp:
        try:
            desc, what = wave_options(random.Random(0), wk.from_description(inp))
        except Exception:
            return True
        return what is not None
    if inp.get('kind') == 'wavewide' and 'circuit' in inp:
        try:
            kk = wk.from_description(inp)
            kk.first_lanes = inp.get('first_lanes')
            desc, what = wave_wide(random.Random(0), kk)
        except Exception:
            return True
        return what is not None
    if inp.get('kind') in ('launch', 'threads'):
        from harness import launch_corr as lcr
        if inp['kind'] == 'launch':
            (gx, gy), (bx, by) = inp['grid'], inp['block']
            return lcr.trace_launch(gx, gy, bx, by) != [(g_x * bx + b_x, g_y * by + b_y) for g_x in range(gx) for g_y in range(gy) for b_x in range(bx) for b_y in range(by)]
        X, Y, (bx, by) = inp['X'], inp['Y'], inp['block']
        got = [q for q in lcr.trace_launch(-(X // -bx), -(Y // -by), bx, by) if q[0] < X and q[1] < Y]
        return sorted(got) != [(x, y) for x in range(X) for y in range(Y)]
    if inp.get('kind') == 'wavepath' and 'circuit' in inp:
        try:
            desc, what = wave_paths(random.Random(0), wk.from_description(inp))
        except Exception:
            return True
        return what is not None
    if inp.get('kind') == 'waveacc' and 'circuit' in inp:
        try:
            desc, what = wave_acc_paths(random.Random(0), wk.from_description(inp))
        except Exception:
            return True
        return what is not None
    if inp.get('kind') == 'logic' and 'circuit' in inp:
        c = cg.from_description(inp['circuit'])
        stim = np.array(inp['stimulus'], dtype=np.uint8)
        m = inp['m']
        ref = None
        try:
            for reuse in (False, True):
                for strip in (False, True):
                    if strip and not has_input_forks(c):
                        continue
                    for twice in (False, True):
                        from kyupy import logic, logic_sim
                        s2 = logic_sim.LogicSim(c, sims=stim.shape[1], m=m, c_reuse=reuse, strip_forks=strip)
                        s2.s[0] = logic.mv_to_bp(stim)
                        s2.s_to_c(); s2.c_prop()
                        if twice:
                            s2.c_prop()
                        s2.c_to_s()
                        mask = lc.ppo_mask(s2)
                        v = np.where(mask[:, None], logic.bp_to_mv(s2.s[1])[:, :stim.shape[1]], 255)
                        if ref is None:
                            ref = v
                        elif not np.array_equal(ref, v):
                            return True
        except Exception:
            return True
        return False
    return True
