"""C13 -- capture results and switching-activity counts faithfully summarise waveforms."""
import numpy as np
from harness import wavecheck as wk, waveoracle as wo, wavesim_corr as wc

THEOREMS = ['C13_wsa_counts', 'C13_overflow_mark', 'C13_no_overflow_is_exact', 'C13_capture_summary', 'C13_value_before_prefix',
            'C13_wacc_running', 'C13_wacc_final', 'C13_wacc_final_ssa', 'C13_acc_once_check_sound', 'C13_ovf_reach', 'C13_ovf_reach_clean', 'C13_circuit_capture', 'C13_flat_capture',
            'C13_wavesim_model_capture', 'C13_wavesim_model_activity']
THEOREMS += ['C13_kernel_source_is_model', 'C13_source_counts', 'C13_capture_cpu_source_is_model', 'C13_capture_gpu_source_is_model']   # source tie of the merge kernel (Gen/WaveEvalSrc.v)


THEOREMS += ['C13_driver_accumulate_is_model', 'C13_driver_capture_is_model']   # driver code from the source text (Gen/WaveDriversSrc.v)
THEOREMS += ['C13_wavesim_model_activity_strip', 'C13_wavesim_model_activity_strip_b', 'C13_strip_kept_op_fixpoint',
             'C13_activity_strip_hyps_example', 'C13_strip_branch_row_lost', 'C13_strip_branch_no_op']   # abuf under strip_forks vs the UNSTRIPPED line waveforms (Proofs/WaveStripAcc.v)

def oracle(k, w):
    for lane in range(k.sims):
        m = wo.check_capture(w, lane, k.tcap)
        if m:
            return f'lane {lane}: {m}'
    g = wk.run_case(k, cuda=True)      # the GPU capture kernel summarises the same waveforms
    for lane in range(k.sims):
        m = wo.check_capture(g, lane, k.tcap)
        if m:
            return f'WaveSimCuda lane {lane}: {m}'
    # overflow indicator clear => identical to the waveform computed with unlimited capacity
    big = wk.run_case(k, caps=64, reuse=False)
    s = np.asarray(w.s)
    mask = np.zeros(w.s_len, dtype=bool)
    mask[np.asarray(w.poppo_s_locs)] = True
    for p in range(w.s_len):
        if not mask[p] or np.asarray(w.c_locs)[w.ppo_offset + p] < 0:
            continue
        for lane in range(k.sims):
            if s[10, p, lane] == 0:
                a, ta = wo.waveform(w, w.ppo_offset + p, lane)
                b, tb = wo.waveform(big, big.ppo_offset + p, lane)
                if a != b or ta != tb:
                    return f'position {p} lane {lane}: overflow indicator clear but waveform {a[:8]} differs from the unlimited-capacity waveform {b[:8]}'
    # every op carries the accumulation control of its OUTPUT line (the per-op table that Model/WaveAcc.v wacc consumes)
    if k.a_ctrl is not None:
        pad = np.concatenate([np.asarray(k.a_ctrl), np.array([[-1, 0, 0]] * 3, dtype=np.int32)])
        for i, o in enumerate(np.asarray(w.ops)):
            if not np.array_equal(o[6:9], pad[o[1]]):
                return f'op {i} (output index {int(o[1])}) carries accumulation control {o[6:9].tolist()}, a_ctrl of its output line is {pad[o[1]].tolist()}'
    # weighted switching activity = weighted count of rising/falling transitions of the produced waveforms
    if k.a_ctrl is not None and not k.reuse:
        ops = np.asarray(w.ops)
        exp = np.zeros_like(np.asarray(w.abuf))
        for o in ops:
            # the accumulation-control row of the LINE the op writes (the table handed to the simulator, not the op's copy of it)
            acc, wr, wf = (int(v) for v in k.a_ctrl[o[1]]) if o[1] < len(k.a_ctrl) else (-1, 0, 0)
            if acc >= 0:
                for lane in range(k.sims):
                    body, _ = wo.waveform(w, int(o[1]), lane)
                    r, f = wo.count_edges(body)
                    exp[acc, lane] += r * wr + f * wf
        if w.abuf_len > 0 and not np.array_equal(exp, np.asarray(w.abuf)):
            return f'accumulated switching activity {np.asarray(w.abuf).tolist()} differs from the weighted transition counts {exp.tolist()}'
    return None


def ovf_pin_stress(ck, n):
    """Directed stream: ONE operand of a multi-input gate carries the overflow mark (it is the output of a parity stage with capacity 4 fed
    by four staggered transitions) while the other operands are short waveforms of different lengths; every pin position and every
    4-/3-input kind in turn.  The gate's own capacity is large, so its mark can only come from the marked operand."""
    import random
    from kyupy.circuit import Circuit, Node, Line
    rng = random.Random(ck.seed * 7919 + 1313)
    kinds = [('AND4', 4), ('NAND4', 4), ('OR4', 4), ('NOR4', 4), ('XOR4', 4), ('AO22', 4), ('OA22', 4), ('AO211', 4), ('and', 4), ('xnor', 4),
             ('AND3', 3), ('or3', 3), ('AO21', 3), ('MUX21', 3), ('XOR2', 2)]
    fails = []
    pairs = [(kind, ar, pin) for kind, ar in kinds for pin in range(ar)]
    for i in range(n):
        kind, ar, pin = pairs[i % len(pairs)]
        c = Circuit('ovf')
        pis = []
        for nm in ('p', 'q', 'r', 's', 'a', 'b', 'c'):
            pi = Node(c, nm, 'input'); c.io_nodes.append(pi); pis.append(pi)
        x1, x2, x = Node(c, 'x1', 'XOR2'), Node(c, 'x2', 'XOR2'), Node(c, 'x', 'XOR2')
        Line(c, pis[0], (x1, 0)); Line(c, pis[1], (x1, 1)); Line(c, pis[2], (x2, 0)); Line(c, pis[3], (x2, 1))
        Line(c, x1, (x, 0)); Line(c, x2, (x, 1))
        g = Node(c, 'g', kind)
        xl = Line(c, x, (g, pin))
        side = iter(pis[4:])
        for p_ in range(ar):
            if p_ != pin:
                Line(c, next(side), (g, p_))
        po = Node(c, 'z', 'output'); c.io_nodes.append(po)
        Line(c, g, po)
        k = wk.Case()
        k.c, k.reuse, k.strip, k.sims, k.tcap, k.a_ctrl = c, rng.random() < 0.3, False, 6, rng.choice([None, 25, 33]), None
        k.caps = [16] * len(c.lines)
        k.caps[xl.index] = 4
        k.delays, k.style = wc.gen_delays(rng, len(c.lines), rng.choice(['uniform', 'polfree', 'zero']))
        slen = len(c.s_nodes)
        k.s0 = np.array([[rng.randint(0, 1) for _ in range(k.sims)] for _ in range(slen)], dtype=np.float32)
        k.s2 = np.array([[rng.randint(0, 1) for _ in range(k.sims)] for _ in range(slen)], dtype=np.float32)
        k.s1 = np.array([[rng.randint(1, 50) for _ in range(k.sims)] for _ in range(slen)], dtype=np.float32)
        k.extra = {}
        for lane in range(k.sims):
            ts = sorted(rng.sample(range(5, 60), 4))
            for j in range(4):      # four staggered single transitions into the parity stage: more transitions on x than capacity 4 holds
                k.extra[(j, lane)] = ([] if rng.random() < 0.5 else ['MinInf']) + [ts[j]] + ['MaxInf']
        try:
            w = wk.run_case(k)
            what = oracle(k, w)
        except Exception as e:
            what = f'raises {type(e).__name__}: {e}'
        ck.count(k.sims, 'overflow-on-one-operand')
        ck.nontrivial(('ovfpin', kind, pin))
        if what:
            fails.append((wk.describe(k), f'overflow mark on operand {pin} of {kind}: ' + what))
    return fails


def run(ck):
    wk.regen_kernel(ck)
    wk.regen_drivers(ck)
    if THEOREMS:
        ck.prove('C13', THEOREMS)
    fails, mism = wk.campaign(ck, ck.scale(40, 1200), oracle, gen_kw={'with_actrl': True, 'allow_dangling': False, 'strip_prob': 0.3}, coq_lanes=1, coq_every=2, stress_every=3, line_level=True, glue=True)
    ck.rule('random circuits x delays x capacities (incl. overflowing) x capture times (incl. ties with entries) x accumulation-control '
            'tables (shared accumulators, weights 0..3); oracle: recount from the stored waveforms (CPU and GPU capture), rerun with capacity 64')
    fails = ovf_pin_stress(ck, ck.scale(54, 540)) + fails
    wk.report(ck, fails, mism, 'wavesim:capture', 'wave_sim.WaveSim capture/abuf')


def replay(rp):
    if 'warm_round' in rp.get('input', {}):
        return wk.warm_replay(rp['input'])
    if 'copied_simulator' in rp.get('input', {}):
        return wk.copied_replay(rp['input'], oracle)
    if 'pre_extra' in rp.get('input', {}):
        return wk.pre_extra_replay(rp['input'])
    k = wk.from_description(rp['input'])
    try:
        w = wk.run_case(k)
    except Exception:
        return True
    return oracle(k, w) is not None
