"""C13 -- capture results and switching-activity counts faithfully summarise waveforms."""
import numpy as np
from harness import wavecheck as wk, waveoracle as wo, wavesim_corr as wc

THEOREMS = ['C13_wsa_counts', 'C13_overflow_mark', 'C13_no_overflow_is_exact', 'C13_capture_summary', 'C13_value_before_prefix',
            'C13_wacc_running', 'C13_wacc_final', 'C13_wacc_final_ssa', 'C13_acc_once_check_sound', 'C13_ovf_reach', 'C13_ovf_reach_clean', 'C13_circuit_capture', 'C13_flat_capture',
            'C13_wavesim_model_capture', 'C13_wavesim_model_activity']


def oracle(k, w):
    for lane in range(k.sims):
        m = wo.check_capture(w, lane, k.tcap)
        if m:
            return f'lane {lane}: {m}'
    g = wk.run_case(k, cuda=True)      # the GPU capture kernel summarises the same waveforms
    for lane in range(k.sims):
        m = wo.check_capture(g, lane, k.tcap)
        if m:
            return f'WaveSimCuda lane {lane}: {m}'
    # overflow indicator clear => identical to the waveform computed with unlimited capacity
    big = wk.run_case(k, caps=64, reuse=False)
    s = np.asarray(w.s)
    mask = np.zeros(w.s_len, dtype=bool)
    mask[np.asarray(w.poppo_s_locs)] = True
    for p in range(w.s_len):
        if not mask[p] or np.asarray(w.c_locs)[w.ppo_offset + p] < 0:
            continue
        for lane in range(k.sims):
            if s[10, p, lane] == 0:
                a, ta = wo.waveform(w, w.ppo_offset + p, lane)
                b, tb = wo.waveform(big, big.ppo_offset + p, lane)
                if a != b or ta != tb:
                    return f'position {p} lane {lane}: overflow indicator clear but waveform {a[:8]} differs from the unlimited-capacity waveform {b[:8]}'
    # every op carries the accumulation control of its OUTPUT line (the per-op table that Model/WaveAcc.v wacc consumes)
    if k.a_ctrl is not None:
        pad = np.concatenate([np.asarray(k.a_ctrl), np.array([[-1, 0, 0]] * 3, dtype=np.int32)])
        for i, o in enumerate(np.asarray(w.ops)):
            if not np.array_equal(o[6:9], pad[o[1]]):
                return f'op {i} (output index {int(o[1])}) carries accumulation control {o[6:9].tolist()}, a_ctrl of its output line is {pad[o[1]].tolist()}'
    # weighted switching activity = weighted count of rising/falling transitions of the produced waveforms
    if k.a_ctrl is not None and not k.reuse:
        ops = np.asarray(w.ops)
        exp = np.zeros_like(np.asarray(w.abuf))
        for o in ops:
            # the accumulation-control row of the LINE the op writes (the table handed to the simulator, not the op's copy of it)
            acc, wr, wf = (int(v) for v in k.a_ctrl[o[1]]) if o[1] < len(k.a_ctrl) else (-1, 0, 0)
            if acc >= 0:
                for lane in range(k.sims):
                    body, _ = wo.waveform(w, int(o[1]), lane)
                    r, f = wo.count_edges(body)
                    exp[acc, lane] += r * wr + f * wf
        if w.abuf_len > 0 and not np.array_equal(exp, np.asarray(w.abuf)):
            return f'accumulated switching activity {np.asarray(w.abuf).tolist()} differs from the weighted transition counts {exp.tolist()}'
    return None


def run(ck):
    if THEOREMS:
        ck.prove('C13', THEOREMS)
    fails, mism = wk.campaign(ck, ck.scale(40, 1200), oracle, gen_kw={'with_actrl': True, 'allow_dangling': False, 'strip_prob': 0.3}, coq_lanes=1, coq_every=2, stress_every=3, line_level=True, glue=True)
    ck.rule('random circuits x delays x capacities (incl. overflowing) x capture times (incl. ties with entries) x accumulation-control '
            'tables (shared accumulators, weights 0..3); oracle: recount from the stored waveforms (CPU and GPU capture), rerun with capacity 64')
    wk.report(ck, fails, mism, 'wavesim:capture', 'wave_sim.WaveSim capture/abuf')


def replay(rp):
    if 'warm_round' in rp.get('input', {}):
        return wk.warm_replay(rp['input'])
    k = wk.from_description(rp['input'])
    try:
        w = wk.run_case(k)
    except Exception:
        return True
    return oracle(k, w) is not None
