"""C04 -- transitions stay inside the static-timing window and move rigidly with inputs."""
import numpy as np
from harness import wavecheck as wk, waveoracle as wo, wavesim_corr as wc

THEOREMS = ['C04_emit_is_sum', 'C04_shift_equivariant', 'C04_scale_equivariant', 'C04_mono_polarity_free', 'C04_sta_window',
            'C04_circuit_shift', 'C04_circuit_scale', 'C04_circuit_shift_inputs', 'C04_circuit_scale_inputs', 'C04_circuit_mono']
THEOREMS += ['C04_kernel_source_is_model', 'C04_source_emit_is_sum']   # source tie of the merge kernel (Gen/WaveEvalSrc.v)


def finite_mask(m):
    return (m > wc.TMIN) & (m < wc.TMAX)


def shifted_run(k, delta=None, factor=None):
    k2 = wk.from_description(wk.describe(k))
    f = (lambda t: t + delta) if delta is not None else (lambda t: t * factor)
    k2.s1 = f(k.s1.astype(np.float64)).astype(np.float32)
    k2.extra = {key: [(f(t) if not isinstance(t, str) else t) for t in wf] for key, wf in k.extra.items()}
    if factor is not None:
        k2.delays = np.asarray(k.delays) * factor
    k2.tcap = None
    return k2, wk.run_case(k2)


def oracle(k, w):
    polfree = k.style in ('zero', 'uniform', 'polfree')
    for lane in range(k.sims):
        times = wo.stim_times(k.s0, k.s1, k.s2, k.extra, len(k.c.s_nodes), lane)
        m = wo.check_sta(w, k.c, np.asarray(k.delays), times, lane, k.strip, all_lines=not k.reuse, polfree=polfree)
        if m:
            return f'lane {lane}: {m}'
        if not k.reuse:
            m = wo.check_emit_sum(w, k.c, np.asarray(k.delays), lane, k.strip)
            if m:
                return f'lane {lane}: {m}'
    base = np.asarray(w.c).astype(np.float64)
    fm = finite_mask(base)
    for delta in (16.0, -5.0):
        k2, w2 = shifted_run(k, delta=delta)
        got = np.asarray(w2.c).astype(np.float64)
        exp = np.where(fm, base + delta, base)
        # unused stimulus times of constant inputs are shifted too but never enter a waveform
        if not np.array_equal(got, exp):
            i = np.argwhere(got != exp)[0]
            return f'shifting all input transitions by {delta}: memory cell {i.tolist()} is {got[tuple(i)]}, expected {exp[tuple(i)]}'
        if not np.array_equal(np.asarray(w2.s)[[3, 6, 10]], np.asarray(w.s)[[3, 6, 10]]):
            return f'shifting all input transitions by {delta} changed captured init/final/overflow'
    for factor in (4.0, 0.5):
        if factor < 1 and (np.asarray(k.delays) % 2).any():
            continue
        if factor < 1 and (any((t % 2) for wf in k.extra.values() for t in wf if not isinstance(t, str)) or (k.s1 % 2).any()):
            continue
        k2, w2 = shifted_run(k, factor=factor)
        got = np.asarray(w2.c).astype(np.float64)
        exp = np.where(fm, base * factor, base)
        if not np.array_equal(got, exp):
            i = np.argwhere(got != exp)[0]
            return f'scaling times and delays by {factor}: memory cell {i.tolist()} is {got[tuple(i)]}, expected {exp[tuple(i)]}'
    return None


def gate_stress(ck, n):
    """single multi-input gates with small polarity-free integer delays and dense multi-transition stimuli: many simultaneous
    arrivals (zero-width hazards), the situations in which the pulse filter decides"""
    import random
    from kyupy.circuit import Circuit, Node, Line
    rng = random.Random(ck.seed * 7919 + 404)
    kinds = [('AND3', 3), ('OR3', 3), ('XOR3', 3), ('NAND4', 4), ('NOR4', 4), ('AO21', 3), ('OAI22', 4), ('MUX21', 3), ('AO211', 4), ('XNOR4', 4)]
    fails = []
    for i in range(n):
        kind, ar = rng.choice(kinds)
        c = Circuit('g')
        g = Node(c, 'g', kind)
        for p in range(ar):
            pi = Node(c, f'i{p}', 'input'); c.io_nodes.append(pi)
            Line(c, pi, (g, p))
        po = Node(c, 'z', 'output'); c.io_nodes.append(po)
        Line(c, g, po)
        k = wk.Case()
        k.c, k.reuse, k.strip, k.sims, k.tcap, k.a_ctrl = c, False, False, 4, None, None
        k.caps = rng.choice([8, 16])
        polfree = rng.random() < 0.7
        d = np.zeros((len(c.lines), 2, 2))
        for li in range(len(c.lines)):
            d[li] = rng.randint(0, 3) if polfree else np.array([rng.randint(0, 3) for _ in range(4)]).reshape(2, 2)
        k.delays, k.style = d, 'polfree' if polfree else 'full'
        k.s0, k.s1, k.s2, k.extra = wc.gen_stimulus(rng, c, k.sims, tmax=6, extra_prob=0.9, max_trans=3)
        try:
            w = wk.run_case(k)
            what = oracle(k, w)
        except Exception as e:
            what = f'raises {type(e).__name__}: {e}'
        ck.count(k.sims, 'gate-stress')
        ck.nontrivial(('gs', kind, i))
        if what:
            fails.append((wk.describe(k), 'single-gate stress (' + kind + '): ' + what))
    return fails


def dataset_stress(ck, n):
    """Several delay datasets on one simulator with mixed per-simulation selection modes: every lane's transitions must lie in the
    static-timing window of the dataset that lane is annotated with (and obey emit-is-sum with it)."""
    import random
    rng = random.Random(ck.seed * 7919 + 4404)
    fails = []
    for i in range(n):
        k = wk.gen_wave_case(rng, n_gates=rng.choice([3, 5, 8]), sims=rng.choice([2, 3, 5]), reuse=False, strip=False, extra_prob=0.5)
        k.tcap = None
        try:
            w, dsets, eff, how = wk.mixed_dataset_run(rng, k, cuda=(i % 4 == 3))
            what = None
            for lane in range(k.sims):
                times = wo.stim_times(k.s0, k.s1, k.s2, k.extra, len(k.c.s_nodes), lane)
                m = wo.check_sta(w, k.c, np.asarray(dsets[eff[lane]]), times, lane, False, all_lines=True, polfree=False) or \
                    wo.check_emit_sum(w, k.c, np.asarray(dsets[eff[lane]]), lane, False)
                if m:
                    what = f'lane {lane} (dataset {eff[lane]} by its selection mode): {m}'
                    break
        except Exception as e:
            how, what = {}, f'raises {type(e).__name__}: {e}'
        ck.count(k.sims, 'mixed-dataset-modes')
        if what:
            fails.append((dict(wk.describe(k), dataset_selection=how), 'delay dataset selection: ' + what))
    return fails


def run(ck):
    wk.regen_kernel(ck)
    if THEOREMS:
        ck.prove('C04', THEOREMS)
    fails, mism = wk.campaign(ck, ck.scale(60, 1500), oracle, gen_kw={'extra_prob': 0.6, 'strip_prob': 0.25}, coq_lanes=1, coq_every=2, line_level=True)
    ck.rule('random circuits x integer delay tables x capacities x multi-transition input waveforms on the integer (dyadic) grid; '
            'oracle: independent static timing analysis over the annotated netlist, reruns shifted by +16/-5 and scaled by 4 and 1/2, '
            'strict monotonicity for polarity-independent delay tables')
    fails = gate_stress(ck, ck.scale(300, 6000)) + dataset_stress(ck, ck.scale(24, 400)) + fails
    wk.report(ck, fails, mism, 'wavesim:sta', 'wave_sim.WaveSim')


def replay(rp):
    if 'warm_round' in rp.get('input', {}):
        return wk.warm_replay(rp['input'])
    if 'copied_simulator' in rp.get('input', {}):
        return wk.copied_replay(rp['input'], oracle)
    if 'pre_extra' in rp.get('input', {}):
        return wk.pre_extra_replay(rp['input'])
    if 'dataset_selection' in rp.get('input', {}):
        k, how = wk.from_description(rp['input']), rp['input']['dataset_selection']
        try:
            ctl, dsets = np.array(how['simctl'], dtype=np.int32), np.array(how['datasets'])
            w = wc.run_wavesim(k.c, dsets, k.sims, k.caps, k.reuse, k.strip, k.s0, k.s1, k.s2, k.extra, k.tcap, simctl=ctl, seed=how['seed'])
            for lane in range(k.sims):
                e = how['seed'] if ctl[1][lane] == 0 else int(ctl[0][lane])
                times = wo.stim_times(k.s0, k.s1, k.s2, k.extra, len(k.c.s_nodes), lane)
                if wo.check_sta(w, k.c, dsets[e], times, lane, False, all_lines=True, polfree=False) or wo.check_emit_sum(w, k.c, dsets[e], lane, False):
                    return True
            return False
        except Exception:
            return True
    k = wk.from_description(rp['input'])
    try:
        w = wk.run_case(k)
    except Exception:
        return True
    return oracle(k, w) is not None
