"""C04 -- transitions stay inside the static-timing window and move rigidly with inputs."""
import numpy as np
from harness import wavecheck as wk, waveoracle as wo, wavesim_corr as wc

THEOREMS = ['C04_emit_is_sum', 'C04_shift_equivariant', 'C04_scale_equivariant', 'C04_mono_polarity_free']


def finite_mask(m):
    return (m > wc.TMIN) & (m < wc.TMAX)


def shifted_run(k, delta=None, factor=None):
    k2 = wk.from_description(wk.describe(k))
    f = (lambda t: t + delta) if delta is not None else (lambda t: t * factor)
    k2.s1 = f(k.s1.astype(np.float64)).astype(np.float32)
    k2.extra = {key: [(f(t) if not isinstance(t, str) else t) for t in wf] for key, wf in k.extra.items()}
    if factor is not None:
        k2.delays = np.asarray(k.delays) * factor
    k2.tcap = None
    return k2, wk.run_case(k2)


def oracle(k, w):
    polfree = k.style in ('zero', 'uniform', 'polfree')
    for lane in range(k.sims):
        times = wo.stim_times(k.s0, k.s1, k.s2, k.extra, len(k.c.s_nodes), lane)
        m = wo.check_sta(w, k.c, np.asarray(k.delays), times, lane, k.strip, all_lines=not k.reuse, polfree=polfree)
        if m:
            return f'lane {lane}: {m}'
        if not k.reuse:
            m = wo.check_emit_sum(w, k.c, np.asarray(k.delays), lane, k.strip)
            if m:
                return f'lane {lane}: {m}'
    base = np.asarray(w.c).astype(np.float64)
    fm = finite_mask(base)
    for delta in (16.0, -5.0):
        k2, w2 = shifted_run(k, delta=delta)
        got = np.asarray(w2.c).astype(np.float64)
        exp = np.where(fm, base + delta, base)
        # unused stimulus times of constant inputs are shifted too but never enter a waveform
        if not np.array_equal(got, exp):
            i = np.argwhere(got != exp)[0]
            return f'shifting all input transitions by {delta}: memory cell {i.tolist()} is {got[tuple(i)]}, expected {exp[tuple(i)]}'
        if not np.array_equal(np.asarray(w2.s)[[3, 6, 10]], np.asarray(w.s)[[3, 6, 10]]):
            return f'shifting all input transitions by {delta} changed captured init/final/overflow'
    for factor in (4.0, 0.5):
        if factor < 1 and (np.asarray(k.delays) % 2).any():
            continue
        if factor < 1 and (any((t % 2) for wf in k.extra.values() for t in wf if not isinstance(t, str)) or (k.s1 % 2).any()):
            continue
        k2, w2 = shifted_run(k, factor=factor)
        got = np.asarray(w2.c).astype(np.float64)
        exp = np.where(fm, base * factor, base)
        if not np.array_equal(got, exp):
            i = np.argwhere(got != exp)[0]
            return f'scaling times and delays by {factor}: memory cell {i.tolist()} is {got[tuple(i)]}, expected {exp[tuple(i)]}'
    return None


def run(ck):
    if THEOREMS:
        ck.prove('C04', THEOREMS)
    fails, mism = wk.campaign(ck, ck.scale(60, 1500), oracle, gen_kw={'extra_prob': 0.6}, coq_lanes=1, coq_every=2)
    ck.rule('random circuits x integer delay tables x capacities x multi-transition input waveforms on the integer (dyadic) grid; '
            'oracle: independent static timing analysis over the annotated netlist, reruns shifted by +16/-5 and scaled by 4 and 1/2, '
            'strict monotonicity for polarity-independent delay tables')
    wk.report(ck, fails, mism, 'wavesim:sta', 'wave_sim.WaveSim')


def replay(rp):
    k = wk.from_description(rp['input'])
    try:
        w = wk.run_case(k)
    except Exception:
        return True
    return oracle(k, w) is not None
