"""C07 -- the published level partition is a valid parallel schedule."""
import random
import traceback
import numpy as np

from harness import circgen as cg, logicsim_corr as lc, simcheck as sk, wavecheck as wk, wavesim_corr as wc, map_oracle as mo

THEOREMS = ['C07_levels_valid', 'C07_any_order_in_level', 'C07_threads_once', 'C07_build_ops_ssa', 'C07_build_levels_valid',
            'C07_build_stems_defined', 'C07_stems_are_chain_heads', 'C07_build_ops_ssa_strip', 'C07_build_levels_valid_strip', 'C07_build_sched_cert',
            'C07_launcher_source_is_model']
THEOREMS += ['C07_simops_stems_source_is_model', 'C07_simops_levels_source_is_model', 'C07_simops_op_ok_checkable',
             'C07_simops_levels_source_nonvacuous', 'C07_simops_stems_source_is_model_wf', 'C07_simops_levels_source_is_model_wf']


def permute_levels(sim, rng):
    ops = np.asarray(sim.ops)
    new = ops.copy()
    for a, b in zip(sim.level_starts, sim.level_stops):
        idx = list(range(a, b))
        rng.shuffle(idx)
        new[a:b] = ops[idx]
    return new


def signal_cells(w, c):
    """memory cells that belong to signals (lines, ports) -- the single scratch slot of output-less gates is excluded"""
    keep = np.ones(w.c_len, dtype=bool)
    for idx in (w.tmp_idx, w.tmp2_idx):
        loc, cap = int(np.asarray(w.c_locs)[idx]), int(np.asarray(w.c_caps)[idx])
        keep[loc:loc + cap] = False
    return keep


def logic_perm(rng, nrng):
    m = rng.choice([2, 4, 8])
    values = {2: [0, 3], 4: [0, 1, 2, 3], 8: list(range(8))}[m]
    c, a, sims, stim = sk.gen_case(rng, nrng, values)
    reuse, strip = rng.random() < 0.6, rng.random() < 0.4 and all(len(f.ins) > 0 for f in c.forks.values())
    desc = {'kind': 'logic', 'circuit': cg.describe(c), 'm': m, 'c_reuse': reuse, 'strip_forks': strip, 'stimulus': stim.tolist()}
    from kyupy import logic, logic_sim
    base, s1, _ = lc.run_logicsim(c, m, stim, reuse, strip)
    msg = mo.check_map(base, c, strip)
    if msg:
        return desc, 'schedule/map: ' + msg
    keep = signal_cells(base, c)
    for t in range(3):
        s = logic_sim.LogicSim(c, sims=sims, m=m, c_reuse=reuse, strip_forks=strip)
        s.ops = permute_levels(s, rng)
        s.s[0] = logic.mv_to_bp(stim)
        s.s_to_c(); s.c_prop(); s.c_to_s()
        if not np.array_equal(s.s[1], base.s[1]):
            return desc, f'LogicSim(m={m}): permuting the operations inside the levels changes the captured results'
        if not np.array_equal(s.c[keep], base.c[keep]):
            return desc, f'LogicSim(m={m}): permuting the operations inside the levels changes signal memory'
    return desc, None


class PermutedLauncher:
    """Replacement for MockCuda's launcher: same kernel, thread order permuted."""

    def __init__(self, launcher, cuda, rng):
        self.func, self.cuda, self.rng = launcher.func, cuda, rng

    def __call__(self, *a, **k):
        return self.func(*a, **k)

    def __getitem__(self, item):
        grid_dim, block_dim = item

        def inner(*args, **kwargs):
            coords = [(gx * block_dim[0] + bx, gy * block_dim[1] + by) for gx in range(grid_dim[0]) for gy in range(grid_dim[1])
                      for bx in range(block_dim[0]) for by in range(block_dim[1])]
            self.rng.shuffle(coords)
            for x, y in coords:
                self.cuda.x, self.cuda.y = x, y
                self.func(*args, **kwargs)
        return inner


def wave_perm(rng):
    from kyupy import wave_sim
    k = wk.gen_wave_case(rng, sims=rng.choice([1, 2, 3]), with_actrl=rng.random() < 0.5)
    desc = dict(wk.describe(k), kind='wave')
    base = wk.run_case(k)
    msg = mo.check_map(base, k.c, k.strip)
    if msg:
        return desc, 'schedule/map: ' + msg
    keep = signal_cells(base, k.c)
    ref_c, ref_s, ref_a = np.asarray(base.c), np.asarray(base.s)[3:], np.asarray(base.abuf)
    # permuted op order inside levels, CPU path
    import io, contextlib
    for t in range(2):
        with contextlib.redirect_stdout(io.StringIO()):
            w = wave_sim.WaveSim(k.c, k.delays, sims=k.sims, c_caps=k.caps, a_ctrl=k.a_ctrl, c_reuse=k.reuse, strip_forks=k.strip)
        w.ops = permute_levels(w, rng)
        w.simctl_int[1] = 0
        w.s[0], w.s[1], w.s[2] = k.s0, k.s1, k.s2
        w.s_to_c()
        for (p, lane), wf in k.extra.items():
            loc = w.c_locs[w.ppi_offset + p]
            if loc >= 0:
                for j, tt in enumerate(wf):
                    w.c[loc + j, lane] = wc.to_f32(tt)
        w.c_prop()
        w.c_to_s(time=(wave_sim.TMAX if k.tcap is None else k.tcap))
        if not np.array_equal(np.asarray(w.s)[3:], ref_s) or not np.array_equal(np.asarray(w.abuf), ref_a):
            return desc, 'WaveSim: permuting the operations inside the levels changes results / accumulated activity'
        if not np.array_equal(np.asarray(w.c)[keep], ref_c[keep]):
            return desc, 'WaveSim: permuting the operations inside the levels changes signal memory'
    # permuted thread order of the mock GPU launcher
    saved = (wave_sim.wave_eval_gpu, wave_sim.wave_assign_gpu, wave_sim.wave_capture_gpu)
    try:
        wave_sim.wave_eval_gpu = PermutedLauncher(saved[0], wave_sim.cuda, rng)
        wave_sim.wave_assign_gpu = PermutedLauncher(saved[1], wave_sim.cuda, rng)
        wave_sim.wave_capture_gpu = PermutedLauncher(saved[2], wave_sim.cuda, rng)
        g = wk.run_case(k, cuda=True)
    finally:
        wave_sim.wave_eval_gpu, wave_sim.wave_assign_gpu, wave_sim.wave_capture_gpu = saved
    if not np.array_equal(np.asarray(g.s)[3:], ref_s) or not np.array_equal(np.asarray(g.abuf), ref_a):
        return desc, 'WaveSimCuda with a permuted thread order: results / accumulated activity differ'
    if not np.array_equal(np.asarray(g.c)[keep], ref_c[keep]):
        return desc, 'WaveSimCuda with a permuted thread order: signal memory differs'
    return desc, None


def run(ck):
    if THEOREMS:
        from vcheck import gen_all
        gen_all.generate(['LaunchSrc'])     # tie T for the launcher: regenerated before the build (obligation recorded by launch_corr.run)
        from harness import simops_corr as sc0
        ok_src = sc0.translate_simops(ck)   # tie T for the scheduler (stem table, level pass)
        ck.prove('C07', THEOREMS)
        if ok_src:
            sc0.run_source_corr(ck, random.Random(ck.seed * 7919 + 107), ck.scale(8, 200), 'schedule')
    rng = random.Random(ck.seed * 7919 + 7)
    nrng = np.random.default_rng(ck.seed + 7)
    fails = []
    from harness import simops_corr as sc
    certs = []
    for i in range(ck.scale(30, 600)):
        c, a = cg.gen_circuit(rng)
        certs.append((c, rng.random() < 0.6, rng.random() < 0.5))
    sc.run_certs(ck, certs, 'schedule')
    sc.run_op_ok(ck, certs, 'schedule')
    # the hypotheses of C07_build_ops_ssa(_strip) / C07_build_levels_valid(_strip) hold for the generated circuits
    hyp = [f'(wf_netlist_b {cg.coq_netlist(c)} && acyclic_b {cg.coq_netlist(c)} && '
           f'match build_stems {cg.coq_netlist(c)} true ({len(c.lines)} + 3 + 2 * {len(c.s_nodes)}) with Some _ => true | None => false end)'
           for c, _, _ in certs]
    okh, outh = ck.coq_eval('hyp', sc.HEADER.replace('Model.Corr.', 'Model.Corr Proofs.WfCheck.') +
                            'Definition results : list bool := [\n ' + ';\n '.join(hyp) + '].\nEval vm_compute in (failing results).\n')
    idxh = cg.parse_nat_list(outh) if okh else None
    ck.obligation(f'hypotheses of the schedule theorems (wf_netlist, comb_acyclic by the proved-sound checkers; build_stems defined) '
                  f'hold on {len(hyp)} generated circuits', idxh == [], 'correspondence', '' if idxh == [] else outh[-400:])
    for i in range(ck.scale(40, 1200)):
        try:
            desc, what = logic_perm(rng, nrng)
        except Exception:
            desc, what = {'kind': 'logic'}, 'raises ' + traceback.format_exc()[-500:]
        ck.count(3, 'logic-level-permutations')
        ck.nontrivial(('l', i))
        if what:
            fails.append((desc, what))
    for i in range(ck.scale(30, 900)):
        try:
            desc, what = wave_perm(rng)
        except Exception:
            desc, what = {'kind': 'wave'}, 'raises ' + traceback.format_exc()[-500:]
        ck.count(3, 'wave-level/thread-permutations')
        ck.nontrivial(('w', i))
        if what:
            fails.append((desc, what))
        if i < 2:
            ck.sample({'kind': 'wave', 'nodes': len(desc.get('circuit', {}).get('nodes', [])), 'c_reuse': desc.get('c_reuse'), 'sims': desc.get('sims')})
    ck.obligation('every permutation of operations inside levels / of mock-GPU threads gives bit-identical signal memories and results',
                  not fails, 'correspondence', fails[0][1] if fails else '')
    # the launcher model that C07_threads_once is about = the real MockCuda launcher
    from harness import launch_corr
    lfails = launch_corr.run(ck, rng, ck.scale(16, 120))
    ck.rule('random circuits x options; op rows permuted inside every level (LogicSim 2/4/8, WaveSim), mock GPU launcher iterating a '
            'random thread order (assign, eval, capture kernels); independent schedule checker (operands produced in earlier levels, '
            'released memory not handed out in the same level)')
    ck.trust('the theorems are about the Gallina transcription of the levelisation (Model/SimOps.v levelize/split_levels) and the '
             'line-level op semantics (Model/AllocCheck.v); that SimOps.build emits an op list in single-assignment topological form '
             '(ssa_topo) is a theorem for every well-formed acyclic netlist, with and without fork stripping (C07_build_ops_ssa, '
             'C07_build_ops_ssa_strip), and is additionally evaluated per generated circuit by the certificate; an interleaving '
             'semantics below kernel-instance granularity is not modelled, and the mock launcher cannot exhibit it')
    for desc, what in fails[:5]:
        ck.fail('schedule:' + desc.get('kind', '?'), what, {'component': 'SimOps levels / level_eval / MockCuda launcher', 'input': desc, 'actual': what})
    for key, what, rp in lfails[:3]:
        ck.fail(key, what, dict(rp, actual=what))


def replay(rp):
    """re-runs the schedule checker and ten random level/thread permutations on the recorded circuit"""
    import random
    inp = rp['input']
    rng = random.Random(1)
    if inp.get('kind') in ('launch', 'threads'):
        from vcheck.props import C06
        return C06.replay(rp)
    try:
        if inp.get('kind') == 'wave' and 'circuit' in inp:
            k = wk.from_description(inp)
            base = wk.run_case(k)
            if mo.check_map(base, k.c, k.strip):
                return True
            keep = signal_cells(base, k.c)
            from kyupy import wave_sim
            for t in range(10):
                saved = (wave_sim.wave_eval_gpu, wave_sim.wave_assign_gpu, wave_sim.wave_capture_gpu)
                try:
                    wave_sim.wave_eval_gpu = PermutedLauncher(saved[0], wave_sim.cuda, rng)
                    wave_sim.wave_assign_gpu = PermutedLauncher(saved[1], wave_sim.cuda, rng)
                    wave_sim.wave_capture_gpu = PermutedLauncher(saved[2], wave_sim.cuda, rng)
                    g = wk.run_case(k, cuda=True)
                finally:
                    wave_sim.wave_eval_gpu, wave_sim.wave_assign_gpu, wave_sim.wave_capture_gpu = saved
                if (not np.array_equal(np.asarray(g.s)[3:], np.asarray(base.s)[3:]) or not np.array_equal(np.asarray(g.abuf), np.asarray(base.abuf))
                        or not np.array_equal(np.asarray(g.c)[keep], np.asarray(base.c)[keep])):
                    return True
            return False
        if inp.get('kind') == 'logic' and 'circuit' in inp:
            from kyupy import logic, logic_sim
            c = cg.from_description(inp['circuit'])
            stim = np.array(inp['stimulus'], dtype=np.uint8)
            base, s1, _ = lc.run_logicsim(c, inp['m'], stim, inp['c_reuse'], inp['strip_forks'])
            if mo.check_map(base, c, inp['strip_forks']):
                return True
            keep = signal_cells(base, c)
            for t in range(10):
                s = logic_sim.LogicSim(c, sims=stim.shape[1], m=inp['m'], c_reuse=inp['c_reuse'], strip_forks=inp['strip_forks'])
                s.ops = permute_levels(s, rng)
                s.s[0] = logic.mv_to_bp(stim)
                s.s_to_c(); s.c_prop(); s.c_to_s()
                if not np.array_equal(s.s[1], base.s[1]) or not np.array_equal(s.c[keep], base.c[keep]):
                    return True
            return False
    except Exception:
        return True
    return True
