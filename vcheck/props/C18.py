"""C18 -- STIL patterns map scan data onto flip-flops by chain order and inversion."""
import os
import random
import multiprocessing
from concurrent.futures import ProcessPoolExecutor
from harness import stil_gen as sg, stil_corr as sc, circgen as cg, stil_text as st, stil_maps_src as sms
from vcheck import core

THEOREMS = ['C18_scan_load_position', 'C18_scan_unload_position', 'C18_pi_group_position', 'C18_po_group_position',
            'C18_interface_is_s_nodes', 'C18_loc_transition_position', 'C18_loc_pi_transition_position', 'C18_mv_transition_spec',
            'C18_tests_column', 'C18_responses_column', 'C18_tests_loc_column',
            'C18_scan_load_position_v0_refuted', 'C18_interface_v0_refuted',
            'C18_text_parse_cst', 'C18_text_parse_stil_cst', 'C18_text_language', 'C18_text_language_stil', 'C18_text_ignored_block_iff', 'C18_text_ignored_block_skipped', 'C18_text_layout_irrelevant', 'C18_text_compact_same',
            'C18_text_transform_core', 'C18_text_ignored_irrelevant', 'C18_text_parse_print', 'C18_text_chain_as_written',
            'C18_text_group_as_written', 'C18_text_calls_as_written', 'C18_text_scan_load_position', 'C18_text_scan_unload_position',
            'C18_text_pi_group_position', 'C18_text_po_group_position']
# source tie (translation): Gen/StilMapsSrc.v (StilFile._maps) = Model/Stil.v maps_gen true
THEOREMS += ['C18_maps_source_is_model', 'C18_maps_source_nonvacuous']
CHUNK = 12


def make_case(rng, edge):
    d = sg.gen_design(rng, rng.choice(['plain', 'plain', 'mixed']))
    style = rng.choice(['sa', 'loc'])
    pats = sg.gen_patterns(rng, d, style)
    if edge:
        kind, calls, chains, groups = sg.gen_edge(rng, d, pats)
        text = sg.render_stil(rng, d, calls, chains, groups)
    else:
        kind, calls, chains = 'valid', sg.calls_of(d, pats), None
        text = sg.render_stil(rng, d, calls)
    c = sg.build_circuit(d)
    return d, style, pats, kind, calls, chains, text, c


def classify(d, info):
    """key of a failure (matched against known_findings.json): 'interface-order' = rows missing / KeyError in a design with
    lower-case flip-flop kinds or latches; 'scan-inversion' = wrong value at a scan cell of a chain whose cells see
    different inversion parities; otherwise the function name"""
    if d.profile == 'mixed' and ('rows' in info or 'KeyError' in str(info.get('raises'))):
        return 'interface-order'
    name = info.get('name')
    for ch in d.chains:
        if name in ch['items']:
            idx = [i for i, x in enumerate(ch['items']) if x != '!']
            par = {(ch['items'][i + 1:] if info['fn'] == 'resp' else ch['items'][:i]).count('!') % 2 for i in idx}
            if len(par) > 1:
                return 'scan-inversion'
    return info['fn']


def _real(args):
    try:
        return sc.real_file_oracle(*args)
    except Exception as e:   # noqa
        return f'harness error {type(e).__name__}: {e}', -1


def run(ck):
    # the two TetraMAX files shipped with the repository, read independently (regex) -- in the background
    tdir = os.path.join(core.REPO, 'tests')
    real_jobs = [(os.path.join(tdir, 'b15_2ig.sa_nf.stil.gz'), os.path.join(tdir, 'b15_2ig.v.gz'), False),
                 (os.path.join(tdir, 'b15_2ig.tf_nf.stil.gz'), os.path.join(tdir, 'b15_2ig.v.gz'), True)]
    pool = ProcessPoolExecutor(2, mp_context=multiprocessing.get_context('fork'))
    real_futs = [pool.submit(_real, j) for j in real_jobs]
    # translation (tie T): Gen/StilMapsSrc.v is regenerated from the current text of stil.py; C18_maps_source_is_model then re-proves that the
    # translated StilFile._maps is the hand model maps_gen true the position / inversion theorems are stated on
    src_ok = sms.translate(ck)
    proved, _ = ck.prove('C18', THEOREMS)
    if not proved:
        core.coq_make(core.support_targets())     # the models must exist for the correspondence even when a proof broke
        if src_ok:
            core.coq_make(['theories/Gen/StilMapsSrc.vo'])
    src_cases, src_meta = [], []
    rng = random.Random(ck.seed * 7919 + 18)
    fails, cases, meta = [], [], []
    tcases, tmeta, tfails = [], [], []
    n_text_big = ck.scale(85, 600)
    n_valid, n_edge = ck.scale(240, 5000), ck.scale(100, 2000)
    for i in range(n_valid + n_edge):
        edge = i >= n_valid
        d, style, pats, kind, calls, chains, text, c = make_case(rng, edge)
        desc = {'stil': text, 'circuit': cg.describe(c), 'profile': d.profile, 'style': style, 'kind': kind,
                'chains': [[ch['si']] + ch['items'] + [ch['so']] for ch in (chains or d.chains)]}
        if i % max(1, (n_valid + n_edge) // n_text_big) == 0:      # TEXT level: the generator's own texts and character / keyword mutations
            cs, ds, of = st.big_case(text, rng, 2)
            tcases += cs
            tmeta += ds
            if of:
                tfails.append(('stil-text:stil_gen', of, ds[0]))
        s, obs = sc.observe(text, c)
        nmark = sum(ch['items'].count('!') for ch in d.chains)
        ck.count(max(1, len(pats)), f'{kind if edge else "valid"}:{style}:{d.profile}')
        ck.nontrivial((kind, len(d.ffs), len(d.chains), nmark, len(pats), tuple(d.groups_pi[:3]), text.count('\n')))
        if s is None:
            fails.append(('grammar', desc, f'stil.parse rejects the file: {obs["errors"].get("parse")}', None))
            continue
        for ekey in ('repeat', 'patterns'):
            if ekey in obs['errors']:
                fails.append(('stilfile-' + ekey, desc, obs['errors'][ekey], None))
        if not edge:
            what = sc.grammar_oracle(s, d, calls)
            if what:
                fails.append(('grammar', desc, what, None))
                continue
            what, info = sc.array_oracle(obs, d, pats)
            if what:
                names = sg.interface_names(d)
                t, r, l = sg.expected(d, pats)
                exp = {'interface': names, 'tests': [''.join(x) for x in t], 'responses': [''.join(x) for x in r],
                       'tests_loc': [''.join(x) for x in l]}
                fails.append((classify(d, info), desc, what, exp))
        if not edge and i % 4 == 0 and d.builder != 'bench':
            # the SAME StilFile object, already queried, applied to a second circuit of the same name whose ports and state elements
            # are ordered differently: the arrays must follow THAT circuit's ordering
            import copy
            d2 = copy.deepcopy(d)
            d2.node_order = list(reversed(d2.node_order))
            d2.io_order = d2.io_order[1:] + d2.io_order[:1]
            try:
                c2 = sg.build_circuit(d2)
                _, obs2 = sc.observe(text, c2, s=s)
                what2, info2 = sc.array_oracle(obs2, d2, pats)
            except Exception as e:
                c2, what2 = None, f'raises {type(e).__name__}: {e}'
            ck.count(1, 'second circuit on the same StilFile')
            if what2:
                fails.append(('second-circuit', dict(desc, second_circuit=cg.describe(c2) if c2 is not None else None),
                              'the same StilFile applied to a second circuit of the same name with another port / state order: ' + what2, None))
        if i < 2:
            ck.sample({'chains': desc['chains'], 'patterns': len(pats), 'style': style,
                       'tests': [sc.mv_chars(x) for x in (obs.get('tests') or [])][:2]})
        cases.append(sc.coq_case(s, c, obs))
        meta.append(desc)
        src_cases.append(sms.case(s, c))
        src_meta.append(desc)
    # ---- TEXT level: lark (contextual lexer + LALR parser) + StilTransformer + StilFile.__init__ raises against parse_stil / stil_domain ----
    for _ in range(ck.scale(420, 9000)):
        cs, d, of = st.small_case(rng)
        tcases += cs
        tmeta.append(d)
        if of:
            tfails.append(('stil-text:' + d['stream'], of, d))
    for _ in range(ck.scale(40, 600)):
        cs, d, of = st.print_case(rng)
        tcases += cs
        tmeta += [d] * len(cs)
        if of:
            tfails.append(('stil-text:print', of, d))
    cs, ds, of = st.corner_cases()
    tcases += cs
    tmeta += ds
    if of:
        tfails.append(('stil-text:corner', of, ds[0]))
    n_res = {}
    for d in tmeta:
        key = f"text:{d.get('stream', 'printed')}:{d['result']}"
        n_res[key] = n_res.get(key, 0) + 1
        ck.nontrivial(('text', d['text'][:200]))
    for key, n in n_res.items():
        ck.count(n, key)
    tsize = 70
    tchunks = [tcases[i:i + tsize] for i in range(0, len(tcases), tsize)]
    chunks = [cases[i:i + CHUNK] for i in range(0, len(cases), CHUNK)]
    all_outs = ck.coq_eval_many('stil', [sc.cases_file(ch) for ch in chunks] + [st.cases_file(ch) for ch in tchunks], jobs=14)
    outs, touts = all_outs[:len(chunks)], all_outs[len(chunks):]
    tbad = [ci * tsize + j for ci, (ok, out) in enumerate(touts) for j in ((cg.parse_nat_list(out) if ok else None) or [])]
    tran = all(ok and cg.parse_nat_list(out) is not None for ok, out in touts)
    terr = next((out[-600:] for ok, out in touts if not ok), '')
    n_rej = sum(n for k, n in n_res.items() if k.endswith(':raise') and ('mutation' in k or 'hostile' in k))
    n_acc = sum(n for k, n in n_res.items() if k.endswith(':ok'))
    n_unrep = sum(n for k, n in n_res.items() if k.endswith(':unrep'))
    ck.obligation(f'Coq transcription of stil.GRAMMAR as lark parses it (contextual lexer: keyword literals, ignored text before raw text, '
                  f'_NOB / call-parameter values; LALR parser) + StilTransformer + the raises of StilFile.__init__ = stil.parse on {len(tcases)} texts: '
                  f'the texts of the STIL generator and character / keyword mutations of them, own files written with arbitrary ignored text, ignored '
                  f'blocks and statements, token and character mutations of those ({n_rej} mutated texts rejected by stil.parse: both must reject; '
                  f'{n_acc} texts accepted: equal version token, signal groups, chains, calls), {len(st.CORNER_TEXTS)} fixed corner-case probes, '
                  f'print_stil output read back; {n_unrep} texts outside the domain (chain list with None) flagged so by stil_domain',
                  tran and not tbad and n_rej > 0 and n_acc > 0, 'correspondence',
                  f'failing cases {tbad[:8]} {[tmeta[b] if b < len(tmeta) else None for b in tbad[:2]]} {terr}')
    bad, bad0, ran = [], [], True
    for ci, (ok, out) in enumerate(outs):
        two = sc.parse_two_lists(out) if ok else None
        if two is None:
            ran = False
            continue
        bad += [ci * CHUNK + j for j in two[0]]
        bad0 += [ci * CHUNK + j for j in two[1]]
    pinned = ran and bad and not bad0
    ck.obligation(f'Coq model of StilFile.__init__ / _maps / tests / responses / tests_loc (repaired code) = implementation on {len(cases)} '
                  f'generated STIL files x circuits ({n_valid} well-formed, rest edge cases incl. raised errors): patterns, maps, all arrays',
                  ran and not bad, 'correspondence',
                  f'failing cases {bad[:8]}' + ('; the implementation matches the PINNED-TREE transcription (maps_gen false: scalar inversion, '
                                               "'DFF' filter) on every case: defect D8 is still present" if pinned else
                                               (f'; pinned-tree model fails on {len(bad0)} cases' if bad else '')) +
                  ('' if ran else '; a cases file did not compile: ' + next((o for ok, o in outs if not ok), '')[-600:]))
    sbad, sran = [], True
    if src_ok:
        per = 60
        souts = ck.coq_eval_many('stilsrc', [sms.cases_file(src_cases[k:k + per]) for k in range(0, len(src_cases), per)], jobs=12)
        for ci, (ok, out) in enumerate(souts):
            lst = cg.parse_nat_list(out) if ok else None
            if lst is None:
                sran = False
                sbad.append(('coqc', out[-600:]))
            else:
                sbad += [ci * per + j for j in lst]
        n_raise = sum(1 for x in src_cases if x.endswith(' None'))
        ck.obligation(f'translated source Gen/StilMapsSrc.v = StilFile._maps on {len(src_cases)} real StilFile x Circuit objects (the generated STIL '
                      f'files incl. edge cases; objects and results written as the Python values they are): interface, pi_map, po_map, scan_maps '
                      f'and scan_inversions listings incl. key order; raises iff the implementation raises ({n_raise} raising cases)',
                      sran and not sbad and len(src_cases) > 0, 'correspondence', f'failing cases {sbad[:8]}')
    ck.rule('generated scan designs (1-3 chains, random cell order, random "!" placements incl. runs and chain ends, upper/lower-case '
            'flip-flop kinds, non-scan flip-flops, latches, shuffled port/node order) x shuffled signal groups x pattern sets '
            '(load_unload+capture; launch/capture with and without clock pulses; launch_capture names; wrapped strings) rendered as '
            'STIL text: parser output vs rendered structure, tests/responses/tests_loc vs intended values (own Kleene evaluation of '
            'the next state); edge stream (wrong lengths, missing data, shared ports, repeated/unknown cells, odd characters, ...) '
            'vs the Coq model only; the two TetraMAX files under tests/ (417-cell chain, 678 / 1147 patterns) vs an independent regex reading; '
            'TEXT level: the generator texts, own token lists of the grammar (all block kinds, repeated / missing blocks and statements, '
            'hierarchical and odd names, values with newlines / comment markers / quotes / braces, FLOAT variants) written with random ignored '
            'text (blanks, tabs, form feeds, LF, CR LF, comments) and random ignored blocks (nested braces, comments swallowing braces), '
            'token mutations (duplicate, swap, delete, keyword variants, insertions) and character mutations (delete / insert / replace with '
            'braces, quotes, semicolons, CR, VT, Latin-1 ...), fixed corner probes')
    ck.trust('modelled, not verified: StilFile.__init__, _maps, tests, responses, tests_loc (Model/Stil.v, hand transcription tied by '
             'exact correspondence incl. error cases); stil.GRAMMAR under lark (lexer contexts, keyword order, ignored text, ignored blocks, '
             'call-parameter values, LALR parser) and the StilTransformer callbacks (Model/StilText.v, hand transcription tied by exact '
             'correspondence on every run incl. rejected texts, code points < 256; lark itself is NOT modelled); in tests_loc the logic simulation (LogicSim m=8, C01/C02) is an '
             'input of the model: the harness feeds the model the real simulator\'s s[1] and the oracle compares with its own evaluation',
             'wf_scan (distinct interface names, every scan port in one chain, every cell at one place) is the hypothesis of the position '
             'theorems; numpy broadcasting of 1-D operands as modelled by bshape/bget/assign')
    for job, fut in zip(real_jobs, real_futs):
        what, n = fut.result()
        ck.count(max(n, 0), 'shipped-file:' + os.path.basename(job[0]))
        if what and n < 0:
            ck.obligation('shipped TetraMAX file ' + os.path.basename(job[0]) + ' checked', False, 'harness', what)
        elif what:
            fails.append(('shipped-file', {'stil_file': job[0], 'netlist_file': job[1], 'loc': job[2]}, what, None))
    pool.shutdown()
    seen = set()
    for key, desc, what, exp in fails:
        if key in seen or len(seen) >= 4:
            continue
        seen.add(key)
        ck.fail(key, 'kyupy.stil: ' + what, {'component': 'stil.StilFile', 'input': desc, 'expected': exp, 'actual': what})
    seen_t = set()
    for key, what, d in tfails:
        if key in seen_t:
            continue
        seen_t.add(key)
        ck.fail(key, 'kyupy.stil grammar: ' + what, {'component': 'stil.GRAMMAR / StilTransformer', 'input': d, 'actual': what})
    if not fails and not tfails and (tbad or not tran):
        ck.fail('model-disagrees-text', 'Coq model of the STIL text level and stil.parse disagree',
                {'component': 'Model/StilText.v / stil.GRAMMAR, StilTransformer',
                 'input': min((tmeta[b] for b in tbad if b < len(tmeta)), key=lambda d: len(d['text']), default=None),
                 'failing_texts': len(tbad)}, found_input=False)
    if not fails and sbad:
        first = sbad[0] if isinstance(sbad[0], int) else None
        ck.fail('source-disagrees', 'translated source of StilFile._maps and implementation disagree', {'component': 'Gen/StilMapsSrc.v',
                'input': src_meta[first] if first is not None else None, 'where': str(sbad)[:500]}, found_input=False)
    if not fails and (bad or not ran):
        ck.fail('model-disagrees', 'Coq model and implementation disagree', {'component': 'Model/Stil.v',
                                                                            'input': meta[bad[0]] if bad else None}, found_input=False)


def replay(rp):
    inp = rp['input']
    if inp.get('kind') in ('stil-text', 'stil-print'):
        return True     # text cases are regenerated from the seed; the text and what stil.parse did with it are in the replay
    if 'stil_file' in inp:
        return sc.real_file_oracle(inp['stil_file'], inp['netlist_file'], inp['loc'])[0] is not None
    c = cg.from_description(inp['circuit'])
    s, obs = sc.observe(inp['stil'], c)
    if s is None:
        return True
    if 'repeat' in obs['errors'] or 'patterns' in obs['errors']:
        return True
    if inp.get('second_circuit'):
        c2 = cg.from_description(inp['second_circuit'], name=c.name) if 'name' in cg.from_description.__code__.co_varnames else cg.from_description(inp['second_circuit'])
        c2.name = c.name
        _, used = sc.observe(inp['stil'], c2, s=s)
        _, fresh = sc.observe(inp['stil'], c2)
        return any(used.get(k_) != fresh.get(k_) for k_ in ('tests', 'resp', 'loc'))
    exp = rp.get('expected')
    if not exp:
        return False
    for key, ek in (('tests', 'tests'), ('resp', 'responses'), ('loc', 'tests_loc')):
        got = obs.get(key)
        if got is None or [sc.mv_chars(x) for x in got] != exp[ek]:
            return True
    return False
