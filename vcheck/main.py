"""CLI:  ./check Cxx [--tier quick|thorough] [--replay file]   |   ./check setup"""
import argparse
import json
import os
import sys

sys.path.insert(0, os.path.dirname(os.path.dirname(os.path.abspath(__file__))))
from vcheck import core  # noqa: E402


def setup():
    """Regenerates every translated file and builds the whole Coq development."""
    from vcheck import gen_all
    core.import_kyupy()
    gen_all.generate_all(verbose=True)
    ok, log = core.coq_make(['all'], timeout=3000, jobs=14)
    print(log[-3000:])
    if not ok:
        print('SETUP FAILED')
        return 1
    rc, out = core.sh(r"grep -rnE '\b(Admitted|admit|Axiom|Parameter|Conjecture|Unset Guard|bypass_check)\b' theories --include=*.v | grep -v '^theories/Gen/.*(\*' || true", cwd=core.COQ)
    if out.strip():
        print('FORBIDDEN CONSTRUCTS:\n' + out)
        return 1
    print('setup ok')
    return 0


def main():
    ap = argparse.ArgumentParser()
    ap.add_argument('prop')
    ap.add_argument('--tier', default=os.environ.get('VERIF_TIER', 'quick'), choices=['quick', 'thorough'])
    ap.add_argument('--seed', type=int, default=int(os.environ.get('VERIF_SEED', '0')))
    ap.add_argument('--replay')
    a = ap.parse_args()
    if a.prop == 'setup':
        sys.exit(setup())
    if a.replay:
        import importlib
        mod = importlib.import_module(f'vcheck.props.{a.prop}')
        core.import_kyupy()
        with open(a.replay) as f:
            rp = json.load(f)
        still = mod.replay(rp)
        print('replay: still fails' if still else 'replay: passes now')
        sys.exit(1 if still else 0)
    sys.exit(core.run_property(a.prop, a.tier, a.seed))


if __name__ == '__main__':
    main()
