"""Shared machinery of the kyupy verification checks (see DESIGN.md section 2.3 / 4).

Every property module in vcheck/props/Cxx.py implements run(ck) and uses the
Check object for: regenerating translated Coq files, building the Coq
development (proof obligations), evaluating models inside Coq on generated cases
(correspondence), recording obligations, reporting violations / known
findings and writing the evidence file.
"""
import fcntl
import hashlib
import json
import os
import random
import re
import subprocess
import sys
import time
import traceback

VERIF = os.path.dirname(os.path.dirname(os.path.abspath(__file__)))
REPO = os.environ.get('KYUPY_REPO', '/repo')
COQ = os.path.join(VERIF, 'coq')
GEN = os.path.join(COQ, 'theories', 'Gen')
CASES = os.path.join(COQ, 'cases')
REPLAYS = os.path.join(VERIF, 'replays')
EVIDENCE = os.path.join(VERIF, 'evidence')
KNOWN = os.path.join(VERIF, 'known_findings.json')

# the implementation under test is always the working tree
sys.path.insert(0, os.path.join(REPO, 'src'))
os.environ['PYTHONPATH'] = os.path.join(REPO, 'src')
os.environ.setdefault('PYTHONHASHSEED', '0')

TRUSTED_COMMON = [
    'Coq 8.16.1 kernel (coqc); vm_compute used for finite sweeps and for evaluating models on cases; native_compute not used; no kernel check disabled',
    'no Axiom/Parameter/Admitted in the development (grep-checked by the build); Print Assumptions output of every property theorem is parsed on every run',
    'numpy elementwise ufunc / broadcasting / fancy-index semantics as used by kyupy',
    'the check harness itself (generators, runners, diff code in /verif/vcheck and /verif/harness)',
]


def sh(cmd, timeout=600, cwd=None, env=None):
    try:
        p = subprocess.run(cmd, shell=isinstance(cmd, str), cwd=cwd, env=env, timeout=timeout,
                           stdout=subprocess.PIPE, stderr=subprocess.STDOUT, text=True)
        return p.returncode, p.stdout
    except subprocess.TimeoutExpired as e:
        out = e.stdout if isinstance(e.stdout, str) else (e.stdout or b'').decode(errors='replace')
        return 124, out + '\n[timeout]'


def write_if_changed(path, text):
    os.makedirs(os.path.dirname(path), exist_ok=True)
    try:
        with open(path) as f:
            if f.read() == text:
                return False
    except FileNotFoundError:
        pass
    tmp = path + '.tmp%d' % os.getpid()
    with open(tmp, 'w') as f:
        f.write(text)
    os.replace(tmp, path)
    return True


class CoqLock:
    """exclusive while make may rewrite .vo files, shared while generated case files are compiled against them"""

    def __init__(self, shared=False):
        self.mode = fcntl.LOCK_SH if shared else fcntl.LOCK_EX

    def __enter__(self):
        os.makedirs(COQ, exist_ok=True)
        self.f = open(os.path.join(COQ, '.lock'), 'a')
        fcntl.flock(self.f, self.mode)
        return self

    def __exit__(self, *a):
        fcntl.flock(self.f, fcntl.LOCK_UN)
        self.f.close()


def coq_makefile():
    """(Re)creates coq/Makefile from _CoqProject when needed."""
    mk = os.path.join(COQ, 'Makefile')
    cp = os.path.join(COQ, '_CoqProject')
    if not os.path.exists(mk) or os.path.getmtime(mk) < os.path.getmtime(cp):
        rc, out = sh('coq_makefile -f _CoqProject -o Makefile', cwd=COQ, timeout=60)
        if rc != 0:
            raise RuntimeError('coq_makefile failed: ' + out)


def coq_make(targets, timeout=1500, jobs=12):
    """Full .vo build of the given targets (paths relative to coq/). Returns (ok, log)."""
    with CoqLock():
        coq_makefile()
        tg = ' '.join(targets)
        rc, out = sh(f'timeout {timeout} make -j{jobs} {tg}', cwd=COQ, timeout=timeout + 30)
    return rc == 0, out


def support_targets():
    """every Model file (and the proof files that generated case files import): they must be consistent with the
    regenerated Gen files before any case file is compiled against them"""
    tg = []
    with open(os.path.join(COQ, '_CoqProject')) as f:
        for line in f:
            line = line.strip()
            if line.startswith('theories/Model/') and line.endswith('.v'):
                tg.append(line[:-2] + '.vo')
    return tg + ['theories/Proofs/AllocProofs.vo', 'theories/Proofs/WfCheck.vo']


def coqc_file(path, timeout=600):
    """Compiles one stand-alone file against the built development; returns (ok, output)."""
    with CoqLock(shared=True):
        rc, out = sh(f'timeout {timeout} coqc -Q theories KV {os.path.relpath(path, COQ)}', cwd=COQ, timeout=timeout + 30)
    return rc == 0, out


def coq_first_error(log, n=40):
    lines = log.splitlines()
    for i, l in enumerate(lines):
        if l.startswith('File ') or 'Error' in l:
            return '\n'.join(lines[i:i + n])
    return '\n'.join(lines[-n:])


class Violation(Exception):
    pass


class Check:
    def __init__(self, pid, tier, seed):
        self.pid, self.tier, self.seed = pid, tier, seed
        self.t0 = time.time()
        self.rng = random.Random((seed * 1000003) ^ int(hashlib.sha1(pid.encode()).hexdigest()[:8], 16))
        self.obligations = []      # dicts: name, kind, ok, detail
        self.violations = []       # replay paths
        self.known_hits = {}       # finding id -> what
        self.cov = {'evaluations': 0, 'distinct_nontrivial': 0, 'rule': '', 'samples': []}
        self.dist = {}
        self.trusted = list(TRUSTED_COMMON)
        self.assumptions = []
        self.checker_cmds = []
        self.axioms = {}
        self._nontrivial = set()
        self.replay_n = 0
        with open(KNOWN) as f:
            self.known = [k for k in json.load(f) if k.get('property') == pid]
        self.thorough = tier == 'thorough'

    # ---- bookkeeping -------------------------------------------------------------------------
    def scale(self, quick, thorough):
        return thorough if self.thorough else quick

    def obligation(self, name, ok, kind='theorem', detail=''):
        self.obligations.append({'name': name, 'kind': kind, 'ok': bool(ok), 'detail': detail[:4000]})
        return ok

    def count(self, n=1, key=None):
        self.cov['evaluations'] += n
        if key is not None:
            self.dist[key] = self.dist.get(key, 0) + n

    def nontrivial(self, fingerprint):
        self._nontrivial.add(fingerprint if isinstance(fingerprint, (str, int, tuple)) else repr(fingerprint))

    def sample(self, s):
        if len(self.cov['samples']) < 6:
            self.cov['samples'].append(s)

    def rule(self, text):
        self.cov['rule'] = (self.cov['rule'] + ' | ' + text) if self.cov['rule'] else text

    def trust(self, *items):
        for i in items:
            if i not in self.trusted:
                self.trusted.append(i)

    # ---- findings ----------------------------------------------------------------------------
    def known_entry(self, key):
        for k in self.known:
            if k.get('status') == 'known' and any(re.fullmatch(pat, key) for pat in k.get('keys', [])):
                return k
        return None

    def fail(self, key, what, replay, found_input=True):
        """A property failure on a concrete input (found_input) or a broken obligation without one.
        key identifies the failing input / call site for matching against known_findings.json."""
        k = self.known_entry(key) if found_input else None
        if k is not None:
            if k['id'] not in self.known_hits:
                self.known_hits[k['id']] = k.get('what', what)
                print(f"KNOWN-FINDING: property={self.pid} {k['id']}: {k.get('what', what)}")
            return False
        self.replay_n += 1
        os.makedirs(REPLAYS, exist_ok=True)
        path = os.path.join(REPLAYS, f'{self.pid}_{self.replay_n}.json')
        replay = dict(replay)
        replay.update({'property': self.pid, 'key': key, 'what': what, 'seed': self.seed,
                       'kind': 'counterexample' if found_input else 'broken-obligation'})
        if not found_input:
            replay['note'] = 'no-failing-input-found'
        with open(path, 'w') as f:
            json.dump(replay, f, indent=1, default=str)
        self.violations.append(path)
        print(f'VIOLATION property={self.pid} replay={path}' + ('' if found_input else ' no-failing-input-found'))
        sys.stdout.flush()
        return True

    # ---- Coq ---------------------------------------------------------------------------------
    def gen(self, name, text):
        """Installs a regenerated Gen/<name>.v (content-compared)."""
        return write_if_changed(os.path.join(GEN, name + '.v'), text)

    def prove(self, module, theorems, timeout=1500):
        """Builds theories/Properties/<module>.vo (and deps) and checks that each listed theorem
        exists and what it assumes.  One obligation per theorem."""
        t = time.time()
        ok, log = coq_make([f'theories/Properties/{module}.vo'] + support_targets(), timeout=timeout)
        self.checker_cmds.append(f'make -C coq theories/Properties/{module}.vo  (coq_makefile, full .vo build)')
        if not ok:
            err = coq_first_error(log)
            broken = self._which_broken(log)
            for th in theorems:
                self.obligation(f'{module}.{th}', False, 'theorem', f'build failed in {broken}: {err}')
            self.build_time = time.time() - t
            return False, err
        # Print Assumptions for each theorem, on every run, against the compiled .vo
        os.makedirs(CASES, exist_ok=True)
        pa = os.path.join(CASES, f'pa_{module}_{os.getpid()}.v')
        body = f'Require Import KV.Properties.{module}.\n' + ''.join(
            f'Goal True. idtac "@@{th}". exact I. Qed.\nPrint Assumptions {th}.\n' for th in theorems)
        with open(pa, 'w') as f:
            f.write(body)
        ok2, out = coqc_file(pa, timeout=300)
        self._cleanup_case(pa)
        self.checker_cmds.append(f'coqc Print Assumptions x{len(theorems)} against the compiled {module}.vo')
        chunks = re.split(r'@@(\w+)\n', out)
        seen = {}
        for i in range(1, len(chunks) - 1, 2):
            seen[chunks[i]] = chunks[i + 1].strip()
        allok = True
        for th in theorems:
            txt = seen.get(th)
            if txt is None or not ok2:
                self.obligation(f'{module}.{th}', False, 'theorem', 'theorem missing or Print Assumptions failed: ' + out[-800:])
                allok = False
                continue
            closed = 'Closed under the global context' in txt
            self.axioms[th] = 'closed' if closed else re.sub(r'\s+', ' ', txt)[:600]
            bad = (not closed) and not self._axioms_allowed(txt)
            self.obligation(f'{module}.{th}', not bad, 'theorem', self.axioms[th])
            allok &= not bad
        if self.thorough and allok:
            # independent re-check of the compiled property file and everything it depends on
            with CoqLock(shared=True):
                rc, out = sh(f'timeout 2400 coqchk -silent -o -Q theories KV KV.Properties.{module}', cwd=COQ, timeout=2500)
            m = re.search(r'\* Axioms:(.*?)\n\s*\n\* Constants', out, flags=re.S)
            axioms = re.sub(r'\s+', ' ', m.group(1)).strip() if m else 'unparsed'
            okc = rc == 0 and (axioms == '<none>' or self._axioms_allowed('Axioms:\n' + axioms.replace(' ', ' : x\n')))
            self.axioms['coqchk'] = axioms
            self.checker_cmds.append(f'coqchk -silent -o -Q theories KV KV.Properties.{module}')
            self.obligation(f'{module}: coqchk re-checks the compiled development (axioms: {axioms})', okc, 'theorem', out[-600:] if not okc else axioms)
            allok &= okc
        self.build_time = time.time() - t
        return allok, ''

    ALLOWED_AXIOMS = ('functional_extensionality_dep', 'classic', 'proof_irrelevance', 'JMeq_eq',
                      'propositional_extensionality', 'Eqdep.Eq_rect_eq.eq_rect_eq', 'eq_rect_eq',
                      'ClassicalDedekindReals', 'FunctionalExtensionality', 'sig_forall_dec', 'sig_not_dec')

    def _axioms_allowed(self, txt):
        names = re.findall(r'^(\S+)\s*:', txt, flags=re.M)
        return all(any(a in n for a in self.ALLOWED_AXIOMS) for n in names) and 'Axioms:' in txt

    @staticmethod
    def _which_broken(log):
        m = re.findall(r'File "\./([^"]+)", line (\d+)', log)
        return f'{m[0][0]}:{m[0][1]}' if m else 'unknown'

    def coq_eval(self, tag, text, timeout=900):
        """Compiles a generated cases file; returns (ok, output)."""
        os.makedirs(CASES, exist_ok=True)
        path = os.path.join(CASES, f'{self.pid}_{tag}_{os.getpid()}.v')
        with open(path, 'w') as f:
            f.write(text)
        ok, out = coqc_file(path, timeout=timeout)
        self._cleanup_case(path)
        return ok, out

    def coq_eval_many(self, tag, texts, timeout=900, jobs=8):
        """Compiles several case files in parallel; returns list of (ok, output)."""
        os.makedirs(CASES, exist_ok=True)
        procs = []
        res = [None] * len(texts)
        paths = []
        for i, text in enumerate(texts):
            path = os.path.join(CASES, f'{self.pid}_{tag}{i}_{os.getpid()}.v')
            with open(path, 'w') as f:
                f.write(text)
            paths.append(path)
        pending = list(enumerate(paths))
        running = []
        lock = CoqLock(shared=True)
        lock.__enter__()
        while pending or running:
            while pending and len(running) < jobs:
                i, p = pending.pop(0)
                pr = subprocess.Popen(f'timeout {timeout} coqc -Q theories KV {os.path.relpath(p, COQ)}', shell=True, cwd=COQ,
                                      stdout=subprocess.PIPE, stderr=subprocess.STDOUT, text=True)
                running.append((i, p, pr))
            i, p, pr = running.pop(0)
            out, _ = pr.communicate()
            res[i] = (pr.returncode == 0, out)
            self._cleanup_case(p)
        lock.__exit__()
        return res

    @staticmethod
    def _cleanup_case(path):
        base = path[:-2]
        d, b = os.path.split(base)
        for ext in ('.v', '.vo', '.vok', '.vos', '.glob'):
            try:
                os.remove(base + ext)
            except FileNotFoundError:
                pass
        try:
            os.remove(os.path.join(d, '.' + b + '.aux'))
        except FileNotFoundError:
            pass

    # ---- result ------------------------------------------------------------------------------
    def finish(self):
        n_ob = len(self.obligations)
        n_ok = sum(1 for o in self.obligations if o['ok'])
        self.cov['distinct_nontrivial'] = len(self._nontrivial)
        cov = dict(self.cov)
        cov.update({
            'obligations': n_ob, 'discharged': n_ok,
            'checker_cmd': ' ; '.join(dict.fromkeys(self.checker_cmds)) or 'none (build did not run)',
            'trusted_base': self.trusted,
            'obligation_list': [{'name': o['name'], 'kind': o['kind'], 'ok': o['ok'],
                                 'detail': o['detail'][:300]} for o in self.obligations],
            'print_assumptions': self.axioms,
            'input_distribution': self.dist,
            'known_findings_hit': self.known_hits,
        })
        ev = {'property_id': self.pid, 'tier': self.tier, 'seed': self.seed, 'level': 'proof',
              'coverage': cov, 'assumptions': self.assumptions, 'wall_s': round(time.time() - self.t0, 2),
              'violations': len(self.violations)}
        os.makedirs(EVIDENCE, exist_ok=True)
        with open(os.path.join(EVIDENCE, f'{self.pid}.json'), 'w') as f:
            json.dump(ev, f, indent=1, default=str)
        broken = [o for o in self.obligations if not o['ok']]
        if broken and not self.violations:
            # an obligation is broken and the search found no failing input: still a violation
            self.fail('broken-obligation', 'obligations no longer check: ' + ', '.join(o['name'] for o in broken),
                      {'broken': [o['name'] for o in broken], 'coq_error': broken[0]['detail']}, found_input=False)
            ev['violations'] = len(self.violations)
            with open(os.path.join(EVIDENCE, f'{self.pid}.json'), 'w') as f:
                json.dump(ev, f, indent=1, default=str)
        print(f'[{self.pid}] tier={self.tier} seed={self.seed} obligations={n_ok}/{n_ob} evaluations={self.cov["evaluations"]} '
              f'nontrivial={len(self._nontrivial)} known={len(self.known_hits)} violations={len(self.violations)} '
              f'wall={time.time() - self.t0:.1f}s')
        return 1 if self.violations else 0


def import_kyupy():
    """Imports the working-tree kyupy quietly; returns the package or raises."""
    import importlib
    import io
    import contextlib
    with contextlib.redirect_stdout(io.StringIO()):
        import kyupy  # noqa
        for m in ('logic', 'sim', 'circuit', 'bench', 'techlib', 'verilog', 'sdf', 'stil', 'def_file', 'logic_sim', 'wave_sim'):
            importlib.import_module('kyupy.' + m)
    assert os.path.realpath(kyupy.__file__).startswith(os.path.realpath(REPO)), kyupy.__file__
    return kyupy


def run_property(pid, tier, seed):
    import importlib
    ck = Check(pid, tier, seed)
    try:
        mod = importlib.import_module(f'vcheck.props.{pid}')
        try:
            import_kyupy()
        except Exception:
            ck.obligation('import kyupy from /repo/src', False, 'correspondence', traceback.format_exc())
            return ck.finish()
        mod.run(ck)
    except Exception:
        tb = traceback.format_exc()
        print(tb)
        ck.obligation('check ran to completion', False, 'harness', tb)
    return ck.finish()
