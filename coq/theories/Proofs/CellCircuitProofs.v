(** C10, library clause: soundness of the per-definition evaluation ([resolve_fast]) for the per-name check
    ([resolve_ok_name]) and the lifting of the whole-library Boolean sweeps to quantified statements.  The sweeps themselves
    (vm_compute over a regenerated library) live in Proofs/CellLib<LIB>.v, one file per library. *)
From Coq Require Import List Arith Bool String.
From KV Require Model.Netlist.
From KV Require Import Model.TechCell Model.Circuit Model.CircuitInv Model.CircuitView Model.CellCircuit.
Import ListNotations.
Local Open Scope list_scope.

Lemma list_eqb_eq {A} (eqb : A -> A -> bool) (Heq : forall x y, eqb x y = true -> x = y) :
  forall a b, list_eqb eqb a b = true -> a = b.
Proof.
  induction a as [|x a IH]; intros [|y b] H; cbn [list_eqb] in H; try discriminate; [reflexivity|].
  apply andb_true_iff in H. destruct H as [H1 H2]. apply Heq in H1. apply IH in H2. subst. reflexivity.
Qed.
Lemma onat_eqb_eq a b : onat_eqb a b = true -> a = b.
Proof. destruct a as [x|], b as [y|]; cbn; intro H; try discriminate; [apply Nat.eqb_eq in H; subst|]; reflexivity. Qed.
Lemma str_eqb_eq a b : String.eqb a b = true -> a = b.
Proof. apply String.eqb_eq. Qed.
Lemma nat_eqb_eq a b : Nat.eqb a b = true -> a = b.
Proof. apply Nat.eqb_eq. Qed.

Lemma vnode_eqb_eq a b : vnode_eqb a b = true -> a = b.
Proof.
  destruct a as [k1 i1 o1], b as [k2 i2 o2]. unfold vnode_eqb, opin_eqb. cbn [Netlist.n_kind Netlist.n_ins Netlist.n_outs].
  intro H. apply andb_true_iff in H. destruct H as [H H3]. apply andb_true_iff in H. destruct H as [H1 H2].
  apply str_eqb_eq in H1. apply (list_eqb_eq _ onat_eqb_eq) in H2. apply (list_eqb_eq _ onat_eqb_eq) in H3. subst. reflexivity.
Qed.
Lemma vline_eqb_eq a b : vline_eqb a b = true -> a = b.
Proof.
  destruct a as [d1 p1 r1 q1], b as [d2 p2 r2 q2]. unfold vline_eqb.
  cbn [Netlist.l_drv Netlist.l_dpin Netlist.l_rdr Netlist.l_rpin].
  intro H. apply andb_true_iff in H. destruct H as [H H4]. apply andb_true_iff in H. destruct H as [H H3].
  apply andb_true_iff in H. destruct H as [H1 H2].
  apply nat_eqb_eq in H1, H2, H3, H4. subst. reflexivity.
Qed.
Lemma netlist_eqb_eq a b : netlist_eqb a b = true -> a = b.
Proof.
  destruct a as [n1 l1 i1], b as [n2 l2 i2]. unfold netlist_eqb. cbn [Netlist.c_nodes Netlist.c_lines Netlist.c_io].
  intro H. apply andb_true_iff in H. destruct H as [H H3]. apply andb_true_iff in H. destruct H as [H1 H2].
  apply (list_eqb_eq _ vnode_eqb_eq) in H1. apply (list_eqb_eq _ vline_eqb_eq) in H2. apply (list_eqb_eq _ nat_eqb_eq) in H3.
  subst. reflexivity.
Qed.

(** the function part may be evaluated on one representative name: the resolved hosts of all names have the same view *)
Lemma resolve_fast_sound libnames excl cell ci co :
  resolve_fast libnames excl cell ci co = true ->
  forall name, In name (t_names cell) -> excl name = false -> resolve_ok_name libnames name cell ci co = true.
Proof.
  unfold resolve_fast, resolve_ok_name. intros H name Hin Hex.
  apply andb_true_iff in H. destruct H as [Hlen H]. rewrite Hlen. cbn [andb].
  destruct (impl_of_tcell cell) as [impl|]; [|discriminate].
  apply andb_true_iff in H. destruct H as [Himpl H]. rewrite Himpl. cbn [andb].
  destruct (find (fun n => negb (excl n)) (t_names cell)) as [n0|] eqn:Hf.
  - destruct (resolved_of n0 cell impl ci co) as [[h0 r0]|]; [|discriminate].
    cbv zeta in H. apply andb_true_iff in H. destruct H as [Hfn Hall].
    rewrite forallb_forall in Hall. specialize (Hall name Hin). rewrite Hex in Hall.
    destruct (resolved_of name cell impl ci co) as [[host r]|]; [|discriminate].
    apply andb_true_iff in Hall. destruct Hall as [Hs Hv]. rewrite Hs. cbn [andb].
    unfold fn_ok. apply netlist_eqb_eq in Hv. rewrite Hv. exact Hfn.
  - exfalso. pose proof (find_none _ _ Hf name Hin) as Hn. cbn beta in Hn. rewrite Hex in Hn. discriminate.
Qed.

(** ** lifting the whole-library sweeps *)
Section Lift.
  Variable lib : list tcell.
  Variable d15 : list string.
  Let names := lib_names lib.

  Lemma all_lift : lib_all_fast lib d15 = true ->
    forall cell name, In cell lib -> In name (t_names cell) -> is_d15 d15 name = false ->
      resolve_ok_name names name cell (fst (conn_all cell)) (snd (conn_all cell)) = true.
  Proof.
    unfold lib_all_fast. cbv zeta. intros H cell name Hc Hn Hex.
    rewrite forallb_forall in H. exact (resolve_fast_sound _ _ _ _ _ (H cell Hc) name Hn Hex).
  Qed.

  Lemma one_lift : lib_one_fast lib d15 = true ->
    forall cell name k, In cell lib -> In name (t_names cell) -> name = first_name cell -> k < n_pins cell ->
      is_d15 d15 name = false -> is_d22 name cell k = false ->
      resolve_ok_name names name cell (fst (conn_but cell k)) (snd (conn_but cell k)) = true.
  Proof.
    unfold lib_one_fast. cbv zeta. intros H cell name k Hc Hn Hfirst Hk Hex1 Hex2.
    rewrite forallb_forall in H. specialize (H cell Hc). rewrite forallb_forall in H.
    assert (Hin : In k (seq 0 (n_pins cell))) by (apply in_seq; split; [apply Nat.le_0_l | exact Hk]).
    refine (resolve_fast_sound _ _ _ _ _ (H k Hin) name Hn _). rewrite Hex1, Hex2.
    unfold not_first. rewrite Hfirst, String.eqb_refl. reflexivity.
  Qed.

  Lemma noout_lift : lib_noout_fast lib = true ->
    forall cell name, In cell lib -> In name (t_names cell) -> is_d21 cell = false ->
      resolve_ok_name names name cell (fst (conn_no_out cell)) (snd (conn_no_out cell)) = true.
  Proof.
    unfold lib_noout_fast. cbv zeta. intros H cell name Hc Hn Hex.
    rewrite forallb_forall in H. exact (resolve_fast_sound _ _ _ _ _ (H cell Hc) name Hn Hex).
  Qed.

  Lemma all_refuted_lift : lib_all_refuted lib d15 = true ->
    forall cell name, In cell lib -> In name (t_names cell) -> is_d15 d15 name = true ->
      resolve_ok_name names name cell (fst (conn_all cell)) (snd (conn_all cell)) = false.
  Proof.
    unfold lib_all_refuted. cbv zeta. intros H cell name Hc Hn Hex.
    rewrite forallb_forall in H. specialize (H cell Hc). rewrite forallb_forall in H. specialize (H name Hn).
    rewrite Hex in H. apply negb_true_iff in H. exact H.
  Qed.

  Lemma one_refuted_lift : lib_one_refuted lib d15 = true ->
    forall cell name k, In cell lib -> In name (t_names cell) -> k < n_pins cell ->
      is_d15 d15 name || is_d22 name cell k = true ->
      resolve_ok_name names name cell (fst (conn_but cell k)) (snd (conn_but cell k)) = false.
  Proof.
    unfold lib_one_refuted. cbv zeta. intros H cell name k Hc Hn Hk Hex.
    rewrite forallb_forall in H. specialize (H cell Hc). rewrite forallb_forall in H.
    assert (Hin : In k (seq 0 (n_pins cell))) by (apply in_seq; split; [apply Nat.le_0_l | exact Hk]).
    specialize (H k Hin). rewrite forallb_forall in H. specialize (H name Hn).
    rewrite Hex in H. apply negb_true_iff in H. exact H.
  Qed.

  Lemma noout_refuted_lift : lib_noout_refuted lib = true ->
    forall cell name, In cell lib -> In name (t_names cell) -> is_d21 cell = true ->
      resolve_ok_name names name cell (fst (conn_no_out cell)) (snd (conn_no_out cell)) = false.
  Proof.
    unfold lib_noout_refuted. cbv zeta. intros H cell name Hc Hn Hex.
    rewrite forallb_forall in H. specialize (H cell Hc). rewrite forallb_forall in H. specialize (H name Hn).
    rewrite Hex in H. apply negb_true_iff in H. exact H.
  Qed.

  (* per definition: all names at once *)
  Lemma all_cell_lift : lib_all_fast lib d15 = true ->
    forall cell, In cell lib -> (forall name, In name (t_names cell) -> is_d15 d15 name = false) ->
      resolve_ok_all_connected names cell = true.
  Proof.
    intros H cell Hc Hex. unfold resolve_ok_all_connected, resolve_ok. apply forallb_forall. intros name Hn.
    exact (all_lift H cell name Hc Hn (Hex name Hn)).
  Qed.
End Lift.

(** ** what [resolve_ok_name = true] says, unfolded (no Boolean sweep involved): resolving succeeds, the result is a
    consistent graph with the same ports, the same names in the same order, no library cell left, and the same function *)
Lemma resolve_ok_name_spec libnames name cell ci co :
  resolve_ok_name libnames name cell ci co = true ->
  exists impl host u r,
    impl_of_tcell cell = Some impl /\
    host_of_pins name (t_ins cell) (t_outs cell) ci co = Some (host, u) /\
    resolve_tlib host [(name, impl)] = Some r /\
    cinv_b impl = true /\ cinv_b host = true /\ cinv_b r = true /\
    pin_names impl = (t_ins cell, t_outs cell) /\
    io r = io host /\
    s_names r = s_names host /\
    no_lib_kind libnames r = true /\
    fn_ok_v cell (view impl) (view r) ci co = true.
Proof.
  unfold resolve_ok_name. intro H.
  apply andb_true_iff in H. destruct H as [_ H].
  destruct (impl_of_tcell cell) as [impl|]; [|discriminate].
  apply andb_true_iff in H. destruct H as [Himpl H].
  unfold resolved_of in H.
  destruct (host_of_pins name (t_ins cell) (t_outs cell) ci co) as [[host u]|]; [|discriminate].
  unfold resolved in H. destruct (resolve_tlib host [(name, impl)]) as [r|] eqn:Hr; [|discriminate].
  cbn [option_map] in H. apply andb_true_iff in H. destruct H as [Hs Hfn].
  unfold impl_ok in Himpl. do 4 (apply andb_true_iff in Himpl; destruct Himpl as [Himpl ?]).
  unfold struct_ok in Hs. do 10 (apply andb_true_iff in Hs; destruct Hs as [Hs ?]).
  exists impl, host, u, r.
  repeat match goal with Hx : list_eqb String.eqb _ _ = true |- _ => apply (list_eqb_eq _ str_eqb_eq) in Hx end.
  repeat match goal with Hx : list_eqb onat_eqb _ _ = true |- _ => apply (list_eqb_eq _ onat_eqb_eq) in Hx end.
  repeat split; try reflexivity; try assumption.
  destruct (pin_names impl) as [a b]. cbn [fst snd] in *. congruence.
Qed.

(** ** non-vacuity *)
Lemma lib_has_ex lib p : lib_has lib p = true -> exists cell name, In cell lib /\ In name (t_names cell) /\ p cell name = true.
Proof.
  unfold lib_has. intro H. apply existsb_exists in H. destruct H as [cell [Hc H]].
  apply existsb_exists in H. destruct H as [name [Hn H]]. exists cell, name. repeat split; assumption.
Qed.
Lemma wit_d22_ex cell name : wit_d22 cell name = true -> exists k, k < n_pins cell /\ is_d22 name cell k = true.
Proof.
  unfold wit_d22. intro H. apply existsb_exists in H. destruct H as [k [Hk H]]. exists k. split; [|exact H].
  apply in_seq in Hk. destruct Hk as [_ Hk]. exact Hk.
Qed.

(** ** what [fn_ok_v = true] says for every row (the sweep over [rows] is complete) *)
Lemma rows_complete : forall row, In row (rows (List.length row)).
Proof.
  induction row as [|b r IH]; [left; reflexivity|].
  cbn [List.length rows]. apply in_flat_map. exists r. split; [exact IH|]. destruct b; cbn; tauto.
Qed.
Lemma firstn_app_len {A} (l1 l2 : list A) : firstn (List.length l1) (l1 ++ l2) = l1.
Proof. induction l1 as [|x l1 IH]; [reflexivity|]. cbn [List.length app firstn]. rewrite IH. reflexivity. Qed.
Lemma skipn_app_len {A} (l1 l2 : list A) : skipn (List.length l1) (l1 ++ l2) = l2.
Proof. induction l1 as [|x l1 IH]; [reflexivity|]. cbn [List.length app skipn]. exact IH. Qed.
Lemma obool_eqb_eq a b : obool_eqb a b = true -> a = b.
Proof. destruct a as [[|]|], b as [[|]|]; cbn; intro H; try discriminate; reflexivity. Qed.
Lemma bool_eqb_eq a b : Bool.eqb a b = true -> a = b.
Proof. apply eqb_prop. Qed.

Lemma fn_ok_v_spec cell vi vr ci co : fn_ok_v cell vi vr ci co = true ->
  List.length (state_idx vr) = List.length (state_idx vi) /\
  forall in_vals sv, List.length in_vals = count_true ci -> List.length sv = List.length (state_idx vi) ->
    let outs_r := skipn (count_true ci) (Netlist.c_io vr) in
    let outs_i := pick co (filter (fun i => negb (v_is_in vi i)) (Netlist.c_io vi)) in
    let full := spread ci in_vals in
    let ei := sim_env vi (impl_io_stim (map (v_is_in vi) (Netlist.c_io vi)) full ++ sv) in
    let er := sim_env vr (in_vals ++ repeat false (List.length outs_r) ++ sv) in
    map (obs vr er) outs_r = map (obs vi ei) outs_i /\
    map (obs vr er) (state_idx vr) = map (obs vi ei) (state_idx vi) /\
    (cell_is_seq cell = false ->
     map (fun n => Some (obs vr er n)) outs_r = map (eval_out cell full) (pick co (t_outs cell))).
Proof.
  unfold fn_ok_v. cbv zeta. intro H.
  apply andb_true_iff in H. destruct H as [H Hrows]. apply andb_true_iff in H. destruct H as [Hst _].
  apply Nat.eqb_eq in Hst. split; [exact Hst|].
  intros in_vals sv Hin Hsv.
  rewrite forallb_forall in Hrows.
  assert (Hrow : In (in_vals ++ sv) (rows (count_true ci + List.length (state_idx vi)))).
  { rewrite <- Hin, <- Hsv, <- app_length. apply rows_complete. }
  specialize (Hrows _ Hrow). rewrite <- Hin in Hrows. rewrite firstn_app_len, skipn_app_len in Hrows. rewrite Hin in Hrows.
  apply andb_true_iff in Hrows. destruct Hrows as [Hrows H3]. apply andb_true_iff in Hrows. destruct Hrows as [H1 H2].
  apply (list_eqb_eq _ bool_eqb_eq) in H1. apply (list_eqb_eq _ bool_eqb_eq) in H2.
  split; [exact H1|]. split; [exact H2|].
  intro Hseq. rewrite Hseq in H3. cbn [negb] in H3. apply (list_eqb_eq _ obool_eqb_eq) in H3. exact H3.
Qed.
