(** C10: the state of Circuit.substitute just before the clean-up ([substitute_pre]) satisfies the consistency invariant
    and is described pin by pin by [SubstGlue].

    The proof re-runs the five phases of Proofs/CircuitSubstInv.v with richer fold invariants: next to the existing records
    ([PB], [PC], [PI], [PO]: consistency relative to detached line ends, loose bookkeeping) it carries
    - [PBx]: the exact attributes given in phase (b);
    - [Fr]: the frame / monotonicity relation of the phases (c), (d): occupied pins of listed nodes stay as they are, kinds and
      names do not change, host nodes are not written, lines are only added -- monotonicity of the pins is derived from the
      consistency records BEFORE and AFTER a step ([fr_of_cw]), so no separate freeness argument is needed;
    - [TK]: a TIGHT upper bound of the pins of the copies (only CONNECTED instance pins count as consumed);
    - the lower bounds: what each step has written.  *)
From Coq Require Import List Arith Bool String Lia.
From KV Require Import Model.Circuit Model.CircuitInv Model.CircuitView Model.CircuitSem Model.CircuitSubstSem.
From KV Require Import Proofs.CircuitBase Proofs.CircuitProofs Proofs.CircuitBool Proofs.CircuitDangling Proofs.CircuitWeak Proofs.CircuitSubstInv.
Import ListNotations.
Local Open Scope list_scope.

(** ** list facts *)
Lemma in_zip_nth : forall {A B} (a : list A) (b : list B) x y,
  In (x, y) (zip a b) <-> exists k, nth_error a k = Some x /\ nth_error b k = Some y.
Proof.
  induction a as [|x0 a IH]; intros [|y0 b] x y; simpl.
  - split. intros []. intros [[|k] [H _]]; discriminate.
  - split. intros []. intros [[|k] [H _]]; discriminate.
  - split. intros []. intros [[|k] [_ H]]; discriminate.
  - split.
    + intros [E|H]. inv E. exists 0. auto. apply IH in H. destruct H as [k Hk]. exists (S k). auto.
    + intros [[|k] [H1 H2]]; simpl in *. inv H1. inv H2. auto. right. apply IH. exists k. auto.
Qed.

Lemma index_of_nth : forall l x k, index_of x l = Some k -> nth_error l k = Some x.
Proof.
  induction l as [|y l IH]; intros x k H; simpl in H. discriminate.
  destruct (Nat.eqb_spec x y). inv H. reflexivity.
  destruct (index_of x l) as [k'|] eqn:E; [|discriminate]. inv H. simpl. auto.
Qed.
Lemma nth_index_of : forall l x k, NoDup l -> nth_error l k = Some x -> index_of x l = Some k.
Proof.
  induction l as [|y l IH]; intros x k Hnd H. destruct k; discriminate.
  inv Hnd. simpl. destruct k as [|k]; simpl in H.
  - inv H. rewrite Nat.eqb_refl. reflexivity.
  - destruct (Nat.eqb_spec x y). subst. exfalso. apply H2. eapply nth_error_In; eauto.
    rewrite (IH x k H3 H). reflexivity.
Qed.
Lemma nth_pad : forall {A} (l : list (option A)) n k, nth k (pad l n) None = nth k l None.
Proof.
  intros A l n k. unfold pad. destruct (lt_dec k (List.length l)).
  - apply app_nth1; auto.
  - rewrite app_nth2 by lia. rewrite nth_repeat. rewrite nth_overflow by lia. reflexivity.
Qed.
Lemma nth_error_opt : forall {A} (l : list (option A)) k x, nth_error l k = Some (Some x) <-> nth k l None = Some x.
Proof.
  intros A l k x. split; intros H. eapply nth_error_nth in H. exact H.
  assert (L : k < List.length l) by (eapply nth_some_lt; eauto).
  rewrite (nth_error_nth' l None L). rewrite H. reflexivity.
Qed.

Lemma io_ids_somes : forall (ios : list nat), map (fun o : option nat => match o with Some n => n | None => 0 end) (map Some ios) = ios.
Proof. induction ios; simpl; congruence. Qed.

(** ** substitute_pre as a composition of named parts *)
Definition pre_pipe (impl : circ) (desig : option nat) (iname : string) (zin : list (nat * option nat))
           (zout : list (option nat * option nat)) (st0 : circ * list (nat * nat)) : option (circ * list nat * list (nat * nat)) :=
  match fold_opt (subst_add_nodes impl iname desig) (nodes impl) st0 with
  | None => None
  | Some (c1, m) =>
      match fold_opt (subst_add_line impl m) (lines impl) c1 with
      | None => None
      | Some c2 =>
          match fold_opt (subst_conn_in impl m) zin c2 with
          | None => None
          | Some c3 =>
              match fold_opt (subst_conn_out true impl m) zout (c3, []) with
              | None => None
              | Some (c4, dl) => Some (c4, dl, m)
              end
          end
      end
  end.

Definition pre_rest (c : circ) (node : nat) (impl : circ) (ios : list nat) (desig : option nat) :
  option (circ * list nat * list (nat * nat)) :=
  let impl_in_nodes := filter (fun n => List.length (ins_of impl n) =? 0) ios in
  let impl_out_lines := map (fun n => nth 0 (ins_of impl n) None) (filter (fun n => 0 <? List.length (ins_of impl n)) ios) in
  let node_in_lines := pad (ins_of c node) (List.length impl_in_nodes) in
  let node_out_lines := pad (outs_of c node) (List.length impl_out_lines) in
  if negb ((List.length node_in_lines =? List.length impl_in_nodes) && (List.length node_out_lines =? List.length impl_out_lines))
  then None
  else
    let s0 := match desig with
              | Some dc => Some (upd_node c node (fun x => nset_outs (nset_ins (nset_kind x (kind_of impl dc)) []) []), [(dc, node)])
              | None => option_map (fun c' => (c', [])) (node_remove c node)
              end in
    match s0 with
    | None => None
    | Some st0 => pre_pipe impl desig (name_of c node) (zip impl_in_nodes node_in_lines) (zip impl_out_lines node_out_lines) st0
    end.

Lemma substitute_pre_eq : forall c node impl, substitute_pre c node impl =
  match all_somes (io impl) with
  | None => None
  | Some ios => match desig_of impl ios with None => None | Some desig => pre_rest c node impl ios desig end
  end.
Proof. reflexivity. Qed.

Definition zin_of (c : circ) (node : nat) (impl : circ) : list (nat * option nat) :=
  zip (impl_ins impl) (pad (ins_of c node) (List.length (impl_ins impl))).
Definition ols_of (impl : circ) : list (option nat) := map (fun n => nth 0 (ins_of impl n) None) (impl_outs impl).
Definition zout_of (c : circ) (node : nat) (impl : circ) : list (option nat * option nat) :=
  zip (ols_of impl) (pad (outs_of c node) (List.length (ols_of impl))).

(** ** a condition on the implementation that a successful call does NOT imply (see the end of the file) *)
(* a port without readers inside the implementation ("pure output port") is driven at input pin 0 only *)
Definition pure_ports (impl : circ) : Prop :=
  forall l r, In l (lines impl) -> l_rdr (lst impl l) = Some r -> in_ios impl r = true -> List.length (outs_of impl r) = 0 ->
              l_rpin (lst impl l) = 0.

(** ** the exact attributes of phase (b) *)
Record PBx (c : circ) (node : nat) (impl : circ) (st : circ * list (nat * nat)) : Prop := mkPBx {
  px_kind : forall x y, mget x (snd st) = Some y -> kind_of (fst st) y = if in_ios impl x then FORK else kind_of impl x;
  px_name : forall x y, mget x (snd st) = Some y -> y <> node -> name_of (fst st) y = tilde (name_of c node) (name_of impl x);
  px_uname : name_of (fst st) node = name_of c node;
  px_host : forall y, ~ N c node y ->
            n_kind (nst (fst st) y) = n_kind (nst c y) /\ n_name (nst (fst st) y) = n_name (nst c y) /\
            n_ins (nst (fst st) y) = n_ins (nst c y) /\ n_outs (nst (fst st) y) = n_outs (nst c y);
  px_ln : lnext (fst st) = lnext c;
  px_lines : lines (fst st) = lines c }.

Lemma pbx_init_some : forall c node impl dc, in_ios impl dc = false ->
  PBx c node impl (upd_node c node (fun x => nset_outs (nset_ins (nset_kind x (kind_of impl dc)) []) []), [(dc, node)]).
Proof.
  intros c node impl dc Hdc. set (c0 := upd_node c node _).
  assert (Hn : forall y, y <> node -> nst c0 y = nst c y).
  { intros y Hy. unfold c0. unf. simpl. destruct (Nat.eqb_spec y node); congruence. }
  assert (Hnode0 : nst c0 node = mkN (n_name (nst c node)) (kind_of impl dc) (n_index (nst c node)) [] [] (n_alive (nst c node))).
  { unfold c0. unf. simpl. rewrite Nat.eqb_refl. reflexivity. }
  assert (Hm : forall x y, mget x [(dc, node)] = Some y -> x = dc /\ y = node).
  { intros x y H. simpl in H. destruct (Nat.eqb_spec x dc); [|discriminate]. inv H. auto. }
  constructor; cbn [fst snd].
  - intros x y H. apply Hm in H. destruct H as [-> ->]. rewrite Hdc. unfold kind_of at 1. rewrite Hnode0. reflexivity.
  - intros x y H Hne. apply Hm in H. destruct H as [_ ->]. congruence.
  - unfold name_of. rewrite Hnode0. reflexivity.
  - intros y HN. assert (y <> node) by (intros ->; apply HN; left; auto). rewrite Hn by auto. auto.
  - reflexivity.
  - reflexivity.
Qed.

Lemma pbx_init_none : forall c node impl c0, CCoreX [] c -> In node (nodes c) -> node_remove c node = Some c0 ->
  PBx c node impl (c0, []).
Proof.
  intros c node impl c0 HC Hnode Hrm.
  destruct (node_remove_core [] c node HC Hnode) as [c0' [Hrm' [HC0 [N1 [N2 [N3 [N4 [N5 [N6 [N7 [N8 N9]]]]]]]]]]].
  rewrite Hrm in Hrm'. inv Hrm'.
  constructor; cbn [fst snd]; auto; try discriminate.
  - unfold name_of. destruct (N7 node) as [A _]. auto.
  - intros y _. destruct (N7 y) as [A [B [C D]]]. auto.
Qed.

(** ** the call unfolded: everything the phase lemmas need to know about the two zipped pin lists *)
Lemma substitute_pre_setup : forall (Q : Prop) c node impl c4 dl m,
  CInv c -> In node (nodes c) -> is_fork (kind_of c node) = false -> io_mem c node = false ->
  CInv impl -> IoLive impl -> subst_shape_b impl = true ->
  substitute_pre c node impl = Some (c4, dl, m) ->
  (forall desig st0,
     io_forks_b impl = true -> out_drivers_b impl = true ->
     (forall dc, desig = Some dc -> in_ios impl dc = false /\ In dc (nodes impl) /\ is_fork (kind_of impl dc) = false) ->
     NoDup (map fst (zin_of c node impl)) -> NoDup (somes (map snd (zin_of c node impl))) ->
     (forall x, In x (map fst (zin_of c node impl)) -> In (Some x) (io impl) /\ ins_of impl x = []) ->
     (forall ll, In (Some ll) (map snd (zin_of c node impl)) <-> In (Some ll) (ins_of c node)) ->
     NoDup (somes (map fst (zout_of c node impl))) -> NoDup (somes (map snd (zout_of c node impl))) ->
     (forall l, In (Some l) (map fst (zout_of c node impl)) -> exists n, In (Some n) (io impl) /\ in_at impl n 0 = Some l) ->
     (forall ll, In (Some ll) (map snd (zout_of c node impl)) <-> In (Some ll) (outs_of c node)) ->
     (forall x ll, In (x, Some ll) (zin_of c node impl) <-> host_in c node impl x = Some ll) ->
     (forall l ll, In (Some l, Some ll) (zout_of c node impl) <->
                   exists o, In o (nodes impl) /\ in_at impl o 0 = Some l /\ host_out c node impl o = Some ll) ->
     (forall o, In o (impl_outs impl) -> exists oll, In (in_at impl o 0, oll) (zout_of c node impl)) ->
     PB c node impl desig [] st0 -> PBx c node impl st0 ->
     pre_pipe impl desig (name_of c node) (zin_of c node impl) (zout_of c node impl) st0 = Some (c4, dl, m) -> Q) -> Q.
Proof.
  intros Q c node impl c4 dl m [HC HD] Hnode Hcell Hport [HIC HID] HIL Hshape Hs K.
  unfold subst_shape_b in Hshape. rewrite !andb_true_iff in Hshape. destruct Hshape as [[[S1 S2] S3] S4].
  rewrite substitute_pre_eq in Hs.
  destruct (all_somes (io impl)) as [ios|] eqn:Eios; [|discriminate].
  destruct (desig_of impl ios) as [desig|] eqn:Edes; [|discriminate].
  assert (Hid : impl_desig impl = Some desig). { unfold impl_desig. rewrite Eios. exact Edes. }
  rewrite Hid in S3.
  pose proof (all_somes_map _ _ Eios) as Hio.
  assert (Hios : ios = io_ids impl). { unfold io_ids. rewrite Hio. symmetry. apply io_ids_somes. }
  assert (Hios_nd : NoDup ios). { apply nodupb_sound in S1. rewrite Hio, somes_map_some in S1. auto. }
  assert (Hios_io : forall n, In n ios -> In (Some n) (io impl)). { intros n Hn. rewrite Hio. apply in_map; auto. }
  assert (Hios_l : forall n, In n ios -> In n (nodes impl)). { intros n Hn. apply (io_listed impl HIL). auto. }
  rewrite Hios in *. clear Hios ios.
  change (filter (fun n => List.length (ins_of impl n) =? 0) (io_ids impl)) with (impl_ins impl) in *.
  assert (Houtn : forall n l, In n (impl_outs impl) -> nth 0 (ins_of impl n) None = Some l -> In (Some n) (io impl) /\ in_at impl n 0 = Some l).
  { intros n l Hn E. apply filter_In in Hn. destruct Hn as [Hn _]. split; auto. }
  assert (Hdesig : forall dc, desig = Some dc -> in_ios impl dc = false /\ In dc (nodes impl) /\ is_fork (kind_of impl dc) = false).
  { intros dc ->. apply negb_true_iff in S3. split; auto.
    unfold desig_of in Edes. change (filter (fun n => 0 <? List.length (ins_of impl n)) (io_ids impl)) with (impl_outs impl) in Edes.
    destruct (impl_outs impl) as [|n0 t0] eqn:Eo; cbn [map] in Edes; [discriminate|].
    destruct (nth 0 (ins_of impl n0) None) as [l0|] eqn:El0; [|discriminate].
    destruct (l_drv (lst impl l0)) as [d|] eqn:Ed; [|discriminate].
    destruct (find_designated (S (nnext impl)) impl d) as [dc'|] eqn:Ef; cbn [option_map] in Edes; [|discriminate]. inv Edes.
    destruct (Houtn n0 l0 (or_introl eq_refl) El0) as [A B].
    destruct (impl_in impl HIC n0 0 l0 (io_listed impl HIL n0 A) B) as [Hl0 _].
    destruct (impl_line impl HIC l0 Hl0) as [d1 [r1 [Hd1 [_ [Hd1l _]]]]]. rewrite Ed in Hd1. inv Hd1.
    split. eapply fd_listed; eauto.
    pose proof (fd_exit impl _ _ _ Ef) as Hx. rewrite S3 in Hx. simpl in Hx. rewrite andb_true_r in Hx. auto. }
  unfold pre_rest in Hs. cbv zeta in Hs.
  change (filter (fun n => List.length (ins_of impl n) =? 0) (io_ids impl)) with (impl_ins impl) in Hs.
  change (map (fun n => nth 0 (ins_of impl n) None) (filter (fun n => 0 <? List.length (ins_of impl n)) (io_ids impl))) with (ols_of impl) in Hs.
  set (inn := impl_ins impl) in *. set (ols := ols_of impl) in *.
  set (nil_ := pad (ins_of c node) (List.length inn)) in *.
  set (nol := pad (outs_of c node) (List.length ols)) in *.
  change (zip inn nil_) with (zin_of c node impl) in Hs. change (zip ols nol) with (zout_of c node impl) in Hs.
  destruct (negb ((List.length nil_ =? List.length inn) && (List.length nol =? List.length ols))) eqn:Elen; [discriminate|].
  apply negb_false_iff in Elen. apply andb_true_iff in Elen. destruct Elen as [L1 L2].
  apply Nat.eqb_eq in L1. apply Nat.eqb_eq in L2. symmetry in L1, L2.
  assert (Z1 : map fst (zin_of c node impl) = inn) by (apply map_fst_zip; auto).
  assert (Z2 : map snd (zin_of c node impl) = nil_) by (apply map_snd_zip; auto).
  assert (Z3 : map fst (zout_of c node impl) = ols) by (apply map_fst_zip; auto).
  assert (Z4 : map snd (zout_of c node impl) = nol) by (apply map_snd_zip; auto).
  assert (Hinn_nd : NoDup inn) by (apply NoDup_filter; auto).
  assert (Houtn_nd : NoDup (impl_outs impl)) by (apply NoDup_filter; auto).
  assert (Hi1 : NoDup (map fst (zin_of c node impl))). { rewrite Z1. auto. }
  assert (Hi2 : NoDup (somes (map snd (zin_of c node impl)))).
  { rewrite Z2. unfold nil_. rewrite somes_pad. apply somes_nodup. intros i j x Hi Hj.
    destruct (cc_ins [] c HC node i x (or_introl Hnode) Hi) as [_ [_ A]].
    destruct (cc_ins [] c HC node j x (or_introl Hnode) Hj) as [_ [_ B]]. congruence. }
  assert (Hi3 : forall x, In x (map fst (zin_of c node impl)) -> In (Some x) (io impl) /\ ins_of impl x = []).
  { intros x Hx. rewrite Z1 in Hx. apply filter_In in Hx. destruct Hx as [A B]. split; auto. apply length_zero_nil; auto. }
  assert (Hi4 : forall ll, In (Some ll) (map snd (zin_of c node impl)) <-> In (Some ll) (ins_of c node)).
  { intros ll. rewrite Z2. apply in_pad. }
  assert (Ho1 : NoDup (somes (map fst (zout_of c node impl)))).
  { rewrite Z3. apply nodup_somes_map. auto.
    intros n n' l Hn Hn' E E'. destruct (Houtn n l Hn E) as [A B]. destruct (Houtn n' l Hn' E') as [A' B'].
    destruct (impl_in impl HIC n 0 l (io_listed impl HIL n A) B) as [_ [R _]].
    destruct (impl_in impl HIC n' 0 l (io_listed impl HIL n' A') B') as [_ [R' _]]. congruence. }
  assert (Ho2 : NoDup (somes (map snd (zout_of c node impl)))).
  { rewrite Z4. unfold nol. rewrite somes_pad. apply somes_nodup. intros i j x Hi Hj.
    destruct (cc_outs [] c HC node i x (or_introl Hnode) Hi) as [_ [_ A]].
    destruct (cc_outs [] c HC node j x (or_introl Hnode) Hj) as [_ [_ B]]. congruence. }
  assert (Ho3 : forall l, In (Some l) (map fst (zout_of c node impl)) -> exists n, In (Some n) (io impl) /\ in_at impl n 0 = Some l).
  { intros l Hl. rewrite Z3 in Hl. apply in_map_iff in Hl. destruct Hl as [n [E Hn]]. exists n. apply Houtn; auto. }
  assert (Ho4 : forall ll, In (Some ll) (map snd (zout_of c node impl)) <-> In (Some ll) (outs_of c node)).
  { intros ll. rewrite Z4. apply in_pad. }
  assert (Hzin : forall x ll, In (x, Some ll) (zin_of c node impl) <-> host_in c node impl x = Some ll).
  { intros x ll. unfold zin_of. fold inn. fold nil_. rewrite in_zip_nth. unfold host_in. fold inn. split.
    - intros [k [A B]]. rewrite (nth_index_of inn x k Hinn_nd A). apply nth_error_opt in B. unfold nil_ in B. rewrite nth_pad in B. exact B.
    - destruct (index_of x inn) as [k|] eqn:E; [|discriminate]. intros B. exists k. split. apply index_of_nth; auto.
      apply nth_error_opt. unfold nil_. rewrite nth_pad. exact B. }
  assert (Hzout : forall l ll, In (Some l, Some ll) (zout_of c node impl) <->
                               exists o, In o (nodes impl) /\ in_at impl o 0 = Some l /\ host_out c node impl o = Some ll).
  { intros l ll. unfold zout_of. fold ols. fold nol. rewrite in_zip_nth. unfold host_out. split.
    - intros [k [A B]]. unfold ols, ols_of in A. rewrite nth_error_map in A.
      destruct (nth_error (impl_outs impl) k) as [o|] eqn:Eo; [|discriminate]. simpl in A. injection A as A.
      exists o. split. { apply Hios_l. apply nth_error_In in Eo. apply filter_In in Eo. tauto. }
      split. exact A. rewrite (nth_index_of _ o k Houtn_nd Eo).
      apply nth_error_opt in B. unfold nol in B. rewrite nth_pad in B. exact B.
    - intros [o [_ [A B]]]. destruct (index_of o (impl_outs impl)) as [k|] eqn:E; [|discriminate]. exists k. split.
      + unfold ols, ols_of. rewrite nth_error_map. rewrite (index_of_nth _ _ _ E). simpl. f_equal. exact A.
      + apply nth_error_opt. unfold nol. rewrite nth_pad. exact B. }
  assert (Hzall : forall o, In o (impl_outs impl) -> exists oll, In (in_at impl o 0, oll) (zout_of c node impl)).
  { intros o Ho. destruct (In_nth_error _ _ Ho) as [k Hk].
    assert (Hlt : k < List.length nol).
    { rewrite <- L2. unfold ols, ols_of. rewrite map_length. apply nth_error_Some. congruence. }
    exists (nth k nol None). unfold zout_of. fold ols. fold nol. apply in_zip_nth. exists k. split.
    - unfold ols, ols_of. rewrite nth_error_map, Hk. reflexivity.
    - apply nth_error_nth'. auto. }
  destruct desig as [dc|].
  - destruct (Hdesig dc eq_refl) as [D1 [D2 D3]].
    eapply (K (Some dc)); eauto. apply pb_init_some; auto. apply pbx_init_some; auto.
  - destruct (node_remove c node) as [c0|] eqn:Erm; [|discriminate]. simpl in Hs.
    eapply (K None); eauto. 2:{ eapply pbx_init_none; eauto. }
    apply pb_init_none; auto.
    assert (Eols : ols = []).
    { unfold desig_of in Edes. change (map (fun n => nth 0 (ins_of impl n) None) (filter (fun n => 0 <? List.length (ins_of impl n)) (io_ids impl))) with ols in Edes.
      destruct ols as [|[l0|] t]; auto; try discriminate.
      destruct (l_drv (lst impl l0)); [|discriminate]. destruct (find_designated (S (nnext impl)) impl n); discriminate. }
    rewrite Eols in L2. simpl in L2. unfold nol, pad in L2. rewrite app_length in L2.
    destruct (outs_of c node); auto. simpl in L2. lia.
Qed.

(** ** the pipeline *)
Section Glue.
Variables (c : circ) (node : nat) (impl : circ).
Hypothesis HC : CCoreX [] c.
Hypothesis HDc : ForkDenseX [] c.
Hypothesis HIC : CCoreX [] impl.
Hypothesis HID : ForkDenseX [] impl.
Hypothesis HIL : IoLive impl.
Hypothesis Hnode : In node (nodes c).
Hypothesis Hnode_cell : is_fork (kind_of c node) = false.
Hypothesis Hport : io_mem c node = false.
Hypothesis Hio_forks : io_forks_b impl = true.
Hypothesis Hout_drv : out_drivers_b impl = true.
Variable desig : option nat.
Hypothesis Hdesig : forall dc, desig = Some dc -> in_ios impl dc = false /\ In dc (nodes impl) /\ is_fork (kind_of impl dc) = false.
Local Notation NN := (N c node).
Local Notation PD0' := (PD0 c node).
Local Notation PR0' := (PR0 c node).

Variables (zin : list (nat * option nat)) (zout : list (option nat * option nat)).
Hypothesis Hi1 : NoDup (map fst zin).
Hypothesis Hi2 : NoDup (somes (map snd zin)).
Hypothesis Hi3 : forall x, In x (map fst zin) -> In (Some x) (io impl) /\ ins_of impl x = [].
Hypothesis Hi4 : forall ll, In (Some ll) (map snd zin) <-> In (Some ll) (ins_of c node).
Hypothesis Ho1 : NoDup (somes (map fst zout)).
Hypothesis Ho2 : NoDup (somes (map snd zout)).
Hypothesis Ho3 : forall l, In (Some l) (map fst zout) -> exists n, In (Some n) (io impl) /\ in_at impl n 0 = Some l.
Hypothesis Ho4 : forall ll, In (Some ll) (map snd zout) <-> In (Some ll) (outs_of c node).

Lemma Hpr_in : forall ll, In (Some ll) (map snd zin) -> PR0' ll.
Proof.
  intros ll Hll. apply Hi4 in Hll. apply In_nth_opt in Hll. destruct Hll as [q [_ Hq]].
  destruct (cc_ins [] c HC node q ll (or_introl Hnode) Hq) as [A [B _]]. split; auto.
Qed.
Lemma Hpd_out : forall ll, In (Some ll) (map snd zout) -> PD0' ll.
Proof.
  intros ll Hll. apply Ho4 in Hll. apply In_nth_opt in Hll. destruct Hll as [q [_ Hq]].
  destruct (cc_outs [] c HC node q ll (or_introl Hnode) Hq) as [A [B _]]. split; auto.
Qed.

(* from the final records of phase (d) to the invariant *)
Lemma final_inv : forall m c4 dl,
  (forall x, In x (nodes impl) -> mget x m = None -> in_ios impl x = true /\ cond2 impl x = false /\ cond3 impl x = false) ->
  PO c node impl m (PRi c node zin) (CRi impl m zin) (CFi zin) zout (c4, dl) ->
  CInv c4 /\ (IoLive c -> IoLive c4) /\ (forall d, In d dl -> In d (nodes c4)).
Proof.
  intros m c4 dl Hms1 [Hcw4 Hbk4 Hdn4 Hdl4]. simpl in Hcw4, Hbk4, Hdn4, Hdl4.
  assert (HC4 : CCoreX [] c4).
  { apply (ccore_of_cw _ _ c4 Hcw4).
    - intros z _ [[Hz Hd] Hn]. apply Hn. apply Ho4.
      destruct (cc_line [] c HC z Hz) as [d0 [r0 [A1 [_ [_ [_ [A5 _]]]]]]]. rewrite Hd in A1. inv A1.
      eapply nth_In_opt. exact A5.
    - intros z _ [[Hz Hr] Hn]. apply Hn. apply Hi4.
      destruct (cc_line [] c HC z Hz) as [d0 [r0 [_ [A2 [_ [_ [_ A6]]]]]]]. rewrite Hr in A2. inv A2.
      eapply nth_In_opt. exact A6. }
  assert (HD4 : ForkDenseX [] c4).
  { eapply (dense_final c node impl HDc HIC HID Hout_drv); eauto. }
  split. split; auto. split; auto.
  intros HLc e He. rewrite (dn_io _ _ _ _ _ _ _ Hdn4) in He. destruct (HLc e He) as [n [-> Hn]]. exists n. split; auto.
  apply (dn_keep _ _ _ _ _ _ _ Hdn4); auto. intros ->.
  assert (io_mem c node = true); [|congruence]. unfold io_mem. apply existsb_exists. exists (Some node). split; auto. apply Nat.eqb_refl.
Qed.

Lemma pre_pipe_inv : forall st0 c4 dl m,
  PB c node impl desig [] st0 -> pre_pipe impl desig (name_of c node) zin zout st0 = Some (c4, dl, m) ->
  CInv c4 /\ (IoLive c -> IoLive c4) /\ (forall d, In d dl -> In d (nodes c4)).
Proof.
  intros st0 c4' dl' m' H0 Hs. unfold pre_pipe in Hs.
  destruct (fold_opt (subst_add_nodes impl (name_of c node) desig) (nodes impl) st0) as [[c1 m]|] eqn:E1; [|discriminate].
  destruct (fold_opt (subst_add_line impl m) (lines impl) c1) as [c2|] eqn:E2; [|discriminate].
  destruct (fold_opt (subst_conn_in impl m) zin c2) as [c3|] eqn:E3; [|discriminate].
  destruct (fold_opt (subst_conn_out true impl m) zout (c3, [])) as [[c4 dl]|] eqn:E4; [|discriminate]. inv Hs.
  pose proof (pb_fold c node impl HIC Hio_forks desig Hdesig _ st0 (c1, m') H0 E1) as HB.
  destruct (pb_final c node impl desig c1 m' HB) as [Hbk1 Hdn1].
  pose proof (pb_ms1 _ _ _ _ _ _ HB) as Hms1. pose proof (pb_ms2 _ _ _ _ _ _ HB) as Hms2. simpl in Hms1, Hms2.
  assert (HC0 : PC c node impl m' [] c1).
  { constructor. apply (pb_cw _ _ _ _ _ _ HB).
    - apply (bk_mono c node impl m' _ _ _ _ (CL impl m' []) (CL impl m' []) NoP NoP c1 Hbk1); intros ? [].
    - apply (dn_ext c node impl m' _ _ (CL impl m' []) NoP c1 Hdn1). intros l [[] _]. tauto. }
  pose proof (pc_fold c node impl HIC m' c1 c2 HC0 E2) as [Hcw2 Hbk2 Hdn2].
  assert (HI0 : PI c node impl m' [] c2).
  { constructor; auto.
    - eapply cw_ext. exact Hcw2. tauto. intros z. unfold PRi. simpl. tauto.
    - apply (bk_mono c node impl m' _ _ _ _ (CRi impl m' []) (CL impl m' (lines impl)) (CFi []) NoP c2 Hbk2); auto.
      intros l A. left; auto. }
  pose proof (pi_fold c node impl HIC HIL desig Hdesig m' zin c2 c3 Hms2 Hi1 Hi2 Hi3 Hpr_in HI0 E3) as [Hcw3 Hbk3 Hdn3].
  assert (HO0 : PO c node impl m' (PRi c node zin) (CRi impl m' zin) (CFi zin) [] (c3, [])).
  { constructor; simpl; auto.
    - eapply cw_ext. exact Hcw3. 2:tauto. intros z. unfold PDo. simpl. tauto.
    - apply (bk_mono c node impl m' _ _ _ _ (CRi impl m' zin) (CDo impl m' []) (CFi zin) (CFo impl []) c3 Hbk3); auto.
      intros l A. left; auto. intros x [].
    - apply (dn_ext c node impl m' _ _ (CL impl m' (lines impl)) (FOo impl []) c3 Hdn3); auto.
      intros x. split. intros []. intros [l [ll [[] _]]].
    - intros d []. }
  pose proof (po_fold c node impl HIC HIL desig Hdesig m' _ _ _ zout (c3, []) (c4', dl') Hms2 Ho1 Ho2 Ho3 Hpd_out HO0 E4) as HPO.
  eapply final_inv; eauto.
Qed.

(** *** frames: what the phases (c), (d) leave alone *)
Record Fr (c1 c2 : circ) : Prop := mkFr {
  fr_in : forall y p z, In y (nodes c1) -> in_at c1 y p = Some z -> in_at c2 y p = Some z;
  fr_out : forall y p z, In y (nodes c1) -> out_at c1 y p = Some z -> out_at c2 y p = Some z;
  fr_kn : forall y, n_kind (nst c2 y) = n_kind (nst c1 y) /\ n_name (nst c2 y) = n_name (nst c1 y);
  fr_host : forall y, ~ NN y -> nst c2 y = nst c1 y;
  fr_nodes : nodes c2 = nodes c1;
  fr_ln : lnext c1 <= lnext c2;
  fr_lines : forall z, In z (lines c1) -> In z (lines c2) }.

Lemma fr_refl : forall c1, Fr c1 c1.
Proof. intros c1. constructor; auto. Qed.
Lemma fr_trans : forall c1 c2 c3, Fr c1 c2 -> Fr c2 c3 -> Fr c1 c3.
Proof.
  intros c1 c2 c3 [A1 A2 A3 A4 A5 A6 A7] [B1 B2 B3 B4 B5 B6 B7]. constructor.
  - intros y p z Hy H. apply B1. rewrite A5; auto. apply A1; auto.
  - intros y p z Hy H. apply B2. rewrite A5; auto. apply A2; auto.
  - intros y. destruct (A3 y) as [E1 E2]. destruct (B3 y) as [E3 E4]. split; congruence.
  - intros y Hy. rewrite B4, A4; auto.
  - congruence.
  - lia.
  - auto.
Qed.

(* occupied pins of listed nodes survive a step that keeps the records of the attached line ends: from the consistency records
   before and after the step *)
Lemma fr_of_cw : forall (PD PR PD' PR' : nat -> Prop) c1 c2, CW PD PR c1 -> CW PD' PR' c2 ->
  (forall z, PD' z -> PD z) -> (forall z, PR' z -> PR z) ->
  nodes c2 = nodes c1 -> (forall z, In z (lines c1) -> In z (lines c2)) -> lnext c1 <= lnext c2 ->
  (forall z, In z (lines c1) -> ~ PR z -> l_rdr (lst c2 z) = l_rdr (lst c1 z) /\ l_rpin (lst c2 z) = l_rpin (lst c1 z)) ->
  (forall z, In z (lines c1) -> ~ PD z -> l_drv (lst c2 z) = l_drv (lst c1 z) /\ l_dpin (lst c2 z) = l_dpin (lst c1 z)) ->
  (forall y, n_kind (nst c2 y) = n_kind (nst c1 y) /\ n_name (nst c2 y) = n_name (nst c1 y)) ->
  (forall y, ~ NN y -> nst c2 y = nst c1 y) -> Fr c1 c2.
Proof.
  intros PD PR PD' PR' c1 c2 H1 H2 MD MR En Hl Hln FR FD Fk Fh. constructor; auto.
  - intros y p z Hy Hp. destruct (cw_ins _ _ _ H1 y p z Hy Hp) as [A [B [C D]]].
    destruct (cw_line _ _ _ H2 z (Hl z A)) as [d [r [E1 [E2 [_ E4]]]]].
    destruct (FR z A B) as [G1 G2]. rewrite G1, C in E2. injection E2 as <-. rewrite G2, D in E4.
    apply E4. intros Hc. apply B. auto.
  - intros y p z Hy Hp. destruct (cw_outs _ _ _ H1 y p z Hy Hp) as [A [B [C D]]].
    destruct (cw_line _ _ _ H2 z (Hl z A)) as [d [r [E1 [E2 [E3 _]]]]].
    destruct (FD z A B) as [G1 G2]. rewrite G1, C in E1. injection E1 as <-. rewrite G2, D in E3.
    apply E3. intros Hc. apply B. auto.
Qed.

(** *** the tight upper bound of the pins of the copies *)
Record TK (m : list (nat * nat)) (CR CD CFi' CFo' : nat -> Prop) (c1 : circ) : Prop := mkTK {
  tk_in : forall x y p z, mget x m = Some y -> in_at c1 y p = Some z ->
          (exists l, in_at impl x p = Some l /\ CR l) \/ (CFi' x /\ ins_of impl x = [] /\ p = 0);
  tk_out : forall x y p z, mget x m = Some y -> out_at c1 y p = Some z ->
           (exists l, out_at impl x p = Some l /\ CD l) \/ (CFo' x /\ p = List.length (outs_of impl x)) }.

Lemma tk_mono : forall m (CR CD CFi' CFo' CR2 CD2 CFi2 CFo2 : nat -> Prop) c1, TK m CR CD CFi' CFo' c1 ->
  (forall l, CR l -> CR2 l) -> (forall l, CD l -> CD2 l) -> (forall x, CFi' x -> CFi2 x) -> (forall x, CFo' x -> CFo2 x) ->
  TK m CR2 CD2 CFi2 CFo2 c1.
Proof.
  intros m CR CD CFi' CFo' CR2 CD2 CFi2 CFo2 c1 [A B] M1 M2 M3 M4. constructor.
  - intros x y p z Hx Hp. destruct (A x y p z Hx Hp) as [[l [E F]]|[E F]]; [left; exists l; auto|right; auto].
  - intros x y p z Hx Hp. destruct (B x y p z Hx Hp) as [[l [E F]]|[E F]]; [left; exists l; auto|right; auto].
Qed.
Lemma tk_frame : forall m CR CD CFi' CFo' c1 c2, TK m CR CD CFi' CFo' c1 -> nst c2 = nst c1 -> TK m CR CD CFi' CFo' c2.
Proof.
  intros m CR CD CFi' CFo' c1 c2 [A B] E. constructor.
  - intros x y p z Hx Hp. unfold in_at, ins_of in Hp. rewrite E in Hp. eapply A; eauto.
  - intros x y p z Hx Hp. unfold out_at, outs_of in Hp. rewrite E in Hp. eapply B; eauto.
Qed.
Lemma tk_set_in : forall m CR CD CFi' CFo' c1 rd pin ll, TK m CR CD CFi' CFo' c1 ->
  (forall x x' y, mget x m = Some y -> mget x' m = Some y -> x = x') ->
  (exists x, mget x m = Some rd /\ ((exists l, in_at impl x pin = Some l /\ CR l) \/ (CFi' x /\ ins_of impl x = [] /\ pin = 0))) ->
  TK m CR CD CFi' CFo' (set_in c1 rd pin ll).
Proof.
  intros m CR CD CFi' CFo' c1 rd pin ll [A B] Hinj [xw [W1 W2]].
  destruct (set_in_facts c1 rd pin ll) as [Hia [Houts _]]. constructor.
  - intros x y p z Hx Hp. rewrite Hia in Hp.
    destruct (Nat.eqb_spec y rd); simpl in Hp; [destruct (Nat.eqb_spec p pin); simpl in Hp|].
    + subst. rewrite (Hinj x xw rd Hx W1). exact W2.
    + eapply A; eauto.
    + eapply A; eauto.
  - intros x y p z Hx Hp. unfold out_at in Hp. rewrite Houts in Hp. eapply B; eauto.
Qed.
Lemma tk_set_out : forall m CR CD CFi' CFo' c1 dn pin ll, TK m CR CD CFi' CFo' c1 ->
  (forall x x' y, mget x m = Some y -> mget x' m = Some y -> x = x') ->
  (exists x, mget x m = Some dn /\ ((exists l, out_at impl x pin = Some l /\ CD l) \/ (CFo' x /\ pin = List.length (outs_of impl x)))) ->
  TK m CR CD CFi' CFo' (set_out c1 dn pin ll).
Proof.
  intros m CR CD CFi' CFo' c1 dn pin ll [A B] Hinj [xw [W1 W2]].
  destruct (set_out_facts c1 dn pin ll) as [Hoa [Hins _]]. constructor.
  - intros x y p z Hx Hp. unfold in_at in Hp. rewrite Hins in Hp. eapply A; eauto.
  - intros x y p z Hx Hp. rewrite Hoa in Hp.
    destruct (Nat.eqb_spec y dn); simpl in Hp; [destruct (Nat.eqb_spec p pin); simpl in Hp|].
    + subst. rewrite (Hinj x xw dn Hx W1). exact W2.
    + eapply B; eauto.
    + eapply B; eauto.
Qed.

(* nst frames of the two pin writes *)
Lemma nf_set_in : forall c1 rd pin ll, NN rd ->
  (forall y, n_kind (nst (set_in c1 rd pin ll) y) = n_kind (nst c1 y) /\ n_name (nst (set_in c1 rd pin ll) y) = n_name (nst c1 y)) /\
  (forall y, ~ NN y -> nst (set_in c1 rd pin ll) y = nst c1 y).
Proof.
  intros c1 rd pin ll HN. destruct (set_in_facts c1 rd pin ll) as [_ [_ [Hnf [Hother _]]]]. split.
  - intros y. destruct (Hnf y) as [A [B _]]. auto.
  - intros y Hy. apply Hother. intros ->. auto.
Qed.
Lemma nf_set_out : forall c1 dn pin ll, NN dn ->
  (forall y, n_kind (nst (set_out c1 dn pin ll) y) = n_kind (nst c1 y) /\ n_name (nst (set_out c1 dn pin ll) y) = n_name (nst c1 y)) /\
  (forall y, ~ NN y -> nst (set_out c1 dn pin ll) y = nst c1 y).
Proof.
  intros c1 dn pin ll HN. destruct (set_out_facts c1 dn pin ll) as [_ [_ [Hnf [Hother _]]]]. split.
  - intros y. destruct (Hnf y) as [A [B _]]. auto.
  - intros y Hy. apply Hother. intros ->. auto.
Qed.

(** *** phase (b) *)
Lemma san_cases : forall iname c1 m n st', subst_add_nodes impl iname desig (c1, m) n = Some st' ->
  st' = (c1, m) \/
  exists c' id, add_node c1 (tilde iname (name_of impl n)) (if in_ios impl n then FORK else kind_of impl n) = Some (c', id) /\
                st' = (c', mset n id m).
Proof.
  intros iname c1 m n st' H. unfold subst_add_nodes in H. destruct (in_ios impl n); cbn [negb] in H; cbv iota in H.
  - destruct ((0 <? List.length (outs_of impl n)) && (0 <? List.length (ins_of impl n))).
    + destruct (add_node c1 (tilde iname (name_of impl n)) FORK) as [[c' id]|]; [|discriminate]. inv H. right. eauto.
    + destruct ((List.length (ins_of impl n) =? 0) && negb (List.length (outs_of impl n) =? 1)).
      * destruct (add_node c1 (tilde iname (name_of impl n)) FORK) as [[c' id]|]; [|discriminate]. inv H. right. eauto.
      * inv H. auto.
  - destruct desig as [dc|]; [|discriminate]. destruct (negb (node_eqb impl n impl dc)).
    + destruct (add_node c1 (tilde iname (name_of impl n)) (kind_of impl n)) as [[c' id]|]; [|discriminate]. inv H. right. eauto.
    + inv H. auto.
Qed.

Lemma pbx_step : forall done c1 m n st', PB c node impl desig done (c1, m) -> PBx c node impl (c1, m) ->
  subst_add_nodes impl (name_of c node) desig (c1, m) n = Some st' -> PBx c node impl st'.
Proof.
  intros done c1 m n st' HB HX Hs. destruct (san_cases _ _ _ _ _ Hs) as [->|[c' [id [Hadd ->]]]]; auto.
  destruct HX as [X1 X2 X3 X4 X5 X6]. cbn [fst snd] in *.
  destruct (add_node_facts c1 _ _ c' id Hadd) as [_ [-> [F1 [F2 [F3 [F4 [F5 [F6 [F7 [F8 _]]]]]]]]]].
  pose proof (pb_nn _ _ _ _ _ _ HB) as Hnn. pose proof (pb_rng _ _ _ _ _ _ HB) as Hrng. cbn [fst snd] in Hnn, Hrng.
  assert (Hlt : forall y, In y (nodes c1) -> y <> nnext c1).
  { intros y Hy. apply (bn_nb c1 (cw_n _ _ _ (pb_cw _ _ _ _ _ _ HB))) in Hy. lia. }
  assert (Hnode_lt : node <> nnext c1). { pose proof (cc_nb [] c HC node (or_introl Hnode)). lia. }
  assert (Hmg : forall x, mget x (mset n (nnext c1) m) = if Nat.eqb x n then Some (nnext c1) else mget x m) by (intros; apply mget_mset).
  constructor; cbn [fst snd].
  - intros x y Hx. rewrite Hmg in Hx. destruct (Nat.eqb_spec x n).
    + inv Hx. unfold kind_of at 1. rewrite F8. reflexivity.
    + destruct (Hrng x y Hx) as [A _]. unfold kind_of at 1. rewrite F7 by (apply Hlt; auto). apply X1; auto.
  - intros x y Hx Hne. rewrite Hmg in Hx. destruct (Nat.eqb_spec x n).
    + inv Hx. unfold name_of at 1. rewrite F8. reflexivity.
    + destruct (Hrng x y Hx) as [A _]. unfold name_of at 1. rewrite F7 by (apply Hlt; auto). apply X2; auto.
  - unfold name_of at 1. rewrite F7 by auto. exact X3.
  - intros y HN. rewrite F7. apply X4; auto. intros ->. apply HN. right. auto.
  - congruence.
  - congruence.
Qed.

Lemma pbx_fold : forall st st', PB c node impl desig [] st -> PBx c node impl st ->
  fold_opt (subst_add_nodes impl (name_of c node) desig) (nodes impl) st = Some st' ->
  PB c node impl desig (nodes impl) st' /\ PBx c node impl st'.
Proof.
  intros st st' H HX Hf.
  apply (fold_opt_inv (subst_add_nodes impl (name_of c node) desig)
           (fun done s => PB c node impl desig done s /\ PBx c node impl s) (nodes impl)) with (a := st); auto.
  intros done x rest [c1 m] a' Hall [Ha Hb] Hs. split.
  - eapply (pb_step c node impl HIC Hio_forks desig Hdesig); eauto.
  - eapply pbx_step; eauto.
Qed.

(** *** phase (c) *)
Lemma add_line_frame : forall c1 d dp r rp,
  nodes (fst (add_line c1 d (Some dp) r (Some rp))) = nodes c1 /\
  lines (fst (add_line c1 d (Some dp) r (Some rp))) = lines c1 ++ [lnext c1] /\
  lnext (fst (add_line c1 d (Some dp) r (Some rp))) = S (lnext c1) /\
  (forall z, z <> lnext c1 -> lst (fst (add_line c1 d (Some dp) r (Some rp))) z = lst c1 z).
Proof.
  intros. rewrite add_line_explicit. unfold set_in, set_out, new_line, upd_node, with_nst. cbn.
  repeat split; auto. intros z Hz. unfold fupd. destruct (Nat.eqb_spec z (lnext c1)); congruence.
Qed.
Lemma add_line_nf : forall c1 d dp r rp, NN d -> NN r ->
  (forall y, n_kind (nst (fst (add_line c1 d (Some dp) r (Some rp))) y) = n_kind (nst c1 y) /\
             n_name (nst (fst (add_line c1 d (Some dp) r (Some rp))) y) = n_name (nst c1 y)) /\
  (forall y, ~ NN y -> nst (fst (add_line c1 d (Some dp) r (Some rp))) y = nst c1 y).
Proof.
  intros c1 d dp r rp Hd Hr. rewrite add_line_explicit.
  set (c' := new_line c1 _).
  destruct (nf_set_out c' d dp (lnext c1) Hd) as [K1 H1].
  destruct (nf_set_in (set_out c' d dp (lnext c1)) r rp (lnext c1) Hr) as [K2 H2]. split.
  - intros y. destruct (K1 y) as [A B]. destruct (K2 y) as [A' B']. split.
    + rewrite A', A. reflexivity.
    + rewrite B', B. reflexivity.
  - intros y Hy. rewrite H2, H1 by auto. reflexivity.
Qed.
Lemma add_line_pins : forall c1 d dp r rp,
  out_at (fst (add_line c1 d (Some dp) r (Some rp))) d dp = Some (lnext c1) /\
  in_at (fst (add_line c1 d (Some dp) r (Some rp))) r rp = Some (lnext c1).
Proof.
  intros c1 d dp r rp. rewrite add_line_explicit. set (c' := new_line c1 _).
  destruct (set_in_facts (set_out c' d dp (lnext c1)) r rp (lnext c1)) as [Hia [Houts _]].
  destruct (set_out_facts c' d dp (lnext c1)) as [Hoa _]. split.
  - unfold out_at. rewrite Houts. fold (out_at (set_out c' d dp (lnext c1)) d dp). rewrite Hoa, !Nat.eqb_refl. reflexivity.
  - rewrite Hia, !Nat.eqb_refl. reflexivity.
Qed.
Lemma tk_add_line : forall m CR CD CFi' CFo' c1 d dp r rp, TK m CR CD CFi' CFo' c1 ->
  (forall x x' y, mget x m = Some y -> mget x' m = Some y -> x = x') ->
  (exists x, mget x m = Some d /\ ((exists l, out_at impl x dp = Some l /\ CD l) \/ (CFo' x /\ dp = List.length (outs_of impl x)))) ->
  (exists x, mget x m = Some r /\ ((exists l, in_at impl x rp = Some l /\ CR l) \/ (CFi' x /\ ins_of impl x = [] /\ rp = 0))) ->
  TK m CR CD CFi' CFo' (fst (add_line c1 d (Some dp) r (Some rp))).
Proof.
  intros m CR CD CFi' CFo' c1 d dp r rp H Hinj Wd Wr. rewrite add_line_explicit.
  apply tk_set_in; auto. apply tk_set_out; auto. eapply tk_frame. exact H. reflexivity.
Qed.

Lemma sal_cases : forall m c1 l c2, subst_add_line impl m c1 l = Some c2 ->
  (c2 = c1 /\ ~ Both impl m l) \/
  (exists d r d' r', l_drv (lst impl l) = Some d /\ l_rdr (lst impl l) = Some r /\ mget d m = Some d' /\ mget r m = Some r' /\
     c2 = fst (add_line c1 d' (Some (l_dpin (lst impl l))) r' (Some (l_rpin (lst impl l))))).
Proof.
  intros m c1 l c2 H. unfold subst_add_line in H. cbv zeta in H.
  destruct (l_rdr (lst impl l)) as [r|] eqn:Er; [destruct (l_drv (lst impl l)) as [d|] eqn:Ed|].
  - destruct (mget r m) as [r'|] eqn:Emr; [destruct (mget d m) as [d'|] eqn:Emd|].
    + inv H. right. exists d, r, d', r'. auto.
    + inv H. left. split; auto. intros [d0 [r0 [d1 [r1 [B1 [B2 [B3 B4]]]]]]]. congruence.
    + inv H. left. split; auto. intros [d0 [r0 [d1 [r1 [B1 [B2 [B3 B4]]]]]]]. congruence.
  - inv H. left. split; auto. intros [d0 [r0 [d1 [r1 [B1 [B2 [B3 B4]]]]]]]. congruence.
  - inv H. left. split; auto. intros [d0 [r0 [d1 [r1 [B1 [B2 [B3 B4]]]]]]]. congruence.
Qed.

Record LC (m : list (nat * nat)) (c1 : circ) (done : list nat) (c2 : circ) : Prop := mkLC {
  lc_pc : PC c node impl m done c2;
  lc_fr : Fr c1 c2;
  lc_tk : TK m (CL impl m done) (CL impl m done) NoP NoP c2;
  lc_lo : forall l d r d' r', In l done -> l_drv (lst impl l) = Some d -> l_rdr (lst impl l) = Some r ->
          mget d m = Some d' -> mget r m = Some r' ->
          exists z, lnext c1 <= z /\ out_at c2 d' (l_dpin (lst impl l)) = Some z /\ in_at c2 r' (l_rpin (lst impl l)) = Some z }.

Lemma lc_step : forall m c1 done l rest c2 c2', lines impl = done ++ l :: rest -> LC m c1 done c2 ->
  subst_add_line impl m c2 l = Some c2' -> LC m c1 (done ++ [l]) c2'.
Proof.
  intros m c1 done l rest c2 c2' Hall [Hpc Hfr Htk Hlo] Hs.
  pose proof (pc_step c node impl HIC m done l rest c2 c2' Hall Hpc Hs) as Hpc'.
  assert (Hl : In l (lines impl)). { rewrite Hall. apply in_or_app; right; left; auto. }
  assert (Hsub : forall l', CL impl m done l' -> CL impl m (done ++ [l]) l').
  { intros l' [A B]. split; auto. apply in_or_app; auto. }
  destruct (sal_cases _ _ _ _ Hs) as [[-> HnB]|[d [r [d' [r' [Hd [Hr [Ed [Er E]]]]]]]]].
  - constructor; auto.
    + eapply tk_mono; eauto.
    + intros l' d r d' r' Hin A1 A2 A3 A4. apply in_app_or in Hin. destruct Hin as [Hin|[<-|[]]].
      * eapply Hlo; eauto.
      * exfalso. apply HnB. exists d, r, d', r'. auto.
  - destruct Hpc as [Hcw Hbk Hdn].
    destruct (bk_rng _ _ _ _ _ _ _ _ _ Hbk d d' Ed) as [Hd'n [HNd _]].
    destruct (bk_rng _ _ _ _ _ _ _ _ _ Hbk r r' Er) as [Hr'n [HNr _]].
    destruct (impl_line impl HIC l Hl) as [d0 [r0 [Hd0 [Hr0 [_ [_ [Ho Hi]]]]]]].
    rewrite Hd in Hd0. injection Hd0 as <-. rewrite Hr in Hr0. injection Hr0 as <-.
    destruct (add_line_frame c2 d' (l_dpin (lst impl l)) r' (l_rpin (lst impl l))) as [G1 [G2 [G3 G4]]].
    destruct (add_line_nf c2 d' (l_dpin (lst impl l)) r' (l_rpin (lst impl l)) HNd HNr) as [G5 G6].
    destruct (add_line_pins c2 d' (l_dpin (lst impl l)) r' (l_rpin (lst impl l))) as [G7 G8].
    rewrite <- E in G1, G2, G3, G4, G5, G6, G7, G8.
    assert (Hfresh : forall z, In z (lines c2) -> z <> lnext c2).
    { intros z Hz. apply (bl_lb c2 (cw_l _ _ _ Hcw)) in Hz. lia. }
    assert (HF : Fr c2 c2').
    { apply (fr_of_cw PD0' PR0' PD0' PR0' c2 c2' Hcw (pc_cw _ _ _ _ _ _ Hpc')); auto.
      - intros z Hz. rewrite G2. apply in_or_app; auto.
      - lia.
      - intros z Hz _. rewrite G4; auto.
      - intros z Hz _. rewrite G4; auto. }
    assert (HCLl : CL impl m (done ++ [l]) l). { split. apply in_or_app; right; left; auto. exists d, r, d', r'. auto. }
    constructor; auto.
    + eapply fr_trans; eauto.
    + rewrite E. apply tk_add_line.
      * eapply tk_mono; eauto.
      * apply (bk_inj _ _ _ _ _ _ _ _ _ Hbk).
      * exists d. split; auto. left. exists l. auto.
      * exists r. split; auto. left. exists l. auto.
    + intros l' d0 r0 d0' r0' Hin A1 A2 A3 A4. apply in_app_or in Hin. destruct Hin as [Hin|[<-|[]]].
      * destruct (Hlo l' d0 r0 d0' r0' Hin A1 A2 A3 A4) as [z [Z1 [Z2 Z3]]]. exists z. split; auto. split.
        -- apply (fr_out _ _ HF); auto. apply (bk_rng _ _ _ _ _ _ _ _ _ Hbk d0 d0' A3).
        -- apply (fr_in _ _ HF); auto. apply (bk_rng _ _ _ _ _ _ _ _ _ Hbk r0 r0' A4).
      * rewrite Hd in A1. injection A1 as <-. rewrite Hr in A2. injection A2 as <-.
        rewrite Ed in A3. injection A3 as <-. rewrite Er in A4. injection A4 as <-.
        exists (lnext c2). split. apply (fr_ln _ _ Hfr). auto.
Qed.

Lemma lc_fold : forall m c1 c2, PC c node impl m [] c1 -> TK m NoP NoP NoP NoP c1 ->
  fold_opt (subst_add_line impl m) (lines impl) c1 = Some c2 -> LC m c1 (lines impl) c2.
Proof.
  intros m c1 c2 H HT Hf. apply (fold_opt_inv (subst_add_line impl m) (LC m c1) (lines impl)) with (a := c1); auto.
  - intros done x rest a a' Hall Ha Hs. eapply lc_step; eauto.
  - constructor; auto. apply fr_refl. eapply tk_mono; eauto; intros ? []. intros l d r d' r' [].
Qed.

(** *** phase (d), inputs *)
Definition tgt_in (m : list (nat * nat)) (inn : nat) : option (nat * nat) :=
  match outs_of impl inn with
  | [o] => match o with
           | Some l => match l_rdr (lst impl l) with
                       | Some r => match mget r m with Some r' => Some (r', l_rpin (lst impl l)) | None => None end
                       | None => None end
           | None => None end
  | _ => match mget inn m with Some f => Some (f, 0) | None => None end
  end.

Lemma sci_eq : forall m c1 inn ll, subst_conn_in impl m c1 (inn, Some ll) =
  match tgt_in m inn with
  | None => None
  | Some (rd, pin) => Some (set_in (upd_line c1 ll (fun x => lset_rdr x (Some rd) pin)) rd pin ll)
  end.
Proof. reflexivity. Qed.

Lemma tgt_in_wit : forall m inn rd pin, In inn (nodes impl) -> tgt_in m inn = Some (rd, pin) ->
  (exists l r, outs_of impl inn = [Some l] /\ l_rdr (lst impl l) = Some r /\ mget r m = Some rd /\ pin = l_rpin (lst impl l) /\
               in_at impl r pin = Some l) \/
  (mget inn m = Some rd /\ pin = 0 /\ forall l, outs_of impl inn <> [Some l]).
Proof.
  intros m inn rd pin Hinn H. unfold tgt_in in H. destruct (outs_of impl inn) as [|o [|o2 t]] eqn:Eo.
  - destruct (mget inn m) as [f|]; [|discriminate]. inv H. right. split; auto. split; auto. intros l; discriminate.
  - destruct o as [l|]; [|discriminate]. destruct (l_rdr (lst impl l)) as [r|] eqn:Er; [|discriminate].
    destruct (mget r m) as [r'|] eqn:Em; [|discriminate]. inv H. left. exists l, r.
    assert (Ho0 : out_at impl inn 0 = Some l) by (unfold out_at; rewrite Eo; reflexivity).
    destruct (impl_out impl HIC inn 0 l Hinn Ho0) as [Hl _].
    destruct (impl_line impl HIC l Hl) as [d1 [r1 [_ [Hr1 [_ [_ [_ Hi1']]]]]]]. rewrite Er in Hr1. injection Hr1 as <-. auto.
  - destruct (mget inn m) as [f|]; [|discriminate]. inv H. right. split; auto. split; auto. intros l; discriminate.
Qed.

Definition CRt (m : list (nat * nat)) (done : list (nat * option nat)) (l : nat) : Prop :=
  CL impl m (lines impl) l \/ exists inn ll, In (inn, Some ll) done /\ outs_of impl inn = [Some l].
Definition CFit (done : list (nat * option nat)) (x : nat) : Prop := exists ll, In (x, Some ll) done.

Record LI (m : list (nat * nat)) (c2 : circ) (done : list (nat * option nat)) (c3 : circ) : Prop := mkLI {
  li_pi : PI c node impl m done c3;
  li_fr : Fr c2 c3;
  li_tk : TK m (CRt m done) (CL impl m (lines impl)) (CFit done) NoP c3;
  li_lo : forall inn ll, In (inn, Some ll) done ->
          exists rd pin, tgt_in m inn = Some (rd, pin) /\ In rd (nodes c2) /\ in_at c3 rd pin = Some ll }.

Lemma li_step : forall m c2 done inn oll rest c3 c3',
  (forall x y, mget x m = Some y -> desig = Some x \/ in_ios impl x = false \/ cond2 impl x = true \/ cond3 impl x = true) ->
  zin = done ++ (inn, oll) :: rest -> LI m c2 done c3 -> subst_conn_in impl m c3 (inn, oll) = Some c3' ->
  LI m c2 (done ++ [(inn, oll)]) c3'.
Proof.
  intros m c2 done inn oll rest c3 c3' Hms2 Hall [Hpi Hfr Htk Hlo] Hs.
  pose proof (pi_step c node impl HIC HIL desig Hdesig m zin done inn oll rest c3 c3' Hms2 Hall Hi1 Hi2 Hi3 Hpr_in Hpi Hs) as Hpi'.
  assert (Hfst : map fst zin = map fst done ++ inn :: map fst rest) by (rewrite Hall, map_app; reflexivity).
  assert (Hsnd : map snd zin = map snd done ++ oll :: map snd rest) by (rewrite Hall, map_app; reflexivity).
  assert (M1 : forall l, CRt m done l -> CRt m (done ++ [(inn, oll)]) l).
  { intros l [A|[i0 [l0 [A B]]]]; [left; auto|right]. exists i0, l0. split; auto. apply in_or_app; auto. }
  assert (M2 : forall x, CFit done x -> CFit (done ++ [(inn, oll)]) x).
  { intros x [l0 A]. exists l0. apply in_or_app; auto. }
  destruct oll as [ll|].
  2:{ simpl in Hs. injection Hs as <-. constructor; auto.
      - eapply tk_mono; eauto.
      - intros inn' ll' Hin. apply in_app_or in Hin. destruct Hin as [Hin|[Hin|[]]]; [auto|discriminate]. }
  rewrite sci_eq in Hs. destruct (tgt_in m inn) as [[rd pin]|] eqn:Et; [|discriminate]. injection Hs as <-.
  destruct (Hi3 inn) as [Hinn_io Hinn_ins]. { rewrite Hfst. apply in_or_app; right; left; auto. }
  pose proof (io_listed impl HIL inn Hinn_io) as Hinn_l.
  assert (Hll_nd : ~ In (Some ll) (map snd done)).
  { intros Hc. apply somes_In in Hc. revert Hc. apply (nodup_mid _ (somes (map snd rest))).
    rewrite Hsnd, somes_app in Hi2. simpl in Hi2. exact Hi2. }
  assert (Hll : PRi c node done ll). { split; auto. apply Hpr_in. rewrite Hsnd. apply in_or_app; right; left; auto. }
  destruct Hpi as [Hcw Hbk Hdn].
  assert (Hnew : In (inn, Some ll) (done ++ [(inn, Some ll)])) by (apply in_or_app; right; left; auto).
  assert (W : exists x, mget x m = Some rd /\
                ((exists l, in_at impl x pin = Some l /\ CRt m (done ++ [(inn, Some ll)]) l) \/
                 (CFit (done ++ [(inn, Some ll)]) x /\ ins_of impl x = [] /\ pin = 0))).
  { destruct (tgt_in_wit m inn rd pin Hinn_l Et) as [[l [r [Eo [Er [Em [Ep Hi]]]]]]|[Em [Ep Hns]]].
    - exists r. split; auto. left. exists l. split; auto. right. exists inn, ll. auto.
    - exists inn. split; auto. right. split; auto. exists ll. auto. }
  destruct W as [xw [W1 W2]].
  destruct (bk_rng _ _ _ _ _ _ _ _ _ Hbk xw rd W1) as [Hrdn [HNrd _]].
  set (c' := upd_line c3 ll (fun x => lset_rdr x (Some rd) pin)) in *.
  destruct (nf_set_in c' rd pin ll HNrd) as [K1 K2].
  destruct (set_in_facts c' rd pin ll) as [Hia _].
  assert (HF : Fr c3 (set_in c' rd pin ll)).
  { apply (fr_of_cw PD0' (PRi c node done) PD0' (PRi c node (done ++ [(inn, Some ll)])) c3 _ Hcw (pi_cw _ _ _ _ _ _ Hpi')); auto.
    - intros z [A B]. split; auto. intros Hc. apply B. rewrite map_app. apply in_or_app; auto.
    - intros z Hz HnPR. assert (z <> ll) by (intros ->; auto).
      unfold set_in, c', upd_node, upd_line, with_nst, with_lst, fupd. cbn. destruct (Nat.eqb_spec z ll); [contradiction|auto].
    - intros z Hz _. unfold set_in, c', upd_node, upd_line, with_nst, with_lst, fupd. cbn.
      destruct (Nat.eqb_spec z ll); [subst; cbn; auto|auto]. }
  constructor; auto.
  - eapply fr_trans; eauto.
  - apply tk_set_in.
    + eapply tk_frame. eapply tk_mono; eauto. reflexivity.
    + apply (bk_inj _ _ _ _ _ _ _ _ _ Hbk).
    + exists xw. auto.
  - intros inn' ll' Hin. apply in_app_or in Hin. destruct Hin as [Hin|[Hin|[]]].
    + destruct (Hlo inn' ll' Hin) as [rd0 [pin0 [T1 [T2 T3]]]]. exists rd0, pin0. split; auto. split; auto.
      apply (fr_in _ _ HF); auto. rewrite (fr_nodes _ _ Hfr). auto.
    + injection Hin as <- <-. exists rd, pin. split; auto. split. rewrite <- (fr_nodes _ _ Hfr). auto.
      rewrite Hia, !Nat.eqb_refl. reflexivity.
Qed.

Lemma li_fold : forall m c2 c3,
  (forall x y, mget x m = Some y -> desig = Some x \/ in_ios impl x = false \/ cond2 impl x = true \/ cond3 impl x = true) ->
  PI c node impl m [] c2 -> TK m (CL impl m (lines impl)) (CL impl m (lines impl)) NoP NoP c2 ->
  fold_opt (subst_conn_in impl m) zin c2 = Some c3 -> LI m c2 zin c3.
Proof.
  intros m c2 c3 Hms2 H HT Hf. apply (fold_opt_inv (subst_conn_in impl m) (LI m c2) zin) with (a := c2); auto.
  - intros done [inn oll] rest a a' Hall Ha Hs. eapply li_step; eauto.
  - constructor; auto. apply fr_refl.
    + eapply tk_mono; eauto. intros l A. left; auto. intros x [].
    + intros inn ll [].
Qed.

(** *** phase (d), outputs *)
Definition tgt_out (m : list (nat * nat)) (l : nat) : option (nat * nat) :=
  match l_rdr (lst impl l) with
  | None => None
  | Some r =>
      if 0 <? List.length (outs_of impl r)
      then match mget r m with Some f => Some (f, List.length (outs_of impl r)) | None => None end
      else match l_drv (lst impl l) with
           | Some d => match mget d m with Some d' => Some (d', l_dpin (lst impl l)) | None => None end
           | None => None end
  end.

Lemma sco_eq : forall m c1 dl l ll, subst_conn_out true impl m (c1, dl) (Some l, Some ll) =
  match tgt_out m l with
  | None => None
  | Some (dn, pin) => Some (set_out (upd_line c1 ll (fun x => lset_drv x (Some dn) pin)) dn pin ll, dl)
  end.
Proof. intros. unfold subst_conn_out, tgt_out. destruct (l_rdr (lst impl l)); reflexivity. Qed.
Lemma sco_none : forall m c1 dl l st', subst_conn_out true impl m (c1, dl) (Some l, None) = Some st' -> fst st' = c1.
Proof.
  intros m c1 dl l st' H. unfold subst_conn_out in H. cbv beta iota zeta in H.
  destruct (l_drv (lst impl l)) as [d|]; [destruct (mget d m)|]; inv H; reflexivity.
Qed.

Lemma tgt_out_wit : forall m l dn pin, In l (lines impl) -> tgt_out m l = Some (dn, pin) ->
  exists r, l_rdr (lst impl l) = Some r /\
    ((0 < List.length (outs_of impl r) /\ mget r m = Some dn /\ pin = List.length (outs_of impl r)) \/
     (List.length (outs_of impl r) = 0 /\
      exists d, l_drv (lst impl l) = Some d /\ mget d m = Some dn /\ pin = l_dpin (lst impl l) /\ out_at impl d pin = Some l)).
Proof.
  intros m l dn pin Hl H. unfold tgt_out in H. destruct (l_rdr (lst impl l)) as [r|] eqn:Er; [|discriminate].
  exists r. split; auto. destruct (0 <? List.length (outs_of impl r)) eqn:Ek.
  - apply Nat.ltb_lt in Ek. destruct (mget r m) as [f|] eqn:Em; [|discriminate]. inv H. left. auto.
  - apply Nat.ltb_ge in Ek. destruct (l_drv (lst impl l)) as [d|] eqn:Ed; [|discriminate].
    destruct (mget d m) as [d'|] eqn:Em; [|discriminate]. inv H. right. split. lia. exists d.
    destruct (impl_line impl HIC l Hl) as [d1 [r1 [Hd1 [_ [_ [_ [Ho _]]]]]]]. rewrite Ed in Hd1. injection Hd1 as <-. auto.
Qed.

Definition CDt (m : list (nat * nat)) (done : list (option nat * option nat)) (l : nat) : Prop :=
  CL impl m (lines impl) l \/ exists ll, In (Some l, Some ll) done.
Definition CFot (done : list (option nat * option nat)) (x : nat) : Prop :=
  exists l ll, In (Some l, Some ll) done /\ l_rdr (lst impl l) = Some x /\ 0 < List.length (outs_of impl x).

Record LO (m : list (nat * nat)) (PRf CRf CFif CRt' CFit' : nat -> Prop) (c3 : circ)
          (done : list (option nat * option nat)) (st : circ * list nat) : Prop := mkLO {
  lo_po : PO c node impl m PRf CRf CFif done st;
  lo_fr : Fr c3 (fst st);
  lo_tk : TK m CRt' (CDt m done) CFit' (CFot done) (fst st);
  lo_lo : forall l ll, In (Some l, Some ll) done ->
          exists dn pin, tgt_out m l = Some (dn, pin) /\ In dn (nodes c3) /\ out_at (fst st) dn pin = Some ll;
  lo_some : forall ol oll, In (ol, oll) done -> ol <> None }.

Lemma lo_step : forall m PRf CRf CFif CRt' CFit' c3 done ol oll rest st st',
  (forall x y, mget x m = Some y -> desig = Some x \/ in_ios impl x = false \/ cond2 impl x = true \/ cond3 impl x = true) ->
  zout = done ++ (ol, oll) :: rest -> LO m PRf CRf CFif CRt' CFit' c3 done st ->
  subst_conn_out true impl m st (ol, oll) = Some st' ->
  LO m PRf CRf CFif CRt' CFit' c3 (done ++ [(ol, oll)]) st'.
Proof.
  intros m PRf CRf CFif CRt' CFit' c3 done ol oll rest [c4 dl] st' Hms2 Hall [Hpo Hfr Htk Hlo Hsm] Hs.
  pose proof (po_step c node impl HIC HIL desig Hdesig m PRf CRf CFif zout done ol oll rest (c4, dl) st' Hms2 Hall Ho1 Ho2 Ho3 Hpd_out Hpo Hs) as Hpo'.
  cbn [fst snd] in *.
  assert (Hfst : map fst zout = map fst done ++ ol :: map fst rest) by (rewrite Hall, map_app; reflexivity).
  assert (Hsnd : map snd zout = map snd done ++ oll :: map snd rest) by (rewrite Hall, map_app; reflexivity).
  destruct ol as [l|]. 2:{ unfold subst_conn_out in Hs. cbv beta iota zeta in Hs. discriminate. }
  assert (M1 : forall l', CDt m done l' -> CDt m (done ++ [(Some l, oll)]) l').
  { intros l' [A|[l0 A]]; [left; auto|right]. exists l0. apply in_or_app; auto. }
  assert (M2 : forall x, CFot done x -> CFot (done ++ [(Some l, oll)]) x).
  { intros x [l0 [l1 [A B]]]. exists l0, l1. split; auto. apply in_or_app; auto. }
  assert (Hsm' : forall ol' oll', In (ol', oll') (done ++ [(Some l, oll)]) -> ol' <> None).
  { intros ol' oll' Hin. apply in_app_or in Hin. destruct Hin as [Hin|[Hin|[]]]. eapply Hsm; eauto. injection Hin as <- <-. discriminate. }
  destruct (Ho3 l) as [n [Hn_io Hn_in]]. { rewrite Hfst. apply in_or_app; right; left; auto. }
  destruct (impl_in impl HIC n 0 l (io_listed impl HIL n Hn_io) Hn_in) as [Hl [Hr _]].
  destruct oll as [ll|].
  2:{ pose proof (sco_none _ _ _ _ _ Hs) as E. destruct st' as [c4' dl']. cbn [fst snd] in *. subst c4'. constructor; cbn [fst snd]; auto.
      - eapply tk_mono; eauto.
      - intros l' ll' Hin. apply in_app_or in Hin. destruct Hin as [Hin|[Hin|[]]]; [auto|discriminate]. }
  rewrite sco_eq in Hs. destruct (tgt_out m l) as [[dn pin]|] eqn:Et; [|discriminate]. injection Hs as <-.
  assert (Hll_nd : ~ In (Some ll) (map snd done)).
  { intros Hc. apply somes_In in Hc. revert Hc. apply (nodup_mid _ (somes (map snd rest))).
    rewrite Hsnd, somes_app in Ho2. simpl in Ho2. exact Ho2. }
  assert (Hll : PDo c node done ll). { split; auto. apply Hpd_out. rewrite Hsnd. apply in_or_app; right; left; auto. }
  destruct Hpo as [Hcw Hbk Hdn Hdl]. cbn [fst snd] in *.
  assert (Hnew : In (Some l, Some ll) (done ++ [(Some l, Some ll)])) by (apply in_or_app; right; left; auto).
  assert (W : exists x, mget x m = Some dn /\
                ((exists l', out_at impl x pin = Some l' /\ CDt m (done ++ [(Some l, Some ll)]) l') \/
                 (CFot (done ++ [(Some l, Some ll)]) x /\ pin = List.length (outs_of impl x)))).
  { destruct (tgt_out_wit m l dn pin Hl Et) as [r [Er [[Ek [Em Ep]]|[Ek [d [Ed [Em [Ep Ho]]]]]]]].
    - exists r. split; auto. right. split; auto. exists l, ll. auto.
    - exists d. split; auto. left. exists l. split; auto. right. exists ll. auto. }
  destruct W as [xw [W1 W2]].
  destruct (bk_rng _ _ _ _ _ _ _ _ _ Hbk xw dn W1) as [Hdnn [HNdn _]].
  set (c' := upd_line c4 ll (fun x => lset_drv x (Some dn) pin)) in *.
  destruct (nf_set_out c' dn pin ll HNdn) as [K1 K2].
  destruct (set_out_facts c' dn pin ll) as [Hoa _].
  assert (HF : Fr c4 (set_out c' dn pin ll)).
  { apply (fr_of_cw (PDo c node done) PRf (PDo c node (done ++ [(Some l, Some ll)])) PRf c4 _ Hcw (po_cw _ _ _ _ _ _ _ _ _ Hpo')); auto.
    - intros z [A B]. split; auto. intros Hc. apply B. rewrite map_app. apply in_or_app; auto.
    - intros z Hz _. unfold set_out, c', upd_node, upd_line, with_nst, with_lst, fupd. cbn.
      destruct (Nat.eqb_spec z ll); [subst; cbn; auto|auto].
    - intros z Hz HnPD. assert (z <> ll) by (intros ->; auto).
      unfold set_out, c', upd_node, upd_line, with_nst, with_lst, fupd. cbn. destruct (Nat.eqb_spec z ll); [contradiction|auto]. }
  constructor; cbn [fst snd]; auto.
  - eapply fr_trans; eauto.
  - apply tk_set_out.
    + eapply tk_frame. eapply tk_mono; eauto. reflexivity.
    + apply (bk_inj _ _ _ _ _ _ _ _ _ Hbk).
    + exists xw. auto.
  - intros l' ll' Hin. apply in_app_or in Hin. destruct Hin as [Hin|[Hin|[]]].
    + destruct (Hlo l' ll' Hin) as [dn0 [pin0 [T1 [T2 T3]]]]. exists dn0, pin0. split; auto. split; auto.
      apply (fr_out _ _ HF); auto. rewrite (fr_nodes _ _ Hfr). auto.
    + injection Hin as <- <-. exists dn, pin. split; auto. split. rewrite <- (fr_nodes _ _ Hfr). auto.
      rewrite Hoa, !Nat.eqb_refl. reflexivity.
Qed.

Lemma lo_fold : forall m PRf CRf CFif CRt' CFit' c3 st',
  (forall x y, mget x m = Some y -> desig = Some x \/ in_ios impl x = false \/ cond2 impl x = true \/ cond3 impl x = true) ->
  PO c node impl m PRf CRf CFif [] (c3, []) -> TK m CRt' (CL impl m (lines impl)) CFit' NoP c3 ->
  fold_opt (subst_conn_out true impl m) zout (c3, []) = Some st' -> LO m PRf CRf CFif CRt' CFit' c3 zout st'.
Proof.
  intros m PRf CRf CFif CRt' CFit' c3 st' Hms2 H HT Hf.
  apply (fold_opt_inv (subst_conn_out true impl m) (LO m PRf CRf CFif CRt' CFit' c3) zout) with (a := (c3, [])); auto.
  - intros done [ol oll] rest a a' Hall Ha Hs. eapply lo_step; eauto.
  - constructor; cbn [fst snd].
    + exact H.
    + apply fr_refl.
    + eapply tk_mono; eauto. intros l A. left; auto. intros x [].
    + intros l ll [].
    + intros ol oll [].
Qed.

(** *** all records at the end of phase (d) *)
Lemma pipe_final : forall st0 c4 dl m,
  PB c node impl desig [] st0 -> PBx c node impl st0 ->
  pre_pipe impl desig (name_of c node) zin zout st0 = Some (c4, dl, m) ->
  exists c1 c2 c3,
    PB c node impl desig (nodes impl) (c1, m) /\ PBx c node impl (c1, m) /\
    LC m c1 (lines impl) c2 /\ LI m c2 zin c3 /\
    LO m (PRi c node zin) (CRi impl m zin) (CFi zin) (CRt m zin) (CFit zin) c3 zout (c4, dl).
Proof.
  intros st0 c4' dl' m' H0 HX0 Hs. unfold pre_pipe in Hs.
  destruct (fold_opt (subst_add_nodes impl (name_of c node) desig) (nodes impl) st0) as [[c1 m]|] eqn:E1; [|discriminate].
  destruct (fold_opt (subst_add_line impl m) (lines impl) c1) as [c2|] eqn:E2; [|discriminate].
  destruct (fold_opt (subst_conn_in impl m) zin c2) as [c3|] eqn:E3; [|discriminate].
  destruct (fold_opt (subst_conn_out true impl m) zout (c3, [])) as [[c4 dl]|] eqn:E4; [|discriminate]. inv Hs.
  destruct (pbx_fold st0 (c1, m') H0 HX0 E1) as [HB HX].
  destruct (pb_final c node impl desig c1 m' HB) as [Hbk1 Hdn1].
  pose proof (pb_ms2 _ _ _ _ _ _ HB) as Hms2. simpl in Hms2.
  assert (HC0 : PC c node impl m' [] c1).
  { constructor. apply (pb_cw _ _ _ _ _ _ HB).
    - apply (bk_mono c node impl m' _ _ _ _ (CL impl m' []) (CL impl m' []) NoP NoP c1 Hbk1); intros ? [].
    - apply (dn_ext c node impl m' _ _ (CL impl m' []) NoP c1 Hdn1). intros l [[] _]. tauto. }
  assert (HT0 : TK m' NoP NoP NoP NoP c1).
  { constructor.
    - intros x y p z Hx Hp. exfalso. destruct (pb_rng _ _ _ _ _ _ HB x y Hx) as [A [B _]].
      destruct (pb_new _ _ _ _ _ _ HB y A B) as [_ [E _]]. cbn [fst] in E. unfold in_at, ins_of in Hp. rewrite E in Hp. destruct p; discriminate.
    - intros x y p z Hx Hp. exfalso. destruct (pb_rng _ _ _ _ _ _ HB x y Hx) as [A [B _]].
      destruct (pb_new _ _ _ _ _ _ HB y A B) as [_ [_ E]]. cbn [fst] in E. unfold out_at, outs_of in Hp. rewrite E in Hp. destruct p; discriminate. }
  pose proof (lc_fold m' c1 c2 HC0 HT0 E2) as HLC.
  destruct HLC as [[Hcw2 Hbk2 Hdn2] Hfr2 Htk2 Hlo2].
  assert (HI0 : PI c node impl m' [] c2).
  { constructor; auto.
    - eapply cw_ext. exact Hcw2. tauto. intros z. unfold PRi. simpl. tauto.
    - apply (bk_mono c node impl m' _ _ _ _ (CRi impl m' []) (CL impl m' (lines impl)) (CFi []) NoP c2 Hbk2); auto.
      intros l A. left; auto. }
  pose proof (li_fold m' c2 c3 Hms2 HI0 Htk2 E3) as HLI.
  destruct HLI as [[Hcw3 Hbk3 Hdn3] Hfr3 Htk3 Hlo3].
  assert (HO0 : PO c node impl m' (PRi c node zin) (CRi impl m' zin) (CFi zin) [] (c3, [])).
  { constructor; simpl; auto.
    - eapply cw_ext. exact Hcw3. 2:tauto. intros z. unfold PDo. simpl. tauto.
    - apply (bk_mono c node impl m' _ _ _ _ (CRi impl m' zin) (CDo impl m' []) (CFi zin) (CFo impl []) c3 Hbk3); auto.
      intros l A. left; auto. intros x [].
    - apply (dn_ext c node impl m' _ _ (CL impl m' (lines impl)) (FOo impl []) c3 Hdn3); auto.
      intros x. split. intros []. intros [l [ll [[] _]]].
    - intros d []. }
  pose proof (lo_fold m' _ _ _ (CRt m' zin) (CFit zin) c3 (c4', dl') Hms2 HO0 Htk3 E4) as HLO.
  exists c1, c2, c3. split; auto. split; auto. split. constructor; auto. constructor; auto.
  split. constructor; auto. constructor; auto. exact HLO.
Qed.

(** *** exactness *)
Lemma unmapped_drv : forall d p l, out_at impl d p = Some l -> cond2 impl d = false -> cond3 impl d = false ->
  ins_of impl d = [] /\ outs_of impl d = [Some l] /\ p = 0.
Proof.
  intros d p l Ho U2 U3. pose proof (nth_some_lt _ _ _ Ho) as Hlt. unfold cond2, cond3 in *.
  assert (E1 : (0 <? List.length (outs_of impl d)) = true) by (apply Nat.ltb_lt; unfold out_at in *; lia).
  rewrite E1 in U2. simpl in U2. apply Nat.ltb_ge in U2.
  assert (E2 : (List.length (ins_of impl d) =? 0) = true) by (apply Nat.eqb_eq; lia).
  rewrite E2 in U3. simpl in U3. apply negb_false_iff in U3. apply Nat.eqb_eq in U3.
  split. apply length_zero_nil; auto.
  unfold out_at in Ho. destruct (outs_of impl d) as [|o [|o2 t]]; simpl in *; try lia.
  destruct p as [|[|p]]; simpl in Ho; try discriminate. subst. auto.
Qed.
Lemma unmapped_rdr : forall r p l, in_at impl r p = Some l -> cond2 impl r = false -> List.length (outs_of impl r) = 0.
Proof.
  intros r p l Hi U2. pose proof (nth_some_lt _ _ _ Hi) as Hlt. unfold cond2 in *.
  assert (E1 : (0 <? List.length (ins_of impl r)) = true) by (apply Nat.ltb_lt; unfold in_at in *; lia).
  rewrite E1, andb_true_r in U2. apply Nat.ltb_ge in U2. lia.
Qed.

Section Exact.
Variables (m : list (nat * nat)) (c4 : circ).
Hypothesis Hinj : forall x x' y, mget x m = Some y -> mget x' m = Some y -> x = x'.
Hypothesis Hrng : forall x y, mget x m = Some y -> In x (nodes impl).
Hypothesis HU : forall x, In x (nodes impl) -> mget x m = None -> in_ios impl x = true /\ cond2 impl x = false /\ cond3 impl x = false.
Hypothesis Hms2 : forall x y, mget x m = Some y -> desig = Some x \/ in_ios impl x = false \/ cond2 impl x = true \/ cond3 impl x = true.
Hypothesis Htk : TK m (CRt m zin) (CDt m zout) (CFit zin) (CFot zout) c4.
Hypothesis Lcopy : forall l d r d' r', In l (lines impl) -> l_drv (lst impl l) = Some d -> l_rdr (lst impl l) = Some r ->
  mget d m = Some d' -> mget r m = Some r' ->
  exists z, lnext c <= z /\ out_at c4 d' (l_dpin (lst impl l)) = Some z /\ in_at c4 r' (l_rpin (lst impl l)) = Some z.
Hypothesis Lin : forall inn ll, host_in c node impl inn = Some ll -> exists rd pin, tgt_in m inn = Some (rd, pin) /\ in_at c4 rd pin = Some ll.
Hypothesis Lout : forall l ll, In (Some l, Some ll) zout -> exists dn pin, tgt_out m l = Some (dn, pin) /\ out_at c4 dn pin = Some ll.
Hypothesis Hzin : forall x ll, In (x, Some ll) zin <-> host_in c node impl x = Some ll.
Hypothesis Hzout : forall l ll, In (Some l, Some ll) zout <->
  exists o, In o (nodes impl) /\ in_at impl o 0 = Some l /\ host_out c node impl o = Some ll.
Hypothesis Hzall : forall o, In o (impl_outs impl) -> exists oll, In (in_at impl o 0, oll) zout.
Hypothesis Hsome : forall ol oll, In (ol, oll) zout -> ol <> None.

Lemma zin_listed : forall x ll, In (x, Some ll) zin -> In x (nodes impl) /\ in_ios impl x = true /\ ins_of impl x = [].
Proof.
  intros x ll H. apply (in_map fst) in H. simpl in H. destruct (Hi3 x H) as [A B]. split. apply (io_listed impl HIL); auto.
  split; auto. apply io_in_ios; auto.
Qed.
Lemma zout_port : forall l ll, In (Some l, Some ll) zout ->
  exists o, In o (nodes impl) /\ in_ios impl o = true /\ in_at impl o 0 = Some l /\ l_rdr (lst impl l) = Some o /\
            l_rpin (lst impl l) = 0 /\ host_out c node impl o = Some ll.
Proof.
  intros l ll H. pose proof H as H'. apply Hzout in H. destruct H as [o [A [B C]]]. exists o.
  destruct (impl_in impl HIC o 0 l A B) as [_ [D E]].
  apply (in_map fst) in H'. simpl in H'. destruct (Ho3 l H') as [n [F G]].
  destruct (impl_in impl HIC n 0 l (io_listed impl HIL n F) G) as [_ [D' _]]. rewrite D in D'. injection D' as <-.
  repeat split; auto. apply io_in_ios; auto.
Qed.

Lemma glue_ins : forall x y p, mget x m = Some y -> in_at c4 y p = exp_in c node impl m c4 x p.
Proof.
  intros x y p Hx. pose proof (Hrng x y Hx) as Hxl. unfold exp_in. destruct (in_at impl x p) as [l|] eqn:El.
  - destruct (impl_in impl HIC x p l Hxl El) as [Hl [Hr Hp]].
    destruct (impl_line impl HIC l Hl) as [d [r [Hd [Hr' [Hdn [_ [Ho _]]]]]]]. rewrite Hr in Hr'. injection Hr' as <-.
    rewrite Hd. destruct (mget d m) as [d'|] eqn:Ed.
    + destruct (Lcopy l d x d' y Hl Hd Hr Ed Hx) as [z [_ [Z2 Z3]]]. rewrite Hp in Z3. rewrite Z2, Z3. reflexivity.
    + destruct (HU d Hdn Ed) as [U1 [U2 U3]].
      destruct (unmapped_drv d _ l Ho U2 U3) as [V1 [V2 V3]].
      assert (Et : tgt_in m d = Some (y, p)). { unfold tgt_in. rewrite V2, Hr, Hx, Hp. reflexivity. }
      destruct (host_in c node impl d) as [ll|] eqn:Eh.
      * destruct (Lin d ll Eh) as [rd [pin [T1 T2]]]. rewrite Et in T1. injection T1 as <- <-. exact T2.
      * destruct (in_at c4 y p) as [z|] eqn:Ez; auto. exfalso.
        destruct (tk_in _ _ _ _ _ _ Htk x y p z Hx Ez) as [[l' [A B]]|[A [B C]]].
        -- rewrite El in A. injection A as <-. destruct B as [[_ B]|[inn [ll [B1 B2]]]].
           ++ destruct B as [d0 [r0 [d1 [r1 [B1 [B2 [B3 B4]]]]]]]. rewrite Hd in B1. injection B1 as <-. congruence.
           ++ destruct (zin_listed inn ll B1) as [C1 _].
              assert (Ho1' : out_at impl inn 0 = Some l) by (unfold out_at; rewrite B2; reflexivity).
              destruct (impl_out impl HIC inn 0 l C1 Ho1') as [_ [D1 _]]. rewrite Hd in D1. injection D1 as <-.
              apply Hzin in B1. congruence.
        -- unfold in_at in El. rewrite B in El. destruct p; discriminate.
  - destruct (in_ios impl x && (List.length (ins_of impl x) =? 0) && (p =? 0)) eqn:Ec.
    + apply andb_true_iff in Ec. destruct Ec as [Ec C3]. apply andb_true_iff in Ec. destruct Ec as [C1 C2].
      apply Nat.eqb_eq in C3. subst p. apply Nat.eqb_eq in C2.
      assert (Hns : List.length (outs_of impl x) <> 1).
      { destruct (Hms2 x y Hx) as [E|[E|[E|E]]].
        - destruct (Hdesig x E) as [E' _]. congruence.
        - congruence.
        - unfold cond2 in E. apply andb_true_iff in E. destruct E as [_ E]. apply Nat.ltb_lt in E. lia.
        - unfold cond3 in E. apply andb_true_iff in E. destruct E as [_ E]. apply negb_true_iff in E. apply Nat.eqb_neq in E. auto. }
      assert (Et : tgt_in m x = Some (y, 0)).
      { unfold tgt_in. destruct (outs_of impl x) as [|o [|o2 t]]; simpl in Hns; try lia; rewrite Hx; reflexivity. }
      destruct (host_in c node impl x) as [ll|] eqn:Eh.
      * destruct (Lin x ll Eh) as [rd [pin [T1 T2]]]. rewrite Et in T1. injection T1 as <- <-. exact T2.
      * destruct (in_at c4 y 0) as [z|] eqn:Ez; auto. exfalso.
        destruct (tk_in _ _ _ _ _ _ Htk x y 0 z Hx Ez) as [[l' [A B]]|[[ll A] [B C]]].
        -- congruence.
        -- apply Hzin in A. congruence.
    + destruct (in_at c4 y p) as [z|] eqn:Ez; auto. exfalso.
      destruct (tk_in _ _ _ _ _ _ Htk x y p z Hx Ez) as [[l' [A B]]|[[ll A] [B C]]].
      * congruence.
      * destruct (zin_listed x ll A) as [_ [D1 D2]]. subst p. rewrite D1, D2 in Ec. discriminate.
Qed.

Lemma glue_outs : forall x y p, mget x m = Some y -> out_at c4 y p = exp_out c node impl m c4 x p.
Proof.
  intros x y p Hx. pose proof (Hrng x y Hx) as Hxl. unfold exp_out. destruct (out_at impl x p) as [l|] eqn:El.
  - destruct (impl_out impl HIC x p l Hxl El) as [Hl [Hd Hp]].
    destruct (impl_line impl HIC l Hl) as [d [r [Hd' [Hr [_ [Hrn [_ Hi]]]]]]]. rewrite Hd in Hd'. injection Hd' as <-.
    rewrite Hr. destruct (mget r m) as [r'|] eqn:Er.
    + destruct (Lcopy l x r y r' Hl Hd Hr Hx Er) as [z [_ [Z2 Z3]]]. rewrite Hp in Z2. rewrite Z2, Z3. reflexivity.
    + destruct (HU r Hrn Er) as [U1 [U2 U3]].
      pose proof (unmapped_rdr r _ l Hi U2) as V1.
      assert (Hup : forall z, out_at c4 y p = Some z -> exists ll, In (Some l, Some ll) zout).
      { intros z Ez. destruct (tk_out _ _ _ _ _ _ Htk x y p z Hx Ez) as [[l' [A B]]|[A B]].
        - rewrite El in A. injection A as <-. destruct B as [[_ B]|B]; auto.
          destruct B as [d0 [r0 [d1 [r1 [B1 [B2 [B3 B4]]]]]]]. rewrite Hr in B2. injection B2 as <-. congruence.
        - apply nth_some_lt in El. unfold outs_of in *. lia. }
      destruct (l_rpin (lst impl l) =? 0) eqn:Ep.
      * apply Nat.eqb_eq in Ep.
        assert (Et : tgt_out m l = Some (y, p)).
        { unfold tgt_out. rewrite Hr. replace (0 <? List.length (outs_of impl r)) with false by (symmetry; apply Nat.ltb_ge; lia).
          rewrite Hd, Hx, Hp. reflexivity. }
        destruct (host_out c node impl r) as [ll|] eqn:Eh.
        -- assert (Hin : In (Some l, Some ll) zout). { apply Hzout. exists r. rewrite <- Ep. auto. }
           destruct (Lout l ll Hin) as [dn [pin [T1 T2]]]. rewrite Et in T1. injection T1 as <- <-. exact T2.
        -- destruct (out_at c4 y p) as [z|] eqn:Ez; auto. exfalso. destruct (Hup z eq_refl) as [ll Hin].
           destruct (zout_port l ll Hin) as [o [_ [_ [_ [A [_ B]]]]]]. rewrite Hr in A. injection A as <-. congruence.
      * apply Nat.eqb_neq in Ep. destruct (out_at c4 y p) as [z|] eqn:Ez; auto. exfalso. destruct (Hup z eq_refl) as [ll Hin].
        destruct (zout_port l ll Hin) as [o [_ [_ [_ [_ [A _]]]]]]. auto.
  - destruct (in_ios impl x && (0 <? List.length (ins_of impl x)) && (0 <? List.length (outs_of impl x)) &&
              (p =? List.length (outs_of impl x))) eqn:Ec.
    + apply andb_true_iff in Ec. destruct Ec as [Ec C4]. apply andb_true_iff in Ec. destruct Ec as [Ec C3].
      apply andb_true_iff in Ec. destruct Ec as [C1 C2]. apply Nat.eqb_eq in C4. subst p.
      destruct (host_out c node impl x) as [ll|] eqn:Eh.
      * assert (Hxo : In x (impl_outs impl)).
        { unfold host_out in Eh. destruct (index_of x (impl_outs impl)) as [k|] eqn:Ei; [|discriminate].
          eapply nth_error_In. apply index_of_nth. eauto. }
        destruct (Hzall x Hxo) as [oll Hall]. pose proof (Hsome _ _ Hall) as Hne.
        destruct (in_at impl x 0) as [l0|] eqn:El0; [|congruence].
        assert (Hin : In (Some l0, Some ll) zout). { apply Hzout. exists x. auto. }
        destruct (impl_in impl HIC x 0 l0 Hxl El0) as [_ [Hr0 _]].
        assert (Et : tgt_out m l0 = Some (y, List.length (outs_of impl x))).
        { unfold tgt_out. rewrite Hr0, C3, Hx. reflexivity. }
        destruct (Lout l0 ll Hin) as [dn [pin [T1 T2]]]. rewrite Et in T1. injection T1 as <- <-. exact T2.
      * destruct (out_at c4 y (List.length (outs_of impl x))) as [z|] eqn:Ez; auto. exfalso.
        destruct (tk_out _ _ _ _ _ _ Htk x y _ z Hx Ez) as [[l' [A B]]|[[l [ll [A [B B']]]] _]].
        -- congruence.
        -- destruct (zout_port l ll A) as [o [_ [_ [_ [D [_ E]]]]]]. rewrite B in D. injection D as <-. congruence.
    + destruct (out_at c4 y p) as [z|] eqn:Ez; auto. exfalso.
      destruct (tk_out _ _ _ _ _ _ Htk x y p z Hx Ez) as [[l' [A B]]|[[l [ll [A [B B']]]] C]].
      * congruence.
      * destruct (zout_port l ll A) as [o [_ [D1 [D2 [D3 _]]]]]. rewrite B in D3. injection D3 as <-.
        apply nth_some_lt in D2.
        assert (E1 : (0 <? List.length (ins_of impl x)) = true) by (apply Nat.ltb_lt; auto).
        assert (E2 : (0 <? List.length (outs_of impl x)) = true) by (apply Nat.ltb_lt; auto).
        assert (E3 : (p =? List.length (outs_of impl x)) = true) by (apply Nat.eqb_eq; auto).
        rewrite D1, E1, E2, E3 in Ec. discriminate.
Qed.
End Exact.

(** *** the glue relation *)
Lemma pre_pipe_glue : forall st0 c4 dl m,
  (forall x ll, In (x, Some ll) zin <-> host_in c node impl x = Some ll) ->
  (forall l ll, In (Some l, Some ll) zout <->
                exists o, In o (nodes impl) /\ in_at impl o 0 = Some l /\ host_out c node impl o = Some ll) ->
  (forall o, In o (impl_outs impl) -> exists oll, In (in_at impl o 0, oll) zout) ->
  pure_ports impl ->
  PB c node impl desig [] st0 -> PBx c node impl st0 ->
  pre_pipe impl desig (name_of c node) zin zout st0 = Some (c4, dl, m) ->
  SubstGlue c node impl m c4.
Proof.
  intros st0 c4 dl m Hzin Hzout Hzall Hpure H0 HX0 Hs.
  destruct (pipe_final st0 c4 dl m H0 HX0 Hs) as [c1 [c2 [c3 [HB [HX [HLC [HLI HLO]]]]]]].
  destruct HLC as [Hpc2 Hfr12 Htk2 Hlo2]. destruct HLI as [Hpi3 Hfr23 Htk3 Hlo3]. destruct HLO as [Hpo4 Hfr34 Htk4 Hlo4 Hsm4].
  cbn [fst snd] in *.
  destruct Hpo4 as [Hcw4 Hbk4 Hdn4 Hdl4]. cbn [fst snd] in *.
  pose proof (fr_trans _ _ _ Hfr23 Hfr34) as Hfr24. pose proof (fr_trans _ _ _ Hfr12 Hfr24) as Hfr14.
  pose proof (pb_ms1 _ _ _ _ _ _ HB) as Hms1. pose proof (pb_ms2 _ _ _ _ _ _ HB) as Hms2. cbn [fst snd] in Hms1, Hms2.
  destruct HX as [X1 X2 X3 X4 X5 X6]. cbn [fst snd] in *.
  pose proof (fr_nodes _ _ Hfr24) as En24. pose proof (fr_nodes _ _ Hfr34) as En34. pose proof (fr_nodes _ _ Hfr23) as En23.
  pose proof (bk_rng _ _ _ _ _ _ _ _ _ Hbk4) as Hrng.
  pose proof (bk_inj _ _ _ _ _ _ _ _ _ Hbk4) as Hinj.
  assert (Hrng' : forall x y, mget x m = Some y -> In x (nodes impl)). { intros x y Hx. apply (Hrng x y Hx). }
  assert (Lcopy : forall l d r d' r', In l (lines impl) -> l_drv (lst impl l) = Some d -> l_rdr (lst impl l) = Some r ->
            mget d m = Some d' -> mget r m = Some r' ->
            exists z, lnext c <= z /\ out_at c4 d' (l_dpin (lst impl l)) = Some z /\ in_at c4 r' (l_rpin (lst impl l)) = Some z).
  { intros l d r d' r' Hl Hd Hr Ed Er. destruct (Hlo2 l d r d' r' Hl Hd Hr Ed Er) as [z [Z1 [Z2 Z3]]]. exists z.
    split. rewrite <- X5. auto. split.
    - apply (fr_out _ _ Hfr24); auto. rewrite <- En24. apply (Hrng d d' Ed).
    - apply (fr_in _ _ Hfr24); auto. rewrite <- En24. apply (Hrng r r' Er). }
  assert (Lin : forall inn ll, host_in c node impl inn = Some ll ->
            exists rd pin, tgt_in m inn = Some (rd, pin) /\ in_at c4 rd pin = Some ll).
  { intros inn ll Eh. apply Hzin in Eh. destruct (Hlo3 inn ll Eh) as [rd [pin [T1 [T2 T3]]]]. exists rd, pin. split; auto.
    apply (fr_in _ _ Hfr34); auto. rewrite En23. auto. }
  assert (Lout : forall l ll, In (Some l, Some ll) zout -> exists dn pin, tgt_out m l = Some (dn, pin) /\ out_at c4 dn pin = Some ll).
  { intros l ll Hin. destruct (Hlo4 l ll Hin) as [dn [pin [T1 [_ T3]]]]. exists dn, pin. auto. }
  assert (HNdec : forall y, NN y \/ ~ NN y).
  { intros y. unfold N. destruct (Nat.eq_dec y node); auto. destruct (le_lt_dec (nnext c) y); auto. right. intros [A|A]; auto. lia. }
  assert (Hhostn : forall y, In y (nodes c) -> y <> node -> ~ NN y).
  { intros y Hy Hne [A|A]; auto. pose proof (cc_nb [] c HC y (or_introl Hy)). lia. }
  constructor.
  - apply (dn_io _ _ _ _ _ _ _ Hdn4).
  - exact Hinj.
  - intros x y Hx. destruct (Hrng x y Hx) as [A [B C]]. auto.
  - intros x Hxl Hx. destruct (Hms1 x Hxl Hx) as [A [B C]]. split; auto.
    change (port_fork_b impl x) with (cond2 impl x || cond3 impl x). rewrite B, C. reflexivity.
  - intros y. split.
    + intros Hy. destruct (HNdec y) as [HN|HN].
      * right. apply (dn_mapped _ _ _ _ _ _ _ Hdn4); auto.
      * left. destruct (dn_old _ _ _ _ _ _ _ Hdn4 y Hy HN) as [A _]. split; auto. intros ->. apply HN. left; auto.
    + intros [[A B]|[x Hx]]. apply (dn_keep _ _ _ _ _ _ _ Hdn4); auto. apply (Hrng x y Hx).
  - intros y Hy Hne. pose proof (Hhostn y Hy Hne) as HN. destruct (X4 y HN) as [A [B [C D]]].
    pose proof (fr_host _ _ Hfr14 y HN) as E. unfold kind_of, name_of, ins_of, outs_of. rewrite E. auto.
  - intros x y Hx. transitivity (kind_of c1 y). unfold kind_of. apply (fr_kn _ _ Hfr14 y). apply (X1 x y Hx).
  - intros x y Hx Hne. transitivity (name_of c1 y). unfold name_of. apply (fr_kn _ _ Hfr14 y). apply (X2 x y Hx Hne).
  - transitivity (name_of c1 node). unfold name_of. apply (fr_kn _ _ Hfr14 node). exact X3.
  - intros x y p Hx. eapply (glue_ins m c4); eauto.
  - intros x y p Hx. eapply (glue_outs m c4); eauto.
  - exact Lcopy.
  - intros z Hz. apply (fr_lines _ _ Hfr14). rewrite X6. auto.
  - intros o Ho. destruct (Hzall o Ho) as [oll Hin]. apply (Hsm4 _ _ Hin).
  - intros l r Hl Hr Er. destruct (impl_line impl HIC l Hl) as [d0 [r0 [_ [Hr0 [_ [Hrn [_ Hi]]]]]]]. rewrite Hr in Hr0. injection Hr0 as <-.
    destruct (Hms1 r Hrn Er) as [U1 [U2 _]]. apply (Hpure l r Hl Hr U1). eapply unmapped_rdr; eauto.
  - intros l d r Hl Hd Hr Ed Er.
    destruct (impl_line impl HIC l Hl) as [d0 [r0 [Hd0 [Hr0 [Hdn [Hrn [Ho Hi]]]]]]].
    rewrite Hd in Hd0. injection Hd0 as <-. rewrite Hr in Hr0. injection Hr0 as <-.
    destruct (Hms1 d Hdn Ed) as [U1 [U2 U3]]. destruct (Hms1 r Hrn Er) as [V1 [V2 _]].
    pose proof (unmapped_rdr r _ l Hi V2) as W.
    pose proof Hout_drv as Hod. unfold out_drivers_b in Hod. rewrite forallb_forall in Hod. specialize (Hod l Hl).
    rewrite Hr, Hd, V1, (in_ios_fork impl d Hio_forks U1) in Hod.
    assert (E1 : (List.length (outs_of impl r) =? 0) = true) by (apply Nat.eqb_eq; auto).
    rewrite E1 in Hod. discriminate.
Qed.
End Glue.

(** ** the state before the clean-up is consistent *)
Theorem substitute_pre_inv : forall c u impl c4 dl m,
  CInv c -> In u (nodes c) -> is_fork (kind_of c u) = false -> io_mem c u = false ->
  CInv impl -> IoLive impl -> subst_shape_b impl = true ->
  substitute_pre c u impl = Some (c4, dl, m) ->
  CInv c4 /\ (IoLive c -> IoLive c4) /\ (forall d, In d dl -> In d (nodes c4)).
Proof.
  intros c u impl c4 dl m HI Hu Hcell Hport HII HIL Hshape Hs.
  apply (substitute_pre_setup _ c u impl c4 dl m HI Hu Hcell Hport HII HIL Hshape Hs).
  intros desig st0 S2 S4 Hdesig Hi1 Hi2 Hi3 Hi4 Ho1 Ho2 Ho3 Ho4 _ _ _ HB _ Hp.
  destruct HI as [HC HD]. destruct HII as [HIC HID].
  eapply (pre_pipe_inv c u impl); eauto.
Qed.

(** ** ... and is described pin by pin by [SubstGlue] *)
Theorem substitute_pre_glue : forall c u impl c4 dl m,
  CInv c -> In u (nodes c) -> is_fork (kind_of c u) = false -> io_mem c u = false ->
  CInv impl -> IoLive impl -> subst_shape_b impl = true ->
  pure_ports impl ->
  substitute_pre c u impl = Some (c4, dl, m) ->
  CInv c4 /\ (IoLive c -> IoLive c4) /\ SubstGlue c u impl m c4 /\ (forall d, In d dl -> In d (nodes c4)).
Proof.
  intros c u impl c4 dl m HI Hu Hcell Hport HII HIL Hshape Hpure Hs.
  destruct (substitute_pre_inv c u impl c4 dl m HI Hu Hcell Hport HII HIL Hshape Hs) as [A [B C]].
  split; auto. split; auto. split; auto.
  apply (substitute_pre_setup _ c u impl c4 dl m HI Hu Hcell Hport HII HIL Hshape Hs).
  intros desig st0 S2 S4 Hdesig Hi1 Hi2 Hi3 Hi4 Ho1 Ho2 Ho3 Ho4 Hzin Hzout Hzall HB HX Hp.
  destruct HI as [HC HD]. destruct HII as [HIC HID].
  eapply (pre_pipe_glue c u impl); eauto.
Qed.


(** ** the hypothesis [pure_ports] cannot be dropped: a machine-checked witness.
    implementation: input a (fork, two readers), output y (fork, no readers) with TWO input pins: y.0 <- g <- a, y.1 <- h <- a.
    All hypotheses of [substitute_pre_inv] hold and the call succeeds, but the line h -> y.1 enters the unmapped port y at
    pin 1, so [sg_pure] fails (the code only looks at input pin 0 of an output port; [subst_glue_b] is false here as well).
    ([sg_nofeed], in contrast, follows from [subst_shape_b]: ports are forks and the driver of a line into a pure output port
    is not a fork.) *)
Definition cx_impl : circ :=
  match run_hist [AddNode "a"%string FORK; AddNode "y"%string FORK; AddNode "g"%string "BUF"%string; AddNode "h"%string "BUF"%string;
                  AddLine 0 (Some 0) 2 (Some 0); AddLine 0 (Some 1) 3 (Some 0); AddLine 2 (Some 0) 1 (Some 0);
                  AddLine 3 (Some 0) 1 (Some 1); SetIO 0 0; SetIO 1 1] with Some c => c | None => empty end.
Definition cx_host : circ :=
  match run_hist [AddNode "u"%string "CELL"%string; AddNode "pi"%string FORK; AddNode "po"%string FORK;
                  AddLine 1 (Some 0) 0 (Some 0); AddLine 0 (Some 0) 2 (Some 0); SetIO 0 1; SetIO 1 2] with Some c => c | None => empty end.

Lemma cx_A : mem 3 (lines cx_impl) = true. Proof. vm_compute. reflexivity. Qed.
Lemma cx_B : l_rdr (lst cx_impl 3) = Some 1. Proof. vm_compute. reflexivity. Qed.
Lemma cx_C : l_rpin (lst cx_impl 3) = 1. Proof. vm_compute. reflexivity. Qed.
Lemma cx_D : in_ios cx_impl 1 = true. Proof. vm_compute. reflexivity. Qed.
Lemma cx_E : List.length (outs_of cx_impl 1) = 0. Proof. vm_compute. reflexivity. Qed.
Lemma cx_H : option_map (fun x => mget 1 (snd x)) (substitute_pre cx_host 0 cx_impl) = Some None. Proof. vm_compute. reflexivity. Qed.

Opaque cx_impl cx_host.
Theorem pure_ports_needed :
  CInv cx_host /\ IoLive cx_host /\ In 0 (nodes cx_host) /\ is_fork (kind_of cx_host 0) = false /\ io_mem cx_host 0 = false /\
  CInv cx_impl /\ IoLive cx_impl /\ subst_shape_b cx_impl = true /\ ~ pure_ports cx_impl /\
  exists c4 dl m, substitute_pre cx_host 0 cx_impl = Some (c4, dl, m) /\ ~ SubstGlue cx_host 0 cx_impl m c4.
Proof.
  split. { apply cinv_b_sound. vm_compute. reflexivity. }
  split. { apply io_live_of_ok. vm_compute. reflexivity. }
  split. { apply mem_In. vm_compute. reflexivity. }
  split. { vm_compute. reflexivity. }
  split. { vm_compute. reflexivity. }
  split. { apply cinv_b_sound. vm_compute. reflexivity. }
  split. { apply io_live_of_ok. vm_compute. reflexivity. }
  split. { vm_compute. reflexivity. }
  pose proof (proj1 (mem_In _ _) cx_A) as A. pose proof cx_B as B. pose proof cx_C as C. pose proof cx_D as D. pose proof cx_E as E'.
  split.
  - intros H. pose proof (H 3 1 A B D E') as K'. rewrite C in K'. discriminate.
  - pose proof cx_H as K.
    destruct (substitute_pre cx_host 0 cx_impl) as [[[c4 dl] m]|] eqn:E; [|discriminate].
    exists c4, dl, m. split; auto. cbn [option_map snd] in K. injection K as K.
    intros H. pose proof (sg_pure _ _ _ _ _ H 3 1 A B K) as K'. rewrite C in K'. discriminate.
Qed.
