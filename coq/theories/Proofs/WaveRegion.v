(** Regions of the waveform memory.  The ownership certificate of Proofs/ReuseProofs.v / ReuseStrip.v speaks about start locations
    (capacity 1, as LogicSim uses the map).  WaveSim stores a waveform of [c_caps] entries at every location, so what it needs is
    that the REGIONS [c_locs[x], c_locs[x] + c_caps[x]) of two signals never overlap while both are needed.  This file proves it
    for every [build] result, all four c_reuse x strip_forks combinations:
      V1 [events_region]      the allocation loop keeps "the live chunk of every index with a positive reference count has the size
                              recorded in a_caps"; hence the region written by an op is disjoint from the region of every index that
                              is pinned or still read by a later op (region form of [ReuseProofs.events_main], K4);
      V2 [caps_copy_fold] ... the published capacity vector: branches and PPO slots take the capacity of their stem;
      V3 [build_regions_all]  the facts Proofs/WaveSimGlue.v consumes, for every build result.
    No model definitions. *)
From Coq Require Import List NArith ZArith Bool Arith Lia String Sorted.
From KV Require Import Model.Prims Model.Netlist Model.NetlistWf Model.Heap Model.HeapInv Model.SimOps Model.AllocCheck Model.SimOpsCert
     Model.NetlistSem Gen.SimTables Proofs.HeapProofs Proofs.AllocProofs Proofs.TopoProofs Proofs.SemProofs Proofs.SemCompose
     Proofs.EndToEnd Proofs.ReuseProofs Proofs.StripInvariance Proofs.ReuseStrip.
Import List.
Import ListNotations.
Local Open Scope list_scope.

(* ------------------------------------------------------------------------------------------------ *)
(** * Lists *)

Lemma nth_setN_eq l : forall i v d, i < length l -> nth i (setN l i v) d = v.
Proof. induction l as [|x r IH]; intros [|i] v d H; cbn in *; try lia; auto. apply IH. lia. Qed.

Lemma nth_setN_neq l : forall i j v d, j <> i -> nth j (setN l i v) d = nth j l d.
Proof.
  induction l as [|x r IH]; intros [|i] [|j] v d H; cbn; try reflexivity; try congruence.
  apply IH. congruence.
Qed.

(* ------------------------------------------------------------------------------------------------ *)
(** * V1: sizes of live chunks *)

Definition capZ (st : alloc_state) (x : nat) : N := nth x (a_caps st) 0%N.

(** the live chunk of every allocated index in [A] has the recorded capacity *)
Definition SZ (A : nat -> Prop) (st : alloc_state) : Prop :=
  forall x, ald st x -> A x -> size_of (a_heap st) (Z.to_N (locZ st x)) = capZ st x.

(** regions as intervals of N *)
Definition rdisj (l1 c1 l2 c2 : N) : Prop := (l1 + c1 <= l2 \/ l2 + c2 <= l1)%N.
Definition stdisj (st : alloc_state) (x y : nat) : Prop :=
  rdisj (Z.to_N (locZ st x)) (capZ st x) (Z.to_N (locZ st y)) (capZ st y).

Lemma capZ_alloc_slot cmin st idx cap x : length (a_caps st) = length (a_locs st) ->
  capZ (alloc_slot cmin st idx cap) x = if Nat.eqb x idx && Nat.ltb idx (length (a_locs st)) then cap else capZ st x.
Proof.
  intros HL. rewrite alloc_slot_eq. unfold capZ. cbn [a_caps].
  destruct (Nat.eqb x idx) eqn:E; cbn [andb].
  - apply Nat.eqb_eq in E. subst x. destruct (Nat.ltb idx (length (a_locs st))) eqn:F.
    + apply Nat.ltb_lt in F. apply nth_setN_eq. lia.
    + apply Nat.ltb_ge in F. rewrite !nth_overflow; [reflexivity|lia|rewrite setN_length; lia].
  - apply Nat.eqb_neq in E. apply nth_setN_neq. exact E.
Qed.

Lemma lencaps_alloc_slot cmin st idx cap : length (a_caps (alloc_slot cmin st idx cap)) = length (a_caps st).
Proof. rewrite alloc_slot_eq. cbn [a_caps]. apply setN_length. Qed.

Lemma alloc_slot_SZ cmin (A : nat -> Prop) st idx cap :
  HInv (a_heap st) -> (0 < cap)%N -> idx < length (a_locs st) -> length (a_caps st) = length (a_locs st) ->
  (forall x, ald st x -> A x -> live (a_heap st) (Z.to_N (locZ st x))) ->
  SZ A st ->
  let st' := alloc_slot cmin st idx cap in
  SZ (fun x => A x \/ x = idx) st' /\
  capZ st' idx = cap /\
  (forall x, x <> idx -> capZ st' x = capZ st x) /\
  (forall x, x <> idx -> ald st x -> A x -> stdisj st' x idx) /\
  (Z.to_N (locZ st' idx) + cap <= mx (a_heap st'))%N.
Proof.
  intros HI Hc Hidx HL Hlive HS st'.
  pose proof (alloc_fresh (a_heap st) cap HI Hc) as F. cbv zeta in F.
  destruct F as (F1 & F2 & F3 & F4 & F5).
  assert (Eloc : forall x, locZ st' x = if Nat.eqb x idx then Z.of_N (fst (alloc (a_heap st) cap)) else locZ st x).
  { intros x. unfold st'. rewrite locZ_alloc_slot. apply Nat.ltb_lt in Hidx. rewrite Hidx, andb_true_r. reflexivity. }
  assert (Ecap : forall x, capZ st' x = if Nat.eqb x idx then cap else capZ st x).
  { intros x. unfold st'. rewrite (capZ_alloc_slot cmin st idx cap x HL). apply Nat.ltb_lt in Hidx. rewrite Hidx, andb_true_r. reflexivity. }
  assert (Eh : a_heap st' = snd (alloc (a_heap st) cap)) by (unfold st'; rewrite alloc_slot_eq; reflexivity).
  assert (Eii : Nat.eqb idx idx = true) by apply Nat.eqb_refl.
  split; [|split; [|split; [|split]]].
  - intros x Hx Ax. rewrite Eloc, Ecap, Eh in *. destruct (Nat.eqb x idx) eqn:E.
    + rewrite N2Z.id. exact F2.
    + pose proof E as E'. apply Nat.eqb_neq in E'. destruct Ax as [Ax|Ax]; [|congruence].
      unfold ald in Hx. rewrite Eloc, E in Hx.
      destruct (F4 _ (Hlive x Hx Ax)) as (_ & G & _). rewrite G. apply HS; assumption.
  - rewrite Ecap, Eii. reflexivity.
  - intros x N. rewrite Ecap. apply Nat.eqb_neq in N. rewrite N. reflexivity.
  - intros x N Hx Ax. unfold stdisj, rdisj. rewrite !Eloc, !Ecap, Eii. apply Nat.eqb_neq in N. rewrite N.
    rewrite N2Z.id. destruct (F4 _ (Hlive x Hx Ax)) as (_ & _ & D). rewrite (HS x Hx Ax) in D. lia.
  - rewrite Eloc, Eii, N2Z.id, Eh. exact F3.
Qed.

(** release keeps the sizes of the chunks that stay live *)
Lemma release_size : forall fs st,
  HInv (a_heap st) -> NoDup fs -> (forall l, In l fs -> (0 <= l)%Z /\ live (a_heap st) (Z.to_N l)) ->
  a_caps (release st fs) = a_caps st /\ mx (a_heap (release st fs)) = mx (a_heap st) /\
  (forall l, live (a_heap (release st fs)) l -> live (a_heap st) l /\ size_of (a_heap (release st fs)) l = size_of (a_heap st) l).
Proof.
  induction fs as [|l r IH]; intros st HI Hnd Hl.
  - unfold release. cbn [fold_left]. auto.
  - inversion Hnd as [|? ? Hnl Hnr]; subst. destruct (Hl l (or_introl eq_refl)) as [Hl0 Hll].
    destruct (free_inv _ _ HI Hll) as (h' & Hf & HI').
    pose proof (free_live _ _ _ HI Hll Hf) as (FL & FS & FM).
    unfold release. cbn [fold_left]. fold (release (free_step st l) r).
    assert (Es : free_step st l = {| a_heap := h'; a_locs := a_locs st; a_caps := a_caps st; a_ref := a_ref st; a_ok := a_ok st |}).
    { unfold free_step. apply Z.leb_le in Hl0. rewrite Hl0, Hf. reflexivity. }
    rewrite Es. destruct (IH {| a_heap := h'; a_locs := a_locs st; a_caps := a_caps st; a_ref := a_ref st; a_ok := a_ok st |})
      as (E1 & E2 & E3); cbn [a_heap a_locs a_caps a_ref a_ok] in *.
    + exact HI'.
    + exact Hnr.
    + intros l2 H2. destruct (Hl l2 (or_intror H2)) as [H20 H2l]. split; [exact H20|]. apply FL. split; [exact H2l|].
      intros E. apply Hnl. assert (l2 = l) by (apply Z2N.inj in E; lia). subst l2. exact H2.
    + split; [exact E1|]. split; [rewrite E2; exact FM|].
      intros l' Hl'. destruct (E3 l' Hl') as [L1 L2]. split; [apply FL; exact L1|]. rewrite L2. apply FS. exact L1.
Qed.

Lemma SZ_weaken (A B : nat -> Prop) st : (forall x, B x -> A x) -> SZ A st -> SZ B st.
Proof. intros H S x Hx Bx. apply S; auto. Qed.

(** every allocated index lies inside the high-water mark *)
Definition BndR (st : alloc_state) : Prop := forall x, ald st x -> (Z.to_N (locZ st x) + capZ st x <= mx (a_heap st))%N.

Section AllocR.
  Variable tmp : nat.
  Variable stems : list Z.
  Variable caps : list N.
  Variable cmin : N.
  Variable reuse : bool.
  Hypothesis Hcmin : (0 < cmin)%N.
  Variable P : nat -> Z.
  Hypothesis Ppos : forall x, (0 <= P x)%Z.
  Variable len : nat.

  Lemma events_region : forall evs st fs rc0,
    J tmp stems P len rc0 st fs (ops_of evs) -> W tmp stems caps len (ald st) (ops_of evs) ->
    length (a_caps st) = len -> SZ (fun x => (0 < rc0 x)%Z) st -> BndR st ->
    let st' := fst (fold_left (ev_step tmp stems caps cmin reuse) evs (st, fs)) in
    (forall x, ald st x -> capZ st' x = capZ st x) /\
    (forall pe o qe, evs = pe ++ EOp o :: qe -> forall x, x <> s_out o ->
        (ald st x \/ outs' tmp (ops_of pe) x) -> ((0 < P x)%Z \/ In x (flat_map (rd stems) (o :: ops_of qe))) ->
        stdisj st' x (s_out o)) /\
    BndR st' /\ length (a_caps st') = len /\
    (forall o, In o (ops_of evs) -> s_out o <> tmp ->
       exists cp, nth_error caps (s_out o) = Some cp /\ capZ st' (s_out o) = N.max cmin cp).
  Proof.
    induction evs as [|[o|] r IH]; intros st fs rc0 HJ HW HLc HS HB st'.
    - unfold st'. cbn [fold_left fst]. split; [auto|]. split; [intros pe o qe E; destruct pe; discriminate|]. split; [assumption|].
      split; [assumption|intros o []].
    - cbn [ops_of] in HJ, HW. unfold st'. cbn [fold_left ev_step].
      destruct (op_alloc tmp stems caps cmin (st, fs) o) as [st1 fs1] eqn:E.
      destruct (J_op tmp stems caps cmin Hcmin P Ppos len rc0 st fs o (ops_of r) st1 fs1 HJ HW E) as (HJ1 & HW1 & S1 & S2 & S3 & S4 & S5).
      pose proof (events_main tmp stems caps cmin reuse Hcmin P Ppos len r st1 fs1 rc0 HJ1 HW1) as M. cbv zeta in M.
      destruct M as (M1 & M2 & M3 & _).
      assert (A1 : forall x, ald st x -> ald st1 x) by (intros x Hx; unfold ald; rewrite (S1 x Hx); exact Hx).
      (* what the op does to heap, capacities and regions *)
      assert (Hrc : forall x, ald st x -> ((0 < P x)%Z \/ In x (flat_map (rd stems) (o :: ops_of r))) -> (0 < rc0 x)%Z).
      { intros x Hx Hn. pose proof (J_mono _ _ _ _ _ _ _ _ HJ x) as Mo. rewrite (J_ref _ _ _ _ _ _ _ _ HJ) in Mo. unfold cntR in Mo.
        pose proof (Ppos x). pose proof (occ_nonneg x (flat_map (rd stems) (o :: ops_of r))).
        destruct Hn as [Hn|Hn]; [lia|]. pose proof (occ_pos _ _ Hn). lia. }
      assert (Step : length (a_caps st1) = len /\ SZ (fun x => (0 < rc0 x)%Z) st1 /\ BndR st1 /\
                     (forall x, ald st x -> capZ st1 x = capZ st x) /\
                     (forall x, x <> s_out o -> ald st x -> (0 < rc0 x)%Z -> stdisj st1 x (s_out o)) /\
                     (s_out o <> tmp -> exists cp, nth_error caps (s_out o) = Some cp /\ capZ st1 (s_out o) = N.max cmin cp)).
      { pose proof E as E'. rewrite op_alloc_eq in E'. cbn [W] in HW. destruct HW as (Wrd & Wout & Wr).
        destruct (Nat.eqb (s_out o) tmp) eqn:Et.
        - apply Nat.eqb_eq in Et. apply (f_equal fst) in E'. cbn [fst] in E'. subst st1.
          split; [exact HLc|]. split; [exact HS|]. split; [exact HB|]. split; [reflexivity|]. split; [|intros Hn; congruence].
          intros x Nx Hx Hr. rewrite Et in *.
          destruct HJ as [Jh Jll Jlr Jref Jmono Jlive Jinj Jfs Jsort [T1 T2]].
          assert (Hrt : (0 < rc0 tmp)%Z).
          { pose proof (Jmono tmp) as Mo. rewrite Jref in Mo. pose proof (occ_nonneg tmp (flat_map (rd stems) (o :: ops_of r))). unfold cntR in Mo. lia. }
          assert (Nl : Z.to_N (locZ st x) <> Z.to_N (locZ st tmp)).
          { intros Eq. apply Nx. apply Jinj; auto. unfold ald in Hx, T1. apply Z2N.inj in Eq; lia. }
          pose proof (live_disjoint _ _ _ Jh (Jlive x Hx Hr) (Jlive tmp T1 Hrt) Nl) as D.
          rewrite (HS x Hx Hr), (HS tmp T1 Hrt) in D. exact D.
        - apply Nat.eqb_neq in Et. destruct Wout as [Wout|(Wlt & Wna & Wcap)]; [congruence|].
          unfold capok in Wcap. destruct (nth_error caps (s_out o)) as [cp|] eqn:Ec; [|congruence].
          apply (f_equal fst) in E'. cbn [fst] in E'. subst st1.
          set (str := with_ref st (dec_refs (rd stems o) (a_ref st))) in *.
          destruct (alloc_slot_SZ cmin (fun x => (0 < rc0 x)%Z) str (s_out o) (N.max cmin cp)) as (Z1 & Z2 & Z3 & Z4 & Z5).
          + apply (J_h _ _ _ _ _ _ _ _ HJ).
          + lia.
          + change (a_locs str) with (a_locs st). rewrite (J_ll _ _ _ _ _ _ _ _ HJ). exact Wlt.
          + change (a_caps str) with (a_caps st). change (a_locs str) with (a_locs st). rewrite (J_ll _ _ _ _ _ _ _ _ HJ). exact HLc.
          + intros x Hx Hr. apply (J_live _ _ _ _ _ _ _ _ HJ x Hx Hr).
          + exact HS.
          + split; [rewrite lencaps_alloc_slot; exact HLc|].
            split; [apply (SZ_weaken _ _ _ (fun x H => or_introl H) Z1)|].
            split.
            { intros x Hx. destruct (Nat.eq_dec x (s_out o)) as [->|N]; [rewrite Z2; exact Z5|].
              assert (Hx0 : ald st x).
              { unfold ald in *. rewrite locZ_alloc_slot in Hx. apply Nat.eqb_neq in N. rewrite N in Hx. exact Hx. }
              rewrite (Z3 x N). rewrite locZ_alloc_slot. apply Nat.eqb_neq in N. rewrite N. cbn [andb].
              pose proof (HB x Hx0) as B0. rewrite alloc_slot_eq. cbn [a_heap].
              rewrite (alloc_mx (a_heap str) (N.max cmin cp)); [|apply (J_h _ _ _ _ _ _ _ _ HJ)|lia].
              change (a_heap str) with (a_heap st). change (locZ str x) with (locZ st x). change (capZ str x) with (capZ st x). lia. }
            split.
            { intros x Hx. apply Z3. intros ->. apply Wna. exact Hx. }
            split; [intros x Nx Hx Hr; apply (Z4 x Nx Hx Hr)|].
            intros _. exists cp. split; [reflexivity|exact Z2]. }
      destruct Step as (L1 & SZ1 & B1 & C1 & D1 & Cp1).
      destruct (IH st1 fs1 rc0 HJ1 HW1 L1 SZ1 B1) as (K1 & K4 & K5 & K6 & K7).
      split; [intros x Hx; rewrite (K1 x (A1 x Hx)); apply C1; exact Hx|].
      split; [|split; [exact K5|split; [exact K6|]]].
      2:{ cbn [ops_of]. intros o' [<-|Ho'] Hn; [|apply K7; assumption].
          destruct (Cp1 Hn) as (cp & C2 & C3). exists cp. split; [exact C2|]. rewrite (K1 _ (S2 Hn)). exact C3. }
      intros pe o' qe Ee x Nx Hd Hn. destruct pe as [|e pe']; cbn [app] in Ee.
      + injection Ee as <- <-. cbn [ops_of] in Hd.
        assert (Hx : ald st x) by (destruct Hd as [Hd|[_ []]]; exact Hd).
        pose proof (Hrc x Hx Hn) as Hr.
        assert (Ho : ald st1 (s_out o)).
        { destruct (Nat.eq_dec (s_out o) tmp) as [Et|Et]; [rewrite Et; apply A1; apply (J_tmp _ _ _ _ _ _ _ _ HJ)|apply S2; exact Et]. }
        pose proof (D1 x Nx Hx Hr) as D. unfold stdisj in *.
        rewrite (M1 x (A1 x Hx)), (M1 _ Ho), (K1 x (A1 x Hx)), (K1 _ Ho). exact D.
      + injection Ee as <- ->. apply (K4 pe' o' qe eq_refl x Nx); [|exact Hn].
        cbn [ops_of] in Hd. destruct Hd as [Hd|[H1 H2]]; [left; apply A1; exact Hd|].
        cbn [map In] in H2. destruct H2 as [<-|H2]; [left; apply S2; exact H1|right; split; assumption].
    - cbn [ops_of] in HJ, HW. unfold st'. cbn [fold_left ev_step fst snd].
      destruct reuse.
      2:{ destruct (IH st [] (refZ st) (J_norel tmp stems cmin Hcmin P len rc0 st fs (ops_of r) HJ) HW HLc) as (K1 & K4 & K5 & K6 & K7).
          { apply (SZ_weaken (fun x => (0 < rc0 x)%Z)); [|exact HS]. intros x H. pose proof (J_mono _ _ _ _ _ _ _ _ HJ x). lia. }
          { exact HB. }
          split; [exact K1|]. split; [|split; [exact K5|split; [exact K6|exact K7]]].
          intros pe o' qe Ee x Nx Hd Hn. destruct pe as [|e pe']; cbn [app] in Ee; [discriminate|].
          injection Ee as <- ->. apply (K4 pe' o' qe eq_refl x Nx); [exact Hd|exact Hn]. }
      destruct (J_rel tmp stems cmin Hcmin P len rc0 st fs (ops_of r) HJ) as (HJ1 & E1 & E3).
      assert (El : forall x, locZ (release st fs) x = locZ st x) by (intros x; unfold locZ; rewrite E1; reflexivity).
      assert (HW1 : W tmp stems caps len (ald (release st fs)) (ops_of r)).
      { apply (W_ext tmp stems caps len _ (ald st)); [|exact HW]. intros x. unfold ald. rewrite El. reflexivity. }
      destruct (release_size fs st (J_h _ _ _ _ _ _ _ _ HJ) (ssorted_nodup fs (J_sort _ _ _ _ _ _ _ _ HJ))) as (R1 & R2 & R3).
      { intros l Hl. destruct (J_fs _ _ _ _ _ _ _ _ HJ l Hl) as (x & A & B & <- & D). split; [exact A|apply (J_live _ _ _ _ _ _ _ _ HJ); assumption]. }
      assert (Ec : forall x, capZ (release st fs) x = capZ st x) by (intros x; unfold capZ; rewrite R1; reflexivity).
      assert (A1 : forall x, ald st x <-> ald (release st fs) x) by (intros x; unfold ald; rewrite El; reflexivity).
      destruct (IH (release st fs) [] (refZ st) HJ1 HW1) as (K1 & K4 & K5 & K6 & K7).
      + rewrite R1. exact HLc.
      + intros x Hx Hr. rewrite Ec, El.
        assert (Hr0 : (0 < rc0 x)%Z) by (pose proof (J_mono _ _ _ _ _ _ _ _ HJ x); lia).
        pose proof (J_live _ _ _ _ _ _ _ _ HJ1 x Hx Hr) as Lv. rewrite El in Lv.
        destruct (R3 _ Lv) as [_ R]. rewrite R. apply HS; [apply A1; exact Hx|exact Hr0].
      + intros x Hx. rewrite Ec, El, R2. apply HB. apply A1. exact Hx.
      + split; [intros x Hx; rewrite (K1 x (proj1 (A1 x) Hx)); apply Ec|].
        split; [|split; [exact K5|split; [exact K6|exact K7]]].
        intros pe o' qe Ee x Nx Hd Hn. destruct pe as [|e pe']; cbn [app] in Ee; [discriminate|].
        injection Ee as <- ->. apply (K4 pe' o' qe eq_refl x Nx); [|exact Hn].
        cbn [ops_of] in Hd. destruct Hd as [Hd|Hd]; [left; apply A1; exact Hd|right; exact Hd].
  Qed.
End AllocR.

(* ------------------------------------------------------------------------------------------------ *)
(** * V2: the stages of [build] before the level loop allocate chunks of size [cmin]; the published capacity vector *)

Definition GS (cmin : N) (st : alloc_state) : Prop :=
  length (a_caps st) = length (a_locs st) /\ SZ (fun _ => True) st /\ BndR st /\ (forall x, ald st x -> capZ st x = cmin).

Lemma GS_alloc lo hi cmin st idx : (0 < cmin)%N -> GI lo hi st -> GS cmin st -> idx < length (a_locs st) ->
  GS cmin (alloc_slot cmin st idx cmin).
Proof.
  intros Hc (G1 & G2 & G3 & G4) (S1 & S2 & S3 & S4) Hidx.
  destruct (alloc_slot_SZ cmin (fun _ => True) st idx cmin G1 Hc Hidx S1 (fun x Hx _ => G2 x Hx) S2) as (Z1 & Z2 & Z3 & Z4 & Z5).
  split; [rewrite lencaps_alloc_slot, len_alloc_slot; exact S1|].
  split; [apply (SZ_weaken _ _ _ (fun x H => or_introl H) Z1)|]. split.
  - intros x Hx. destruct (Nat.eq_dec x idx) as [->|N]; [rewrite Z2; exact Z5|].
    assert (Hx0 : ald st x).
    { unfold ald in *. rewrite locZ_alloc_slot in Hx. apply Nat.eqb_neq in N. rewrite N in Hx. exact Hx. }
    rewrite (Z3 x N). rewrite locZ_alloc_slot. apply Nat.eqb_neq in N. rewrite N. cbn [andb].
    pose proof (S3 x Hx0) as B0. rewrite alloc_slot_eq. cbn [a_heap]. rewrite (alloc_mx (a_heap st) cmin G1 Hc). lia.
  - intros x Hx. destruct (Nat.eq_dec x idx) as [->|N]; [exact Z2|]. rewrite (Z3 x N). apply S4.
    unfold ald in *. rewrite locZ_alloc_slot in Hx. apply Nat.eqb_neq in N. rewrite N in Hx. exact Hx.
Qed.

Lemma GS_same cmin st st' : a_heap st' = a_heap st -> a_locs st' = a_locs st -> a_caps st' = a_caps st -> GS cmin st -> GS cmin st'.
Proof. unfold GS, SZ, BndR, ald, locZ, capZ. intros -> -> ->. auto. Qed.

Definition so_cap (so : simops) (x : nat) : nat := N.to_nat (nth x (so_caps so) 0%N).
Definition ndisj (l1 c1 l2 c2 : nat) : Prop := l1 + c1 <= l2 \/ l2 + c2 <= l1.

Lemma stdisj_nat st x y lx ly : locF st x = Some lx -> locF st y = Some ly -> stdisj st x y ->
  ndisj lx (N.to_nat (capZ st x)) ly (N.to_nat (capZ st y)).
Proof.
  unfold locF, stdisj, rdisj, ndisj. destruct (0 <=? locZ st x)%Z eqn:Ex; [|discriminate]. destruct (0 <=? locZ st y)%Z eqn:Ey; [|discriminate].
  apply Z.leb_le in Ex, Ey. intros H1 H2. injection H1 as <-. injection H2 as <-. lia.
Qed.

(** what Proofs/WaveSimGlue.v needs to know about a published map *)
Definition regions_spec (c : netlist) (caps : list N) (cmin : N) (strip : bool) (stems : list Z) (so : simops) : Prop :=
      (forall x, x < (length (c_lines c) + 3 + length (s_nodes c)) -> so_loc so x = so_loc so (stemmed stems x) /\ so_cap so x = so_cap so (stemmed stems x)) /\
      (forall i l0 t, i < length (s_nodes c) -> n_ins (get_node c (nth i (s_nodes c) 0)) = Some l0 :: t ->
          so_loc so ((length (c_lines c) + 3 + length (s_nodes c)) + i) = so_loc so (stemmed stems l0) /\ so_cap so ((length (c_lines c) + 3 + length (s_nodes c)) + i) = so_cap so (stemmed stems l0) /\ stemmed stems l0 < length (c_lines c) /\ (0 < Pg c cmin strip stems (stemmed stems l0))%Z) /\
      (forall x l, x < (length (c_lines c) + 3 + length (s_nodes c)) -> so_loc so x = Some l -> l + so_cap so x <= N.to_nat (so_len so)) /\
      (forall x, In x (so_init so) -> x < (length (c_lines c) + 3 + length (s_nodes c)) /\ length (c_lines c) <= x /\ stemmed stems x = x /\ so_loc so x <> None /\ so_cap so x = N.to_nat cmin) /\
      (forall o, In o (build_ops c strip) -> (s_out o = length (c_lines c) + 1 \/ s_out o < length (c_lines c)) /\ s_out o < (length (c_lines c) + 3 + length (s_nodes c)) /\ stemmed stems (s_out o) = s_out o /\ so_loc so (s_out o) <> None /\
          so_cap so (s_out o) = if Nat.eqb (s_out o) (length (c_lines c) + 1) then N.to_nat cmin else N.to_nat (N.max cmin (nth (s_out o) caps 0%N))) /\
      (forall x y lx ly, In x (so_init so) -> In y (so_init so) -> x <> y -> so_loc so x = Some lx -> so_loc so y = Some ly ->
          ndisj lx (so_cap so x) ly (so_cap so y)) /\
      (forall pre o post, (build_ops c strip) = pre ++ o :: post -> forall x, In x (opnds o) ->
          x < (length (c_lines c) + 3 + length (s_nodes c)) /\ so_loc so x <> None /\ (In (stemmed stems x) (so_init so) \/ In (stemmed stems x) (map s_out pre))) /\
      (forall pre o post, (build_ops c strip) = pre ++ o :: post -> forall y, y <> s_out o ->
          (In y (so_init so) \/ In y (map s_out pre)) -> ((0 < Pg c cmin strip stems y)%Z \/ In y (flat_map (rd stems) (o :: post))) ->
          forall ly lo, so_loc so y = Some ly -> so_loc so (s_out o) = Some lo ->
          ndisj ly (so_cap so y) lo (so_cap so (s_out o))).

Section RegionG.
  Variable c : netlist.
  Variable caps : list N.
  Variable cmin : N.
  Variable reuse strip : bool.
  Hypothesis WF : wf_netlist c.
  Hypothesis Hcmin : (0 < cmin)%N.
  Notation nl := (length (c_lines c)).
  Notation sn := (s_nodes c).
  Notation slen := (length (s_nodes c)).
  Notation ppi := (nl + 3).
  Notation ppo := (nl + 3 + slen).
  Notation len := (nl + 3 + slen + slen).
  Notation all_ip := (combine (seq 0 slen) sn).
  Notation tmp := (nl + 1).
  Notation ops := (build_ops c strip).
  Variable stems : list Z.
  Hypothesis Hst : build_stems c strip len = Some stems.
  Notation al := (stemmed stems).
  Hypothesis HD1 : forall x, nl <= x -> al x = x.
  Hypothesis HD2 : forall x, x < nl -> al x < nl /\ al (al x) = al x.
  Hypothesis HA : forall pre o post, ops = pre ++ o :: post -> forall x, In x (opnds o) ->
    x < ppo /\ (al x = nl \/ (exists n p, iface_pos c n = Some p /\ al x = ppi + p /\ 0 < length (n_outs (get_node c n))) \/
                (al x < nl /\ In (al x) (map s_out pre))).
  Hypothesis HB : forall pre o post, ops = pre ++ o :: post ->
    s_out o = tmp \/ (s_out o < nl /\ al (s_out o) = s_out o /\ ~ In (s_out o) (map s_out pre)).

  Notation S0 := (st0g c strip stems).
  Notation S3 := (st3g c cmin strip stems).
  Notation S4 := (st4g c cmin strip stems).
  Notation S5 := (st5g c cmin strip stems).
  Notation S6 := (st6g c caps cmin reuse strip stems).
  Notation LC7 := (lc7g c caps cmin reuse strip stems).

  Lemma GS0 : GS cmin S0.
  Proof.
    unfold GS, SZ, BndR, ald, locZ, st0g. cbn [a_heap a_locs a_caps]. split; [rewrite !repeat_length; reflexivity|].
    split; [|split]; intros x; rewrite nth_repeat; lia.
  Qed.

  Lemma GS3 : GS cmin S3.
  Proof.
    pose proof (len0g c strip stems) as L0. pose proof (GI0g c cmin strip Hcmin stems) as G0.
    assert (G1 : GI nl ppo (alloc_slot cmin S0 nl cmin)) by (apply GI_alloc; [exact Hcmin|exact G0|exact Hcmin|rewrite L0; lia|lia]).
    assert (G2 : GI nl ppo (alloc_slot cmin (alloc_slot cmin S0 nl cmin) (nl + 1) cmin))
      by (apply GI_alloc; [exact Hcmin|exact G1|exact Hcmin|rewrite !len_alloc_slot, L0; lia|lia]).
    unfold st3g.
    apply (GS_alloc nl ppo); [exact Hcmin|exact G2| |rewrite !len_alloc_slot, L0; lia].
    apply (GS_alloc nl ppo); [exact Hcmin|exact G1| |rewrite !len_alloc_slot, L0; lia].
    apply (GS_alloc nl ppo); [exact Hcmin|exact G0|exact GS0|rewrite L0; lia].
  Qed.

  Lemma iface_step_GS st i n : i < slen -> length (a_locs st) = len -> GI nl ppo st -> GS cmin st ->
    GS cmin (iface_step c cmin stems ppi st (i, n)).
  Proof.
    intros Hi L G HS. unfold iface_step. cbv zeta.
    set (sta := if Nat.ltb 0 (length (n_outs (get_node c n))) then EndToEnd.pinref (alloc_slot cmin st (ppi + i) cmin) (ppi + i) else st).
    assert (A : GS cmin sta).
    { unfold sta. destruct (Nat.ltb 0 (length (n_outs (get_node c n)))); [|exact HS].
      apply (GS_same cmin (alloc_slot cmin st (ppi + i) cmin)); [reflexivity|reflexivity|reflexivity|].
      apply (GS_alloc nl ppo); [exact Hcmin|exact G|exact HS|lia]. }
    destruct (n_ins (get_node c n)) as [|[l0|] t]; [exact A| |exact A].
    apply (GS_same cmin sta); [reflexivity|reflexivity|reflexivity|exact A].
  Qed.

  Lemma iface_fold_GS : forall l st, (forall ip, In ip l -> fst ip < slen) -> length (a_locs st) = len -> GI nl ppo st -> GS cmin st ->
    GS cmin (fold_left (iface_step c cmin stems ppi) l st).
  Proof.
    induction l as [|[i n] r IH]; intros st Hl L G HS; [exact HS|]. cbn [fold_left].
    destruct (iface_step_GI_g c cmin Hcmin stems st i n (Hl (i, n) (or_introl eq_refl)) L G) as (G1 & L1 & _).
    apply IH; [intros ip Hip; apply Hl; right; exact Hip|exact L1|exact G1|].
    apply iface_step_GS; [apply (Hl (i, n)); left; reflexivity|exact L|exact G|exact HS].
  Qed.

  Lemma GS5 : GS cmin S5.
  Proof.
    unfold st5g. apply iface_fold_GS.
    - apply (in_comb_lt c cmin Hcmin).
    - change (a_locs S4) with (a_locs S3). apply len3g.
    - apply (GI_same _ _ S3); [reflexivity|reflexivity|apply (GI3g c cmin strip Hcmin stems)].
    - apply (GS_same cmin S3); [reflexivity|reflexivity|reflexivity|apply GS3].
  Qed.

  (** the stem copy and the PPO copy, capacity component *)
  Lemma caps_copy_fold (C6 : list N) : forall n s L C,
    s + n = len -> length C = len ->
    (forall x, x < s -> nth x C 0%N = nth (al x) C6 0%N) -> (forall x, s <= x -> nth x C 0%N = nth x C6 0%N) ->
    length (snd (fold_left (stem_copy stems) (seq s n) (L, C))) = len /\
    forall x, x < len -> nth x (snd (fold_left (stem_copy stems) (seq s n) (L, C))) 0%N = nth (al x) C6 0%N.
  Proof.
    induction n as [|n IH]; intros s L C Hs HL Hlo Hhi.
    - cbn [seq fold_left snd]. split; [exact HL|]. intros x Hx. apply Hlo. lia.
    - cbn [seq fold_left].
      assert (Es : stem_copy stems (L, C) s =
                   if (0 <=? nth s stems (-1))%Z then (setZ L s (nth (al s) L (-1)%Z), setN C s (nth (al s) C 0%N)) else (L, C)).
      { unfold stem_copy, stemmed. cbv zeta. cbn [fst snd]. destruct (0 <=? nth s stems (-1))%Z; reflexivity. }
      rewrite Es. destruct (0 <=? nth s stems (-1))%Z eqn:E.
      + apply IH; [lia|rewrite setN_length; exact HL| |].
        * intros x Hx. destruct (Nat.eq_dec x s) as [->|N].
          -- rewrite nth_setN_eq by lia.
             destruct (Nat.lt_ge_cases (al s) s) as [H|H]; [rewrite (Hlo _ H), (al_idem c stems HD1 HD2); reflexivity|apply Hhi; exact H].
          -- rewrite nth_setN_neq by exact N. apply Hlo. lia.
        * intros x Hx. rewrite nth_setN_neq by lia. apply Hhi. lia.
      + assert (Eal : al s = s) by (unfold stemmed; rewrite E; reflexivity).
        apply IH; [lia|exact HL| |].
        * intros x Hx. destruct (Nat.eq_dec x s) as [->|N]; [|apply Hlo; lia].
          rewrite Eal. apply Hhi. lia.
        * intros x Hx. apply Hhi. lia.
  Qed.

  Lemma ppo_fold_caps : forall l L C b,
    (forall i n, In (i, n) l -> i < slen) -> NoDup (map fst l) -> length C = len ->
    (forall x, (forall i n, In (i, n) l -> x <> ppo + i) ->
       nth x (snd (fst (fold_left (ppo_step c ppo) l (L, C, b)))) 0%N = nth x C 0%N) /\
    (forall i n, In (i, n) l -> nth (ppo + i) (snd (fst (fold_left (ppo_step c ppo) l (L, C, b)))) 0%N =
        match n_ins (get_node c n) with Some l0 :: _ => nth l0 C 0%N | _ => nth (ppo + i) C 0%N end).
  Proof.
    induction l as [|[i n] r IH]; intros L C b Hlt Hnd HL.
    - cbn. split; [auto|intros i n []].
    - cbn [fold_left]. rewrite ppo_step_eq. cbn [map fst] in Hnd. inversion Hnd as [|? ? Hni Hnr]; subst.
      assert (Hr : forall i' n', In (i', n') r -> i' < slen) by (intros i' n' H; apply (Hlt i' n'); right; exact H).
      assert (Hii : forall i' n', In (i', n') r -> i' <> i).
      { intros i' n' H ->. apply Hni. apply (in_map fst) in H. exact H. }
      assert (NoUpd : n_ins (get_node c n) = [] \/ (exists t, n_ins (get_node c n) = None :: t) ->
                (forall x, (forall i0 n0, In (i0, n0) ((i, n) :: r) -> x <> ppo + i0) ->
                   nth x (snd (fst (fold_left (ppo_step c ppo) r (L, C, b)))) 0%N = nth x C 0%N) /\
                (forall i0 n0, In (i0, n0) ((i, n) :: r) -> nth (ppo + i0) (snd (fst (fold_left (ppo_step c ppo) r (L, C, b)))) 0%N =
                   match n_ins (get_node c n0) with Some l0 :: _ => nth l0 C 0%N | _ => nth (ppo + i0) C 0%N end)).
      { intros En. destruct (IH L C b Hr Hnr HL) as (I2 & I3). split.
        - intros x Hx. apply I2. intros i' n' H. apply (Hx i' n'). right. exact H.
        - intros i' n' [E|H]; [|apply I3; exact H]. injection E as <- <-.
          rewrite I2 by (intros i' n' H; specialize (Hii i' n' H); lia).
          destruct En as [->|(t & ->)]; reflexivity. }
      destruct (n_ins (get_node c n)) as [|[l0|] t] eqn:En.
      + apply NoUpd. left. reflexivity.
      + pose proof (ip_ins_lt c WF n l0 t En) as Hl0.
        destruct (IH (setZ L (ppo + i) (nth l0 L (-1)%Z)) (setN C (ppo + i) (nth l0 C 0%N)) b Hr Hnr) as (I2 & I3);
          [rewrite setN_length; exact HL|].
        split.
        * intros x Hx. rewrite I2 by (intros i' n' H; apply (Hx i' n'); right; exact H).
          apply nth_setN_neq. apply (Hx i n). left. reflexivity.
        * intros i' n' [E|H].
          -- injection E as <- <-. rewrite En. rewrite I2 by (intros i' n' H; specialize (Hii i' n' H); lia).
             apply nth_setN_eq. rewrite HL. specialize (Hlt i n (or_introl eq_refl)). lia.
          -- rewrite (I3 i' n' H). specialize (Hii i' n' H).
             destruct (n_ins (get_node c n')) as [|[l0'|] t'] eqn:En'.
             ++ apply nth_setN_neq. lia.
             ++ apply nth_setN_neq. pose proof (ip_ins_lt c WF n' l0' t' En'). lia.
             ++ apply nth_setN_neq. lia.
      + apply NoUpd. right. exists t. reflexivity.
  Qed.

  Definition caps8g : list N := snd (fst (fold_left (ppo_step c ppo) all_ip (fst LC7, snd LC7, true))).

  Section CertR.
    Variable so : simops.
    Hypothesis Hb : build c caps cmin reuse strip = Some so.

    Let BI := build_inv_g c caps cmin reuse strip stems Hst so Hb.
    Let Hok : a_ok S6 = true. Proof. apply BI. Qed.
    Let Eops : so_ops so = ops. Proof. apply BI. Qed.
    Let Enl : so_nlines so = nl. Proof. apply BI. Qed.
    Let Eslen : so_slen so = slen. Proof. apply BI. Qed.
    Let M6 := main6g c caps cmin reuse strip WF Hcmin stems HD1 HD2 HA HB Hok.

    Lemma so_caps_g : so_caps so = caps8g.
    Proof.
      pose proof Hb as H. rewrite (build_eq_g c caps cmin reuse strip stems Hst) in H. unfold caps8g.
      destruct (fold_left (ppo_step c ppo) all_ip (fst LC7, snd LC7, true)) as [[l8 c8] ok8].
      destruct (a_ok S6 && ok8)%bool; [|discriminate]. injection H as <-. reflexivity.
    Qed.

    Lemma so_len_r : so_len so = mx (a_heap S6).
    Proof.
      pose proof Hb as H. rewrite (build_eq_g c caps cmin reuse strip stems Hst) in H.
      destruct (fold_left (ppo_step c ppo) all_ip (fst LC7, snd LC7, true)) as [[l8 c8] ok8].
      destruct (a_ok S6 && ok8)%bool; [|discriminate]. injection H as <-. reflexivity.
    Qed.

    Lemma region6 :
      (forall x, ald S5 x -> capZ S6 x = cmin) /\
      (forall pre o post, ops = pre ++ o :: post -> forall x, x <> s_out o ->
          (ald S5 x \/ outs' tmp pre x) -> ((0 < Pg c cmin strip stems x)%Z \/ In x (flat_map (rd stems) (o :: post))) ->
          stdisj S6 x (s_out o)) /\
      BndR S6 /\ length (a_caps S6) = len /\
      (forall o, In o ops -> s_out o <> tmp -> exists cp, nth_error caps (s_out o) = Some cp /\ capZ S6 (s_out o) = N.max cmin cp).
    Proof.
      assert (CAP : forall o, In o ops -> s_out o <> tmp -> capok caps o).
      { pose proof Hok as H. rewrite st6g_events in H. destruct (events_ok tmp stems caps cmin reuse _ _ H) as [_ CAP].
        rewrite ops_events_g in CAP. exact CAP. }
      destruct (ref5g c cmin strip WF Hcmin stems HD1 HD2 HA) as (_ & Ppos & _).
      destruct GS5 as (G1 & G2 & G3 & G4).
      destruct (fold5g c cmin strip Hcmin stems) as (_ & L5 & _).
      pose proof (events_region tmp stems caps cmin reuse Hcmin (Pg c cmin strip stems) Ppos len
                    (events (lvsg c strip stems)) S5 [] (refZ S5)) as M.
      rewrite ops_events_g in M.
      specialize (M (J5g c cmin strip WF Hcmin stems HD1 HD2 HA) (W5g c caps cmin strip Hcmin stems HD1 HD2 HA HB CAP)).
      rewrite <- st6g_events in M. cbv zeta in M.
      destruct M as (K1 & K4 & K5 & K6 & K7).
      - rewrite G1. exact L5.
      - apply (SZ_weaken (fun _ => True)); [auto|exact G2].
      - exact G3.
      - split; [intros x Hx; rewrite (K1 x Hx); apply G4; exact Hx|].
        split; [|split; [exact K5|split; [exact K6|exact K7]]].
        intros pre o post E x Nx Hd Hn. rewrite <- (ops_events_g c strip stems) in E.
        destruct (ops_of_split _ _ _ _ E) as (pe & qe & Ee & <- & <-).
        apply (K4 pe o qe Ee x Nx Hd Hn).
    Qed.

    Lemma C7_spec : length (snd LC7) = len /\ forall x, x < len -> nth x (snd LC7) 0%N = capZ S6 (al x).
    Proof.
      destruct region6 as (_ & _ & _ & L6 & _).
      unfold lc7g. apply (caps_copy_fold (a_caps S6) len 0); [lia|exact L6|intros x Hx; lia|intros x _; reflexivity].
    Qed.

    Let PFc := ppo_fold_caps all_ip (fst LC7) (snd LC7) true
                (fun i n H => in_comb_lt c cmin Hcmin (i, n) H)
                (eq_ind_r (fun l => NoDup l) (seq_NoDup slen 0) (fst_combine_seq sn 0)) (proj1 C7_spec).

    Lemma capg_lt x : x < ppo -> nth x (so_caps so) 0%N = capZ S6 (al x).
    Proof.
      intros Hx. rewrite so_caps_g. unfold caps8g. destruct PFc as (I2 & _). rewrite I2 by (intros i n _; lia).
      apply C7_spec. lia.
    Qed.

    Lemma capg_ppo i l0 t : i < slen -> n_ins (get_node c (nth i sn 0)) = Some l0 :: t ->
      nth (ppo + i) (so_caps so) 0%N = capZ S6 (al l0).
    Proof.
      intros Hi En. rewrite so_caps_g. unfold caps8g. destruct PFc as (_ & I3).
      rewrite (I3 i (nth i sn 0)) by (apply (combine_seq_in 0 sn 0 i); exact Hi). rewrite En.
      pose proof (ip_ins_lt c WF _ _ _ En). apply C7_spec. lia.
    Qed.

    Let SLG := so_loc_g c caps cmin reuse strip WF Hcmin stems Hst HD1 HD2 HA HB so Hb.
    Let ALI := al_idem c stems HD1 HD2.
    Let ALT := al_lt_ppo c cmin Hcmin stems HD1 HD2.
    Let INI := init_g c caps cmin reuse strip WF Hcmin stems Hst HD1 HD2 HA HB so Hb.
    Let OLT := out_lt_g c cmin strip Hcmin stems HB.
    Let OAL := out_al c caps cmin reuse strip WF Hcmin stems Hst HD1 HD2 HA HB so Hb.
    Let A56 := ald56g c caps cmin reuse strip WF Hcmin stems Hst HD1 HD2 HA HB so Hb.
    Let A6O := ald6g_out c caps cmin reuse strip WF Hcmin stems Hst HD1 HD2 HA HB so Hb.
    Let LSG := loc_some_g c caps cmin reuse strip WF Hcmin stems Hst HD1 HD2 HA HB so Hb.

    Lemma so_cap_lt x : x < ppo -> so_cap so x = N.to_nat (capZ S6 (al x)).
    Proof. intros Hx. unfold so_cap. rewrite (capg_lt x Hx). reflexivity. Qed.

    Theorem regions_g : regions_spec c caps cmin strip stems so.
    Proof.
      unfold regions_spec.
      destruct M6 as (K1 & K2 & K3 & _).
      destruct region6 as (R1 & R4 & R5 & R6 & R7).
      destruct (fold5g c cmin strip Hcmin stems) as ((F1 & F2 & F3 & F4) & _).
      assert (CapInit : forall x, In x (so_init so) -> so_cap so x = N.to_nat cmin).
      { intros x Hx. destruct (INI x Hx) as (X1 & X2 & X3). rewrite (so_cap_lt x X1), (HD1 x X2), (R1 x X3). reflexivity. }
      split; [|split; [|split; [|split; [|split; [|split; [|split]]]]]].
      - intros x Hx. split.
        + rewrite (SLG x Hx), (SLG _ (ALT x Hx)), ALI. reflexivity.
        + rewrite (so_cap_lt x Hx), (so_cap_lt _ (ALT x Hx)), ALI. reflexivity.
      - intros i l0 t Hi En. pose proof (ip_ins_lt c WF _ _ _ En) as Hl0. destruct (HD2 l0 Hl0) as [Hal _].
        assert (Hal' : al l0 < ppo) by lia.
        split; [|split; [|split]].
        + rewrite (so_loc_ppo_g c caps cmin reuse strip WF Hcmin stems Hst HD1 HD2 HA HB so Hb i l0 t Hi En), (SLG _ Hal'), ALI. reflexivity.
        + unfold so_cap at 1. rewrite (capg_ppo i l0 t Hi En), (so_cap_lt _ Hal'), ALI. reflexivity.
        + exact Hal.
        + apply (proj2 (proj2 (proj2 (ref5g c cmin strip WF Hcmin stems HD1 HD2 HA))) i l0 t Hi En).
      - intros x l Hx Hl. rewrite (SLG x Hx) in Hl. rewrite (so_cap_lt x Hx), so_len_r.
        unfold locF in Hl. destruct (0 <=? locZ S6 (al x))%Z eqn:E; [|discriminate].
        apply Z.leb_le in E. pose proof (R5 _ E) as B. injection Hl as <-. lia.
      - intros x Hx. destruct (INI x Hx) as (X1 & X2 & X3). split; [exact X1|]. split; [exact X2|]. split; [apply HD1; exact X2|].
        split; [|apply CapInit; exact Hx]. apply LSG; [exact X1|]. rewrite (HD1 x X2). apply A56. exact X3.
      - intros o Ho. pose proof (OLT o Ho) as Hlt. pose proof (OAL o Ho) as Hoa.
        split; [pose proof Ho as Ho'; apply in_split in Ho'; destruct Ho' as (pre & post & E); destruct (HB pre o post E) as [H|(H & _)]; [left; exact H|right; exact H]|].
        split; [exact Hlt|]. split; [exact Hoa|].
        split; [apply LSG; [exact Hlt|rewrite Hoa; apply A6O; exact Ho]|].
        rewrite (so_cap_lt _ Hlt), Hoa. destruct (Nat.eqb (s_out o) tmp) eqn:Et.
        + apply Nat.eqb_eq in Et. rewrite Et. rewrite (R1 tmp (ald5g_tmp c cmin strip Hcmin stems)). reflexivity.
        + apply Nat.eqb_neq in Et. destruct (R7 o Ho Et) as (cp & C1 & C2). rewrite C2.
          rewrite (nth_error_nth _ _ 0%N C1). reflexivity.
      - intros x y lx ly Hx Hy Nxy Lx Ly. destruct (INI x Hx) as (X1 & X2 & X3). destruct (INI y Hy) as (Y1 & Y2 & Y3).
        rewrite (CapInit x Hx), (CapInit y Hy).
        rewrite (SLG x X1), (HD1 x X2) in Lx. rewrite (SLG y Y1), (HD1 y Y2) in Ly.
        unfold locF in Lx, Ly. rewrite (K1 x X3) in Lx. rewrite (K1 y Y3) in Ly.
        destruct (0 <=? locZ S5 x)%Z eqn:Ex; [|discriminate]. destruct (0 <=? locZ S5 y)%Z eqn:Ey; [|discriminate].
        apply Z.leb_le in Ex, Ey. injection Lx as <-. injection Ly as <-.
        destruct GS5 as (_ & G2 & _ & G4).
        assert (Nl : Z.to_N (locZ S5 x) <> Z.to_N (locZ S5 y)).
        { intros Eq. apply Nxy. apply F3; [exact X3|exact Y3|]. apply Z2N.inj in Eq; lia. }
        pose proof (live_disjoint _ _ _ F1 (F2 x X3) (F2 y Y3) Nl) as D.
        rewrite (G2 x X3 I), (G2 y Y3 I), (G4 x X3), (G4 y Y3) in D. unfold ndisj. lia.
      - intros pre o post E x Hx.
        assert (Ho : In o ops) by (rewrite E; apply in_or_app; right; left; reflexivity).
        destruct (HA pre o post E x Hx) as (Hlt & Hcl). split; [exact Hlt|].
        destruct Hcl as [Ez|[(n & p & Hi & Ep & Hout)|(Hl & Hw)]].
        + split; [apply LSG; [exact Hlt|rewrite Ez; apply A56, (ald5g_zero c cmin strip Hcmin stems)]|].
          left. rewrite Ez. apply (init_char_g c caps cmin reuse strip WF Hcmin stems Hst HD1 HD2 HA HB so Hb). left. reflexivity.
        + split; [apply LSG; [exact Hlt|rewrite Ep; apply A56, (ald5g_ppi c cmin strip Hcmin stems n p Hi Hout)]|].
          left. rewrite Ep. apply (init_char_g c caps cmin reuse strip WF Hcmin stems Hst HD1 HD2 HA HB so Hb). right. exists p.
          split; [apply (iface_pos_lt c n p Hi)|]. split; [reflexivity|]. apply A56, (ald5g_ppi c cmin strip Hcmin stems n p Hi Hout).
        + split; [|right; exact Hw].
          apply LSG; [exact Hlt|]. apply in_map_iff in Hw. destruct Hw as (o' & <- & Ho').
          apply A6O. rewrite E. apply in_or_app. left. exact Ho'.
      - intros pre o post E y Ny Hd Hn ly lo Ly Lo.
        assert (Ho : In o ops) by (rewrite E; apply in_or_app; right; left; reflexivity).
        assert (Hy : y < ppo /\ al y = y).
        { destruct Hd as [Hd|Hd]; [destruct (INI y Hd) as (A & B & _); split; [exact A|apply HD1; exact B]|].
          apply in_map_iff in Hd. destruct Hd as (o' & <- & Ho').
          assert (Ho'' : In o' ops) by (rewrite E; apply in_or_app; left; exact Ho').
          split; [apply OLT; exact Ho''|apply OAL; exact Ho'']. }
        destruct Hy as [Hy Hay]. pose proof (OLT o Ho) as Hol. pose proof (OAL o Ho) as Hoa.
        rewrite (SLG y Hy), Hay in Ly. rewrite (SLG _ Hol), Hoa in Lo.
        rewrite (so_cap_lt y Hy), Hay, (so_cap_lt _ Hol), Hoa.
        apply (stdisj_nat S6 y (s_out o) ly lo Ly Lo).
        apply (R4 pre o post E y Ny); [|exact Hn].
        destruct Hd as [Hd|Hd]; [left; apply (INI y Hd)|].
        destruct (Nat.eq_dec y tmp) as [->|Nt]; [left; apply (ald5g_tmp c cmin strip Hcmin stems)|right; split; assumption].
    Qed.
  End CertR.
End RegionG.

Theorem build_regions_all c caps cmin reuse strip so :
  wf_netlist c -> comb_acyclic c -> (0 < cmin)%N -> gates_known c -> (strip = true -> forks_ok c) ->
  build c caps cmin reuse strip = Some so ->
  exists stems, build_stems c strip (length (c_lines c) + 3 + length (s_nodes c) + length (s_nodes c)) = Some stems /\
    regions_spec c caps cmin strip stems so.
Proof.
  intros WF AC Hc GK FK Hb. destruct strip.
  - destruct (build_stems c true (length (c_lines c) + 3 + length (s_nodes c) + length (s_nodes c))) as [stems|] eqn:Hst.
    + pose proof (gates_known_reads_defined_t c stems WF AC GK (FK eq_refl) Hst) as RDt.
      exists stems. split; [reflexivity|].
      apply (regions_g c caps cmin reuse true WF Hc stems Hst (ws_HD1 c WF stems Hst) (ws_HD2 c WF AC stems Hst)
               (ws_HA c WF AC stems Hst RDt cmin Hc) (ws_HB c WF AC stems Hst) so Hb).
    + exfalso. unfold build in Hb. cbv zeta in Hb. rewrite Hst in Hb. discriminate.
  - pose proof (gates_known_reads_defined c WF AC GK) as RD.
    exists (repeat (-1)%Z (length (c_lines c) + 3 + length (s_nodes c) + length (s_nodes c))). split; [reflexivity|].
    apply (regions_g c caps cmin reuse false WF Hc _ (ns_Hst c) (ns_HD1 c) (ns_HD2 c)
             (ns_HA c WF cmin Hc RD) (ns_HB c WF) so Hb).
Qed.

Print Assumptions build_regions_all.
