(** The translated source of sim.Heap (Gen/HeapSrc.v, regenerated from /repo on every run) equals the hand model
    Model/Heap.v, on which the allocator theorems of Proofs/HeapProofs.v are stated.

    Exact preconditions (both are consequences of HInv / live):
      [rel_keys h]              every entry of self.released is a key of self.chunks
                                (otherwise the code raises KeyError where the hand model reads size 0)
      [~ In loc (released h)]   free only: loc is not already released
                                (otherwise, at the end of the managed range, the code looks up the chunk it has just
                                 deleted -- witness [free_src_needs_live]; confirmed on the real class) *)
From Coq Require Import List NArith Bool Arith Lia Sorted.
From KV Require Import Model.Heap Model.HeapInv Model.HeapSrcLib Gen.HeapSrc Proofs.HeapProofs.
Import ListNotations.
Local Open Scope N_scope.

Definition rel_keys (h : heap) : Prop := forall l, In l (released h) -> lookup l (chunks h) <> None.

(* ------------------------------------------------------------------------------------------ *)
(** * association list and list vocabulary *)

Lemma lookup_in_keys m : forall k, In k (map fst m) <-> lookup k m <> None.
Proof.
  induction m as [|[k' v] r IH]; intros k; simpl.
  - split; [intros [] | intros H; now elim H].
  - destruct (k =? k') eqn:E.
    + apply N.eqb_eq in E. subst. split; [discriminate | now left].
    + apply N.eqb_neq in E. rewrite <- IH. split; [intros [H | H]; [congruence | exact H] | now right].
Qed.

Lemma lookup_remove_neq m : forall k k', k <> k' -> lookup k (remove k' m) = lookup k m.
Proof.
  induction m as [|[k0 v] r IH]; intros k k' Hne; simpl; [reflexivity|].
  destruct (k' =? k0) eqn:E.
  - apply N.eqb_eq in E. subst k0. destruct (k =? k') eqn:E2; [apply N.eqb_eq in E2; congruence | reflexivity].
  - simpl. destruct (k =? k0); [reflexivity | now apply IH].
Qed.

Lemma lookup_insert_eq m : forall k v, lookup k (insert k v m) = Some v.
Proof.
  induction m as [|[k0 v0] r IH]; intros k v; simpl.
  - now rewrite N.eqb_refl.
  - destruct (k <? k0); [simpl; now rewrite N.eqb_refl|].
    destruct (k =? k0) eqn:E; simpl; [now rewrite N.eqb_refl|]. rewrite E. apply IH.
Qed.

Lemma lookup_insert_neq m : forall k k' v, k <> k' -> lookup k (insert k' v m) = lookup k m.
Proof.
  induction m as [|[k0 v0] r IH]; intros k k' v Hne; simpl.
  - apply N.eqb_neq in Hne. now rewrite Hne.
  - destruct (k' <? k0).
    + simpl. apply N.eqb_neq in Hne. now rewrite Hne.
    + destruct (k' =? k0) eqn:E; simpl.
      * apply N.eqb_eq in E. subst k0. apply N.eqb_neq in Hne. now rewrite Hne.
      * destruct (k =? k0); [reflexivity | now apply IH].
Qed.

Lemma bisect_le_length x l : (bisect x l <= List.length l)%nat.
Proof. induction l as [|y r IH]; simpl; [lia|]. destruct (y <=? x); simpl; lia. Qed.

Lemma bisect_prefix x l : forall i, (i < bisect x l)%nat -> exists y, nth_error l i = Some y /\ y <= x.
Proof.
  induction l as [|y r IH]; simpl; intros i Hi; [lia|].
  destruct (y <=? x) eqn:E; [|lia]. destruct i as [|i]; simpl.
  - exists y. split; [reflexivity | now apply N.leb_le].
  - apply IH. lia.
Qed.

Lemma bisect_at x l : forall y, nth_error l (bisect x l) = Some y -> x < y.
Proof.
  induction l as [|z r IH]; simpl; intros y H; [discriminate|].
  destruct (z <=? x) eqn:E; simpl in H.
  - now apply IH.
  - injection H as <-. apply N.leb_gt in E. exact E.
Qed.

Lemma bisect_left_eq x l : ~ In x l -> bisect_left x l = bisect x l.
Proof.
  induction l as [|y r IH]; simpl; intros Hn; [reflexivity|].
  destruct (y <? x) eqn:E1, (y <=? x) eqn:E2.
  - f_equal. apply IH. tauto.
  - apply N.ltb_lt in E1. apply N.leb_gt in E2. lia.
  - apply N.ltb_ge in E1. apply N.leb_le in E2. assert (y = x) by lia. subst. elim Hn. now left.
  - reflexivity.
Qed.

Lemma length_set_nth {A} (l : list A) : forall n v, List.length (set_nth n v l) = List.length l.
Proof. induction l as [|y r IH]; intros [|n] v; simpl; auto. Qed.

Lemma length_insert_at {A} (l : list A) : forall n v, List.length (insert_at n v l) = S (List.length l).
Proof. induction l as [|y r IH]; intros [|n] v; simpl; auto. Qed.

Lemma nth_error_set_nth_neq {A} (l : list A) : forall i j v, i <> j -> nth_error (set_nth j v l) i = nth_error l i.
Proof.
  induction l as [|y r IH]; intros i j v Hne; [destruct j; reflexivity|].
  destruct j as [|j], i as [|i]; simpl; try reflexivity; try congruence. apply IH. congruence.
Qed.

Lemma nth_error_insert_at_lt {A} (l : list A) : forall i j v, (i < j)%nat -> (j <= List.length l)%nat ->
  nth_error (insert_at j v l) i = nth_error l i.
Proof.
  induction l as [|y r IH]; intros i j v Hlt Hle; simpl in Hle.
  - lia.
  - destruct j as [|j]; [lia|]. destruct i as [|i]; simpl; [reflexivity|]. apply IH; lia.
Qed.

(* ------------------------------------------------------------------------------------------ *)
(** * __init__ *)

Theorem hinit_src_eq : hinit_src = hinit.
Proof. reflexivity. Qed.

(* ------------------------------------------------------------------------------------------ *)
(** * alloc *)

Lemma alloc_loop_eq size ch rel cu m after : forall it before,
  rel = rev before ++ it -> (forall l, In l it -> lookup l ch <> None) ->
  alloc_src_loop1 ch rel cu m size after it (List.length before) =
  match alloc_scan size ch before it with
  | Some (loc, ch', rel') => Some (loc, mk_heap ch' rel' cu m)
  | None => after
  end.
Proof.
  induction it as [|a it IH]; intros before Hrel Hk; [reflexivity|].
  cbn [alloc_src_loop1 alloc_scan]. unfold py_dget.
  destruct (lookup a ch) as [cs|] eqn:Hl; [|exfalso; apply (Hk a); [now left | exact Hl]].
  assert (Hlen : Nat.ltb (List.length before) (List.length rel) = true).
  { apply Nat.ltb_lt. rewrite Hrel, app_length, rev_length. simpl. lia. }
  destruct (cs =? size) eqn:E1.
  - unfold py_ldel. rewrite Hlen. rewrite Hrel at 1. rewrite <- (rev_length before) at 1.
    rewrite remove_nth_len. reflexivity.
  - destruct (size <? cs) eqn:E2.
    + unfold py_nsub, py_lset, py_dset. rewrite Hlen.
      assert (E3 : size <=? cs = true) by (apply N.leb_le; apply N.ltb_lt in E2; lia).
      rewrite E3. rewrite Hrel at 1. rewrite <- (rev_length before) at 1. rewrite set_nth_len. reflexivity.
    + change (S (List.length before)) with (List.length (a :: before)). apply IH.
      * rewrite Hrel. simpl. now rewrite <- app_assoc.
      * intros l Hl'. apply Hk. now right.
Qed.

Theorem alloc_src_eq h size : rel_keys h -> alloc_src h size = Some (alloc h size).
Proof.
  intros Hk. unfold alloc_src, alloc. cbv zeta.
  rewrite (alloc_loop_eq size (chunks h) (released h) (cur h) (mx h) _ (released h) []); [|reflexivity | exact Hk].
  destruct (alloc_scan size (chunks h) [] (released h)) as [[[loc ch] rel]|]; reflexivity.
Qed.

(* ------------------------------------------------------------------------------------------ *)
(** * free *)

(* the last part of free (merge with the previous free chunk), the same for the three ways of reaching it *)
Ltac free_tail Hidx Hb Ha Hc :=
  match type of Hidx with
  | ?idx = _ =>
      destruct idx as [|pidx];
      [ reflexivity
      | change (Nat.ltb 0 (S pidx)) with true; cbv iota;
        unfold py_natsub; change (Nat.leb 1 (S pidx)) with true; cbv iota;
        replace (S pidx - 1)%nat with pidx by lia;
        let prev := fresh "prev" in let ps := fresh "ps" in let Hp1 := fresh "Hp1" in let Hp2 := fresh "Hp2" in
        destruct (Hb pidx eq_refl) as (prev & ps & Hp1 & Hp2);
        unfold py_lget; rewrite Hp1; unfold py_dget; rewrite Hp2;
        destruct (prev + ps =? _);
        [ unfold py_ddel, py_ldel; rewrite Ha, Hc; reflexivity | reflexivity ] ]
  end.

Theorem free_src_eq h loc : rel_keys h -> ~ In loc (released h) -> free_src h loc = free h loc.
Proof.
  intros Hk Hn. unfold free_src, free. cbv beta zeta. unfold py_dset. unfold py_dget at 1.
  destruct (lookup loc (chunks h)) as [size|] eqn:Hl; [|reflexivity].
  destruct (loc + size =? cur h) eqn:He.
  - (* end of the managed range *)
    apply N.eqb_eq in He. unfold py_ddel at 1. rewrite Hl. unfold py_nsub at 1.
    assert (E : size <=? cur h = true) by (apply N.leb_le; lia). rewrite E.
    unfold py_llast, py_ldel_last.
    destruct (rev (released h)) as [|prev rrest] eqn:Hr.
    + assert (Hnil : released h = []) by (rewrite <- (rev_involutive (released h)), Hr; reflexivity).
      rewrite Hnil. reflexivity.
    + assert (Hlen : Nat.ltb 0 (List.length (released h)) = true).
      { apply Nat.ltb_lt. rewrite <- rev_length, Hr. simpl. lia. }
      rewrite Hlen. cbn [hd_error].
      assert (Hin : In prev (released h)) by (apply in_rev; rewrite Hr; now left).
      assert (Hne : prev <> loc) by (intros ->; exact (Hn Hin)).
      unfold py_dget. rewrite (lookup_remove_neq (chunks h) prev loc Hne).
      destruct (lookup prev (chunks h)) as [ps|] eqn:Hp; [|exfalso; exact (Hk prev Hin Hp)].
      destruct (prev + ps =? cur h - size) eqn:E2; [|reflexivity].
      unfold py_ddel. rewrite (lookup_remove_neq (chunks h) prev loc Hne), Hp.
      unfold py_nsub. apply N.eqb_eq in E2.
      assert (E3 : ps <=? cur h - size = true) by (apply N.leb_le; lia). rewrite E3. reflexivity.
  - (* inside the managed range *)
    pose proof (bisect_le_length loc (released h)) as Hble.
    remember (bisect loc (released h)) as idx eqn:Hidx.
    assert (Hpre : forall pidx, idx = S pidx -> exists prev, nth_error (released h) pidx = Some prev /\ prev <= loc /\
                                                       In prev (released h)).
    { intros pidx Hp. destruct (bisect_prefix loc (released h) pidx) as (y & Hy1 & Hy2); [rewrite <- Hidx; lia|].
      exists y. repeat split; auto. eapply nth_error_In; eauto. }
    (* facts about the list after insort_left *)
    assert (HbB : forall pidx, idx = S pidx -> exists prev ps,
               nth_error (insert_at idx loc (released h)) pidx = Some prev /\ lookup prev (chunks h) = Some ps).
    { intros pidx Hp. destruct (Hpre pidx Hp) as (prev & H1 & H2 & H3).
      destruct (lookup prev (chunks h)) as [ps|] eqn:Hps; [|exfalso; exact (Hk prev H3 Hps)].
      exists prev, ps. split; [|exact Hps]. rewrite nth_error_insert_at_lt; [exact H1 | lia | lia]. }
    assert (HcB : Nat.ltb idx (List.length (insert_at idx loc (released h))) = true).
    { apply Nat.ltb_lt. rewrite length_insert_at. lia. }
    unfold py_insort_left. rewrite (bisect_left_eq loc (released h) Hn), <- Hidx.
    unfold py_lget at 1.
    destruct (nth_error (released h) idx) as [nx|] eqn:Hnx.
    + assert (Hlt : Nat.ltb idx (List.length (released h)) = true).
      { apply Nat.ltb_lt. apply nth_error_Some. congruence. }
      rewrite Hlt. destruct (loc + size =? nx) eqn:Hnf.
      * (* the next chunk is free: merge *)
        apply N.eqb_eq in Hnf. rewrite Hnf.
        assert (Hnxin : In nx (released h)) by (eapply nth_error_In; eauto).
        assert (Hgt : loc < nx) by (apply (bisect_at loc (released h)); rewrite <- Hidx; exact Hnx).
        unfold py_dget at 1.
        destruct (lookup nx (chunks h)) as [ns|] eqn:Hns; [|exfalso; exact (Hk nx Hnxin Hns)].
        unfold py_ddel at 1. rewrite Hns. unfold py_dget at 1. rewrite lookup_insert_eq.
        unfold py_lset. rewrite Hlt.
        assert (HbA : forall pidx, idx = S pidx -> exists prev ps,
                   nth_error (set_nth idx loc (released h)) pidx = Some prev /\
                   lookup prev (insert loc (size + ns) (remove nx (chunks h))) = Some ps).
        { intros pidx Hp. destruct (Hpre pidx Hp) as (prev & H1 & H2 & H3).
          assert (Hpl : prev <> loc) by (intros ->; exact (Hn H3)).
          assert (Hpn : prev <> nx) by lia.
          destruct (lookup prev (chunks h)) as [ps|] eqn:Hps; [|exfalso; exact (Hk prev H3 Hps)].
          exists prev, ps. split.
          - rewrite nth_error_set_nth_neq; [exact H1 | lia].
          - rewrite lookup_insert_neq, lookup_remove_neq; auto. }
        assert (HaA : lookup loc (insert loc (size + ns) (remove nx (chunks h))) = Some (size + ns))
          by apply lookup_insert_eq.
        assert (HcA : Nat.ltb idx (List.length (set_nth idx loc (released h))) = true)
          by (rewrite length_set_nth; exact Hlt).
        clear Hpre HbB HcB Hnx Hlt Hble.
        free_tail Hidx HbA HaA HcA.
      * clear Hpre Hnx Hlt Hble. free_tail Hidx HbB Hl HcB.
    + assert (Hlt : Nat.ltb idx (List.length (released h)) = false).
      { apply Nat.ltb_ge. now apply nth_error_None. }
      rewrite Hlt. clear Hpre Hnx Hlt Hble. free_tail Hidx HbB Hl HcB.
Qed.

(** the precondition of [free_src_eq] is needed: releasing, at the end of the managed range, a chunk that is already in the
    released list makes the code look up the chunk it has just deleted (KeyError), the hand model reads size 0 *)
Definition double_free_state : heap := {| chunks := [(0, 4)]; released := [0]; cur := 4; mx := 4 |}.
Theorem free_src_needs_live :
  rel_keys double_free_state /\ free_src double_free_state 0 = None /\ free double_free_state 0 <> None.
Proof.
  split; [|split].
  - intros l [<- | []]. discriminate.
  - reflexivity.
  - discriminate.
Qed.
(** ... and so is [rel_keys] for alloc: a released start that is no chunk raises KeyError *)
Definition dangling_state : heap := {| chunks := []; released := [0]; cur := 0; mx := 0 |}.
Theorem alloc_src_needs_rel_keys : alloc_src dangling_state 1 = None.
Proof. reflexivity. Qed.

(* ------------------------------------------------------------------------------------------ *)
(** * under the invariant; histories *)

Lemma HInv_rel_keys h : HInv h -> rel_keys h.
Proof. intros (_ & _ & Hc & _) l Hl. apply lookup_in_keys. exact (Hc l Hl). Qed.

Theorem alloc_src_model h size : HInv h -> alloc_src h size = Some (alloc h size).
Proof. intros Hi. apply alloc_src_eq. now apply HInv_rel_keys. Qed.

Theorem free_src_model h loc : HInv h -> live h loc -> free_src h loc = free h loc.
Proof. intros Hi [_ Hl]. apply free_src_eq; [now apply HInv_rel_keys | exact Hl]. Qed.

(** every history of well-formed use runs on the translated source exactly as on the hand model *)
Theorem hrun_src_model ops : forall h tr, HInv h -> well_used ops h ->
  hrun_src alloc_src free_src ops h tr = hrun ops h tr.
Proof.
  induction ops as [|[s | l] r IH]; intros h tr Hi Hw; simpl; [reflexivity | |].
  - destruct Hw as [Hs Hw]. rewrite (alloc_src_model h s Hi).
    pose proof (alloc_inv h s Hi Hs) as Hi'. destruct (alloc h s) as [loc h'] eqn:Ea. simpl in *.
    now apply IH.
  - destruct Hw as [Hl Hw]. rewrite (free_src_model h l Hi Hl).
    destruct (free_inv h l Hi Hl) as (h' & Hf & Hi'). rewrite Hf in *. now apply IH.
Qed.

(** the allocator theorems restated on the translated source (C08_heap_source_is_model) *)
Theorem heap_source_is_model :
  hinit_src = hinit /\
  (forall h size, HInv h -> alloc_src h size = Some (alloc h size)) /\
  (forall h loc, HInv h -> live h loc -> free_src h loc = free h loc) /\
  (forall ops h, HInv h -> well_used ops h ->
     exists h' tr, hrun_src alloc_src free_src ops h [] = Some (h', tr) /\ HInv h').
Proof.
  split; [exact hinit_src_eq|]. split; [exact alloc_src_model|]. split; [exact free_src_model|].
  intros ops h Hi Hw. rewrite (hrun_src_model ops h [] Hi Hw). now apply history_inv.
Qed.

(** the hypotheses are satisfiable on a history that splits a released chunk and coalesces at the end of the range *)
Example heap_source_example :
  let ops := [HAlloc 4; HAlloc 8; HFree 0; HAlloc 2; HFree 4] in
  HInv hinit /\ well_used ops hinit /\
  hrun_src alloc_src free_src ops hinit [] = Some ({| chunks := [(0, 2)]; released := []; cur := 2; mx := 12 |}, [0; 4; 0]).
Proof.
  split; [exact hinit_inv|]. split; [|reflexivity].
  cbv. intuition (try discriminate; try lia).
Qed.

Theorem heap_source_exact h : rel_keys h ->
  (forall size, alloc_src h size = Some (alloc h size)) /\
  (forall loc, ~ In loc (released h) -> free_src h loc = free h loc).
Proof. intros Hk. split; [intros size; now apply alloc_src_eq | intros loc Hn; now apply free_src_eq]. Qed.
