(** The logical-relations lemma over op lists and the callback lemmas (C16). *)
From Coq Require Import List NArith Bool Arith Lia.
From KV Require Import Model.Prims Model.Logic Model.OpSem.
Import ListNotations.

Section LogRel.
  Context {V W : Type} (R : V -> W -> Prop).
  Variables (semV : prim -> V -> V -> V -> V -> V) (semW : prim -> W -> W -> W -> W -> W).
  Hypothesis Hop : forall p a b c d a' b' c' d',
      R a a' -> R b b' -> R c c' -> R d d' -> R (semV p a b c d) (semW p a' b' c' d').

  Theorem logrel ops : forall e e', (forall k, R (e k) (e' k)) ->
    forall k, R (exec_ops semV ops e k) (exec_ops semW ops e' k).
  Proof.
    unfold exec_ops. induction ops as [|o ops IH]; intros e e' He k; cbn [fold_left]; [apply He|].
    apply IH. intro j. unfold exec1, upd. destruct (Nat.eqb j (o_out o)); [apply Hop; apply He | apply He].
  Qed.
End LogRel.

Section Callback.
  Context {V : Type} (sem : prim -> V -> V -> V -> V -> V).

  (** identity callback changes nothing *)
  Theorem cb_identity ops e : exec_ops_cb sem (fun _ v => v) ops e = exec_ops sem ops e.
  Proof. reflexivity. Qed.

  (** the sequence of (output, fresh value) pairs presented to the callback *)
  Fixpoint cb_trace (cb : nat -> V -> V) (ops : list op) (e : env V) : list (nat * V) :=
    match ops with
    | [] => []
    | o :: r => let v := sem (o_prim o) (e (o_i0 o)) (e (o_i1 o)) (e (o_i2 o)) (e (o_i3 o)) in
                (o_out o, v) :: cb_trace cb r (upd e (o_out o) (cb (o_out o) v))
    end.

  (** exactly one call per op, in op order, for that op's output *)
  Theorem cb_trace_outputs cb ops : forall e, map fst (cb_trace cb ops e) = map o_out ops.
  Proof. induction ops as [|o r IH]; intro e; cbn [cb_trace map fst]; [reflexivity | rewrite IH; reflexivity]. Qed.

  (** an overriding callback = simulating the op list in which every op is followed by the
      override of its output: semantics in which the signal is *driven* with the overwritten value *)
  Definition sem_forced (cb : nat -> V -> V) (k : nat) p a b c d := cb k (sem p a b c d).

  (** nothing upstream changes: before the first op whose value the callback alters, the
      environments coincide *)
  Theorem cb_upstream cb ops1 e :
    (forall o', In o' ops1 -> forall v, cb (o_out o') v = v) ->
    exec_ops_cb sem cb ops1 e = exec_ops sem ops1 e.
  Proof.
    revert e. unfold exec_ops_cb, exec_ops. induction ops1 as [|a r IH]; intros e H; cbn [fold_left]; [reflexivity|].
    assert (Ha : exec1_cb sem cb e a = exec1 sem e a).
    { unfold exec1_cb, exec1. rewrite H by (left; reflexivity). reflexivity. }
    rewrite Ha. apply IH. intros o' Ho'. apply H. right. exact Ho'.
  Qed.

  (** downstream: the run with callback equals the plain run of the remaining ops from the
      environment in which the injected line holds the overwritten value *)
  Theorem cb_split cb ops1 ops2 e :
    exec_ops_cb sem cb (ops1 ++ ops2) e = exec_ops_cb sem cb ops2 (exec_ops_cb sem cb ops1 e).
  Proof. unfold exec_ops_cb. apply fold_left_app. Qed.

  Theorem cb_override_single cb ops1 o ops2 e :
    (forall o', In o' ops1 -> forall v, cb (o_out o') v = v) ->
    (forall o', In o' ops2 -> forall v, cb (o_out o') v = v) ->
    exec_ops_cb sem cb (ops1 ++ o :: ops2) e
    = exec_ops sem ops2 (upd (exec_ops sem ops1 e) (o_out o)
         (cb (o_out o) (let e1 := exec_ops sem ops1 e in
                        sem (o_prim o) (e1 (o_i0 o)) (e1 (o_i1 o)) (e1 (o_i2 o)) (e1 (o_i3 o))))).
  Proof.
    intros H1 H2. rewrite cb_split. rewrite (cb_upstream cb ops1 e H1).
    change (o :: ops2) with ([o] ++ ops2). rewrite cb_split.
    rewrite (cb_upstream cb ops2 _ H2). reflexivity.
  Qed.
End Callback.
