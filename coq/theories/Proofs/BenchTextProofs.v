(** Text level of the bench format (Model/BenchText.v): the lexer returns exactly the token stream of every
    rendering with arbitrary ignored text between the tokens; the parser accepts exactly the concatenations of
    statement token groups; print/parse round trip; composition with the elaboration theorems. *)
From Coq Require Import List NArith Bool Arith String Ascii Lia.
From KV Require Import Model.VerilogElab Model.BenchText Proofs.BenchProofs.
Import ListNotations.
Local Open Scope list_scope.

(** ** strings *)
Lemma sapp_assoc (a b c : string) : ((a ++ b) ++ c)%string = (a ++ (b ++ c))%string.
Proof. induction a as [|x a IH]; [reflexivity|]. cbn [append]. now rewrite IH. Qed.
Lemma sapp_nil_r (a : string) : (a ++ "")%string = a.
Proof. induction a as [|x a IH]; [reflexivity|]. cbn [append]. now rewrite IH. Qed.

(** ** character classes (finite facts, by enumeration of the 256 characters) *)
Lemma classify_name_iff : forall c, classify c = CName <-> is_name_char c = true.
Proof.
  intro c. split.
  - destruct c as [[|] [|] [|] [|] [|] [|] [|] [|]]; vm_compute; intro H; try reflexivity; discriminate H.
  - intro H. unfold classify. now rewrite H.
Qed.
Lemma classify_nl_iff : forall c, classify c = CNl <-> N_of_ascii c = 10%N.
Proof.
  intro c. destruct c as [[|] [|] [|] [|] [|] [|] [|] [|]]; vm_compute; split; intro H; try reflexivity; discriminate H.
Qed.

Definition starts_nonname (s : string) : bool :=
  match s with EmptyString => true | String c _ => negb (is_name_char c) end.

(** ** the lexer on words, separators and punctuation *)
Lemma lex_idle_cons c r : lex_go MIdle (String c r) =
  match classify c with
  | CName => lex_go (MWord (String c EmptyString)) r
  | CPunct t => ocons t (lex_go MIdle r)
  | CSpace | CNl => lex_go MIdle r
  | CHash => lex_go MComment r
  | CCr => lex_go MCr r
  | COther => None
  end.
Proof. cbn [lex_go]. destruct (classify c); reflexivity. Qed.

Lemma lex_word_run : forall w acc rest, all_name_chars w = true ->
  lex_go (MWord acc) (w ++ rest)%string = lex_go (MWord (acc ++ w)%string) rest.
Proof.
  induction w as [|c w IH]; intros acc rest H.
  - now rewrite sapp_nil_r.
  - cbn [all_name_chars] in H. apply andb_true_iff in H. destruct H as [Hc Hw].
    cbn [append lex_go]. rewrite (proj2 (classify_name_iff c) Hc). cbn [push].
    rewrite (IH _ _ Hw), sapp_assoc. reflexivity.
Qed.
Lemma lex_word_idle : forall w rest, wf_name w = true -> lex_go MIdle (w ++ rest)%string = lex_go (MWord w) rest.
Proof.
  intros [|c w] rest H; [discriminate H|].
  cbn [wf_name all_name_chars] in H. apply andb_true_iff in H. destruct H as [Hc Hw].
  cbn [append]. rewrite lex_idle_cons, (proj2 (classify_name_iff c) Hc).
  rewrite (lex_word_run _ _ _ Hw). reflexivity.
Qed.
Lemma lex_word_end : forall w rest, starts_nonname rest = true ->
  lex_go (MWord w) rest = ocons (TWord w) (lex_go MIdle rest).
Proof.
  intros w [|c r] H; [reflexivity|].
  cbn [starts_nonname] in H. apply negb_true_iff in H.
  rewrite lex_idle_cons. cbn [lex_go].
  destruct (classify c) eqn:E; try reflexivity.
  apply classify_name_iff in E. congruence.
Qed.
Lemma lex_word : forall w rest, wf_name w = true -> starts_nonname rest = true ->
  lex_go MIdle (w ++ rest)%string = ocons (TWord w) (lex_go MIdle rest).
Proof. intros w rest Hw Hr. rewrite (lex_word_idle _ _ Hw). apply lex_word_end, Hr. Qed.

Lemma lex_comment : forall b rest, no_newline b = true -> lex_go MComment (b ++ nl ++ rest)%string = lex_go MIdle rest.
Proof.
  induction b as [|c b IH]; intros rest H; [reflexivity|].
  cbn [no_newline] in H. apply andb_true_iff in H. destruct H as [Hc Hb]. apply negb_true_iff, N.eqb_neq in Hc.
  cbn [append lex_go]. destruct (classify c) eqn:E; try (apply IH, Hb).
  apply classify_nl_iff in E. contradiction.
Qed.
Lemma lex_comment_end : forall b, no_newline b = true -> lex_go MComment b = Some [].
Proof.
  induction b as [|c b IH]; intro H; [reflexivity|].
  cbn [no_newline] in H. apply andb_true_iff in H. destruct H as [Hc Hb]. apply negb_true_iff, N.eqb_neq in Hc.
  cbn [lex_go]. destruct (classify c) eqn:E; try (apply IH, Hb).
  apply classify_nl_iff in E. contradiction.
Qed.

Lemma lex_ign : forall i rest, ign_ok i = true -> lex_go MIdle (ign_text i ++ rest)%string = lex_go MIdle rest.
Proof.
  intros [| | | | |b] rest H; try reflexivity.
  cbn [ign_ok] in H. cbn [ign_text append]. rewrite sapp_assoc. rewrite lex_idle_cons.
  change (classify "#"%char) with CHash. cbv iota. apply lex_comment, H.
Qed.
Lemma lex_sep : forall s rest, forallb ign_ok s = true -> lex_go MIdle (sep_text s ++ rest)%string = lex_go MIdle rest.
Proof.
  induction s as [|i s IH]; intros rest H; [reflexivity|].
  cbn [forallb] in H. apply andb_true_iff in H. destruct H as [Hi Hs].
  cbn [sep_text]. rewrite sapp_assoc, (lex_ign _ _ Hi). apply IH, Hs.
Qed.
Lemma sep_nonname : forall s rest, s <> [] -> starts_nonname (sep_text s ++ rest)%string = true.
Proof. intros [|i s] rest H; [congruence|]. destruct i; reflexivity. Qed.

Lemma lex_punct : forall t rest, is_word t = false ->
  lex_go MIdle (tok_text t ++ rest)%string = ocons t (lex_go MIdle rest).
Proof. intros [w| | | |] rest H; try discriminate H; reflexivity. Qed.
Lemma punct_nonname : forall t rest, is_word t = false -> starts_nonname (tok_text t ++ rest)%string = true.
Proof. intros [w| | | |] rest H; try discriminate H; reflexivity. Qed.

(** ** (b) the lexer is insensitive to ignored text between tokens *)
Lemma lex_render_toks : forall l tl,
  forallb (fun p => tok_ok (fst p)) l = true -> forallb (fun p => forallb ign_ok (snd p)) l = true ->
  glue_ok l = true -> starts_nonname tl = true -> lex_go MIdle tl = Some [] ->
  lex_go MIdle (render_toks l ++ tl)%string = Some (map fst l).
Proof.
  induction l as [|[t s] r IH]; intros tl Ht Hs Hg Hn Htl; [exact Htl|].
  cbn [forallb fst snd] in Ht, Hs. apply andb_true_iff in Ht, Hs. destruct Ht as [Ht Htr], Hs as [Hs Hsr].
  cbn [glue_ok] in Hg. apply andb_true_iff in Hg. destruct Hg as [Hg Hgr].
  specialize (IH tl Htr Hsr Hgr Hn Htl).
  cbn [render_toks map fst]. rewrite !sapp_assoc.
  destruct (is_word t) eqn:Ew.
  - destruct t as [w| | | |]; try discriminate Ew. cbn [tok_text tok_ok] in *.
    rewrite lex_word; [rewrite (lex_sep _ _ Hs), IH; reflexivity | exact Ht |].
    destruct s as [|i s]; [|apply sep_nonname; discriminate].
    cbn [sep_text append].
    destruct r as [|[t' s'] r']; [exact Hn|].
    cbn [is_word andb] in Hg. rewrite andb_true_r in Hg. apply negb_true_iff in Hg.
    cbn [render_toks]. rewrite sapp_assoc. apply punct_nonname, Hg.
  - rewrite (lex_punct _ _ Ew), (lex_sep _ _ Hs), IH. reflexivity.
Qed.

Theorem lex_render : forall s0 l t,
  forallb (fun p => tok_ok (fst p)) l = true -> seps_ok s0 l t = true -> glue_ok l = true ->
  lex (render s0 l t) = Some (map fst l).
Proof.
  intros s0 l t Ht Hs Hg. unfold seps_ok in Hs. apply andb_true_iff in Hs. destruct Hs as [Hs Htl].
  apply andb_true_iff in Hs. destruct Hs as [Hs0 Hs].
  unfold lex, render. rewrite (lex_sep _ _ Hs0).
  apply lex_render_toks; try assumption.
  - destruct t; reflexivity.
  - destruct t as [b|]; [|reflexivity]. cbn [tail_text]. rewrite lex_idle_cons.
    change (classify "#"%char) with CHash. cbv iota. apply lex_comment_end, Htl.
Qed.

(* hence the parse result depends on the token stream only *)
Theorem parse_render : forall s0 l t,
  forallb (fun p => tok_ok (fst p)) l = true -> seps_ok s0 l t = true -> glue_ok l = true ->
  parse_bench (render s0 l t) = parse_toks (map fst l).
Proof. intros s0 l t Ht Hs Hg. unfold parse_bench. now rewrite (lex_render _ _ _ Ht Hs Hg). Qed.

(** ** the token language of the parser *)
Definition comma_names (l : list string) : list btok := flat_map (fun n => [TComma; TWord n]) l.
Lemma toks_names_cons x l : toks_names (x :: l) = TWord x :: comma_names l.
Proof.
  revert x. induction l as [|y l IH]; intro x; [reflexivity|].
  change (toks_names (x :: y :: l)) with (TWord x :: TComma :: toks_names (y :: l)). now rewrite IH.
Qed.

Lemma parse_more_complete : forall l rest, parse_more (comma_names l ++ TRpar :: rest) = Some (l, rest).
Proof.
  induction l as [|x l IH]; intro rest; [reflexivity|].
  cbn [comma_names flat_map app parse_more]. fold (comma_names l). now rewrite IH.
Qed.
Lemma parse_params_complete : forall l rest, parse_params (toks_params l ++ rest) = Some (l, rest).
Proof.
  intros [|x l] rest; [reflexivity|].
  unfold toks_params. rewrite toks_names_cons. cbn [app parse_params]. rewrite <- app_assoc. cbn [app].
  now rewrite parse_more_complete.
Qed.
Lemma parse_stmt_complete : forall s pre rest, stmt_toks s pre -> parse_stmt (pre ++ rest) = Some (s, rest).
Proof.
  intros s pre rest H. destruct H as [kw ns Hk | z k a Hz]; cbn [app parse_stmt].
  - rewrite Hk, parse_params_complete. reflexivity.
  - rewrite Hz, parse_params_complete. reflexivity.
Qed.

Lemma parse_more_sound : forall n ts l r, List.length ts <= n -> parse_more ts = Some (l, r) ->
  ts = comma_names l ++ TRpar :: r.
Proof.
  induction n as [|n IH]; intros ts l r Hn H.
  - destruct ts; [discriminate H | cbn in Hn; lia].
  - destruct ts as [|t ts]; [discriminate H|]. destruct t; try discriminate H.
    + cbn [parse_more] in H. inversion H; subst. reflexivity.
    + destruct ts as [|t2 ts]; [discriminate H|]. destruct t2 as [w| | | |]; try discriminate H.
      cbn [parse_more] in H. destruct (parse_more ts) as [[l' r']|] eqn:E; [|discriminate H].
      inversion H; subst. cbn [List.length] in Hn.
      rewrite (IH ts l' r ltac:(lia) E) at 1. reflexivity.
Qed.
Lemma parse_params_sound : forall ts l r, parse_params ts = Some (l, r) -> ts = toks_params l ++ r.
Proof.
  intros ts l r H. destruct ts as [|t ts]; [discriminate H|]. destruct t; try discriminate H.
  destruct ts as [|t2 ts]; [discriminate H|]. destruct t2 as [w| | | |]; try discriminate H.
  - cbn [parse_params] in H. destruct (parse_more ts) as [[l' r']|] eqn:E; [|discriminate H].
    inversion H; subst. unfold toks_params. rewrite toks_names_cons.
    rewrite (parse_more_sound _ ts l' r (le_n _) E) at 1. cbn [app]. rewrite <- app_assoc. reflexivity.
  - cbn [parse_params] in H. inversion H; subst. reflexivity.
Qed.
Lemma parse_stmt_sound : forall ts s r, parse_stmt ts = Some (s, r) -> exists pre, stmt_toks s pre /\ ts = pre ++ r.
Proof.
  intros ts s r H. destruct ts as [|t ts]; [discriminate H|]. destruct t as [w| | | |]; try discriminate H.
  cbn [parse_stmt] in H. destruct (is_kw w) eqn:Ek.
  - destruct (parse_params ts) as [[l r']|] eqn:E; [|discriminate H]. inversion H; subst.
    exists (TWord w :: toks_params l). split; [constructor; exact Ek|].
    rewrite (parse_params_sound _ _ _ E) at 1. reflexivity.
  - destruct ts as [|t ts]; [discriminate H|]. destruct t; try discriminate H.
    destruct ts as [|t ts]; [discriminate H|]. destruct t as [k| | | |]; try discriminate H.
    destruct (parse_params ts) as [[l r']|] eqn:E; [|discriminate H]. inversion H; subst.
    exists (TWord w :: TEq :: TWord k :: toks_params l). split; [constructor; exact Ek|].
    rewrite (parse_params_sound _ _ _ E) at 1. reflexivity.
Qed.
Lemma stmt_toks_len : forall s pre, stmt_toks s pre -> 3 <= List.length pre.
Proof.
  intros s pre H. destruct H; unfold toks_params; cbn [List.length]; rewrite app_length; cbn [List.length]; lia.
Qed.

Lemma parse_stmts_complete : forall l tss f, Forall2 stmt_toks l tss -> List.length (List.concat tss) <= f ->
  parse_stmts f (List.concat tss) = Some l.
Proof.
  induction l as [|s l IH]; intros tss f H Hf.
  - inversion H; subst. destruct f; reflexivity.
  - inversion H as [|s' pre l' tss' Hs Hl]; subst. cbn [List.concat] in *.
    pose proof (stmt_toks_len _ _ Hs) as Hlen. rewrite app_length in Hf.
    destruct f as [|f]; [lia|].
    destruct pre as [|t pre]; [cbn in Hlen; lia|].
    change (parse_stmts (S f) ((t :: pre) ++ List.concat tss')) with
      (match parse_stmt ((t :: pre) ++ List.concat tss') with
       | Some (s, r) => match parse_stmts f r with Some l => Some (s :: l) | None => None end
       | None => None end).
    rewrite (parse_stmt_complete _ _ _ Hs). rewrite (IH tss' f Hl ltac:(lia)). reflexivity.
Qed.
Lemma parse_stmts_sound : forall f ts l, parse_stmts f ts = Some l ->
  exists tss, Forall2 stmt_toks l tss /\ ts = List.concat tss.
Proof.
  induction f as [|f IH]; intros ts l H.
  - destruct ts; [|discriminate H]. inversion H; subst. exists []. split; [constructor | reflexivity].
  - destruct ts as [|t ts]; [inversion H; subst; exists []; split; [constructor | reflexivity]|].
    cbn [parse_stmts] in H.
    destruct (parse_stmt (t :: ts)) as [[s r]|] eqn:E; [|discriminate H].
    destruct (parse_stmts f r) as [l'|] eqn:E2; [|discriminate H]. inversion H; subst.
    destruct (parse_stmt_sound _ _ _ E) as [pre [Hp Heq]].
    destruct (IH _ _ E2) as [tss [Hf Hc]].
    exists (pre :: tss). split; [constructor; assumption|]. cbn [List.concat]. rewrite Heq, Hc. reflexivity.
Qed.

(* the parser accepts exactly the concatenations of statement token groups: keyword "(" names ")" with any of the
   four keywords, or z "=" k "(" names ")" with z not (exactly) a keyword *)
Theorem parse_toks_iff : forall ts l,
  parse_toks ts = Some l <-> exists tss, Forall2 stmt_toks l tss /\ ts = List.concat tss.
Proof.
  intros ts l. split.
  - apply parse_stmts_sound.
  - intros [tss [H E]]. subst ts. apply parse_stmts_complete; [exact H | apply le_n].
Qed.

(** ** (a) print / parse round trip *)
Lemma stmt_toks_print : forall s, wf_stmt s = true -> stmt_toks s (toks_stmt s).
Proof.
  intros [ns|z k a] H; cbn [toks_stmt].
  - constructor. reflexivity.
  - constructor. cbn [wf_stmt] in H. repeat (apply andb_true_iff in H; destruct H as [H ?]).
    now apply negb_true_iff.
Qed.
Theorem parse_toks_stmts : forall l, forallb wf_stmt l = true -> parse_toks (toks_stmts l) = Some l.
Proof.
  intros l H. apply parse_toks_iff. exists (map toks_stmt l). split.
  - induction l as [|s l IH]; [constructor|]. cbn [forallb] in H. apply andb_true_iff in H. destruct H as [Hs Hl].
    cbn [map]. constructor; [apply stmt_toks_print, Hs | apply IH, Hl].
  - unfold toks_stmts. now rewrite flat_map_concat_map.
Qed.

(* print_bench as a rendering *)
Definition pr_names (l : list string) : list (btok * list ign) := map (fun t => (t, [])) (toks_names l).
Definition pr_stmt (s : bstmt) : list (btok * list ign) :=
  match s with
  | BInterface ns => (TWord "INPUT", []) :: (TLpar, []) :: pr_names ns ++ [(TRpar, [IgNl])]
  | BAssign z k a => (TWord z, [IgSpace]) :: (TEq, [IgSpace]) :: (TWord k, []) :: (TLpar, []) :: pr_names a ++ [(TRpar, [IgNl])]
  end.
Definition pr_bench (l : list bstmt) : list (btok * list ign) := flat_map pr_stmt l.

Lemma join_ind (P : list string -> Prop) :
  P [] -> (forall x, P [x]) -> (forall x y r, P (y :: r) -> P (x :: y :: r)) -> forall l, P l.
Proof.
  intros H0 H1 H2. induction l as [|x l IH]; [exact H0|]. destruct l as [|y r]; [apply H1 | apply H2, IH].
Qed.

Lemma render_app : forall a b, render_toks (a ++ b) = (render_toks a ++ render_toks b)%string.
Proof.
  induction a as [|[t s] a IH]; intro b; [reflexivity|].
  cbn [app render_toks]. rewrite IH, !sapp_assoc. reflexivity.
Qed.
Lemma render_pr_names : forall l, render_toks (pr_names l) = join_comma l.
Proof.
  intro l. pattern l. revert l. apply join_ind; [reflexivity | intro x; cbn; apply sapp_nil_r |].
  intros x y r IH. change (pr_names (x :: y :: r)) with ((TWord x, []) :: (TComma, []) :: pr_names (y :: r)).
  cbn [render_toks sep_text tok_text]. rewrite IH. reflexivity.
Qed.
Lemma render_pr_stmt : forall s, render_toks (pr_stmt s) = print_stmt s.
Proof.
  intros [ns|z k a]; cbn [pr_stmt print_stmt render_toks sep_text tok_text ign_text];
    rewrite render_app, render_pr_names; cbn [render_toks sep_text tok_text ign_text]; rewrite !sapp_nil_r; cbn [append]; reflexivity.
Qed.
Lemma render_pr_bench : forall l, render_toks (pr_bench l) = print_bench l.
Proof.
  induction l as [|s l IH]; [reflexivity|].
  unfold pr_bench in *. cbn [flat_map print_bench]. now rewrite render_app, render_pr_stmt, IH.
Qed.
Lemma fst_pr_names : forall l, map fst (pr_names l) = toks_names l.
Proof. intro l. unfold pr_names. rewrite map_map. cbn [fst]. apply map_id. Qed.
Lemma fst_pr_bench : forall l, map fst (pr_bench l) = toks_stmts l.
Proof.
  induction l as [|s l IH]; [reflexivity|].
  unfold pr_bench, toks_stmts in *. cbn [flat_map]. rewrite map_app, IH. f_equal.
  destruct s as [ns|z k a]; cbn [pr_stmt toks_stmt map fst]; unfold toks_params; rewrite map_app, fst_pr_names; reflexivity.
Qed.
Lemma tok_ok_pr_names : forall l, forallb wf_name l = true -> forallb (fun p => tok_ok (fst p)) (pr_names l) = true.
Proof.
  intro l. pattern l. revert l. apply join_ind; [reflexivity | intros x H; cbn in *; exact H |].
  intros x y r IH H. change (pr_names (x :: y :: r)) with ((TWord x, []) :: (TComma, []) :: pr_names (y :: r)).
  cbn [forallb] in H. apply andb_true_iff in H. destruct H as [Hx Hr].
  cbn [forallb fst tok_ok]. rewrite Hx. cbn [andb]. apply IH. exact Hr.
Qed.
Lemma tok_ok_pr_bench : forall l, forallb wf_stmt l = true -> forallb (fun p => tok_ok (fst p)) (pr_bench l) = true.
Proof.
  induction l as [|s l IH]; intro H; [reflexivity|].
  cbn [forallb] in H. apply andb_true_iff in H. destruct H as [Hs Hl].
  unfold pr_bench in *. cbn [flat_map]. rewrite forallb_app, (IH Hl), andb_true_r.
  destruct s as [ns|z k a]; cbn [pr_stmt wf_stmt] in *.
  - cbn [forallb fst tok_ok]. rewrite forallb_app, (tok_ok_pr_names _ Hs). reflexivity.
  - repeat (apply andb_true_iff in Hs; destruct Hs as [Hs ?]).
    cbn [forallb fst tok_ok]. rewrite forallb_app, (tok_ok_pr_names a) by assumption.
    rewrite Hs. cbn [forallb fst tok_ok andb]. rewrite andb_true_r. assumption.
Qed.
Lemma seps_pr_names : forall l, forallb (fun p => forallb ign_ok (snd p)) (pr_names l) = true.
Proof. intro l. unfold pr_names. rewrite forallb_forall. intros p Hp. apply in_map_iff in Hp. destruct Hp as [t [E _]]. now subst p. Qed.
Lemma seps_pr_bench : forall l, forallb (fun p => forallb ign_ok (snd p)) (pr_bench l) = true.
Proof.
  induction l as [|s l IH]; [reflexivity|].
  unfold pr_bench in *. cbn [flat_map]. rewrite forallb_app, IH, andb_true_r.
  destruct s as [ns|z k a]; cbn [pr_stmt forallb snd ign_ok andb]; rewrite forallb_app, seps_pr_names; reflexivity.
Qed.
Lemma glue_rpar : forall s R, glue_ok ((TRpar, s) :: R) = glue_ok R.
Proof. intros s [|[t' s'] R]; reflexivity. Qed.
Lemma glue_pr_names : forall l s R, glue_ok (pr_names l ++ (TRpar, s) :: R) = glue_ok R.
Proof.
  intros l s R. pattern l. revert l. apply join_ind.
  - apply glue_rpar.
  - intro x. transitivity (glue_ok ((TRpar, s) :: R)); [reflexivity | apply glue_rpar].
  - intros x y r IH. change (pr_names (x :: y :: r)) with ((TWord x, []) :: (TComma, []) :: pr_names (y :: r)).
    rewrite <- IH. unfold pr_names. rewrite (toks_names_cons y r). reflexivity.
Qed.
Lemma glue_pr_bench : forall l, glue_ok (pr_bench l) = true.
Proof.
  induction l as [|s l IH]; [reflexivity|].
  unfold pr_bench in *. cbn [flat_map].
  destruct s as [ns|z k a]; cbn [pr_stmt app]; rewrite <- app_assoc; cbn [app].
  - assert (E : forall X, glue_ok ((TWord "INPUT", []) :: (TLpar, []) :: X) = glue_ok X)
      by (intros [|[t' s'] X]; reflexivity).
    rewrite E, glue_pr_names. exact IH.
  - assert (E : forall X, glue_ok ((TWord z, [IgSpace]) :: (TEq, [IgSpace]) :: (TWord k, []) :: (TLpar, []) :: X) = glue_ok X)
      by (intros [|[t' s'] X]; reflexivity).
    rewrite E, glue_pr_names. exact IH.
Qed.

Theorem print_is_render : forall l, print_bench l = render [] (pr_bench l) None.
Proof. intro l. unfold render. cbn [sep_text tail_text append]. now rewrite sapp_nil_r, render_pr_bench. Qed.

Theorem parse_print : forall l, forallb wf_stmt l = true -> parse_bench (print_bench l) = Some l.
Proof.
  intros l H. rewrite print_is_render, parse_render.
  - rewrite fst_pr_bench. apply parse_toks_stmts, H.
  - apply tok_ok_pr_bench, H.
  - unfold seps_ok. cbn [forallb andb]. rewrite seps_pr_bench. reflexivity.
  - apply glue_pr_bench.
Qed.

(* every rendering of the statements' token stream (any of the four keywords, any ignored text) parses to them *)
Theorem parse_any_rendering : forall stmts tss s0 l t,
  Forall2 stmt_toks stmts tss -> map fst l = List.concat tss ->
  forallb (fun p => tok_ok (fst p)) l = true -> seps_ok s0 l t = true -> glue_ok l = true ->
  parse_bench (render s0 l t) = Some stmts.
Proof.
  intros stmts tss s0 l t Hst Hm Ht Hs Hg. rewrite (parse_render _ _ _ Ht Hs Hg), Hm.
  apply parse_toks_iff. exists tss. split; [exact Hst | reflexivity].
Qed.

(* an assignment to a name that is exactly a keyword cannot be written: whatever the separators, lark raises *)
Theorem keyword_assignment_rejected : forall kw k a rest, is_kw kw = true ->
  parse_toks (TWord kw :: TEq :: TWord k :: toks_params a ++ rest) = None.
Proof.
  intros kw k a rest H. unfold parse_toks. cbn [List.length parse_stmts parse_stmt]. rewrite H. reflexivity.
Qed.


(** ** converse: every text the lexer accepts IS a rendering of the returned token stream *)
Lemma classify_punct_text : forall c t, classify c = CPunct t -> String c EmptyString = tok_text t /\ is_word t = false.
Proof.
  intros c t. destruct c as [[|] [|] [|] [|] [|] [|] [|] [|]]; vm_compute; intro H; try discriminate H;
    inversion H; subst; split; reflexivity.
Qed.
Lemma classify_space_text : forall c, classify c = CSpace \/ classify c = CNl ->
  exists i, ign_text i = String c EmptyString /\ ign_ok i = true.
Proof.
  intros c. destruct c as [[|] [|] [|] [|] [|] [|] [|] [|]]; vm_compute; intros [H|H]; try discriminate H;
    [exists IgTab | exists IgNl | exists IgFf | exists IgSpace]; split; reflexivity.
Qed.
Lemma classify_hash_char : forall c, classify c = CHash -> c = "#"%char.
Proof. intros c. destruct c as [[|] [|] [|] [|] [|] [|] [|] [|]]; vm_compute; intro H; try discriminate H; reflexivity. Qed.
Lemma classify_cr_char : forall c, classify c = CCr -> c = ascii_of_N 13.
Proof. intros c. destruct c as [[|] [|] [|] [|] [|] [|] [|] [|]]; vm_compute; intro H; try discriminate H; reflexivity. Qed.
Lemma classify_nl_char : forall c, classify c = CNl -> c = ascii_of_N 10.
Proof. intros c. destruct c as [[|] [|] [|] [|] [|] [|] [|] [|]]; vm_compute; intro H; try discriminate H; reflexivity. Qed.

Lemma ocons_some : forall t o ts, ocons t o = Some ts -> exists ts', o = Some ts' /\ ts = t :: ts'.
Proof. intros t [l|] ts H; [|discriminate H]. inversion H. eauto. Qed.

Lemma slen_app : forall a b : string, String.length (a ++ b)%string = String.length a + String.length b.
Proof. induction a as [|x a IH]; intro b; [reflexivity|]. cbn [append String.length]. now rewrite IH. Qed.

(* word mode: the rest of the word, then the text continues between tokens *)
Lemma lex_word_inv : forall s w ts, lex_go (MWord w) s = Some ts ->
  exists w' s' ts', s = (w' ++ s')%string /\ all_name_chars w' = true /\ starts_nonname s' = true /\
                    lex_go MIdle s' = Some ts' /\ ts = TWord (w ++ w')%string :: ts'.
Proof.
  induction s as [|c r IH]; intros w ts H.
  - exists EmptyString, EmptyString, []. cbn in H. inversion H. rewrite (sapp_nil_r w). repeat split; reflexivity.
  - destruct (is_name_char c) eqn:Ec.
    + cbn [lex_go] in H. rewrite (proj2 (classify_name_iff c) Ec) in H. cbn [push] in H.
      destruct (IH _ _ H) as [w' [s' [ts' [E [Hw [Hs [Hl Et]]]]]]].
      exists (String c w'), s', ts'. cbn [append all_name_chars]. rewrite Ec, Hw, E. repeat split; try assumption.
      rewrite Et, sapp_assoc. reflexivity.
    + assert (Hn : starts_nonname (String c r) = true) by (cbn; now rewrite Ec).
      rewrite (lex_word_end _ _ Hn) in H. apply ocons_some in H. destruct H as [ts' [Hl Et]].
      exists EmptyString, (String c r), ts'. rewrite sapp_nil_r. repeat split; assumption.
Qed.
Lemma lex_comment_inv : forall s ts, lex_go MComment s = Some ts ->
  exists b, no_newline b = true /\
    ((s = b /\ ts = []) \/ exists s', s = (b ++ nl ++ s')%string /\ lex_go MIdle s' = Some ts).
Proof.
  induction s as [|c r IH]; intros ts H.
  - exists EmptyString. split; [reflexivity|]. left. cbn in H. inversion H. split; reflexivity.
  - cbn [lex_go] in H. destruct (classify c) eqn:Ec;
      try (destruct (IH _ H) as [b [Hb Hc]]; exists (String c b); split;
           [cbn [no_newline]; rewrite Hb, andb_true_r; apply negb_true_iff, N.eqb_neq; intro E10; apply classify_nl_iff in E10; congruence|];
           destruct Hc as [[E1 E2]|[s' [E1 E2]]]; [left; subst; split; reflexivity | right; exists s'; subst; split; [reflexivity | exact E2]]).
    exists EmptyString. split; [reflexivity|]. right. exists r. apply classify_nl_char in Ec. subst c. split; [reflexivity | exact H].
Qed.

Lemma seps_ok_parts : forall s0 l t, seps_ok s0 l t = true <->
  forallb ign_ok s0 = true /\ forallb (fun p => forallb ign_ok (snd p)) l = true /\
  match t with Some b => no_newline b | None => true end = true.
Proof. intros. unfold seps_ok. rewrite !andb_true_iff. tauto. Qed.

Lemma rendering_sep : forall i s ts, ign_ok i = true -> rendering s ts -> rendering (ign_text i ++ s)%string ts.
Proof.
  intros i s ts Hi [s0 [l [t [E [Em [Ht [Hs Hg]]]]]]]. exists (i :: s0), l, t.
  apply seps_ok_parts in Hs. destruct Hs as [H0 [Hl Htl]].
  repeat split; try assumption.
  - unfold render in *. cbn [sep_text]. now rewrite sapp_assoc, E.
  - apply seps_ok_parts. cbn [forallb]. rewrite Hi, H0. repeat split; assumption.
Qed.
Lemma starts_nonname_render : forall s0 x sx l t, starts_nonname (render s0 ((TWord x, sx) :: l) t) = true ->
  wf_name x = true -> s0 <> [].
Proof.
  intros s0 x sx l t H Hx E. subst s0. unfold render in H. cbn [sep_text append render_toks tok_text] in H.
  destruct x as [|c x]; [discriminate Hx|]. cbn [wf_name all_name_chars] in Hx. apply andb_true_iff in Hx. destruct Hx as [Hc _].
  cbn [append starts_nonname] in H. rewrite Hc in H. discriminate H.
Qed.
Lemma rendering_tok : forall t0 s ts, tok_ok t0 = true -> (is_word t0 = true -> starts_nonname s = true) ->
  rendering s ts -> rendering (tok_text t0 ++ s)%string (t0 :: ts).
Proof.
  intros t0 s ts Hok Hw [s0 [l [t [E [Em [Ht [Hs Hg]]]]]]]. exists [], ((t0, s0) :: l), t.
  apply seps_ok_parts in Hs. destruct Hs as [H0 [Hl Htl]].
  repeat split.
  - rewrite E. unfold render. cbn [sep_text render_toks]. rewrite !sapp_assoc. reflexivity.
  - cbn [map fst]. now rewrite Em.
  - cbn [forallb fst]. now rewrite Hok, Ht.
  - apply seps_ok_parts. cbn [forallb snd]. rewrite H0, Hl. repeat split; assumption.
  - cbn [glue_ok]. rewrite Hg, andb_true_r. destruct l as [|[t' s'] l']; [reflexivity|].
    apply negb_true_iff. destruct (is_word t0) eqn:E0; [|reflexivity]. cbn [andb].
    destruct t' as [x| | | |]; try reflexivity. cbn [is_word andb].
    destruct s0 as [|i s0]; [|reflexivity]. exfalso.
    cbn [forallb fst tok_ok] in Ht. apply andb_true_iff in Ht. destruct Ht as [Hx _].
    rewrite E in Hw. exact (starts_nonname_render [] x s' l' t (Hw eq_refl) Hx eq_refl).
Qed.

Theorem lex_sound : forall n s ts, String.length s <= n -> lex s = Some ts -> rendering s ts.
Proof.
  unfold lex. induction n as [|n IH]; intros s ts Hn H.
  - destruct s; [|cbn in Hn; lia]. cbn in H. inversion H. exists [], [], None. repeat split; reflexivity.
  - destruct s as [|c r]; [cbn in H; inversion H; exists [], [], None; repeat split; reflexivity|].
    cbn [String.length] in Hn. rewrite lex_idle_cons in H. destruct (classify c) eqn:Ec.
    + (* a word *)
      destruct (lex_word_inv _ _ _ H) as [w' [s' [ts' [E [Hw [Hs [Hl Et]]]]]]]. subst r ts.
      assert (Hlen : String.length s' <= n).
      { rewrite slen_app in Hn. clear - Hn. revert Hn. generalize (String.length w') (String.length s'). intros a b Hn. lia. }
      pose proof (IH _ _ Hlen Hl) as Hr.
      change (String c (w' ++ s')%string) with (tok_text (TWord (String c w')) ++ s')%string.
      change (String c EmptyString ++ w')%string with (String c w').
      apply rendering_tok; [|intros _; exact Hs | exact Hr].
      cbn [tok_ok wf_name all_name_chars]. now rewrite (proj1 (classify_name_iff c) Ec), Hw.
    + apply ocons_some in H. destruct H as [ts' [Hl Et]]. subst ts.
      destruct (classify_punct_text _ _ Ec) as [Etxt Hnw].
      change (String c r) with (String c EmptyString ++ r)%string. rewrite Etxt.
      apply rendering_tok; [destruct t; try reflexivity; discriminate Hnw | intro Hx; congruence | apply (IH r ts'); [lia | exact Hl]].
    + destruct (classify_space_text c (or_introl Ec)) as [i [Ei Hi]].
      change (String c r) with (String c EmptyString ++ r)%string. rewrite <- Ei.
      apply rendering_sep; [exact Hi | apply (IH r ts); [lia | exact H]].
    + destruct (classify_space_text c (or_intror Ec)) as [i [Ei Hi]].
      change (String c r) with (String c EmptyString ++ r)%string. rewrite <- Ei.
      apply rendering_sep; [exact Hi | apply (IH r ts); [lia | exact H]].
    + (* "\r\n" *)
      destruct r as [|c2 r2]; [discriminate H|]. cbn [lex_go] in H.
      destruct (classify c2) eqn:Ec2; try discriminate H.
      apply classify_cr_char in Ec. apply classify_nl_char in Ec2. subst c c2.
      change (String (ascii_of_N 13) (String (ascii_of_N 10) r2)) with (ign_text IgCrNl ++ r2)%string.
      apply rendering_sep; [reflexivity | apply (IH r2 ts); [cbn [String.length] in Hn; lia | exact H]].
    + (* a comment *)
      apply classify_hash_char in Ec. subst c.
      destruct (lex_comment_inv _ _ H) as [b [Hb [[E1 E2]|[s' [E1 E2]]]]].
      * subst r ts. exists [], [], (Some b). repeat split; try reflexivity.
        unfold seps_ok. cbn [forallb andb]. exact Hb.
      * subst r.
        assert (Hlen : String.length s' <= n).
        { rewrite !slen_app in Hn. clear - Hn. cbn [nl String.length] in Hn. revert Hn. generalize (String.length b) (String.length s'). intros x y Hn. lia. }
        replace (String "#" (b ++ nl ++ s'))%string with (ign_text (IgComment b) ++ s')%string
          by (cbn [ign_text append]; now rewrite sapp_assoc).
        apply rendering_sep; [exact Hb | apply (IH _ _ Hlen E2)].
    + discriminate H.
Qed.

(* the lexer accepts exactly the renderings *)
Theorem lex_iff : forall s ts, lex s = Some ts <-> rendering s ts.
Proof.
  intros s ts. split; [apply (lex_sound (String.length s)), le_n|].
  intros [s0 [l [t [E [Em [Ht [Hs Hg]]]]]]]. subst s ts. apply lex_render; assumption.
Qed.
(* and so does the parser: the texts lark accepts are exactly the renderings (any ignored text, any of the keywords) of
   token streams that are concatenations of statement token groups *)
Theorem parse_bench_iff : forall s l, parse_bench s = Some l <->
  exists ts tss, rendering s ts /\ Forall2 stmt_toks l tss /\ ts = List.concat tss.
Proof.
  intros s l. unfold parse_bench. split.
  - destruct (lex s) as [ts|] eqn:E; [|discriminate]. intro H. apply parse_toks_iff in H. destruct H as [tss [H1 H2]].
    exists ts, tss. split; [apply lex_iff, E | split; assumption].
  - intros [ts [tss [Hr [H1 H2]]]]. apply lex_iff in Hr. rewrite Hr. apply parse_toks_iff. exists tss. split; assumption.
Qed.

(** ** (c) composition with the elaboration theorems: bench wiring from TEXT *)
Theorem bench_text_wiring : forall text stmts c z kind args,
  parse_bench text = Some stmts -> bench_of_text text = Some c -> In (BAssign z kind args) stmts -> kind <> fork_kind ->
  exists ci cell,
    nth_error (bc_nodes c) ci = Some cell /\ bn_name cell = z /\ bn_kind cell = kind /\
    List.length (bn_ins cell) = List.length args /\
    (forall k a, nth_error args k = Some a ->
       exists li l f, nth_error (bn_ins cell) k = Some (Some li) /\ nth_error (bc_lines c) li = Some l /\
                      bl_rdr l = ci /\ bl_rpin l = k /\
                      nth_error (bc_nodes c) (bl_drv l) = Some f /\ bn_kind f = fork_kind /\ bn_name f = a) /\
    (exists lo l f, nth_error (bn_outs cell) 0 = Some (Some lo) /\ nth_error (bc_lines c) lo = Some l /\
                    bl_drv l = ci /\ bl_dpin l = 0 /\
                    nth_error (bc_nodes c) (bl_rdr l) = Some f /\ bn_kind f = fork_kind /\ bn_name f = z).
Proof.
  intros text stmts c z kind args Hp Hb Hin Hk. unfold bench_of_text in Hb. rewrite Hp in Hb.
  exact (bench_wiring stmts c z kind args Hb Hin Hk).
Qed.

(* from the text as written: any rendering (any keyword spelling, any ignored text) of a statement sequence that
   contains z = KIND(args) and elaborates yields the wired cell *)
Theorem bench_rendering_wiring : forall stmts tss s0 l t c z kind args,
  Forall2 stmt_toks stmts tss -> map fst l = List.concat tss ->
  forallb (fun p => tok_ok (fst p)) l = true -> seps_ok s0 l t = true -> glue_ok l = true ->
  bench_of_text (render s0 l t) = Some c -> In (BAssign z kind args) stmts -> kind <> fork_kind ->
  exists ci cell,
    nth_error (bc_nodes c) ci = Some cell /\ bn_name cell = z /\ bn_kind cell = kind /\
    List.length (bn_ins cell) = List.length args /\
    (forall k a, nth_error args k = Some a ->
       exists li l f, nth_error (bn_ins cell) k = Some (Some li) /\ nth_error (bc_lines c) li = Some l /\
                      bl_rdr l = ci /\ bl_rpin l = k /\
                      nth_error (bc_nodes c) (bl_drv l) = Some f /\ bn_kind f = fork_kind /\ bn_name f = a) /\
    (exists lo l f, nth_error (bn_outs cell) 0 = Some (Some lo) /\ nth_error (bc_lines c) lo = Some l /\
                    bl_drv l = ci /\ bl_dpin l = 0 /\
                    nth_error (bc_nodes c) (bl_rdr l) = Some f /\ bn_kind f = fork_kind /\ bn_name f = z).
Proof.
  intros stmts tss s0 l t c z kind args Hst Hm Ht Hs Hg Hb Hin Hk.
  exact (bench_text_wiring _ stmts c z kind args (parse_any_rendering _ _ _ _ _ Hst Hm Ht Hs Hg) Hb Hin Hk).
Qed.
Theorem bench_text_node_unique : forall text c i j n m,
  bench_of_text text = Some c -> nth_error (bc_nodes c) i = Some n -> nth_error (bc_nodes c) j = Some m ->
  bn_name n = bn_name m -> is_fork n = is_fork m -> i = j.
Proof.
  intros text c i j n m Hb. unfold bench_of_text in Hb. destruct (parse_bench text) as [stmts|]; [|discriminate Hb].
  exact (bench_node_unique stmts c i j n m Hb).
Qed.

(** ** the hypotheses are satisfiable; corner cases of the real parser (each line was run through lark) *)
Local Open Scope string_scope.
Definition ex_text : string :=
  "# c17 fragment" ++ nl ++ "INPUT(G1,G-2)  output ( G22 )" ++ String (ascii_of_N 13) nl ++
  "G10 = nand(G1 , G-2) # first" ++ nl ++ String (ascii_of_N 9) "G22=NOT(G10)#last".
Definition ex_stmts : list bstmt :=
  [BInterface ["G1"; "G-2"]; BInterface ["G22"]; BAssign "G10" "nand" ["G1"; "G-2"]; BAssign "G22" "NOT" ["G10"]].
Example parse_ex : parse_bench ex_text = Some ex_stmts.
Proof. vm_compute. reflexivity. Qed.
Example print_parse_ex : forallb wf_stmt ex_stmts = true /\ parse_bench (print_bench ex_stmts) = Some ex_stmts.
Proof. split; vm_compute; reflexivity. Qed.
(* ex_text is a rendering in the sense of parse_any_rendering *)
Example render_ex : exists s0 l t tss, ex_text = render s0 l t /\ Forall2 stmt_toks ex_stmts tss /\ map fst l = List.concat tss /\
  forallb (fun p => tok_ok (fst p)) l = true /\ seps_ok s0 l t = true /\ glue_ok l = true.
Proof.
  exists [IgComment " c17 fragment"].
  exists [(TWord "INPUT", []); (TLpar, []); (TWord "G1", []); (TComma, []); (TWord "G-2", []); (TRpar, [IgSpace; IgSpace]);
          (TWord "output", [IgSpace]); (TLpar, [IgSpace]); (TWord "G22", [IgSpace]); (TRpar, [IgCrNl]);
          (TWord "G10", [IgSpace]); (TEq, [IgSpace]); (TWord "nand", []); (TLpar, []); (TWord "G1", [IgSpace]); (TComma, [IgSpace]);
          (TWord "G-2", []); (TRpar, [IgSpace; IgComment " first"; IgTab]);
          (TWord "G22", []); (TEq, []); (TWord "NOT", []); (TLpar, []); (TWord "G10", []); (TRpar, [])].
  exists (Some "last").
  exists [TWord "INPUT" :: toks_params ["G1"; "G-2"]; TWord "output" :: toks_params ["G22"];
          TWord "G10" :: TEq :: TWord "nand" :: toks_params ["G1"; "G-2"]; TWord "G22" :: TEq :: TWord "NOT" :: toks_params ["G10"]].
  split; [vm_compute; reflexivity|]. split.
  - repeat constructor.
  - repeat split; vm_compute; reflexivity.
Qed.
Example corner_cases :
  parse_bench "" = Some [] /\ parse_bench "#c" = Some [] /\ parse_bench "INPUT()" = Some [BInterface []] /\
  parse_bench "input(input)" = Some [BInterface ["input"]] /\ parse_bench "a=INPUT(output)" = Some [BAssign "a" "INPUT" ["output"]] /\
  parse_bench "Input(a)" = None /\ parse_bench "input=AND(a,b)" = None /\ parse_bench "output = AND(a,b)" = None /\
  parse_bench "INPUTa=x(b)" = Some [BAssign "INPUTa" "x" ["b"]] /\ parse_bench "INPUTa(b)" = None /\
  parse_bench "-=-(-)" = Some [BAssign "-" "-" ["-"]] /\ parse_bench "INPUT(a,)" = None /\ parse_bench "INPUT(a b)" = None /\
  parse_bench (String (ascii_of_N 13) "") = None /\ parse_bench (String (ascii_of_N 13) nl) = Some [] /\
  parse_bench (String (ascii_of_N 11) "") = None /\ parse_bench "INPUT(a);" = None /\
  parse_bench "K=input(a)input(b)" = Some [BAssign "K" "input" ["a"]; BInterface ["b"]].
Proof. vm_compute. repeat split; reflexivity. Qed.
