(** Proofs about the transcription of kyupy/stil.py (Model/Stil.v): where scan-load / scan-unload characters,
    primary-input / primary-output characters end up, for ALL circuits, chains, marker placements and strings. *)
From Coq Require Import List Arith Bool String Ascii Lia.
From KV Require Import Model.Prims Model.Logic Model.Netlist Model.Stil Model.StilSpec.
Import ListNotations.
Local Open Scope list_scope.

(* ---------------------------------------------------------------------------------------------- *)
(** * dictionaries *)
Lemma dget_dset_same {V} (d : sdict V) k v : dget (dset d k v) k = Some v.
Proof.
  induction d as [|[k' v'] r IH]; simpl.
  - now rewrite String.eqb_refl.
  - destruct (String.eqb k' k) eqn:E; simpl; rewrite E; auto.
Qed.

Lemma dget_dset_other {V} (d : sdict V) k k' v : k <> k' -> dget (dset d k v) k' = dget d k'.
Proof.
  intros N. induction d as [|[k0 v0] r IH]; simpl.
  - destruct (String.eqb k k') eqn:E; auto. apply String.eqb_eq in E. contradiction.
  - destruct (String.eqb k0 k) eqn:E; simpl.
    + apply String.eqb_eq in E. subst k0.
      destruct (String.eqb k k') eqn:E2; auto. apply String.eqb_eq in E2. contradiction.
    + destruct (String.eqb k0 k'); auto.
Qed.

Lemma dset_fresh {V} (d : sdict V) k v : ~ In k (dkeys d) -> dset d k v = d ++ [(k, v)].
Proof.
  induction d as [|[k0 v0] r IH]; simpl; intros H; auto.
  destruct (String.eqb k0 k) eqn:E.
  - apply String.eqb_eq in E. subst. exfalso. apply H. now left.
  - f_equal. apply IH. intros X. apply H. now right.
Qed.

Lemma fold_dset_nodup {V} (l acc : sdict V) :
  NoDup (dkeys acc ++ dkeys l) ->
  fold_left (fun d kv => dset d (fst kv) (snd kv)) l acc = acc ++ l.
Proof.
  revert acc. induction l as [|[k v] r IH]; intros acc H; simpl.
  - now rewrite app_nil_r.
  - simpl in H. rewrite dset_fresh.
    + rewrite IH.
      * now rewrite <- app_assoc.
      * unfold dkeys in *. rewrite map_app. simpl. rewrite <- app_assoc. simpl. exact H.
    + apply NoDup_remove_2 in H. intros X. apply H. apply in_or_app. now left.
Qed.

Lemma dict_of_nodup {V} (l : sdict V) : NoDup (dkeys l) -> dict_of l = l.
Proof. intros H. unfold dict_of. now rewrite fold_dset_nodup. Qed.

Lemma dkeys_combine {V} (ks : list string) (vs : list V) :
  List.length ks = List.length vs -> dkeys (combine ks vs) = ks.
Proof.
  revert vs. induction ks as [|k r IH]; intros [|v vs] H; simpl in *; try discriminate; auto.
  f_equal. apply IH. lia.
Qed.

Lemma dget_combine_seq_inv names s x q :
  dget (combine names (seq s (List.length names))) x = Some q -> s <= q /\ nth_error names (q - s) = Some x.
Proof.
  revert s. induction names as [|n r IH]; intros s; simpl; try discriminate.
  destruct (String.eqb n x) eqn:E.
  - intros H. inversion H. subst. apply String.eqb_eq in E. subst. rewrite Nat.sub_diag. auto.
  - intros H. apply IH in H. destruct H as [H1 H2]. split; [lia|].
    replace (q - s) with (S (q - S s)) by lia. exact H2.
Qed.

Lemma dget_combine_seq names s i x :
  NoDup names -> nth_error names i = Some x -> dget (combine names (seq s (List.length names))) x = Some (s + i).
Proof.
  revert s i. induction names as [|n r IH]; intros s i ND H; simpl.
  - destruct i; discriminate.
  - destruct i; simpl in H.
    + inversion H. subst. rewrite String.eqb_refl. f_equal. lia.
    + inversion ND. subst. destruct (String.eqb n x) eqn:E.
      * apply String.eqb_eq in E. subst. exfalso. apply H2. eapply nth_error_In. eauto.
      * rewrite (IH (S s) i); auto. f_equal. lia.
Qed.

(** positions in the interface, for interfaces without duplicate names *)
Section Pos.
  Variable intf : list snode.
  Let names := map sn_name intf.
  Hypothesis ND : NoDup names.

  Lemma intf_pos_eq : intf_pos intf = combine names (seq 0 (List.length names)).
  Proof.
    unfold intf_pos. subst names. rewrite map_length. apply dict_of_nodup.
    rewrite dkeys_combine; auto. now rewrite seq_length, map_length.
  Qed.

  Lemma pos_name x q : dget (intf_pos intf) x = Some q -> nth_error names q = Some x.
  Proof.
    rewrite intf_pos_eq. intros H. apply dget_combine_seq_inv in H. destruct H as [_ H].
    now rewrite Nat.sub_0_r in H.
  Qed.

  Lemma pos_lt x q : dget (intf_pos intf) x = Some q -> q < List.length intf.
  Proof.
    intros H. apply pos_name in H. assert (nth_error names q <> None) by congruence.
    apply nth_error_Some in H0. subst names. now rewrite map_length in H0.
  Qed.

  Lemma pos_inj x y q : dget (intf_pos intf) x = Some q -> dget (intf_pos intf) y = Some q -> x = y.
  Proof. intros H1 H2. apply pos_name in H1. apply pos_name in H2. congruence. Qed.

  Lemma pos_of_nth i x : nth_error names i = Some x -> dget (intf_pos intf) x = Some i.
  Proof. intros H. rewrite intf_pos_eq. now rewrite (dget_combine_seq names 0 i x ND H). Qed.
End Pos.

Lemma lookup_all_spec d names ps :
  lookup_all d names = Some ps -> Forall2 (fun n p => dget d n = Some p) names ps.
Proof.
  revert ps. induction names as [|n r IH]; intros ps H; simpl in H.
  - inversion H. constructor.
  - destruct (dget d n) eqn:E; try discriminate. destruct (lookup_all d r) eqn:E2; try discriminate.
    inversion H. subst. constructor; auto.
Qed.

Lemma Forall2_nth {A B} (R : A -> B -> Prop) l1 l2 :
  Forall2 R l1 l2 -> List.length l1 = List.length l2 /\
  forall j a b, j < List.length l1 -> R (nth j l1 a) (nth j l2 b).
Proof.
  induction 1; simpl.
  - split; [reflexivity|intros; lia].
  - destruct IHForall2 as [L N]. split; [lia|]. intros [|j] a b Hj; auto. apply N. lia.
Qed.

Lemma Forall2_In_r {A B} (R : A -> B -> Prop) l1 l2 b :
  Forall2 R l1 l2 -> In b l2 -> exists a, In a l1 /\ R a b.
Proof.
  induction 1; simpl; intros HI; [contradiction|]. destruct HI as [->|HI].
  - exists x. auto.
  - destruct (IHForall2 HI) as [a [Ha Hr]]. exists a. auto.
Qed.

(* ---------------------------------------------------------------------------------------------- *)
(** * fancy-index assignment *)
Lemma set_nth_length l i v : List.length (set_nth l i v) = List.length l.
Proof. revert i. induction l; intros [|i]; simpl; auto. Qed.

Lemma set_nth_same l i v d : i < List.length l -> nth i (set_nth l i v) d = v.
Proof. revert i. induction l; intros [|i] H; simpl in *; try lia; auto. apply IHl. lia. Qed.

Lemma set_nth_other l i j v d : i <> j -> nth j (set_nth l i v) d = nth j l d.
Proof.
  revert i j. induction l; intros [|i] [|j] H; simpl; auto; try congruence; try (apply IHl; congruence).
Qed.

Definition set_pairs (col : list nat) (ivs : list (nat * nat)) :=
  fold_left (fun c iv => set_nth c (fst iv) (snd iv)) ivs col.

Lemma set_pairs_length ivs col : List.length (set_pairs col ivs) = List.length col.
Proof.
  revert col. induction ivs as [|[i v] r IH]; intros col; simpl; auto.
  unfold set_pairs in *. simpl. rewrite IH. apply set_nth_length.
Qed.

Lemma set_pairs_frame ivs col q d :
  ~ In q (map fst ivs) -> nth q (set_pairs col ivs) d = nth q col d.
Proof.
  revert col. induction ivs as [|[i v] r IH]; intros col H; simpl in *; auto.
  unfold set_pairs in *. simpl. rewrite IH by tauto. apply set_nth_other. tauto.
Qed.

Lemma set_pairs_hit ivs col q v d :
  NoDup (map fst ivs) -> In (q, v) ivs -> q < List.length col -> nth q (set_pairs col ivs) d = v.
Proof.
  revert col. induction ivs as [|[i v0] r IH]; intros col ND HI Hq; simpl in *; [contradiction|].
  inversion ND. subst. unfold set_pairs in *. simpl. destruct HI as [E|HI].
  - inversion E. subst. fold (set_pairs (set_nth col q v) r). rewrite set_pairs_frame; auto.
    now apply set_nth_same.
  - apply IH; auto. now rewrite set_nth_length.
Qed.

Lemma bget_eq l k i : List.length l = k -> i < k -> bget l i = nth i l 0.
Proof.
  intros L H. unfold bget. destruct (List.length l =? 1) eqn:E; auto.
  apply Nat.eqb_eq in E. destruct l as [|x [|y r]]; simpl in *; try discriminate.
  assert (i = 0) by lia. now subst.
Qed.

Lemma map_bget_id vals k : List.length vals = k -> map (bget vals) (seq 0 k) = vals.
Proof.
  intros L. apply nth_ext with (d := 0) (d' := 0).
  - now rewrite map_length, seq_length.
  - intros n Hn. rewrite map_length, seq_length in Hn.
    rewrite (nth_indep _ 0 (bget vals 0)) by now rewrite map_length, seq_length.
    rewrite map_nth. rewrite seq_nth by auto. simpl. apply bget_eq with (k := k); auto.
Qed.

Lemma bshape_same m : bshape m m = Some m.
Proof. unfold bshape. now rewrite Nat.eqb_refl. Qed.

Lemma assign_eq col idxs vals :
  List.length vals = List.length idxs -> assign col idxs vals = Some (set_pairs col (combine idxs vals)).
Proof.
  intros L. unfold assign. rewrite L, bshape_same, Nat.eqb_refl. now rewrite map_bget_id.
Qed.

Lemma assign_length col idxs vals col' : assign col idxs vals = Some col' -> List.length col' = List.length col.
Proof.
  unfold assign. destruct (bshape _ _); try discriminate. destruct (_ =? _); try discriminate.
  intros H. inversion H. apply set_pairs_length.
Qed.

Lemma map_fst_combine {A B} (l1 : list A) (l2 : list B) :
  List.length l1 = List.length l2 -> map fst (combine l1 l2) = l1.
Proof.
  revert l2. induction l1; intros [|b l2] H; simpl in *; try discriminate; auto. f_equal. apply IHl1. lia.
Qed.

Lemma in_map_fst_combine {A B} (l1 : list A) (l2 : list B) x : In x (map fst (combine l1 l2)) -> In x l1.
Proof.
  revert l2. induction l1; intros [|b l2]; simpl; try tauto. intros [H|H]; auto. right. eapply IHl1. eauto.
Qed.

Lemma assign_frame col idxs vals col' q d :
  assign col idxs vals = Some col' -> ~ In q idxs -> nth q col' d = nth q col d.
Proof.
  unfold assign. destruct (bshape _ _); try discriminate. destruct (_ =? _); try discriminate.
  intros H N. inversion H. apply set_pairs_frame. intros X. apply N. eapply in_map_fst_combine. eauto.
Qed.

Lemma assign_hit col idxs vals col' j d :
  assign col idxs vals = Some col' -> List.length vals = List.length idxs -> NoDup idxs ->
  j < List.length idxs -> nth j idxs 0 < List.length col ->
  nth (nth j idxs 0) col' d = nth j vals 0.
Proof.
  intros H L ND Hj Hq. rewrite assign_eq in H by auto. inversion H.
  apply set_pairs_hit; auto.
  - rewrite map_fst_combine; auto.
  - rewrite <- combine_nth by auto. apply nth_In. rewrite combine_length. lia.
Qed.

Lemma assign_scalar_frame col idxs v q d : ~ In q idxs -> nth q (assign_scalar col idxs v) d = nth q col d.
Proof.
  revert col. unfold assign_scalar. induction idxs as [|i r IH]; intros col H; simpl in *; auto.
  rewrite IH by tauto. apply set_nth_other. tauto.
Qed.

Lemma assign_scalar_length col idxs v : List.length (assign_scalar col idxs v) = List.length col.
Proof.
  revert col. unfold assign_scalar. induction idxs; intros; simpl; auto. rewrite IHidxs. apply set_nth_length.
Qed.

Lemma assign_scalar_hit col idxs v q d : In q idxs -> q < List.length col -> nth q (assign_scalar col idxs v) d = v.
Proof.
  revert col. unfold assign_scalar. induction idxs as [|i r IH]; intros col H Hq; simpl in *; [contradiction|].
  destruct (in_dec Nat.eq_dec q r) as [I|I].
  - apply IH; auto. now rewrite set_nth_length.
  - destruct H as [->|H]; [|contradiction].
    fold (assign_scalar (set_nth col q v) r v). rewrite assign_scalar_frame; auto. now apply set_nth_same.
Qed.

(* ---------------------------------------------------------------------------------------------- *)
(** * chains: cells, markers, inversion parities *)

Lemma filter_rev' {A} (f : A -> bool) l : filter f (rev l) = rev (filter f l).
Proof.
  induction l; simpl; auto. rewrite filter_app, IHl. simpl. destruct (f a); simpl; auto. now rewrite app_nil_r.
Qed.

Lemma scan_cells_rev_eq mid : scan_cells_rev mid = rev (cells mid).
Proof. unfold scan_cells_rev, cells. apply filter_rev'. Qed.

Lemma cells_app a b : cells (a ++ b) = cells a ++ cells b.
Proof. apply filter_app. Qed.

Lemma cells_cons_cell c l : is_marker c = false -> cells (c :: l) = c :: cells l.
Proof. intros H. unfold cells, is_cell. simpl. now rewrite H. Qed.

Lemma ncell_rev l : ncell (rev l) = ncell l.
Proof. unfold ncell, cells. now rewrite filter_rev', rev_length. Qed.

Lemma nmark_rev l : nmark (rev l) = nmark l.
Proof. unfold nmark. now rewrite filter_rev', rev_length. Qed.

Lemma rev_mid {A} (a b : list A) x : rev (a ++ x :: b) = rev b ++ x :: rev a.
Proof. rewrite rev_app_distr. simpl. now rewrite <- app_assoc. Qed.

(** the cell [c] of [pre ++ c :: post] is entry number [ncell post] of the scan map *)
Lemma scan_cells_rev_at pre c post d :
  is_marker c = false -> nth (ncell post) (scan_cells_rev (pre ++ c :: post)) d = c.
Proof.
  intros H. rewrite scan_cells_rev_eq, cells_app, cells_cons_cell, rev_mid by auto.
  unfold ncell. rewrite <- (rev_length (cells post)). apply nth_middle.
Qed.

Lemma scan_cells_rev_length mid : List.length (scan_cells_rev mid) = ncell mid.
Proof. rewrite scan_cells_rev_eq. apply rev_length. Qed.

Lemma inv_walk_length l inv : List.length (inv_walk l inv) = ncell l.
Proof.
  revert inv. unfold ncell, cells, is_cell. induction l as [|n r IH]; intros inv; simpl; auto.
  destruct (is_marker n); simpl; auto.
Qed.

Lemma inv_walk_app a b inv :
  inv_walk (a ++ b) inv = inv_walk a inv ++ inv_walk b (xorb inv (Nat.odd (nmark a))).
Proof.
  revert inv. unfold nmark. induction a as [|n r IH]; intros inv; simpl.
  - now rewrite xorb_false_r.
  - destruct (is_marker n) eqn:E; simpl.
    + rewrite IH. f_equal. f_equal. rewrite Nat.odd_succ, <- Nat.negb_odd.
      destruct inv, (Nat.odd (List.length (filter is_marker r))); reflexivity.
    + now rewrite IH.
Qed.

Lemma ncell_mid pre c post : is_marker c = false -> ncell (pre ++ c :: post) = ncell pre + S (ncell post).
Proof. intros H. unfold ncell. rewrite cells_app, cells_cons_cell, app_length by auto. reflexivity. Qed.

(** inversion seen by the load data of cell [c]: the markers between scan-in and the cell *)
Lemma scan_in_inversion_at pre c post :
  is_marker c = false ->
  nth (ncell post) (scan_in_inversion (pre ++ c :: post)) false = Nat.odd (nmark pre).
Proof.
  intros H. unfold scan_in_inversion. rewrite inv_walk_app, xorb_false_l. simpl. rewrite H, rev_mid.
  rewrite <- (inv_walk_length post (Nat.odd (nmark pre))), <- rev_length. apply nth_middle.
Qed.

(** inversion seen by the unload data of cell [c]: the markers between the cell and scan-out *)
Lemma scan_out_inversion_at pre c post :
  is_marker c = false ->
  nth (ncell post) (scan_out_inversion (pre ++ c :: post)) false = Nat.odd (nmark post).
Proof.
  intros H. unfold scan_out_inversion. rewrite rev_mid, inv_walk_app, xorb_false_l. simpl. rewrite H, nmark_rev.
  rewrite <- (ncell_rev post), <- (inv_walk_length (rev post) false). apply nth_middle.
Qed.

Lemma scan_in_inversion_length mid : List.length (scan_in_inversion mid) = ncell mid.
Proof. unfold scan_in_inversion. now rewrite rev_length, inv_walk_length. Qed.
Lemma scan_out_inversion_length mid : List.length (scan_out_inversion mid) = ncell mid.
Proof. unfold scan_out_inversion. now rewrite inv_walk_length, ncell_rev. Qed.

(** chain list [si :: mid ++ [so]] *)
Lemma chain_parts si mid so :
  chain_si (si :: mid ++ [so]) = si /\ chain_so (si :: mid ++ [so]) = so /\ chain_mid (si :: mid ++ [so]) = mid.
Proof.
  unfold chain_si, chain_so, chain_mid. repeat split.
  - change (si :: mid ++ [so]) with ((si :: mid) ++ [so]). apply last_last.
  - simpl. apply removelast_last.
Qed.

(* ---------------------------------------------------------------------------------------------- *)
(** * the per-chain vector operations, element by element *)
Definition vec_pointwise (vec : list nat -> ndarr -> option (list nat)) (g : nat -> nat -> nat) : Prop :=
  forall pat l, List.length pat = List.length l ->
    exists r, vec pat (Arr l) = Some r /\ List.length r = List.length pat /\
              forall j, j < List.length pat -> nth j r 0 = g (nth j pat 0) (nth j l 0).

Lemma nth_map_seq (G : nat -> nat) m j d : j < m -> nth j (map G (seq 0 m)) d = G j.
Proof.
  intros H. rewrite (nth_indep _ d (G 0)) by (now rewrite map_length, seq_length).
  rewrite map_nth, seq_nth; auto.
Qed.

Lemma load_vec_pointwise : vec_pointwise load_vec (fun p i => Nat.lxor p (if is_unk p then ZERO else i)).
Proof.
  intros pat l L. unfold load_vec, choose_inv. rewrite <- L, bshape_same.
  unfold xor_into. rewrite map_length, seq_length, bshape_same, Nat.eqb_refl.
  eexists. split; [reflexivity|]. split; [now rewrite map_length, seq_length|].
  intros j Hj. rewrite nth_map_seq by auto.
  rewrite (bget_eq _ (List.length pat)) by (auto; now rewrite map_length, seq_length).
  rewrite nth_map_seq by auto.
  rewrite (bget_eq pat (List.length pat)) by auto. rewrite (bget_eq l (List.length pat)) by auto.
  reflexivity.
Qed.

Lemma mv_xor_pointwise : vec_pointwise mv_xor_arr mv_xor1.
Proof.
  intros pat l L. unfold mv_xor_arr. rewrite <- L, bshape_same.
  eexists. split; [reflexivity|]. split; [now rewrite map_length, seq_length|].
  intros j Hj. rewrite nth_map_seq by auto.
  rewrite (bget_eq pat (List.length pat)) by auto. rewrite (bget_eq l (List.length pat)) by auto.
  reflexivity.
Qed.

(* ---------------------------------------------------------------------------------------------- *)
(** * the scan loop *)
Section Loop.
  Variable vec : list nat -> ndarr -> option (list nat).
  Variable m : maps.
  Variable strs : sdict string.

  Lemma scan_loop_app s1 s2 col :
    scan_loop vec m strs (s1 ++ s2) col =
    match scan_loop vec m strs s1 col with Some c1 => scan_loop vec m strs s2 c1 | None => None end.
  Proof.
    revert col. induction s1 as [|a r IH]; intros col; simpl; auto.
    destruct (dget strs a); auto. destruct (dget (m_inv m) a); auto. destruct (dget (m_scan m) a); auto.
    destruct (vec _ _); auto. destruct (assign _ _ _); auto.
  Qed.

  Lemma scan_loop_length ports col col' :
    scan_loop vec m strs ports col = Some col' -> List.length col' = List.length col.
  Proof.
    revert col. induction ports as [|a r IH]; intros col H; simpl in H.
    - now inversion H.
    - destruct (dget strs a); try discriminate. destruct (dget (m_inv m) a); try discriminate.
      destruct (dget (m_scan m) a); try discriminate. destruct (vec _ _); try discriminate.
      destruct (assign _ _ _) eqn:A; try discriminate. apply IH in H. rewrite H. eapply assign_length; eauto.
  Qed.

  Lemma scan_loop_frame ports col col' q d :
    scan_loop vec m strs ports col = Some col' ->
    (forall port smap, In port ports -> dget (m_scan m) port = Some smap -> ~ In q smap) ->
    nth q col' d = nth q col d.
  Proof.
    revert col. induction ports as [|a r IH]; intros col H F; simpl in H.
    - now inversion H.
    - destruct (dget strs a); try discriminate. destruct (dget (m_inv m) a); try discriminate.
      destruct (dget (m_scan m) a) eqn:S; try discriminate. destruct (vec _ _); try discriminate.
      destruct (assign _ _ _) eqn:A; try discriminate.
      rewrite (IH _ H) by (intros; eapply F; eauto; now right).
      eapply assign_frame; eauto. eapply F; eauto. now left.
  Qed.

  Lemma scan_loop_hit g port rest col col' s l smap j d :
    vec_pointwise vec g ->
    scan_loop vec m strs (port :: rest) col = Some col' ->
    dget strs port = Some s -> dget (m_inv m) port = Some (Arr l) -> dget (m_scan m) port = Some smap ->
    List.length (mvarray s) = List.length l -> List.length smap = List.length l -> NoDup smap ->
    j < List.length smap -> nth j smap 0 < List.length col ->
    (forall port' smap', In port' rest -> dget (m_scan m) port' = Some smap' -> ~ In (nth j smap 0) smap') ->
    nth (nth j smap 0) col' d = g (nth j (mvarray s) 0) (nth j l 0).
  Proof.
    intros PW H Hs Hl Hm L1 L2 ND Hj Hq F. simpl in H. rewrite Hs, Hl, Hm in H.
    destruct (PW (mvarray s) l L1) as [r [E [Lr P]]]. rewrite E in H.
    destruct (assign col smap r) eqn:A; try discriminate.
    rewrite (scan_loop_frame _ _ _ _ _ H F).
    rewrite (assign_hit _ _ _ _ j d A); auto; try lia. apply P. lia.
  Qed.
End Loop.

(* ---------------------------------------------------------------------------------------------- *)
(** * _maps: what the chain loop leaves in scan_maps / scan_inversions *)
Fixpoint ports_ok (chs : list (list string)) : Prop :=
  match chs with
  | [] => True
  | ch :: r =>
      chain_si ch <> chain_so ch /\
      (forall ch', In ch' r -> chain_si ch' <> chain_si ch /\ chain_so ch' <> chain_si ch /\
                               chain_si ch' <> chain_so ch /\ chain_so ch' <> chain_so ch) /\
      ports_ok r
  end.

Lemma ports_nodup_ok chs : NoDup (map chain_si chs ++ map chain_so chs) -> ports_ok chs.
Proof.
  induction chs as [|ch r IH]; simpl; auto. intros H.
  apply NoDup_cons_iff in H. destruct H as [H1 H2].
  pose proof (NoDup_remove_1 _ _ _ H2) as H3. pose proof (NoDup_remove_2 _ _ _ H2) as H4.
  split; [|split].
  - intros E. apply H1. apply in_or_app. right. left. auto.
  - intros ch' I. repeat split; intros E.
    + apply H1. apply in_or_app. left. rewrite <- E. now apply in_map.
    + apply H1. apply in_or_app. right. right. rewrite <- E. now apply in_map.
    + apply H4. apply in_or_app. left. rewrite <- E. now apply in_map.
    + apply H4. apply in_or_app. right. rewrite <- E. now apply in_map.
  - auto.
Qed.

Lemma chain_maps_frame fixed pos chs sm0 si0 sm si k :
  chain_maps fixed pos chs sm0 si0 = Some (sm, si) ->
  (forall ch, In ch chs -> chain_si ch <> k /\ chain_so ch <> k) ->
  dget sm k = dget sm0 k /\ dget si k = dget si0 k.
Proof.
  revert sm0 si0. induction chs as [|ch r IH]; intros sm0 si0 H F; simpl in H.
  - inversion H. auto.
  - destruct (lookup_all _ _); try discriminate. destruct (inv_entry _ _); try discriminate.
    destruct (inv_entry _ _); try discriminate.
    apply IH in H; [|intros; apply F; now right]. destruct H as [H1 H2].
    destruct (F ch (or_introl eq_refl)) as [N1 N2].
    rewrite H1, H2. rewrite !dget_dset_other by auto. auto.
Qed.

Lemma chain_maps_in pos chs sm0 si0 sm si ch :
  chain_maps true pos chs sm0 si0 = Some (sm, si) -> ports_ok chs -> In ch chs ->
  exists smap, lookup_all pos (scan_cells_rev (chain_mid ch)) = Some smap /\
    dget sm (chain_si ch) = Some smap /\ dget sm (chain_so ch) = Some smap /\
    dget si (chain_si ch) = Some (Arr (mv_of_bools (scan_in_inversion (chain_mid ch)))) /\
    dget si (chain_so ch) = Some (Arr (mv_of_bools (scan_out_inversion (chain_mid ch)))).
Proof.
  revert sm0 si0. induction chs as [|c0 r IH]; intros sm0 si0 H OK I; simpl in *; [contradiction|].
  destruct OK as [N [O OK]].
  destruct (lookup_all pos (scan_cells_rev (chain_mid c0))) eqn:LA; try discriminate.
  destruct I as [->|I].
  - destruct (chain_maps_frame _ _ _ _ _ _ _ (chain_si ch) H) as [A1 A2].
    { intros ch' I'. destruct (O ch' I') as [? [? [? ?]]]. auto. }
    destruct (chain_maps_frame _ _ _ _ _ _ _ (chain_so ch) H) as [B1 B2].
    { intros ch' I'. destruct (O ch' I') as [? [? [? ?]]]. auto. }
    assert (N' : chain_so ch <> chain_si ch) by congruence.
    exists l. split; auto. rewrite A1, A2, B1, B2.
    rewrite !dget_dset_same. rewrite !(dget_dset_other _ (chain_so ch) (chain_si ch)) by exact N'.
    rewrite !dget_dset_same. auto.
  - eapply IH; eauto.
Qed.

Lemma si_ports_eq chains :
  NoDup (map chain_si (map snd chains)) -> si_ports chains = map chain_si (map snd chains).
Proof.
  intros H. unfold si_ports. rewrite dict_of_nodup; unfold dkeys; rewrite !map_map; simpl; auto.
  now rewrite map_map in H.
Qed.
Lemma so_ports_eq chains :
  NoDup (map chain_so (map snd chains)) -> so_ports chains = map chain_so (map snd chains).
Proof.
  intros H. unfold so_ports. rewrite dict_of_nodup; unfold dkeys; rewrite !map_map; simpl; auto.
  now rewrite map_map in H.
Qed.

(* ---------------------------------------------------------------------------------------------- *)
(** * well-formed scan descriptions and the position theorem, generic in the side (load / unload) *)

Lemma NoDup_app_r {A} (X Y : list A) : NoDup (X ++ Y) -> NoDup Y.
Proof. induction X; simpl; auto. intros H. inversion H. auto. Qed.
Lemma NoDup_app_l {A} (X Y : list A) : NoDup (X ++ Y) -> NoDup X.
Proof.
  induction X; simpl; intros H; [constructor|]. inversion H. subst. constructor; auto.
  intros I. apply H2. apply in_or_app. now left.
Qed.

Lemma NoDup_app_disjoint {A} (X Y : list A) a : NoDup (X ++ Y) -> In a X -> In a Y -> False.
Proof.
  induction X as [|x r IH]; simpl; intros ND IX IY; [contradiction|].
  inversion ND. subst. destruct IX as [->|IX].
  - apply H1. apply in_or_app. now right.
  - now apply IH.
Qed.

Lemma flat_map_nodup_in {A B} (f : A -> list B) l x : NoDup (flat_map f l) -> In x l -> NoDup (f x).
Proof.
  intros ND I. apply in_split in I. destruct I as [l1 [l2 ->]].
  rewrite flat_map_app in ND. simpl in ND. apply NoDup_app_r in ND. now apply NoDup_app_l in ND.
Qed.

Lemma flat_map_disjoint {A B} (f : A -> list B) l1 x l2 y a :
  NoDup (flat_map f (l1 ++ x :: l2)) -> In y l2 -> In a (f x) -> In a (f y) -> False.
Proof.
  intros ND Iy Ix Iay. rewrite flat_map_app in ND. simpl in ND. apply NoDup_app_r in ND.
  eapply NoDup_app_disjoint; eauto. apply in_flat_map. eauto.
Qed.

Lemma positions_nodup intf ns ps :
  NoDup (map sn_name intf) -> Forall2 (fun n p => dget (intf_pos intf) n = Some p) ns ps -> NoDup ns -> NoDup ps.
Proof.
  intros NDI F. induction F; intros ND; [constructor|]. inversion ND. subst. constructor; auto.
  intros I. destruct (Forall2_In_r _ _ _ _ F I) as [n' [In' E]].
  assert (n' = x) by (eapply pos_inj; eauto). subst. contradiction.
Qed.

Definition port_of (side : bool) (ch : list string) : string := if side then chain_si ch else chain_so ch.
Definition inv_of (side : bool) (mid : list string) : list bool :=
  if side then scan_in_inversion mid else scan_out_inversion mid.

Lemma mv_of_bools_nth l j : nth j (mv_of_bools l) 0 = if nth j l false then ONE else ZERO.
Proof.
  unfold mv_of_bools. change 0 with ((fun b : bool => if b then ONE else ZERO) false) at 1. now rewrite map_nth.
Qed.

Lemma maps_gen_inv groups chains c m :
  maps_gen true groups chains c = Some m ->
  m_intf m = interface c /\
  (exists gpi, dget groups "_pi"%string = Some gpi /\ lookup_all (intf_pos (interface c)) gpi = Some (m_pi m)) /\
  (exists gpo, dget groups "_po"%string = Some gpo /\ lookup_all (intf_pos (interface c)) gpo = Some (m_po m)) /\
  chain_maps true (intf_pos (interface c)) (map snd chains) [] [] = Some (m_scan m, m_inv m).
Proof.
  unfold maps_gen. destruct (dget groups "_pi") as [gpi|]; try discriminate.
  destruct (dget groups "_po") as [gpo|]; try discriminate.
  destruct (lookup_all _ gpi) eqn:E1; try discriminate. destruct (lookup_all _ gpo) eqn:E2; try discriminate.
  destruct (chain_maps _ _ _ _ _) as [[sm si]|] eqn:E3; try discriminate.
  intros H. inversion H. simpl. repeat split; eauto.
Qed.

Lemma scan_position_generic vec g (side : bool) groups chains c m strs col0 col key si pre cell post so S d :
  vec_pointwise vec g ->
  wf_scan chains c ->
  maps_gen true groups chains c = Some m ->
  In (key, si :: pre ++ cell :: post ++ [so]) chains ->
  is_marker cell = false ->
  dget strs (if side then si else so) = Some S ->
  List.length (mvarray S) = ncell (pre ++ cell :: post) ->
  List.length col0 = List.length (m_intf m) ->
  scan_loop vec m strs (map (port_of side) (map snd chains)) col0 = Some col ->
  exists q, dget (intf_pos (interface c)) cell = Some q /\ q < List.length col /\
    nth q col d = g (nth (ncell post) (mvarray S) 0)
                    (if (if side then Nat.odd (nmark pre) else Nat.odd (nmark post)) then ONE else ZERO).
Proof.
  intros PW [WN WP WC] MG IN CM HS LS L0 LOOP.
  destruct (maps_gen_inv _ _ _ _ MG) as [MI [_ [_ CMAPS]]].
  set (mid := pre ++ cell :: post) in *.
  assert (ECH : si :: pre ++ cell :: post ++ [so] = si :: mid ++ [so]).
  { unfold mid. rewrite <- app_assoc. reflexivity. }
  rewrite ECH in IN. set (ch := si :: mid ++ [so]) in *.
  destruct (chain_parts si mid so) as [PSI [PSO PMID]]. fold ch in PSI, PSO, PMID.
  set (chs := map snd chains) in *.
  assert (INC : In ch chs) by (apply (in_map snd) in IN; exact IN).
  pose proof (ports_nodup_ok _ WP) as POK.
  destruct (chain_maps_in _ _ _ _ _ _ ch CMAPS POK INC) as [smap [LA [SI [SO [II IO]]]]].
  rewrite PMID in LA, II, IO.
  pose proof (lookup_all_spec _ _ _ LA) as F2.
  destruct (Forall2_nth _ _ _ F2) as [FL FN]. rewrite scan_cells_rev_length in FL.
  assert (JLT : ncell post < ncell mid) by (unfold mid; rewrite ncell_mid by auto; lia).
  assert (NDS : NoDup smap).
  { eapply positions_nodup; eauto. rewrite scan_cells_rev_eq. apply NoDup_rev.
    pose proof (flat_map_nodup_in chain_cells chs ch WC INC) as X. unfold chain_cells in X. now rewrite PMID in X. }
  set (q := nth (ncell post) smap 0).
  assert (PQ : dget (intf_pos (interface c)) cell = Some q).
  { specialize (FN (ncell post) ""%string 0). rewrite scan_cells_rev_length in FN. specialize (FN JLT).
    unfold mid in FN. rewrite scan_cells_rev_at in FN by auto. exact FN. }
  apply in_split in INC. destruct INC as [c1 [c2 ECHS]].
  rewrite ECHS, map_app in LOOP. simpl in LOOP. rewrite scan_loop_app in LOOP.
  destruct (scan_loop vec m strs (map (port_of side) c1) col0) as [cA|] eqn:LA1; try discriminate.
  pose proof (scan_loop_length _ _ _ _ _ _ LA1) as LcA.
  pose proof (scan_loop_length _ _ _ _ _ _ LOOP) as Lcol.
  assert (QLT : q < List.length cA).
  { rewrite LcA, L0, MI. eapply pos_lt; eauto. }
  exists q. split; auto. split; [lia|].
  assert (HIT : nth q col d = g (nth (ncell post) (mvarray S) 0) (nth (ncell post) (mv_of_bools (inv_of side mid)) 0)).
  { unfold q. eapply (scan_loop_hit vec m strs g (port_of side ch) (map (port_of side) c2) cA col S
                        (mv_of_bools (inv_of side mid)) smap (ncell post) d PW LOOP).
    - unfold port_of. destruct side; [rewrite PSI|rewrite PSO]; exact HS.
    - unfold port_of, inv_of. destruct side; auto.
    - unfold port_of. destruct side; auto.
    - unfold mv_of_bools, inv_of. rewrite map_length.
      destruct side; [rewrite scan_in_inversion_length|rewrite scan_out_inversion_length]; exact LS.
    - unfold mv_of_bools, inv_of. rewrite map_length.
      destruct side; [rewrite scan_in_inversion_length|rewrite scan_out_inversion_length]; lia.
    - exact NDS.
    - lia.
    - exact QLT.
    - intros port' smap' IP DG IQ. apply in_map_iff in IP. destruct IP as [ch' [EP IC2]].
      assert (INC' : In ch' chs) by (rewrite ECHS; apply in_or_app; right; right; exact IC2).
      destruct (chain_maps_in _ _ _ _ _ _ ch' CMAPS POK INC') as [smap2 [LA2 [SI2 [SO2 _]]]].
      assert (smap' = smap2).
      { subst port'. unfold port_of in DG. destruct side; congruence. }
      subst smap2. pose proof (lookup_all_spec _ _ _ LA2) as F3.
      destruct (Forall2_In_r _ _ _ _ F3 IQ) as [n' [In' E']].
      assert (n' = cell) by (eapply pos_inj; eauto). subst n'.
      rewrite scan_cells_rev_eq in In'. apply in_rev in In'.
      eapply (flat_map_disjoint chain_cells c1 ch c2 ch' cell); eauto.
      + rewrite <- ECHS. exact WC.
      + unfold chain_cells. rewrite PMID. unfold mid. rewrite cells_app, cells_cons_cell by auto.
        apply in_or_app. right. now left. }
  rewrite HIT, mv_of_bools_nth. unfold inv_of, mid.
  destruct side; [rewrite scan_in_inversion_at|rewrite scan_out_inversion_at]; auto.
Qed.

(* ---------------------------------------------------------------------------------------------- *)
(** * strings and codes *)
Lemma mvarray_length s : List.length (mvarray s) = String.length s.
Proof. unfold mvarray. rewrite map_length. induction s; simpl; auto. Qed.

Lemma mvarray_get s j ch d : String.get j s = Some ch -> nth j (mvarray s) d = interpret ch.
Proof.
  unfold mvarray. revert j. induction s as [|a r IH]; intros j H; simpl in *; try discriminate.
  destruct j; [now inversion H|]. now apply IH.
Qed.

Lemma interpret_lt8 ch : interpret ch < 8.
Proof.
  unfold interpret. repeat match goal with |- context [if ?b then _ else _] => destruct b end;
  unfold ZERO, ONE, UNASSIGNED, RISE, FALL, PPULSE, NPULSE, UNKNOWN; lia.
Qed.


Lemma load_vec_value v (inv : bool) :
  Nat.lxor v (if is_unk v then ZERO else (if inv then ONE else ZERO)) = load_value v inv.
Proof.
  unfold load_value. destruct (is_unk v); [apply Nat.lxor_0_r|]. destruct inv; auto. apply Nat.lxor_0_r.
Qed.

Lemma mv_xor1_value v (inv : bool) : v < 8 -> mv_xor1 v (if inv then ONE else ZERO) = unload_value v inv.
Proof.
  intros H. do 8 (destruct v as [|v]; [destruct inv; reflexivity|]). lia.
Qed.

Lemma map_opt_nth {A B} (f : A -> option B) l r i x :
  map_opt f l = Some r -> nth_error l i = Some x -> exists y, f x = Some y /\ nth_error r i = Some y.
Proof.
  revert r i. induction l as [|a l IH]; intros r i H N; simpl in *.
  - destruct i; discriminate.
  - destruct (f a) eqn:E; try discriminate. destruct (map_opt f l) eqn:E2; try discriminate.
    inversion H. subst. destruct i; simpl in *.
    + inversion N. subst. eauto.
    + eapply IH; eauto.
Qed.

Lemma blank_length m : List.length (blank m) = List.length (m_intf m).
Proof. unfold blank. apply repeat_length. Qed.

(** every entry of a scan map is the position of a scan cell *)
Lemma scan_map_cells groups chains c m (side : bool) port smap q :
  wf_scan chains c -> maps_gen true groups chains c = Some m ->
  In port (map (port_of side) (map snd chains)) -> dget (m_scan m) port = Some smap -> In q smap ->
  exists n, In n (all_cells (map snd chains)) /\ dget (intf_pos (interface c)) n = Some q.
Proof.
  intros [WN WP WC] MG IP DG IQ. destruct (maps_gen_inv _ _ _ _ MG) as [_ [_ [_ CMAPS]]].
  apply in_map_iff in IP. destruct IP as [ch [EP IC]].
  destruct (chain_maps_in _ _ _ _ _ _ ch CMAPS (ports_nodup_ok _ WP) IC) as [smap2 [LA [SI [SO _]]]].
  assert (smap = smap2) by (subst port; unfold port_of in DG; destruct side; congruence). subst smap2.
  destruct (Forall2_In_r _ _ _ _ (lookup_all_spec _ _ _ LA) IQ) as [n [In' E]].
  exists n. split; auto. unfold all_cells. apply in_flat_map. exists ch. split; auto.
  unfold chain_cells. rewrite scan_cells_rev_eq in In'. now apply in_rev in In'.
Qed.

Lemma group_positions intf g ps q :
  Forall2 (fun n p => dget (intf_pos intf) n = Some p) g ps -> In q ps ->
  exists n, In n g /\ dget (intf_pos intf) n = Some q.
Proof. intros F I. destruct (Forall2_In_r _ _ _ _ F I) as [n [? ?]]. eauto. Qed.

Lemma wf_si chains c : wf_scan chains c -> si_ports chains = map (port_of true) (map snd chains).
Proof. intros [_ WP _]. apply si_ports_eq. eapply NoDup_app_l; eauto. Qed.
Lemma wf_so chains c : wf_scan chains c -> so_ports chains = map (port_of false) (map snd chains).
Proof. intros [_ WP _]. apply so_ports_eq. eapply NoDup_app_r; eauto. Qed.

(* ---------------------------------------------------------------------------------------------- *)
(** * tests(): scan-load characters *)
Theorem scan_load_position groups chains c m p col key si pre cell post so L ch :
  wf_scan chains c ->
  maps_gen true groups chains c = Some m ->
  In (key, si :: pre ++ cell :: post ++ [so]) chains ->
  is_marker cell = false ->
  (forall gpi, dget groups "_pi"%string = Some gpi -> ~ In cell gpi) ->
  dget (p_load p) si = Some L ->
  String.length L = ncell (pre ++ cell :: post) ->
  String.get (ncell post) L = Some ch ->
  tests_col m (si_ports chains) p = Some col ->
  exists q, dget (intf_pos (interface c)) cell = Some q /\ q < List.length col /\
            nth q col UNASSIGNED = load_value (interpret ch) (Nat.odd (nmark pre)).
Proof.
  intros WF MG IN CM NPI HL LL GET T.
  unfold tests_col in T. destruct (load_chains m p (si_ports chains) (blank m)) as [colL|] eqn:LC; try discriminate.
  destruct (dget (p_capture p) "_pi") as [s|]; try discriminate.
  unfold load_chains in LC. rewrite (wf_si _ _ WF) in LC.
  destruct (scan_position_generic load_vec _ true groups chains c m (p_load p) (blank m) colL key si pre cell post so L
              UNASSIGNED load_vec_pointwise WF MG IN CM HL) as [q [PQ [QL V]]]; auto.
  { now rewrite mvarray_length. } { apply blank_length. }
  exists q. split; auto. rewrite (assign_length _ _ _ _ T). split; auto.
  rewrite (assign_frame _ _ _ _ q UNASSIGNED T).
  - rewrite V, load_vec_value. now rewrite (mvarray_get _ _ _ _ GET).
  - intros I. destruct (maps_gen_inv _ _ _ _ MG) as [_ [[gpi [G LA]] _]].
    destruct (group_positions _ _ _ _ (lookup_all_spec _ _ _ LA) I) as [n [In' E]].
    destruct WF as [WN _ _]. assert (n = cell) by (eapply pos_inj; eauto). subst n. eapply NPI; eauto.
Qed.

(** * responses(): scan-unload characters *)
Theorem scan_unload_position groups chains c m p col key si pre cell post so U ch :
  wf_scan chains c ->
  maps_gen true groups chains c = Some m ->
  In (key, si :: pre ++ cell :: post ++ [so]) chains ->
  is_marker cell = false ->
  dget (p_unload p) so = Some U ->
  String.length U = ncell (pre ++ cell :: post) ->
  String.get (ncell post) U = Some ch ->
  responses_col m (so_ports chains) p = Some col ->
  exists q, dget (intf_pos (interface c)) cell = Some q /\ q < List.length col /\
            nth q col UNASSIGNED = unload_value (interpret ch) (Nat.odd (nmark post)).
Proof.
  intros WF MG IN CM HU LL GET R.
  unfold responses_col in R. destruct (dget _ "_po") as [s|]; try discriminate.
  destruct (assign (blank m) (m_po m) (mvarray s)) as [col0|] eqn:A; try discriminate.
  unfold xor_chains in R. rewrite (wf_so _ _ WF) in R.
  destruct (scan_position_generic mv_xor_arr _ false groups chains c m (p_unload p) col0 col key si pre cell post so U
              UNASSIGNED mv_xor_pointwise WF MG IN CM HU) as [q [PQ [QL V]]]; auto.
  { now rewrite mvarray_length. } { rewrite (assign_length _ _ _ _ A). apply blank_length. }
  exists q. split; auto. split; auto.
  rewrite V, (mvarray_get _ _ _ _ GET). apply mv_xor1_value. apply interpret_lt8.
Qed.

(* ---------------------------------------------------------------------------------------------- *)
(** * primary inputs / outputs through the signal groups *)
Theorem pi_group_position groups chains c m p col gpi s j name ch :
  NoDup (map sn_name (interface c)) ->
  maps_gen true groups chains c = Some m ->
  dget groups "_pi"%string = Some gpi -> NoDup gpi ->
  dget (p_capture p) "_pi"%string = Some s -> String.length s = List.length gpi ->
  nth_error gpi j = Some name -> String.get j s = Some ch ->
  tests_col m (si_ports chains) p = Some col ->
  exists q, dget (intf_pos (interface c)) name = Some q /\ q < List.length col /\
            nth q col UNASSIGNED = interpret ch.
Proof.
  intros WN MG G ND CP LS NJ GET T.
  unfold tests_col in T. destruct (load_chains m p (si_ports chains) (blank m)) as [colL|] eqn:LC; try discriminate.
  rewrite CP in T. destruct (maps_gen_inv _ _ _ _ MG) as [MI [[gpi' [G' LA]] _]].
  assert (gpi' = gpi) by congruence. subst gpi'.
  pose proof (lookup_all_spec _ _ _ LA) as F. destruct (Forall2_nth _ _ _ F) as [FL FN].
  assert (JL : j < List.length gpi) by (apply nth_error_Some; congruence).
  specialize (FN j ""%string 0 JL). rewrite (nth_error_nth _ _ _ NJ) in FN.
  assert (NDP : NoDup (m_pi m)) by (eapply positions_nodup; eauto).
  unfold load_chains in LC. pose proof (scan_loop_length _ _ _ _ _ _ LC) as LcL. rewrite blank_length, MI in LcL.
  assert (QL : nth j (m_pi m) 0 < List.length colL) by (rewrite LcL; eapply pos_lt; eauto).
  exists (nth j (m_pi m) 0). split; auto. rewrite (assign_length _ _ _ _ T). split; auto.
  rewrite (assign_hit _ _ _ _ j UNASSIGNED T); auto.
  - eapply mvarray_get; eauto.
  - rewrite mvarray_length. lia.
  - lia.
Qed.

Theorem po_group_position groups chains c m p col gpo s j name ch :
  wf_scan chains c ->
  maps_gen true groups chains c = Some m ->
  dget groups "_po"%string = Some gpo -> NoDup gpo ->
  ~ In name (all_cells (map snd chains)) ->
  p_capture p <> [] ->
  dget (p_capture p) "_po"%string = Some s -> String.length s = List.length gpo ->
  nth_error gpo j = Some name -> String.get j s = Some ch ->
  responses_col m (so_ports chains) p = Some col ->
  exists q, dget (intf_pos (interface c)) name = Some q /\ q < List.length col /\
            nth q col UNASSIGNED = interpret ch.
Proof.
  intros WF MG G ND NC CNE CP LS NJ GET R.
  unfold responses_col in R.
  assert (E : (0 <? List.length (p_capture p)) = true).
  { destruct (p_capture p); [contradiction|reflexivity]. }
  rewrite E, CP in R.
  destruct (assign (blank m) (m_po m) (mvarray s)) as [col0|] eqn:A; try discriminate.
  destruct (maps_gen_inv _ _ _ _ MG) as [MI [_ [[gpo' [G' LA]] _]]].
  assert (gpo' = gpo) by congruence. subst gpo'.
  pose proof WF as [WN _ _].
  pose proof (lookup_all_spec _ _ _ LA) as F. destruct (Forall2_nth _ _ _ F) as [FL FN].
  assert (JL : j < List.length gpo) by (apply nth_error_Some; congruence).
  specialize (FN j ""%string 0 JL). rewrite (nth_error_nth _ _ _ NJ) in FN.
  assert (NDP : NoDup (m_po m)) by (eapply positions_nodup; eauto).
  assert (QL : nth j (m_po m) 0 < List.length (blank m)) by (rewrite blank_length, MI; eapply pos_lt; eauto).
  unfold xor_chains in R. rewrite (wf_so _ _ WF) in R.
  exists (nth j (m_po m) 0). split; auto. rewrite (scan_loop_length _ _ _ _ _ _ R), (assign_length _ _ _ _ A).
  split; auto.
  rewrite (scan_loop_frame _ _ _ _ _ _ _ UNASSIGNED R).
  - rewrite (assign_hit _ _ _ _ j UNASSIGNED A); auto.
    + eapply mvarray_get; eauto.
    + rewrite mvarray_length. lia.
    + lia.
  - intros port smap IP DG IQ.
    destruct (scan_map_cells _ _ _ _ false _ _ _ WF MG IP DG IQ) as [n [IC E']].
    assert (n = name) by (eapply pos_inj; eauto). subst n. contradiction.
Qed.

(* ---------------------------------------------------------------------------------------------- *)
(** * tests_loc(): initialisation, launch state, transition *)

Lemma tests_loc_cols m sis ps sims :
  tests_loc m sis ps sims =
  if negb (List.length sims =? List.length ps) then None
  else map_opt (fun x => tests_loc_col m sis (fst x) (snd x)) (combine ps sims).
Proof.
  unfold tests_loc, loc_launch, loc_init.
  destruct (List.length sims =? List.length ps) eqn:E; simpl.
  - apply Nat.eqb_eq in E. revert sims E. induction ps as [|p ps IH]; intros [|s sims] E; simpl in *; try discriminate; auto.
    unfold tests_loc_col at 1. assert (IH' := IH sims ltac:(lia)).
    destruct (loc_init_col m sis p); destruct (loc_launch_col m sis p s); simpl;
      try rewrite <- IH';
      destruct (map_opt (loc_init_col m sis) ps);
      destruct (map_opt (fun ps0 => loc_launch_col m sis (fst ps0) (snd ps0)) (combine ps sims)); reflexivity.
  - destruct (map_opt (loc_init_col m sis) ps); reflexivity.
Qed.

(** scan-load characters in the init column (same loop as tests(), the primary inputs come from the launch call) *)
Lemma load_pi_position groups chains c m p colL col s key si pre cell post so L ch :
  wf_scan chains c ->
  maps_gen true groups chains c = Some m ->
  In (key, si :: pre ++ cell :: post ++ [so]) chains ->
  is_marker cell = false ->
  (forall gpi, dget groups "_pi"%string = Some gpi -> ~ In cell gpi) ->
  dget (p_load p) si = Some L ->
  String.length L = ncell (pre ++ cell :: post) ->
  String.get (ncell post) L = Some ch ->
  load_chains m p (si_ports chains) (blank m) = Some colL ->
  assign colL (m_pi m) (mvarray s) = Some col ->
  exists q, dget (intf_pos (interface c)) cell = Some q /\ q < List.length col /\
            nth q col UNASSIGNED = load_value (interpret ch) (Nat.odd (nmark pre)).
Proof.
  intros WF MG IN CM NPI HL LL GET LC T.
  unfold load_chains in LC. rewrite (wf_si _ _ WF) in LC.
  destruct (scan_position_generic load_vec _ true groups chains c m (p_load p) (blank m) colL key si pre cell post so L
              UNASSIGNED load_vec_pointwise WF MG IN CM HL) as [q [PQ [QL V]]]; auto.
  { now rewrite mvarray_length. } { apply blank_length. }
  exists q. split; auto. rewrite (assign_length _ _ _ _ T). split; auto.
  rewrite (assign_frame _ _ _ _ q UNASSIGNED T).
  - rewrite V, load_vec_value. now rewrite (mvarray_get _ _ _ _ GET).
  - intros I. destruct (maps_gen_inv _ _ _ _ MG) as [_ [[gpi [G LA]] _]].
    destruct (group_positions _ _ _ _ (lookup_all_spec _ _ _ LA) I) as [n [In' E]].
    destruct WF as [WN _ _]. assert (n = cell) by (eapply pos_inj; eauto). subst n. eapply NPI; eauto.
Qed.

Theorem loc_transition_position groups chains c m p sim col nc key si pre cell post so L ch :
  wf_scan chains c ->
  maps_gen true groups chains c = Some m ->
  In (key, si :: pre ++ cell :: post ++ [so]) chains ->
  is_marker cell = false ->
  (forall gpi, dget groups "_pi"%string = Some gpi -> ~ In cell gpi) ->
  (forall gpo, dget groups "_po"%string = Some gpo -> ~ In cell gpo) ->
  dget (p_load p) si = Some L ->
  String.length L = ncell (pre ++ cell :: post) ->
  String.get (ncell post) L = Some ch ->
  no_launch_clock p = Some nc ->
  tests_loc_col m (si_ports chains) p sim = Some col ->
  exists q, dget (intf_pos (interface c)) cell = Some q /\ q < List.length col /\
    nth q col UNASSIGNED =
      mv_transition1 (load_value (interpret ch) (Nat.odd (nmark pre)))
                     (if nc then unload_value (interpret ch) (Nat.odd (nmark pre)) else nth q sim UNASSIGNED).
Proof.
  intros WF MG IN CM NPI NPO HL LL GET NC T.
  unfold tests_loc_col in T.
  destruct (loc_init_col m (si_ports chains) p) as [icol|] eqn:IC; try discriminate.
  destruct (loc_launch_col m (si_ports chains) p sim) as [lcol|] eqn:LCOL; try discriminate.
  inversion T as [T']. clear T.
  (* init column *)
  unfold loc_init_col in IC.
  destruct (load_chains m p (si_ports chains) (blank m)) as [colL|] eqn:LC; try discriminate.
  destruct (if dhas (p_launch p) "_pi" then dget (p_launch p) "_pi" else dget (p_capture p) "_pi") as [s|]; try discriminate.
  destruct (load_pi_position groups chains c m p colL icol s key si pre cell post so L ch WF MG IN CM NPI HL LL GET LC IC)
    as [q [PQ [QL VI]]].
  pose proof (assign_length _ _ _ _ IC) as LI. unfold load_chains in LC.
  pose proof (scan_loop_length _ _ _ _ _ _ LC) as LL2. rewrite blank_length in LL2.
  destruct (maps_gen_inv _ _ _ _ MG) as [MI [[gpi [G LA]] [[gpo [GO LAO]] _]]].
  pose proof WF as [WN _ _].
  assert (QPI : ~ In q (m_pi m)).
  { intros I. destruct (group_positions _ _ _ _ (lookup_all_spec _ _ _ LA) I) as [n [In' E]].
    assert (n = cell) by (eapply pos_inj; eauto). subst n. eapply NPI; eauto. }
  assert (QPO : ~ In q (m_po m)).
  { intros I. destruct (group_positions _ _ _ _ (lookup_all_spec _ _ _ LAO) I) as [n [In' E]].
    assert (n = cell) by (eapply pos_inj; eauto). subst n. eapply NPO; eauto. }
  (* launch column *)
  unfold loc_launch_col in LCOL.
  destruct (List.length sim =? List.length (m_intf m)) eqn:LS; simpl in LCOL; try discriminate.
  apply Nat.eqb_eq in LS. rewrite NC in LCOL.
  destruct (if nc then xor_chains m (p_load p) (si_ports chains) sim else Some sim) as [l1|] eqn:L1; try discriminate.
  assert (V1 : List.length l1 = List.length sim /\
               nth q l1 UNASSIGNED = if nc then unload_value (interpret ch) (Nat.odd (nmark pre)) else nth q sim UNASSIGNED).
  { destruct nc.
    - unfold xor_chains in L1. rewrite (wf_si _ _ WF) in L1.
      destruct (scan_position_generic mv_xor_arr _ true groups chains c m (p_load p) sim l1 key si pre cell post so L
                  UNASSIGNED mv_xor_pointwise WF MG IN CM HL) as [q' [PQ' [QL' V]]]; auto.
      { now rewrite mvarray_length. }
      assert (q' = q) by congruence. subst q'. split; [eapply scan_loop_length; eauto|].
      rewrite V, (mvarray_get _ _ _ _ GET). apply mv_xor1_value. apply interpret_lt8.
    - inversion L1. auto. }
  destruct V1 as [LL1 V1].
  set (l2o := match dget (p_capture p) "_pi" with
              | Some s0 => if has_P s0 then assign l1 (m_pi m) (mvarray s0) else Some l1
              | None => Some l1 end) in *.
  destruct l2o as [l2|] eqn:L2; try discriminate. inversion LCOL as [LCOL']. clear LCOL.
  assert (V2 : List.length l2 = List.length l1 /\ nth q l2 UNASSIGNED = nth q l1 UNASSIGNED).
  { unfold l2o in L2. destruct (dget (p_capture p) "_pi") as [s0|].
    - destruct (has_P s0).
      + split; [eapply assign_length; eauto|eapply assign_frame; eauto].
      + inversion L2. auto.
    - inversion L2. auto. }
  destruct V2 as [LL3 V2].
  exists q. split; auto. subst lcol.
  set (lc := assign_scalar l2 (m_po m) UNASSIGNED) in *.
  assert (LEN : List.length icol = List.length lc).
  { unfold lc. rewrite assign_scalar_length. lia. }
  assert (QI : q < List.length icol) by exact QL.
  rewrite map_length, combine_length, <- LEN, Nat.min_id. split; auto.
  rewrite (nth_indep _ UNASSIGNED (mv_transition1 UNASSIGNED UNASSIGNED))
    by (rewrite map_length, combine_length, <- LEN, Nat.min_id; auto).
  change (mv_transition1 UNASSIGNED UNASSIGNED) with
      ((fun ab : nat * nat => mv_transition1 (fst ab) (snd ab)) (UNASSIGNED, UNASSIGNED)).
  rewrite map_nth, combine_nth by auto. simpl.
  rewrite VI. f_equal. unfold lc. rewrite assign_scalar_frame by auto. now rewrite V2, V1.
Qed.

(** primary inputs in tests_loc: initial value from the launch call (or the capture call if there is none), final
    value from the capture call if it pulses a clock, otherwise whatever the simulation left at that position *)
Theorem loc_pi_transition_position groups chains c m p sim col gpi j name s_init chi :
  wf_scan chains c ->
  maps_gen true groups chains c = Some m ->
  dget groups "_pi"%string = Some gpi -> NoDup gpi -> nth_error gpi j = Some name ->
  ~ In name (all_cells (map snd chains)) ->
  (forall gpo, dget groups "_po"%string = Some gpo -> ~ In name gpo) ->
  (if dhas (p_launch p) "_pi" then dget (p_launch p) "_pi"%string else dget (p_capture p) "_pi"%string) = Some s_init ->
  String.length s_init = List.length gpi -> String.get j s_init = Some chi ->
  (forall sc, dget (p_capture p) "_pi"%string = Some sc -> String.length sc = List.length gpi) ->
  tests_loc_col m (si_ports chains) p sim = Some col ->
  exists q, dget (intf_pos (interface c)) name = Some q /\ q < List.length col /\
    nth q col UNASSIGNED =
      mv_transition1 (interpret chi)
        (match dget (p_capture p) "_pi"%string with
         | Some sc => if has_P sc then nth j (mvarray sc) 0 else nth q sim UNASSIGNED
         | None => nth q sim UNASSIGNED
         end).
Proof.
  intros WF MG G ND NJ NC NPO SI LSI GET LCAP T.
  unfold tests_loc_col in T.
  destruct (loc_init_col m (si_ports chains) p) as [icol|] eqn:IC; try discriminate.
  destruct (loc_launch_col m (si_ports chains) p sim) as [lcol|] eqn:LCOL; try discriminate.
  inversion T as [T']. clear T.
  destruct (maps_gen_inv _ _ _ _ MG) as [MI [[gpi' [G' LA]] [[gpo [GO LAO]] _]]].
  assert (gpi' = gpi) by congruence. subst gpi'.
  pose proof WF as [WN _ _].
  pose proof (lookup_all_spec _ _ _ LA) as F. destruct (Forall2_nth _ _ _ F) as [FL FN].
  assert (JL : j < List.length gpi) by (apply nth_error_Some; congruence).
  specialize (FN j ""%string 0 JL). rewrite (nth_error_nth _ _ _ NJ) in FN.
  assert (NDP : NoDup (m_pi m)) by (eapply positions_nodup; eauto).
  set (q := nth j (m_pi m) 0) in *.
  assert (QLT : q < List.length (m_intf m)) by (rewrite MI; eapply pos_lt; eauto).
  assert (QPO : ~ In q (m_po m)).
  { intros I. destruct (group_positions _ _ _ _ (lookup_all_spec _ _ _ LAO) I) as [n [In' E]].
    assert (n = name) by (eapply pos_inj; eauto). subst n. eapply NPO; eauto. }
  assert (QSC : forall port smap, In port (map (port_of true) (map snd chains)) -> dget (m_scan m) port = Some smap -> ~ In q smap).
  { intros port smap IP DG IQ. destruct (scan_map_cells _ _ _ _ true _ _ _ WF MG IP DG IQ) as [n [ICn E']].
    assert (n = name) by (eapply pos_inj; eauto). subst n. contradiction. }
  (* init column *)
  unfold loc_init_col in IC.
  destruct (load_chains m p (si_ports chains) (blank m)) as [colL|] eqn:LC; try discriminate.
  rewrite SI in IC. unfold load_chains in LC.
  pose proof (scan_loop_length _ _ _ _ _ _ LC) as LL2. rewrite blank_length in LL2.
  assert (VI : nth q icol UNASSIGNED = interpret chi).
  { unfold q. rewrite (assign_hit _ _ _ _ j UNASSIGNED IC); auto.
    - eapply mvarray_get; eauto.
    - rewrite mvarray_length. lia.
    - lia.
    - fold q. lia. }
  pose proof (assign_length _ _ _ _ IC) as LI.
  (* launch column *)
  unfold loc_launch_col in LCOL.
  destruct (List.length sim =? List.length (m_intf m)) eqn:LS; simpl in LCOL; try discriminate.
  apply Nat.eqb_eq in LS.
  destruct (no_launch_clock p) as [nc|]; try discriminate.
  destruct (if nc then xor_chains m (p_load p) (si_ports chains) sim else Some sim) as [l1|] eqn:L1; try discriminate.
  assert (V1 : List.length l1 = List.length sim /\ nth q l1 UNASSIGNED = nth q sim UNASSIGNED).
  { destruct nc.
    - unfold xor_chains in L1. rewrite (wf_si _ _ WF) in L1. split; [eapply scan_loop_length; eauto|].
      eapply scan_loop_frame; eauto.
    - inversion L1. auto. }
  destruct V1 as [LL1 V1].
  set (l2o := match dget (p_capture p) "_pi" with
              | Some s0 => if has_P s0 then assign l1 (m_pi m) (mvarray s0) else Some l1
              | None => Some l1 end) in *.
  destruct l2o as [l2|] eqn:L2; try discriminate. inversion LCOL as [LCOL']. clear LCOL.
  assert (V2 : List.length l2 = List.length l1 /\
               nth q l2 UNASSIGNED = match dget (p_capture p) "_pi"%string with
                                     | Some sc => if has_P sc then nth j (mvarray sc) 0 else nth q sim UNASSIGNED
                                     | None => nth q sim UNASSIGNED end).
  { unfold l2o in L2. destruct (dget (p_capture p) "_pi") as [s0|] eqn:CP.
    - destruct (has_P s0).
      + split; [eapply assign_length; eauto|]. unfold q. apply (assign_hit _ _ _ _ j UNASSIGNED L2); auto.
        * rewrite mvarray_length, (LCAP s0 eq_refl). lia.
        * lia.
        * fold q. lia.
      + inversion L2. subst. auto.
    - inversion L2. subst. auto. }
  destruct V2 as [LL3 V2].
  exists q. split; auto. subst lcol.
  set (lc := assign_scalar l2 (m_po m) UNASSIGNED) in *.
  assert (LEN : List.length icol = List.length lc).
  { unfold lc. rewrite assign_scalar_length. lia. }
  assert (QI : q < List.length icol) by lia.
  rewrite map_length, combine_length, <- LEN, Nat.min_id. split; auto.
  rewrite (nth_indep _ UNASSIGNED (mv_transition1 UNASSIGNED UNASSIGNED))
    by (rewrite map_length, combine_length, <- LEN, Nat.min_id; auto).
  change (mv_transition1 UNASSIGNED UNASSIGNED) with
      ((fun ab : nat * nat => mv_transition1 (fst ab) (snd ab)) (UNASSIGNED, UNASSIGNED)).
  rewrite map_nth, combine_nth by auto. simpl.
  rewrite VI. f_equal. unfold lc. rewrite assign_scalar_frame by auto. exact V2.
Qed.

(** the per-pattern statements lift to the pattern sets (one column per pattern, in pattern order) *)
Lemma tests_column m sis ps t i p :
  tests m sis ps = Some t -> nth_error ps i = Some p ->
  exists col, tests_col m sis p = Some col /\ nth_error t i = Some col.
Proof. apply map_opt_nth. Qed.
Lemma responses_column m sos ps t i p :
  responses m sos ps = Some t -> nth_error ps i = Some p ->
  exists col, responses_col m sos p = Some col /\ nth_error t i = Some col.
Proof. apply map_opt_nth. Qed.
Lemma tests_loc_column m sis ps sims t i p sim :
  tests_loc m sis ps sims = Some t -> nth_error ps i = Some p -> nth_error sims i = Some sim ->
  exists col, tests_loc_col m sis p sim = Some col /\ nth_error t i = Some col.
Proof.
  rewrite tests_loc_cols. destruct (negb _) eqn:E; try discriminate. intros H NP NS.
  assert (NC : nth_error (combine ps sims) i = Some (p, sim)).
  { clear H E. revert i sims NP NS. induction ps as [|a r IH]; intros [|i] [|s sims] NP NS; simpl in *; try discriminate.
    - now inversion NP; inversion NS.
    - now apply IH. }
  destruct (map_opt_nth _ _ _ _ _ H NC) as [y [Y1 Y2]]. eauto.
Qed.

(* ---------------------------------------------------------------------------------------------- *)
(** * mv_transition: the documented table, all 64 operand pairs *)
Theorem mv_transition_spec i f :
  mv_transition1 (nat_of_code i) (nat_of_code f) = nat_of_code (spec_transition i f).
Proof. destruct i, f; reflexivity. Qed.

(** the cases a launch-on-capture test produces: constant 0/1, rise, fall, unknown, unassigned *)
Corollary mv_transition_cases :
  mv_transition1 ZERO ZERO = ZERO /\ mv_transition1 ONE ONE = ONE /\
  mv_transition1 ZERO ONE = RISE /\ mv_transition1 ONE ZERO = FALL /\
  mv_transition1 UNASSIGNED UNASSIGNED = UNASSIGNED /\
  (forall v, v < 8 -> mv_transition1 UNKNOWN v = UNKNOWN /\ mv_transition1 v UNKNOWN = UNKNOWN) /\
  (forall v, v < 8 -> v <> UNASSIGNED -> mv_transition1 UNASSIGNED v = UNKNOWN /\ mv_transition1 v UNASSIGNED = UNKNOWN).
Proof.
  repeat split; try reflexivity;
    do 8 (destruct v as [|v]; [try reflexivity; try (unfold UNASSIGNED in *; congruence)|]); lia.
Qed.

(* ---------------------------------------------------------------------------------------------- *)
(** * interface order = Circuit.s_nodes (the ordering LogicSim / WaveSim use, Model/Netlist.s_nodes) *)
Lemma find_idx_filter (f : snode -> bool) (g : snode -> node) (f' : node -> bool) pre l :
  (forall n, f' (g n) = f n) ->
  map (fun i => nth i (pre ++ l) dsnode) (find_idx f' (map g l) (List.length pre)) = filter f l.
Proof.
  intros FG. revert pre. induction l as [|a r IH]; intros pre; simpl; auto.
  rewrite FG. specialize (IH (pre ++ [a])). rewrite app_length in IH. simpl in IH.
  rewrite Nat.add_1_r, <- app_assoc in IH. simpl in IH.
  destruct (f a); simpl; rewrite IH; auto. f_equal. now rewrite nth_middle.
Qed.

Theorem interface_is_s_nodes c :
  interface c = map (fun i => nth i (sc_nodes c) dsnode) (s_nodes (netlist_of c)).
Proof.
  unfold interface, s_nodes, netlist_of, io_nodes. simpl. rewrite !map_app. f_equal. f_equal.
  - symmetry. apply (find_idx_filter _ _ is_dff []). reflexivity.
  - symmetry. apply (find_idx_filter _ _ is_latch []). reflexivity.
Qed.

(* ---------------------------------------------------------------------------------------------- *)
(** * Examples: the hypotheses are satisfiable on a design with a marker in the middle of the chain, lower-case
      kinds and a latch; and the pinned-tree code ([maps_gen false]) violates the statement *)
Ltac nodup_strings := repeat (constructor; [simpl; intuition discriminate|]); try constructor.

Example ex_wf : wf_scan ex_chains ex_circuit.
Proof. constructor; vm_compute; nodup_strings. Qed.
Example ex_wf0 : wf_scan ex_chains ex_circuit0.
Proof. constructor; vm_compute; nodup_strings. Qed.

Definition ex_maps : maps :=
  match maps_gen true ex_groups ex_chains ex_circuit with Some m => m | None => {| m_intf := []; m_pi := []; m_po := []; m_scan := []; m_inv := [] |} end.
Example ex_maps_ok : maps_gen true ex_groups ex_chains ex_circuit = Some ex_maps.
Proof. reflexivity. Qed.

(** interface order: ports si a so z, then flip-flops in node order f1 f0 f2, then the latch *)
Example ex_interface : map sn_name (interface ex_circuit) = ["si"; "a"; "so"; "z"; "f1"; "f0"; "f2"; "la"]%string.
Proof. reflexivity. Qed.

(** load "001" on si -> f0 -> ! -> f1 -> f2 -> so:  f2 <- not '0', f1 <- not '0', f0 <- '1' *)
Example ex_tests : tests_col ex_maps (si_ports ex_chains) ex_pattern = Some [PPULSE; ZERO; UNASSIGNED; UNASSIGNED; ONE; ONE; ONE; UNASSIGNED].
Proof. reflexivity. Qed.

(** scan_load_position instantiated for cell f0 (pre = [], post = [!; f1; f2]) and f1 (pre = [f0; !]) *)
Example ex_load_f0 :
  exists q, dget (intf_pos (interface ex_circuit)) "f0"%string = Some q /\ q < 8 /\
            nth q [PPULSE; ZERO; UNASSIGNED; UNASSIGNED; ONE; ONE; ONE; UNASSIGNED] UNASSIGNED = ONE.
Proof.
  exact (scan_load_position ex_groups ex_chains ex_circuit ex_maps ex_pattern _ "1"%string "si"%string [] "f0"%string
           ["!"; "f1"; "f2"]%string "so"%string "001"%string "1"%char ex_wf ex_maps_ok
           (or_introl eq_refl) eq_refl
           (fun gpi H => match H in _ = o return (match o with Some g => ~ In "f0"%string g | None => True end) with
                         | eq_refl => ltac:(vm_compute; intuition discriminate) end)
           eq_refl eq_refl eq_refl ex_tests).
Qed.
Example ex_load_f1 :
  exists q, dget (intf_pos (interface ex_circuit)) "f1"%string = Some q /\ q < 8 /\
            nth q [PPULSE; ZERO; UNASSIGNED; UNASSIGNED; ONE; ONE; ONE; UNASSIGNED] UNASSIGNED = ONE.
Proof.
  exact (scan_load_position ex_groups ex_chains ex_circuit ex_maps ex_pattern _ "1"%string "si"%string ["f0"; "!"]%string "f1"%string
           ["f2"]%string "so"%string "001"%string "0"%char ex_wf ex_maps_ok
           (or_introl eq_refl) eq_refl
           (fun gpi H => match H in _ = o return (match o with Some g => ~ In "f1"%string g | None => True end) with
                         | eq_refl => ltac:(vm_compute; intuition discriminate) end)
           eq_refl eq_refl eq_refl ex_tests).
Qed.

(** unload "LLH": f2 = L, f1 = L, f0 = not H (the marker lies between f0 and scan-out) *)
Example ex_responses : responses_col ex_maps (so_ports ex_chains) ex_pattern = Some [UNASSIGNED; UNASSIGNED; ONE; ZERO; ZERO; ZERO; ZERO; UNASSIGNED].
Proof. reflexivity. Qed.
Example ex_unload_f0 :
  exists q, dget (intf_pos (interface ex_circuit)) "f0"%string = Some q /\ q < 8 /\
            nth q [UNASSIGNED; UNASSIGNED; ONE; ZERO; ZERO; ZERO; ZERO; UNASSIGNED] UNASSIGNED = ZERO.
Proof.
  exact (scan_unload_position ex_groups ex_chains ex_circuit ex_maps ex_pattern _ "1"%string "si"%string [] "f0"%string
           ["!"; "f1"; "f2"]%string "so"%string "LLH"%string "H"%char ex_wf ex_maps_ok
           (or_introl eq_refl) eq_refl eq_refl eq_refl eq_refl ex_responses).
Qed.

(** launch-on-capture: clock pulses in both calls, simulated next state f1=1 f0=0 f2=0 -> f1 stays 1, f0 and f2 fall *)
Example ex_loc :
  tests_loc_col ex_maps (si_ports ex_chains) ex_pattern [UNASSIGNED; UNASSIGNED; ZERO; ONE; ONE; ZERO; ZERO; UNKNOWN]
  = Some [ZERO; FALL; UNASSIGNED; UNASSIGNED; ONE; FALL; FALL; UNKNOWN].
Proof. reflexivity. Qed.

(** ** the pinned tree: inversion of ONE cell applied to the whole chain.  Same chain, upper-case kinds, no latch
       (so that _maps does not raise): f0 receives not '1' although no marker lies between scan-in and f0. *)
Theorem scan_load_position_v0_refuted :
  exists groups chains c m p col key si pre cell post so L ch q,
    wf_scan chains c /\ maps_gen false groups chains c = Some m /\
    In (key, si :: pre ++ cell :: post ++ [so]) chains /\ is_marker cell = false /\
    (forall gpi, dget groups "_pi"%string = Some gpi -> ~ In cell gpi) /\
    dget (p_load p) si = Some L /\ String.length L = ncell (pre ++ cell :: post) /\
    String.get (ncell post) L = Some ch /\
    tests_col m (si_ports chains) p = Some col /\
    dget (intf_pos (m_intf m)) cell = Some q /\
    nth q col UNASSIGNED <> load_value (interpret ch) (Nat.odd (nmark pre)).
Proof.
  destruct (maps_gen false ex_groups ex_chains ex_circuit0) as [m|] eqn:E; [|vm_compute in E; discriminate].
  exists ex_groups, ex_chains, ex_circuit0, m, ex_pattern, [PPULSE; ZERO; UNASSIGNED; UNASSIGNED; ONE; ZERO; ONE],
    "1"%string, "si"%string, [], "f0"%string, ["!"; "f1"; "f2"]%string, "so"%string, "001"%string, "1"%char, 5.
  vm_compute in E. inversion E. subst m. clear E.
  repeat split; try reflexivity.
  - exact (wf_names _ _ ex_wf0).
  - exact (wf_ports _ _ ex_wf0).
  - exact (wf_cells _ _ ex_wf0).
  - now left.
  - intros gpi H. vm_compute in H. inversion H. subst. simpl. intuition discriminate.
  - vm_compute. discriminate.
Qed.

(** ... and its case-sensitive interface drops lower-case flip-flops and latches: _maps raises KeyError *)
Theorem interface_v0_refuted :
  exists groups chains c, wf_scan chains c /\ maps_gen true groups chains c <> None /\ maps_gen false groups chains c = None /\
    interface_v0 c <> map (fun i => nth i (sc_nodes c) dsnode) (s_nodes (netlist_of c)).
Proof.
  exists ex_groups, ex_chains, ex_circuit. split; [exact ex_wf|]. split; [|split].
  - rewrite ex_maps_ok. discriminate.
  - reflexivity.
  - vm_compute. discriminate.
Qed.

(** instances of the remaining position theorems on the example design *)
Example ex_pi_a :
  exists q, dget (intf_pos (interface ex_circuit)) "a"%string = Some q /\ q < 8 /\
            nth q [PPULSE; ZERO; UNASSIGNED; UNASSIGNED; ONE; ONE; ONE; UNASSIGNED] UNASSIGNED = ZERO.
Proof.
  eapply (pi_group_position ex_groups ex_chains ex_circuit ex_maps ex_pattern [PPULSE; ZERO; UNASSIGNED; UNASSIGNED; ONE; ONE; ONE; UNASSIGNED] ["a"; "si"]%string "0P"%string 0 "a"%string "0"%char);
    try reflexivity.
  - exact (wf_names _ _ ex_wf).
  - nodup_strings.
Qed.
Example ex_po_so :
  exists q, dget (intf_pos (interface ex_circuit)) "so"%string = Some q /\ q < 8 /\
            nth q [UNASSIGNED; UNASSIGNED; ONE; ZERO; ZERO; ZERO; ZERO; UNASSIGNED] UNASSIGNED = ONE.
Proof.
  eapply (po_group_position ex_groups ex_chains ex_circuit ex_maps ex_pattern [UNASSIGNED; UNASSIGNED; ONE; ZERO; ZERO; ZERO; ZERO; UNASSIGNED] ["z"; "so"]%string "LH"%string 1 "so"%string "H"%char);
    try reflexivity.
  - exact ex_wf.
  - nodup_strings.
  - vm_compute. intuition discriminate.
  - discriminate.
Qed.
Example ex_loc_f0 :
  exists q, dget (intf_pos (interface ex_circuit)) "f0"%string = Some q /\ q < 8 /\
            nth q [ZERO; FALL; UNASSIGNED; UNASSIGNED; ONE; FALL; FALL; UNKNOWN] UNASSIGNED =
            mv_transition1 ONE (nth q [UNASSIGNED; UNASSIGNED; ZERO; ONE; ONE; ZERO; ZERO; UNKNOWN] UNASSIGNED).
Proof.
  eapply (loc_transition_position ex_groups ex_chains ex_circuit ex_maps ex_pattern [UNASSIGNED; UNASSIGNED; ZERO; ONE; ONE; ZERO; ZERO; UNKNOWN] [ZERO; FALL; UNASSIGNED; UNASSIGNED; ONE; FALL; FALL; UNKNOWN] false "1"%string "si"%string [] "f0"%string
            ["!"; "f1"; "f2"]%string "so"%string "001"%string "1"%char); try reflexivity.
  - exact ex_wf.
  - now left.
  - intros gpi H. vm_compute in H. inversion H. subst. simpl. intuition discriminate.
  - intros gpo H. vm_compute in H. inversion H. subst. simpl. intuition discriminate.
Qed.
Example ex_loc_a :
  exists q, dget (intf_pos (interface ex_circuit)) "a"%string = Some q /\ q < 8 /\
            nth q [ZERO; FALL; UNASSIGNED; UNASSIGNED; ONE; FALL; FALL; UNKNOWN] UNASSIGNED = mv_transition1 ONE ZERO.
Proof.
  eapply (loc_pi_transition_position ex_groups ex_chains ex_circuit ex_maps ex_pattern
            [UNASSIGNED; UNASSIGNED; ZERO; ONE; ONE; ZERO; ZERO; UNKNOWN] [ZERO; FALL; UNASSIGNED; UNASSIGNED; ONE; FALL; FALL; UNKNOWN] ["a"; "si"]%string 0 "a"%string "1P"%string "1"%char);
    try reflexivity.
  - exact ex_wf.
  - nodup_strings.
  - vm_compute. intuition discriminate.
  - intros gpo H. vm_compute in H. inversion H. subst. simpl. intuition discriminate.
  - intros sc H. vm_compute in H. inversion H. reflexivity.
Qed.
