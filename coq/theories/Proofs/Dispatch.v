(** Finite theorems that tie the regenerated tables (Gen/SimTables, Gen/LogicSimDispatch) to the
    primitives' Boolean functions and to the documented multi-valued algebra. *)
From Coq Require Import List NArith Bool Arith Lia String.
From KV Require Import Model.Bits Model.Logic Model.Prims Model.OpSem Proofs.BitsLift Proofs.LogicSweep
     Gen.SimTables Gen.LogicSimDispatch.
Import ListNotations.

Lemma in_all_prims p : In p all_prims.
Proof. destruct p; cbn; tauto. Qed.

Definition lut_of (p : prim) : option N := assoc (prim_name p) lut_table.

(** --- the 33 LUT constants ------------------------------------------------------------------ *)
Definition lut_chk (p : prim) : bool :=
  match lut_of p with
  | Some l => forallb (fun r => match r with (a, b, c, d) => Bool.eqb (lut_bit l a b c d) (prim_fn p a b c d) end) rows16
  | None => false
  end.
Lemma luts_ok : Nat.eqb (List.length lut_table) 33 && forallb lut_chk all_prims = true.
Proof. vm_compute. reflexivity. Qed.

Lemma in_rows16 a b c d : In (a, b, c, d) rows16.
Proof. destruct a, b, c, d; cbn; tauto. Qed.

Theorem lut_correct p : exists l, lut_of p = Some l /\ forall a b c d, lut_bit l a b c d = prim_fn p a b c d.
Proof.
  pose proof luts_ok as H. apply andb_true_iff in H. destruct H as [_ H].
  rewrite forallb_forall in H. specialize (H p (in_all_prims p)). unfold lut_chk in H.
  destruct (lut_of p) as [l|]; [|discriminate]. exists l. split; [reflexivity|].
  intros a b c d. rewrite forallb_forall in H. specialize (H _ (in_rows16 a b c d)). cbv beta iota in H.
  apply eqb_prop. exact H.
Qed.

(** --- 2-valued dispatch: both code paths compute the LUT's function per lane ------------------ *)
Definition d2_chk (tbl : list (string * prog)) (p : prim) : bool :=
  match assoc (prim_name p) tbl with
  | Some g => prog_ok 4 g &&
              forallb (fun r => match r with (a, b, c, d) =>
                          bools_eqb (run_bool g [a; b; c; d]) [prim_fn p a b c d] end) rows16
  | None => false
  end.
Lemma d2_cpu_ok : forallb (d2_chk disp2_cpu) all_prims = true. Proof. vm_compute. reflexivity. Qed.
Lemma d2_cb_ok : forallb (d2_chk disp2_cb) all_prims = true. Proof. vm_compute. reflexivity. Qed.

Lemma d2_sound tbl : forallb (d2_chk tbl) all_prims = true ->
  forall p, exists g, assoc (prim_name p) tbl = Some g /\ forall a b c d, run_bool g [a; b; c; d] = [prim_fn p a b c d].
Proof.
  intros H p. rewrite forallb_forall in H. specialize (H p (in_all_prims p)). unfold d2_chk in H.
  destruct (assoc (prim_name p) tbl) as [g|]; [|discriminate]. exists g. split; [reflexivity|].
  apply andb_true_iff in H. destruct H as [_ H]. intros a b c d.
  rewrite forallb_forall in H. specialize (H _ (in_rows16 a b c d)). cbv beta iota in H.
  apply bools_eqb_eq. exact H.
Qed.

Theorem dispatch2_correct : forall tbl, tbl = disp2_cpu \/ tbl = disp2_cb ->
  forall p, exists g, assoc (prim_name p) tbl = Some g /\ forall a b c d, run_bool g [a; b; c; d] = [prim_fn p a b c d].
Proof. intros tbl [E|E]; subst tbl; apply d2_sound; [exact d2_cpu_ok | exact d2_cb_ok]. Qed.

(** --- 8- and 4-valued dispatch = documented composition of operators ---------------------------- *)
Definition spec4 (p : prim) (l : list code) : code :=
  spec_prim p (nth 0 l Zero) (nth 1 l Zero) (nth 2 l Zero) (nth 3 l Zero).

Definition d8_chk (tbl : list (string * prog)) (p : prim) : bool :=
  match assoc (prim_name p) tbl with Some g => op_ok 3 out_is3 (spec4 p) 4 g | None => false end.
Definition d4_chk (tbl : list (string * prog)) (p : prim) : bool :=
  match assoc (prim_name p) tbl with Some g => op_ok 2 out_is2 (spec4 p) 4 g | None => false end.

Lemma d8_ok : forallb (d8_chk disp8) all_prims = true. Proof. vm_compute. reflexivity. Qed.
Lemma d8_cb_ok : forallb (d8_chk disp8_cb) all_prims = true. Proof. vm_compute. reflexivity. Qed.
Lemma d4_ok : forallb (d4_chk disp4) all_prims = true. Proof. vm_compute. reflexivity. Qed.
Lemma d4_cb_ok : forallb (d4_chk disp4_cb) all_prims = true. Proof. vm_compute. reflexivity. Qed.

Lemma d8_sound tbl : forallb (d8_chk tbl) all_prims = true ->
  forall p, exists g, assoc (prim_name p) tbl = Some g /\
    forall a b c d, run_bool g (encode_ins 3 [a; b; c; d]) = code_bits (spec_prim p a b c d).
Proof.
  intros H p. rewrite forallb_forall in H. specialize (H p (in_all_prims p)). unfold d8_chk in H.
  destruct (assoc (prim_name p) tbl) as [g|]; [|discriminate]. exists g. split; [reflexivity|].
  intros a b c d. apply bools_eqb_eq. apply (op_ok_sound3 _ _ _ _ H [a; b; c; d] eq_refl).
Qed.

Lemma d4_sound tbl : forallb (d4_chk tbl) all_prims = true ->
  forall p, exists g, assoc (prim_name p) tbl = Some g /\
    forall a b c d, is4 a = true -> is4 b = true -> is4 c = true -> is4 d = true ->
      run_bool g (encode_ins 2 [a; b; c; d]) = firstn 2 (code_bits (spec_prim p a b c d)) /\
      is4 (spec_prim p a b c d) = true.
Proof.
  intros H p. rewrite forallb_forall in H. specialize (H p (in_all_prims p)). unfold d4_chk in H.
  destruct (assoc (prim_name p) tbl) as [g|]; [|discriminate]. exists g. split; [reflexivity|].
  intros a b c d Ha Hb Hc Hd.
  assert (H4 : forallb is4 [a; b; c; d] = true) by (cbn [forallb]; rewrite Ha, Hb, Hc, Hd; reflexivity).
  pose proof (op_ok_sound2 _ _ _ _ H [a; b; c; d] eq_refl H4) as Hs. unfold out_is2, spec4 in Hs. cbn [nth] in Hs.
  apply andb_true_iff in Hs. destruct Hs as [H1 H2]. split; [apply bools_eqb_eq; exact H2 | exact H1].
Qed.

Theorem dispatch8_spec : forall tbl, tbl = disp8 \/ tbl = disp8_cb ->
  forall p, exists g, assoc (prim_name p) tbl = Some g /\
    forall a b c d, run_bool g (encode_ins 3 [a; b; c; d]) = code_bits (spec_prim p a b c d).
Proof. intros tbl [E|E]; subst tbl; apply d8_sound; [exact d8_ok | exact d8_cb_ok]. Qed.

Theorem dispatch4_spec : forall tbl, tbl = disp4 \/ tbl = disp4_cb ->
  forall p, exists g, assoc (prim_name p) tbl = Some g /\
    forall a b c d, is4 a = true -> is4 b = true -> is4 c = true -> is4 d = true ->
      run_bool g (encode_ins 2 [a; b; c; d]) = firstn 2 (code_bits (spec_prim p a b c d)) /\
      is4 (spec_prim p a b c d) = true.
Proof. intros tbl [E|E]; subst tbl; apply d4_sound; [exact d4_ok | exact d4_cb_ok]. Qed.

(** --- per-primitive facts about the algebra itself (finite, exhaustive over all eight values) --- *)
Definition tuples4 : list (code * code * code * code) :=
  flat_map (fun a => flat_map (fun b => flat_map (fun c => map (fun d => (a, b, c, d)) all_codes) all_codes) all_codes) all_codes.
Lemma in_all_codes c : In c all_codes. Proof. destruct c; cbn; tauto. Qed.
Lemma in_tuples4 a b c d : In (a, b, c, d) tuples4.
Proof.
  unfold tuples4. apply in_flat_map. exists a. split; [apply in_all_codes|].
  apply in_flat_map. exists b. split; [apply in_all_codes|].
  apply in_flat_map. exists c. split; [apply in_all_codes|].
  apply in_map. apply in_all_codes.
Qed.

(* X-soundness: a plain 0/1 result is implied by every 0/1 completion of the operands *)
Definition xsound_chk (p : prim) : bool :=
  forallb (fun t => match t with (a, b, c, d) =>
    let r := spec_prim p a b c d in
    if is2 r then
      forallb (fun w => match w with (a', b', c', d') =>
        implb (completes a a' && completes b b' && completes c c' && completes d d')
              (completes r (prim_fn p a' b' c' d')) end) rows16
    else true end) tuples4.
Lemma xsound_ok : forallb xsound_chk all_prims = true. Proof. vm_compute. reflexivity. Qed.

Theorem x_sound_op p a b c d a' b' c' d' :
  completes a a' = true -> completes b b' = true -> completes c c' = true -> completes d d' = true ->
  completes (spec_prim p a b c d) (prim_fn p a' b' c' d') = true.
Proof.
  intros Ha Hb Hc Hd. pose proof xsound_ok as H. rewrite forallb_forall in H.
  specialize (H p (in_all_prims p)). unfold xsound_chk in H. rewrite forallb_forall in H.
  specialize (H _ (in_tuples4 a b c d)). cbv beta iota zeta in H.
  destruct (is2 (spec_prim p a b c d)) eqn:E2.
  - rewrite forallb_forall in H. specialize (H _ (in_rows16 a' b' c' d')). cbv beta iota in H.
    rewrite Ha, Hb, Hc, Hd in H. exact H.
  - destruct (spec_prim p a b c d); try discriminate E2; reflexivity.
Qed.

(* projection: on known operands the result is known and its final / initial components are the
   primitive's Boolean function of the operands' final / initial components *)
Definition proj_chk (p : prim) : bool :=
  forallb (fun t => match t with (a, b, c, d) =>
    implb (known a && known b && known c && known d)
          (let r := spec_prim p a b c d in
           known r && Bool.eqb (fin r) (prim_fn p (fin a) (fin b) (fin c) (fin d))
                   && Bool.eqb (ini r) (prim_fn p (ini a) (ini b) (ini c) (ini d))) end) tuples4.
Lemma proj_ok : forallb proj_chk all_prims = true. Proof. vm_compute. reflexivity. Qed.

Theorem proj8_op p a b c d :
  known a = true -> known b = true -> known c = true -> known d = true ->
  known (spec_prim p a b c d) = true /\
  fin (spec_prim p a b c d) = prim_fn p (fin a) (fin b) (fin c) (fin d) /\
  ini (spec_prim p a b c d) = prim_fn p (ini a) (ini b) (ini c) (ini d).
Proof.
  intros Ha Hb Hc Hd. pose proof proj_ok as H. rewrite forallb_forall in H.
  specialize (H p (in_all_prims p)). unfold proj_chk in H. rewrite forallb_forall in H.
  specialize (H _ (in_tuples4 a b c d)). cbv beta iota zeta in H. rewrite Ha, Hb, Hc, Hd in H. cbn [andb implb] in H.
  apply andb_true_iff in H. destruct H as [H H3]. apply andb_true_iff in H. destruct H as [H1 H2].
  repeat split; [exact H1 | apply eqb_prop; exact H2 | apply eqb_prop; exact H3].
Qed.

(* hazard soundness (C05): on known operands, a plain 0/1 result means the primitive's function is
   constant on the cube spanned by the operands that show activity *)
Definition in_cube (x : code) (x' : bool) : bool := act x || Bool.eqb x' (fin x).
Definition hazard_chk (p : prim) : bool :=
  forallb (fun t => match t with (a, b, c, d) =>
    implb (known a && known b && known c && known d && is2 (spec_prim p a b c d))
      (forallb (fun w => match w with (a', b', c', d') =>
         implb (in_cube a a' && in_cube b b' && in_cube c c' && in_cube d d')
               (Bool.eqb (prim_fn p a' b' c' d') (fin (spec_prim p a b c d))) end) rows16) end) tuples4.
Lemma hazard_ok : forallb hazard_chk all_prims = true. Proof. vm_compute. reflexivity. Qed.

Theorem hazard_sound_op p a b c d a' b' c' d' :
  known a = true -> known b = true -> known c = true -> known d = true ->
  is2 (spec_prim p a b c d) = true ->
  in_cube a a' = true -> in_cube b b' = true -> in_cube c c' = true -> in_cube d d' = true ->
  prim_fn p a' b' c' d' = fin (spec_prim p a b c d).
Proof.
  intros Ha Hb Hc Hd H2 Ia Ib Ic Id. pose proof hazard_ok as H. rewrite forallb_forall in H.
  specialize (H p (in_all_prims p)). unfold hazard_chk in H. rewrite forallb_forall in H.
  specialize (H _ (in_tuples4 a b c d)). cbv beta iota in H. rewrite Ha, Hb, Hc, Hd, H2 in H. cbn [andb implb] in H.
  rewrite forallb_forall in H. specialize (H _ (in_rows16 a' b' c' d')). cbv beta iota in H.
  rewrite Ia, Ib, Ic, Id in H. cbn [andb implb] in H. apply eqb_prop. exact H.
Qed.

(* the 4-valued logic is the 8-valued one restricted to {0,X,-,1}; 2-valued codes stay 2-valued *)
Definition closed2_chk (p : prim) : bool :=
  forallb (fun t => match t with (a, b, c, d) =>
    implb (is2 a && is2 b && is2 c && is2 d)
          (code_eqb (spec_prim p a b c d) (code_of_bool (prim_fn p (fin a) (fin b) (fin c) (fin d)))) end) tuples4.
Lemma closed2_ok : forallb closed2_chk all_prims = true. Proof. vm_compute. reflexivity. Qed.

Theorem spec_prim_bool p a b c d :
  spec_prim p (code_of_bool a) (code_of_bool b) (code_of_bool c) (code_of_bool d) = code_of_bool (prim_fn p a b c d).
Proof.
  pose proof closed2_ok as H. rewrite forallb_forall in H. specialize (H p (in_all_prims p)).
  unfold closed2_chk in H. rewrite forallb_forall in H.
  specialize (H _ (in_tuples4 (code_of_bool a) (code_of_bool b) (code_of_bool c) (code_of_bool d))).
  cbv beta iota in H.
  assert (E : forall x, is2 (code_of_bool x) = true) by (intros []; reflexivity).
  assert (F : forall x, fin (code_of_bool x) = x) by (intros []; reflexivity).
  rewrite !E, !F in H. cbn [andb implb] in H. apply code_eqb_eq. exact H.
Qed.
