(** The correspondence-checked LogicSim model (Model/LogicSimModel.v: list memory, opcode -> primitive through [prim_of_lut])
    REFINES the objects of the end-to-end theorems (Model/AllocCheck.v [mexec] over a function memory, [iexec] at line level,
    Model/CycleSem.v [line_cycles], Model/OpSem.v [exec_ops_cb]).
      G1 [c_prop_refines] [s_to_c_*] [c_to_s_eq]   list memory vs function memory, for any [simops] whose opcodes have primitives
                                                   and whose locations lie inside the memory;
         [build_glue]                              both side conditions (and the facts below) for EVERY [build] result, all options;
      G2 [logicsim_model_correct]                  [simulate] = capture of THE gate-by-gate solution (any options, any value domain);
      G3 [cycles_model_correct]                    [cycles k] = [line_cycles k] (memory is carried over, the zero slot is never
                                                   overwritten, PPI slots are rewritten by s_to_c, every other read is of an owned slot);
      G4 [model_callback_correct]                  [c_prop_cb] = [exec_ops_cb] of Model/OpSem.v on the aliased op list. *)
From Coq Require Import List NArith ZArith Bool Arith Lia String.
From KV Require Import Model.Prims Model.Logic Model.OpSem Model.Netlist Model.NetlistWf Model.Heap Model.HeapInv Model.SimOps
     Model.AllocCheck Model.SimOpsCert Model.NetlistSem Model.CycleSem Model.LogicSimModel Gen.SimTables
     Proofs.HeapProofs Proofs.AllocProofs Proofs.TopoProofs Proofs.SemProofs Proofs.SemCompose Proofs.EndToEnd Proofs.ReuseProofs
     Proofs.StripInvariance Proofs.ReuseStrip Proofs.CycleProofs Proofs.OpSemProofs Proofs.Dispatch Proofs.WfCheck Proofs.OptionsCheck.
Import List.
Import ListNotations.
Local Open Scope list_scope.

(* ------------------------------------------------------------------------------------------------ *)
(** * G1a: list memory vs function memory (no reference to [build]) *)

Lemma mset_length {V} (m : list V) : forall i v, length (mset m i v) = length m.
Proof. induction m as [|x r IH]; intros [|i] v; cbn [mset length]; auto. Qed.

Lemma nth_mset {V} (m : list V) : forall i j v d,
  nth j (mset m i v) d = if Nat.eqb j i && Nat.ltb i (length m) then v else nth j m d.
Proof.
  induction m as [|x r IH]; intros i j v d.
  - destruct i; cbn [mset length]; rewrite andb_false_r; reflexivity.
  - destruct i as [|i], j as [|j]; cbn [mset nth length]; try reflexivity.
    rewrite IH. reflexivity.
Qed.

Lemma in_combine_seq_gen {A} (d : A) : forall (s : list A) a n j w, In (j, w) (combine (seq a n) s) ->
  a <= j < a + n /\ j - a < length s /\ w = nth (j - a) s d.
Proof.
  induction s as [|x s IH]; intros a n j w H; [destruct (seq a n); destruct H|].
  destruct n as [|n]; [destruct H|]. cbn [seq combine In] in H. destruct H as [E|H].
  - injection E as <- <-. replace (a - a) with 0 by lia. cbn [length nth]. split; [lia|]. split; [lia|reflexivity].
  - destruct (IH (S a) n j w H) as (H1 & H2 & H3). replace (j - a) with (S (j - S a)) by lia. cbn [length nth].
    split; [lia|]. split; [lia|exact H3].
Qed.

Lemma combine_seq_in_gen {A} (d : A) : forall (s : list A) a n j, j < n -> j < length s ->
  In (a + j, nth j s d) (combine (seq a n) s).
Proof.
  induction s as [|x s IH]; intros a n j Hn Hs; [cbn in Hs; lia|].
  destruct n as [|n]; [lia|]. cbn [seq combine]. destruct j as [|j].
  - left. rewrite Nat.add_0_r. reflexivity.
  - right. replace (a + S j) with (S a + j) by lia. cbn [nth]. apply IH; cbn [length] in Hs; lia.
Qed.

Lemma map_combine_seq {A B} (d : A) (f : nat * A -> B) : forall (s : list A) a,
  map f (combine (seq a (length s)) s) = map (fun p => f (p, nth (p - a) s d)) (seq a (length s)).
Proof.
  induction s as [|x s IH]; intros a; [reflexivity|]. cbn [length seq combine map]. f_equal.
  - replace (a - a) with 0 by lia. reflexivity.
  - rewrite IH. apply map_ext_in. intros p Hp. apply in_seq in Hp. replace (p - a) with (S (p - S a)) by lia. reflexivity.
Qed.

Lemma nth_repeat_any {A} (x : A) n j : nth j (repeat x n) x = x.
Proof. revert j. induction n as [|n IH]; intros [|j]; cbn; auto. Qed.

Section Refine.
  Context {V : Type} (dflt : V).

  (** the function memory a list memory stands for *)
  Definition absm (m : list V) : @fmem V := fun l => nth l m dflt.

  (** op semantics indexed by the whole op row (covers the plain and the callback propagation) *)
  Variable f : sop -> V -> V -> V -> V -> V.

  Definition gstep (loc : nat -> option nat) (m : @fmem V) (o : sop) : @fmem V :=
    match loc (s_out o) with
    | Some lo => fupd m lo (f o (mread dflt loc m (s_i0 o)) (mread dflt loc m (s_i1 o)) (mread dflt loc m (s_i2 o)) (mread dflt loc m (s_i3 o)))
    | None => m
    end.
  Definition gexec loc (ops : list sop) (m : @fmem V) : @fmem V := fold_left (gstep loc) ops m.
  Definition gistep (alias : nat -> nat) (e : @ienv V) (o : sop) : @ienv V :=
    iupd e (s_out o) (f o (e (alias (s_i0 o))) (e (alias (s_i1 o))) (e (alias (s_i2 o))) (e (alias (s_i3 o)))).
  Definition giexec alias (ops : list sop) (e : @ienv V) : @ienv V := fold_left (gistep alias) ops e.

  (** the same step on a list memory *)
  Definition lstep (so : simops) (m : list V) (o : sop) : list V :=
    match so_loc so (s_out o) with
    | Some lo => mset m lo (f o (LogicSimModel.rd dflt so m (s_i0 o)) (LogicSimModel.rd dflt so m (s_i1 o))
                                (LogicSimModel.rd dflt so m (s_i2 o)) (LogicSimModel.rd dflt so m (s_i3 o)))
    | None => m
    end.

  Definition locs_ok (so : simops) (n : nat) : Prop := forall x l, so_loc so x = Some l -> l < n.

  Lemma rd_mread so m idx : LogicSimModel.rd dflt so m idx = mread dflt (so_loc so) (absm m) idx.
  Proof. reflexivity. Qed.

  Lemma lstep_refines so m o : locs_ok so (length m) ->
    length (lstep so m o) = length m /\ forall j, absm (lstep so m o) j = gstep (so_loc so) (absm m) o j.
  Proof.
    intros HL. unfold lstep, gstep. destruct (so_loc so (s_out o)) as [lo|] eqn:Elo; [|split; reflexivity].
    split; [apply mset_length|]. intros j. unfold absm at 1. rewrite nth_mset. unfold fupd.
    pose proof (HL _ _ Elo) as Hlo. apply Nat.ltb_lt in Hlo. rewrite Hlo, andb_true_r.
    destruct (Nat.eqb j lo); reflexivity.
  Qed.

  Lemma gstep_ext loc m1 m2 o : (forall j, m1 j = m2 j) -> forall j, gstep loc m1 o j = gstep loc m2 o j.
  Proof.
    intros H j. unfold gstep. destruct (loc (s_out o)) as [lo|]; [|apply H]. unfold fupd.
    destruct (Nat.eqb j lo); [|apply H].
    assert (R : forall x, mread dflt loc m1 x = mread dflt loc m2 x).
    { intros x. unfold mread. destruct (loc x); [apply H|reflexivity]. }
    rewrite !R. reflexivity.
  Qed.

  Lemma gexec_ext loc : forall ops m1 m2, (forall j, m1 j = m2 j) -> forall j, gexec loc ops m1 j = gexec loc ops m2 j.
  Proof.
    induction ops as [|o r IH]; intros m1 m2 H j; [apply H|]. unfold gexec. cbn [fold_left].
    apply IH. apply gstep_ext. exact H.
  Qed.

  Lemma lexec_refines so : forall ops m, locs_ok so (length m) ->
    length (fold_left (lstep so) ops m) = length m /\
    forall j, absm (fold_left (lstep so) ops m) j = gexec (so_loc so) ops (absm m) j.
  Proof.
    induction ops as [|o r IH]; intros m HL; [split; reflexivity|]. cbn [fold_left].
    destruct (lstep_refines so m o HL) as [L1 R1].
    destruct (IH (lstep so m o)) as [L2 R2]; [rewrite L1; exact HL|].
    split; [rewrite L2; exact L1|]. intros j. rewrite R2. unfold gexec at 2. cbn [fold_left].
    apply gexec_ext. exact R1.
  Qed.

  (** a location no op writes keeps its content *)
  Lemma gexec_frame loc l : forall ops m, (forall o, In o ops -> loc (s_out o) <> Some l) -> gexec loc ops m l = m l.
  Proof.
    induction ops as [|o r IH]; intros m H; [reflexivity|]. unfold gexec. cbn [fold_left].
    fold (gexec loc r (gstep loc m o)). rewrite IH by (intros o' Ho'; apply H; right; exact Ho').
    unfold gstep. pose proof (H o (or_introl eq_refl)) as N. destruct (loc (s_out o)) as [lo|]; [|reflexivity].
    unfold fupd. destruct (Nat.eqb l lo) eqn:E; [|reflexivity]. apply Nat.eqb_eq in E. congruence.
  Qed.

  (** the ownership certificate is sound for the generalised step (proof of AllocProofs.own_run_sound, verbatim) *)
  Lemma gown_step_sound loc alias w m e o lo :
    own_inv loc w m e ->
    forallb (fun x => readable loc alias w x && alias_ok loc alias x) [s_i0 o; s_i1 o; s_i2 o; s_i3 o] = true ->
    loc (s_out o) = Some lo ->
    own_inv loc (oset w lo (s_out o)) (gstep loc m o) (gistep alias e o).
  Proof.
    intros Hinv Hops Hlo.
    cbn [forallb] in Hops. rewrite !andb_true_iff in Hops.
    destruct Hops as ((H0 & _) & (H1 & _) & (H2 & _) & (H3 & _) & _).
    unfold gstep, gistep. rewrite Hlo.
    rewrite (readable_sound dflt loc alias _ _ _ _ Hinv H0), (readable_sound dflt loc alias _ _ _ _ Hinv H1),
            (readable_sound dflt loc alias _ _ _ _ Hinv H2), (readable_sound dflt loc alias _ _ _ _ Hinv H3).
    intros l y Hg. rewrite oget_oset in Hg. unfold fupd, iupd.
    destruct (Nat.eqb l lo) eqn:El.
    - apply Nat.eqb_eq in El. injection Hg as <-. subst l.
      rewrite Nat.eqb_refl. split; [reflexivity|assumption].
    - destruct (Hinv _ _ Hg) as [Hm Hy].
      assert (Ny : Nat.eqb y (s_out o) = false).
      { apply Nat.eqb_neq. intros ->. rewrite Hlo in Hy. injection Hy as ->.
        rewrite Nat.eqb_refl in El. discriminate. }
      rewrite Ny. split; assumption.
  Qed.

  Lemma gown_run_sound loc alias : forall ops w m e w',
    own_inv loc w m e -> own_run loc alias w ops = Some w' ->
    own_inv loc w' (gexec loc ops m) (giexec alias ops e).
  Proof.
    induction ops as [|o r IH]; intros w m e w' Hinv Hrun.
    - injection Hrun as <-. exact Hinv.
    - cbn [own_run] in Hrun.
      destruct (forallb _ _ && _) eqn:Hc; [|discriminate].
      apply andb_true_iff in Hc. destruct Hc as [Hops _].
      destruct (loc (s_out o)) as [lo|] eqn:Hlo; [|discriminate].
      unfold gexec, giexec. cbn [fold_left].
      apply (IH _ _ _ _ (gown_step_sound loc alias _ _ _ _ _ Hinv Hops Hlo) Hrun).
  Qed.

  Theorem gmap_check_sound loc alias init final ops :
    map_check loc alias init final ops = true ->
    forall (e0 : ienv) (m0 : fmem),
      (forall x l, In x init -> loc x = Some l -> m0 l = e0 x) ->
      forall p, In p final ->
        mread dflt loc (gexec loc ops m0) p = giexec alias ops e0 (alias p).
  Proof.
    intros Hc e0 m0 H0 p Hp. unfold map_check in Hc.
    apply andb_true_iff in Hc. destruct Hc as [_ Hc].
    destruct (own_init loc init) as [w0|] eqn:Hi; [|discriminate].
    destruct (own_run loc alias w0 ops) as [w|] eqn:Hr; [|discriminate].
    assert (Hinv0 : own_inv loc w0 m0 e0).
    { intros l y Hg. unfold own_init in Hi.
      destruct (own_init_spec loc _ _ _ Hi _ _ Hg) as [Hn|[Hin Hl]]; [discriminate|].
      split; [apply H0; assumption|assumption]. }
    pose proof (gown_run_sound loc alias _ _ _ _ _ Hinv0 Hr) as Hinv.
    rewrite forallb_forall in Hc. specialize (Hc _ Hp).
    apply andb_true_iff in Hc. destruct Hc as [Hc _].
    apply (readable_sound dflt loc alias _ _ _ _ Hinv Hc).
  Qed.

  (** the aliases can be substituted into the op rows *)
  Lemma giexec_alias_ext a1 a2 : forall ops (e : @ienv V),
    (forall o x, In o ops -> In x (opnds o) -> a1 x = a2 x) -> giexec a1 ops e = giexec a2 ops e.
  Proof.
    induction ops as [|o r IH]; intros e H; [reflexivity|]. unfold giexec in *. cbn [fold_left].
    assert (E : gistep a1 e o = gistep a2 e o).
    { assert (Ho : In o (o :: r)) by (left; reflexivity).
      unfold gistep. rewrite (H o (s_i0 o) Ho), (H o (s_i1 o) Ho), (H o (s_i2 o) Ho), (H o (s_i3 o) Ho)
        by (unfold opnds; cbn [In]; tauto). reflexivity. }
    rewrite E. apply IH. intros o' x Ho'. apply H. right. exact Ho'.
  Qed.
End Refine.

(** two op semantics that agree on the op rows of a list compute the same *)
Lemma giexec_f_ext {V} (f g : sop -> V -> V -> V -> V -> V) alias : forall ops (e : @ienv V),
  (forall o a b cc d, In o ops -> f o a b cc d = g o a b cc d) -> giexec f alias ops e = giexec g alias ops e.
Proof.
  induction ops as [|o r IH]; intros e H; [reflexivity|]. unfold giexec in *. cbn [fold_left].
  assert (E : gistep f alias e o = gistep g alias e o) by (unfold gistep; rewrite H by (left; reflexivity); reflexivity).
  rewrite E. apply IH. intros o' a b cc d Ho'. apply H. right. exact Ho'.
Qed.

Lemma giexec_iexec {V} (sem : N -> V -> V -> V -> V -> V) alias ops (e : @ienv V) :
  giexec (fun o => sem (s_lut o)) alias ops e = iexec sem alias ops e.
Proof. reflexivity. Qed.

Lemma gexec_mexec {V} (dflt : V) (sem : N -> V -> V -> V -> V -> V) loc ops (m : @fmem V) :
  gexec dflt (fun o => sem (s_lut o)) loc ops m = mexec sem dflt loc ops m.
Proof. reflexivity. Qed.

(* ------------------------------------------------------------------------------------------------ *)
(** * G1b: the three phases of LogicSim on a list memory *)

Section Phases.
  Context {V : Type} (dflt : V) (sem : prim -> V -> V -> V -> V -> V).

  (** opcode semantics through the regenerated opcode table (an opcode without primitive never occurs in a [build] result) *)
  Definition semN (l : N) (a b c d : V) : V := match prim_of_lut l with Some p => sem p a b c d | None => a end.
  Definition fplain (o : sop) := semN (s_lut o).
  Definition line_cb (nlines : nat) (cb : nat -> V -> V) (k : nat) (v : V) : V := if Nat.ltb k nlines then cb k v else v.
  Definition fcb (nlines : nat) (cb : nat -> V -> V) (o : sop) (a b c d : V) : V := line_cb nlines cb (s_out o) (semN (s_lut o) a b c d).

  Definition ops_known (so : simops) : Prop := forall o, In o (so_ops so) -> prim_of_lut (s_lut o) <> None.

  Lemma prop1_lstep so m o : prim_of_lut (s_lut o) <> None -> prop1 dflt sem so m o = lstep dflt fplain so m o.
  Proof.
    intros H. unfold prop1, lstep, fplain, semN. change (loc_of so (s_out o)) with (so_loc so (s_out o)).
    destruct (prim_of_lut (s_lut o)) as [p|]; [|congruence]. reflexivity.
  Qed.

  Lemma prop1_cb_lstep cb so m o : prim_of_lut (s_lut o) <> None ->
    prop1_cb dflt sem cb so m o = lstep dflt (fcb (so_nlines so) cb) so m o.
  Proof.
    intros H. unfold prop1_cb, lstep, fcb, line_cb, semN. change (loc_of so (s_out o)) with (so_loc so (s_out o)).
    destruct (prim_of_lut (s_lut o)) as [p|]; [|congruence]. reflexivity.
  Qed.

  Lemma fold_lstep_eq (g1 g2 : list V -> sop -> list V) : forall ops m, (forall o m', In o ops -> g1 m' o = g2 m' o) ->
    fold_left g1 ops m = fold_left g2 ops m.
  Proof.
    induction ops as [|o r IH]; intros m H; [reflexivity|]. cbn [fold_left]. rewrite (H o m (or_introl eq_refl)).
    apply IH. intros o' m' Ho'. apply H. right. exact Ho'.
  Qed.

  (** c_prop on the list memory = [mexec] on the function memory it stands for *)
  Theorem c_prop_refines so m : ops_known so -> locs_ok so (length m) ->
    length (c_prop dflt sem so m) = length m /\
    forall j, nth j (c_prop dflt sem so m) dflt = mexec semN dflt (so_loc so) (so_ops so) (absm dflt m) j.
  Proof.
    intros HK HL. unfold c_prop.
    rewrite (fold_lstep_eq (prop1 dflt sem so) (lstep dflt fplain so)) by (intros o m' Ho; apply prop1_lstep, HK, Ho).
    apply (lexec_refines dflt fplain so (so_ops so) m HL).
  Qed.

  Theorem c_prop_cb_refines cb so m : ops_known so -> locs_ok so (length m) ->
    length (c_prop_cb dflt sem cb so m) = length m /\
    forall j, nth j (c_prop_cb dflt sem cb so m) dflt = gexec dflt (fcb (so_nlines so) cb) (so_loc so) (so_ops so) (absm dflt m) j.
  Proof.
    intros HK HL. unfold c_prop_cb.
    rewrite (fold_lstep_eq (prop1_cb dflt sem cb so) (lstep dflt (fcb (so_nlines so) cb) so))
      by (intros o m' Ho; apply prop1_cb_lstep, HK, Ho).
    apply (lexec_refines dflt (fcb (so_nlines so) cb) so (so_ops so) m HL).
  Qed.

  (** the identity callback is the plain propagation (on the model itself) *)
  Lemma c_prop_cb_identity so m : c_prop_cb dflt sem (fun _ v => v) so m = c_prop dflt sem so m.
  Proof.
    unfold c_prop_cb, c_prop. apply fold_lstep_eq. intros o m' _. unfold prop1_cb, prop1.
    destruct (prim_of_lut (s_lut o)); [|reflexivity]. destruct (loc_of so (s_out o)); [|reflexivity].
    destruct (Nat.ltb (s_out o) (so_nlines so)); reflexivity.
  Qed.

  (** s_to_c *)
  Definition stc_step (so : simops) (m' : list V) (iv : nat * V) : list V :=
    match loc_of so (ppi_off so + fst iv) with Some l => mset m' l (snd iv) | None => m' end.

  Lemma stc_length so : forall (L : list (nat * V)) (m : list V), length (fold_left (stc_step so) L m) = length m.
  Proof.
    induction L as [|iv r IH]; intros m; [reflexivity|]. cbn [fold_left]. rewrite IH. unfold stc_step.
    destruct (loc_of so _); [apply mset_length|reflexivity].
  Qed.

  Lemma stc_other so l : forall (L : list (nat * V)) (m : list V), (forall iv, In iv L -> so_loc so (so_ppi so + fst iv) <> Some l) ->
    nth l (fold_left (stc_step so) L m) dflt = nth l m dflt.
  Proof.
    induction L as [|iv r IH]; intros m H; [reflexivity|]. cbn [fold_left].
    rewrite IH by (intros iv' Hiv'; apply H; right; exact Hiv').
    unfold stc_step. change (loc_of so (ppi_off so + fst iv)) with (so_loc so (so_ppi so + fst iv)).
    pose proof (H iv (or_introl eq_refl)) as N. destruct (so_loc so (so_ppi so + fst iv)) as [l'|]; [|reflexivity].
    rewrite nth_mset. destruct (Nat.eqb l l') eqn:E; [|reflexivity]. apply Nat.eqb_eq in E. congruence.
  Qed.

  Lemma stc_val so l v : forall (L : list (nat * V)) (m : list V), l < length m ->
    (forall j w, In (j, w) L -> so_loc so (so_ppi so + j) = Some l -> w = v) ->
    (nth l m dflt = v \/ exists j w, In (j, w) L /\ so_loc so (so_ppi so + j) = Some l) ->
    nth l (fold_left (stc_step so) L m) dflt = v.
  Proof.
    induction L as [|[j w] r IH]; intros m Hl Hall Hex.
    - cbn [fold_left]. destruct Hex as [H|(j & w & [] & _)]. exact H.
    - cbn [fold_left]. apply IH.
      + unfold stc_step. destruct (loc_of so _); [rewrite mset_length|]; exact Hl.
      + intros j' w' H. apply (Hall j' w'). right. exact H.
      + unfold stc_step. cbn [fst snd]. change (loc_of so (ppi_off so + j)) with (so_loc so (so_ppi so + j)).
        destruct (so_loc so (so_ppi so + j)) as [l'|] eqn:El'.
        * destruct (Nat.eq_dec l' l) as [->|N].
          -- left. rewrite nth_mset, Nat.eqb_refl. apply Nat.ltb_lt in Hl. rewrite Hl. cbn [andb].
             apply (Hall j w); [left; reflexivity|exact El'].
          -- assert (E : nth l (mset m l' w) dflt = nth l m dflt).
             { rewrite nth_mset. destruct (Nat.eqb l l') eqn:E; [apply Nat.eqb_eq in E; congruence|reflexivity]. }
             rewrite E. destruct Hex as [H|(j0 & w0 & [E0|H0] & L0)]; [left; exact H| |right; exists j0, w0; auto].
             injection E0 as <- <-. congruence.
        * destruct Hex as [H|(j0 & w0 & [E0|H0] & L0)]; [left; exact H| |right; exists j0, w0; auto].
          injection E0 as <- <-. congruence.
  Qed.

  Lemma s_to_c_length so (s0 m : list V) : length (s_to_c so s0 m) = length m.
  Proof. apply stc_length. Qed.

  (** a PPI slot with a location receives the assigned value (distinct PPI slots have distinct locations) *)
  Lemma s_to_c_ppi so (s0 m : list V) i l :
    (forall i j l', i < so_slen so -> j < so_slen so -> so_loc so (so_ppi so + i) = Some l' -> so_loc so (so_ppi so + j) = Some l' -> i = j) ->
    i < so_slen so -> i < length s0 -> so_loc so (so_ppi so + i) = Some l -> l < length m ->
    nth l (s_to_c so s0 m) dflt = nth i s0 dflt.
  Proof.
    intros Hinj Hi Hs El Hl. apply stc_val; [exact Hl| |].
    - intros j w Hin Ej. destruct (in_combine_seq_gen dflt s0 0 (so_slen so) j w Hin) as (H1 & H2 & ->).
      rewrite Nat.sub_0_r. f_equal. apply (Hinj j i l); [lia|exact Hi|exact Ej|exact El].
    - right. exists i, (nth i s0 dflt). split; [|exact El].
      apply (combine_seq_in_gen dflt s0 0 (so_slen so) i Hi Hs).
  Qed.

  (** every other location keeps its content *)
  Lemma s_to_c_other so (s0 m : list V) l : (forall i, i < so_slen so -> so_loc so (so_ppi so + i) <> Some l) ->
    nth l (s_to_c so s0 m) dflt = nth l m dflt.
  Proof.
    intros H. apply stc_other. intros [j w] Hin. cbn [fst].
    destruct (in_combine_seq_gen dflt s0 0 (so_slen so) j w Hin) as (H1 & _). apply H. lia.
  Qed.

  (** c_to_s with a result vector of full length *)
  Lemma c_to_s_eq so (m s1 : list V) : length s1 = so_slen so ->
    c_to_s dflt so m s1 =
    map (fun p => match so_loc so (so_ppo so + p) with Some l => nth l m dflt | None => nth p s1 dflt end) (seq 0 (so_slen so)).
  Proof.
    intros H. unfold c_to_s. rewrite <- H. rewrite (map_combine_seq dflt). apply map_ext. intros p. cbn [fst snd].
    rewrite Nat.sub_0_r. reflexivity.
  Qed.
End Phases.

(* ------------------------------------------------------------------------------------------------ *)
(** * G1c: every location [build] publishes lies below [so_len] (= Heap.max_size), for all option combinations *)

Definition Bnd (st : alloc_state) : Prop := forall x, (locZ st x < Z.of_N (mx (a_heap st)))%Z.

Lemma Bnd_alloc cmin st idx cap : HInv (a_heap st) -> (0 < cap)%N -> Bnd st -> Bnd (alloc_slot cmin st idx cap).
Proof.
  intros HI Hc HB x. rewrite locZ_alloc_slot, alloc_slot_eq. cbn [a_heap].
  pose proof (alloc_fresh (a_heap st) cap HI Hc) as F. cbv zeta in F. destruct F as (_ & _ & F3 & _).
  pose proof (alloc_mx (a_heap st) cap HI Hc) as M.
  destruct (Nat.eqb x idx && Nat.ltb idx (length (a_locs st))).
  - lia.
  - specialize (HB x). rewrite M. lia.
Qed.

Lemma Bnd_same st st' : a_heap st' = a_heap st -> a_locs st' = a_locs st -> Bnd st -> Bnd st'.
Proof. unfold Bnd, locZ. intros -> ->. auto. Qed.

Lemma free_mx h l h' : free h l = Some h' -> mx h' = mx h.
Proof.
  unfold free. destruct (lookup l (chunks h)) as [size|]; [|discriminate].
  destruct (l + size =? cur h)%N.
  - destruct (rev (released h)) as [|prev rrest]; [intros E; injection E as <-; reflexivity|].
    destruct (_ =? _)%N; intros E; injection E as <-; reflexivity.
  - destruct (if match nth_error (released h) (bisect l (released h)) with Some nx => (l + size =? nx)%N | None => false end
              then _ else _) as [[ch1 size1] rel1].
    destruct (bisect l (released h)) as [|pidx]; [intros E; injection E as <-; reflexivity|].
    destruct (nth_error rel1 pidx) as [prev|]; [|intros E; injection E as <-; reflexivity].
    destruct (_ =? _)%N; intros E; injection E as <-; reflexivity.
Qed.

Lemma release_mx : forall fs st, mx (a_heap (release st fs)) = mx (a_heap st) /\ a_locs (release st fs) = a_locs st.
Proof.
  induction fs as [|l r IH]; intros st; [split; reflexivity|]. unfold release. cbn [fold_left]. fold (release (free_step st l) r).
  destruct (IH (free_step st l)) as [E1 E2]. rewrite E1, E2. unfold free_step.
  destruct (if (0 <=? l)%Z then free (a_heap st) (Z.to_N l) else None) as [h'|] eqn:E; cbn [a_heap a_locs]; [|split; reflexivity].
  split; [|reflexivity]. destruct (0 <=? l)%Z; [|discriminate]. apply (free_mx _ _ _ E).
Qed.

Section EventsBnd.
  Variable tmp : nat.
  Variable stems : list Z.
  Variable caps : list N.
  Variable cmin : N.
  Variable reuse : bool.
  Hypothesis Hcmin : (0 < cmin)%N.
  Variable P : nat -> Z.
  Hypothesis Ppos : forall x, (0 <= P x)%Z.
  Variable len : nat.

  Lemma events_Bnd : forall evs st fs rc0,
    J tmp stems P len rc0 st fs (ops_of evs) -> W tmp stems caps len (ald st) (ops_of evs) -> Bnd st ->
    Bnd (fst (fold_left (ev_step tmp stems caps cmin reuse) evs (st, fs))).
  Proof.
    induction evs as [|[o|] r IH]; intros st fs rc0 HJ HW HB; [exact HB| |].
    - cbn [ops_of] in HJ, HW. cbn [fold_left ev_step].
      destruct (op_alloc tmp stems caps cmin (st, fs) o) as [st1 fs1] eqn:E.
      destruct (J_op tmp stems caps cmin Hcmin P Ppos len rc0 st fs o (ops_of r) st1 fs1 HJ HW E) as (HJ1 & HW1 & _).
      apply (IH st1 fs1 rc0 HJ1 HW1).
      rewrite op_alloc_eq in E. destruct (Nat.eqb (s_out o) tmp).
      + injection E as <- _. apply (Bnd_same st); [reflexivity|reflexivity|exact HB].
      + destruct (nth_error caps (s_out o)) as [cp|].
        * injection E as <- _. apply Bnd_alloc; [apply (J_h _ _ _ _ _ _ _ _ HJ)|lia|].
          apply (Bnd_same st); [reflexivity|reflexivity|exact HB].
        * injection E as <- _. apply (Bnd_same st); [reflexivity|reflexivity|exact HB].
    - cbn [ops_of] in HJ, HW. cbn [fold_left ev_step fst snd]. destruct reuse.
      + destruct (J_rel tmp stems cmin Hcmin P len rc0 st fs (ops_of r) HJ) as (HJ1 & E1 & _).
        apply (IH (release st fs) [] (refZ st) HJ1).
        * apply (W_ext tmp stems caps len _ (ald st)); [|exact HW]. intros x. unfold ald, locZ. rewrite E1. reflexivity.
        * destruct (release_mx fs st) as [M L]. intros x. unfold locZ. rewrite M, L. apply HB.
      + apply (IH st [] (refZ st) (J_norel tmp stems cmin Hcmin P len rc0 st fs (ops_of r) HJ) HW HB).
  Qed.
End EventsBnd.

(** every opcode [build_ops] emits has a primitive: BUF1, INV1, or an entry of the kind-prefix table *)
Lemma prim_buf1 : prim_of_lut (lutv "BUF1") = Some BUF1. Proof. vm_compute. reflexivity. Qed.
Lemma prim_inv1 : prim_of_lut (lutv "INV1") = Some INV1. Proof. vm_compute. reflexivity. Qed.

Definition tbl_luts (tbl : list (string * (N * N * N))) : list N :=
  flat_map (fun e : string * (N * N * N) => let '(_, (a, b, c)) := e in [a; b; c]) tbl.
Lemma kind_luts_known : forallb (fun l => is_some (prim_of_lut l)) (tbl_luts kind_prefixes) = true.
Proof. vm_compute. reflexivity. Qed.

Lemma select_lut_in kind b2 b3 sp : forall tbl, select_lut tbl kind b2 b3 = Some sp -> In sp (tbl_luts tbl).
Proof.
  induction tbl as [|[pre [[l4 l3] l2]] r IH]; intros H; [discriminate|]. cbn [select_lut] in H. unfold tbl_luts. cbn [flat_map].
  destruct (prefix pre (lower kind)).
  - injection H as <-. apply in_or_app. left. destruct b3; [destruct b2|]; cbn [In]; auto.
  - apply in_or_app. right. apply IH. exact H.
Qed.

Lemma select_lut_known kind b2 b3 sp : select_lut kind_prefixes kind b2 b3 = Some sp -> prim_of_lut sp <> None.
Proof.
  intros H. apply select_lut_in in H. pose proof kind_luts_known as K. rewrite forallb_forall in K. specialize (K sp H).
  destruct (prim_of_lut sp); [discriminate|discriminate K].
Qed.

Lemma node_ops_known c snl strip zero tmp ppi n o : In o (node_ops c snl strip zero tmp ppi n) -> prim_of_lut (s_lut o) <> None.
Proof.
  unfold node_ops. cbv zeta.
  destruct (if (String.eqb (n_kind (get_node c n)) "__fork__" && is_some (pin (n_ins (get_node c n)) 0))%bool
            then None else last_pos n snl 0 None) as [pos|].
  - intros H. apply in_app_or in H. destruct H as [H|H].
    + destruct (pin (n_outs (get_node c n)) 0); [|destruct H]. destruct H as [<-|[]]. cbn [s_lut]. rewrite prim_buf1. discriminate.
    + destruct (is_dff (get_node c n)).
      * destruct (pin (n_outs (get_node c n)) 1); [|destruct H]. destruct H as [<-|[]]. cbn [s_lut]. rewrite prim_inv1. discriminate.
      * apply in_map_iff in H. destruct H as (x & <- & _). cbn [s_lut]. rewrite prim_buf1. discriminate.
  - destruct (String.eqb (lower (n_kind (get_node c n))) "__fork__").
    + destruct strip; [intros []|]. intros H. apply in_map_iff in H. destruct H as (x & <- & _). cbn [s_lut]. rewrite prim_buf1. discriminate.
    + destruct (select_lut kind_prefixes (n_kind (get_node c n)) _ _) as [sp|] eqn:E; [|intros []].
      intros [<-|[]]. cbn [s_lut]. apply (select_lut_known _ _ _ _ E).
Qed.

Lemma build_ops_known c strip o : In o (build_ops c strip) -> prim_of_lut (s_lut o) <> None.
Proof. unfold build_ops. cbv zeta. intros H. apply in_flat_map in H. destruct H as (n & _ & H). apply (node_ops_known _ _ _ _ _ _ _ _ H). Qed.

Section GlueG.
  Variable c : netlist.
  Variable caps : list N.
  Variable cmin : N.
  Variable reuse strip : bool.
  Hypothesis WF : wf_netlist c.
  Hypothesis Hcmin : (0 < cmin)%N.
  Notation nl := (length (c_lines c)).
  Notation sn := (s_nodes c).
  Notation slen := (length (s_nodes c)).
  Notation ppi := (nl + 3).
  Notation ppo := (nl + 3 + slen).
  Notation len := (nl + 3 + slen + slen).
  Notation all_ip := (combine (seq 0 slen) sn).
  Notation tmp := (nl + 1).
  Notation ops := (build_ops c strip).
  Variable stems : list Z.
  Hypothesis Hst : build_stems c strip len = Some stems.
  Notation al := (stemmed stems).
  Hypothesis HD1 : forall x, nl <= x -> al x = x.
  Hypothesis HD2 : forall x, x < nl -> al x < nl /\ al (al x) = al x.
  Hypothesis HA : forall pre o post, ops = pre ++ o :: post -> forall x, In x (opnds o) ->
    x < ppo /\ (al x = nl \/ (exists n p, iface_pos c n = Some p /\ al x = ppi + p /\ 0 < length (n_outs (get_node c n))) \/
                (al x < nl /\ In (al x) (map s_out pre))).
  Hypothesis HB : forall pre o post, ops = pre ++ o :: post ->
    s_out o = tmp \/ (s_out o < nl /\ al (s_out o) = s_out o /\ ~ In (s_out o) (map s_out pre)).
  (** every line (seen through the stem table) is written by an op *)
  Hypothesis HLD : forall l, l < nl -> In (al l) (map s_out ops).
  Variable so : simops.
  Hypothesis Hb : build c caps cmin reuse strip = Some so.

  Notation S0 := (st0g c strip stems).
  Notation S3 := (st3g c cmin strip stems).
  Notation S4 := (st4g c cmin strip stems).
  Notation S5 := (st5g c cmin strip stems).
  Notation S6 := (st6g c caps cmin reuse strip stems).

  Let BI := build_inv_g c caps cmin reuse strip stems Hst so Hb.
  Let Hok : a_ok S6 = true. Proof. apply BI. Qed.
  Let Eops : so_ops so = ops. Proof. apply BI. Qed.
  Let Enl : so_nlines so = nl. Proof. apply BI. Qed.
  Let Eslen : so_slen so = slen. Proof. apply BI. Qed.
  Let M6 := main6g c caps cmin reuse strip WF Hcmin stems HD1 HD2 HA HB Hok.

  Lemma Bnd0 : Bnd S0.
  Proof. intros x. unfold locZ, st0g. cbn [a_locs a_heap hinit mx]. rewrite nth_repeat. lia. Qed.

  Lemma Bnd3 : Bnd S3.
  Proof.
    pose proof (len0g c strip stems) as L0. pose proof (GI0g c cmin strip Hcmin stems) as G0.
    assert (G1 : GI nl ppo (alloc_slot cmin S0 nl cmin)) by (apply GI_alloc; [exact Hcmin|exact G0|exact Hcmin|rewrite L0; lia|lia]).
    assert (G2 : GI nl ppo (alloc_slot cmin (alloc_slot cmin S0 nl cmin) (nl + 1) cmin))
      by (apply GI_alloc; [exact Hcmin|exact G1|exact Hcmin|rewrite !len_alloc_slot, L0; lia|lia]).
    unfold st3g. apply Bnd_alloc; [apply G2|exact Hcmin|]. apply Bnd_alloc; [apply G1|exact Hcmin|].
    apply Bnd_alloc; [apply G0|exact Hcmin|apply Bnd0].
  Qed.

  Lemma iface_step_Bnd st i n : GI nl ppo st -> Bnd st -> Bnd (iface_step c cmin stems ppi st (i, n)).
  Proof.
    intros G HB0. unfold iface_step. cbv zeta.
    set (sta := if Nat.ltb 0 (length (n_outs (get_node c n))) then EndToEnd.pinref (alloc_slot cmin st (ppi + i) cmin) (ppi + i) else st).
    assert (A : Bnd sta).
    { unfold sta. destruct (Nat.ltb 0 (length (n_outs (get_node c n)))); [|exact HB0].
      apply (Bnd_same (alloc_slot cmin st (ppi + i) cmin)); [reflexivity|reflexivity|].
      apply Bnd_alloc; [apply G|exact Hcmin|exact HB0]. }
    destruct (n_ins (get_node c n)) as [|[l0|] t]; [exact A| |exact A].
    apply (Bnd_same sta); [reflexivity|reflexivity|exact A].
  Qed.

  Lemma iface_fold_Bnd : forall l st, (forall ip, In ip l -> fst ip < slen) -> length (a_locs st) = len -> GI nl ppo st -> Bnd st ->
    Bnd (fold_left (iface_step c cmin stems ppi) l st).
  Proof.
    induction l as [|[i n] r IH]; intros st Hl L G HB0; [exact HB0|]. cbn [fold_left].
    destruct (iface_step_GI_g c cmin Hcmin stems st i n (Hl (i, n) (or_introl eq_refl)) L G) as (G1 & L1 & _).
    apply IH; [intros ip Hip; apply Hl; right; exact Hip|exact L1|exact G1|apply iface_step_Bnd; assumption].
  Qed.

  Lemma Bnd5 : Bnd S5.
  Proof.
    unfold st5g. apply iface_fold_Bnd.
    - apply (in_comb_lt c cmin Hcmin).
    - change (a_locs S4) with (a_locs S3). apply len3g.
    - apply (GI_same _ _ S3); [reflexivity|reflexivity|apply (GI3g c cmin strip Hcmin stems)].
    - apply (Bnd_same S3); [reflexivity|reflexivity|apply Bnd3].
  Qed.

  Lemma Bnd6 : Bnd S6.
  Proof.
    assert (CAP : forall o, In o ops -> s_out o <> tmp -> capok caps o).
    { pose proof Hok as H. rewrite st6g_events in H. destruct (events_ok tmp stems caps cmin reuse _ _ H) as [_ CAP].
      rewrite ops_events_g in CAP. exact CAP. }
    rewrite st6g_events.
    destruct (ref5g c cmin strip WF Hcmin stems HD1 HD2 HA) as (_ & Ppos & _).
    apply (events_Bnd tmp stems caps cmin reuse Hcmin (Pg c cmin strip stems) Ppos len _ _ _ (refZ S5)).
    - rewrite ops_events_g. apply (J5g c cmin strip WF Hcmin stems HD1 HD2 HA).
    - rewrite ops_events_g. apply (W5g c caps cmin strip Hcmin stems HD1 HD2 HA HB CAP).
    - apply Bnd5.
  Qed.

  Lemma so_len_g : so_len so = mx (a_heap S6).
  Proof.
    pose proof Hb as H. rewrite (build_eq_g c caps cmin reuse strip stems Hst) in H.
    destruct (fold_left (ppo_step c ppo) all_ip (fst (lc7g c caps cmin reuse strip stems), snd (lc7g c caps cmin reuse strip stems), true)) as [[l8 c8] ok8].
    destruct (a_ok S6 && ok8)%bool; [|discriminate]. injection H as <-. reflexivity.
  Qed.

  Lemma len_locs_g : length (so_locs so) = len.
  Proof.
    replace (so_locs so) with (locs8g c caps cmin reuse strip stems) by (symmetry; apply BI). unfold locs8g.
    pose proof (L7_spec c caps cmin reuse strip WF Hcmin stems Hst HD1 HD2 HA HB so Hb) as L7.
    apply (ppo_fold_exact c cmin WF Hcmin all_ip _ _ true (fun i n H => in_comb_lt c cmin Hcmin (i, n) H)
             (eq_ind_r (fun l => NoDup l) (seq_NoDup slen 0) (fst_combine_seq sn 0)) (proj1 L7)).
  Qed.

  Lemma locs_ok_g : locs_ok so (N.to_nat (so_len so)).
  Proof.
    intros x l H. unfold so_loc in H. cbv zeta in H.
    assert (B : (nth x (so_locs so) (-1) < Z.of_N (mx (a_heap S6)))%Z).
    { destruct (Nat.lt_ge_cases x ppo) as [H1|H1].
      - rewrite (pubg_lt c caps cmin reuse strip WF Hcmin stems Hst HD1 HD2 HA HB so Hb x H1). apply Bnd6.
      - destruct (Nat.lt_ge_cases x len) as [H2|H2].
        + replace x with (ppo + (x - ppo)) by lia.
          rewrite (pubg_ppo c caps cmin reuse strip WF Hcmin stems Hst HD1 HD2 HA HB so Hb (x - ppo)) by lia.
          destruct (n_ins (get_node c (nth (x - ppo) sn 0))) as [|[l0|] t]; apply Bnd6.
        + rewrite nth_overflow by (rewrite len_locs_g; exact H2). lia. }
    rewrite so_len_g. destruct (0 <=? nth x (so_locs so) (-1))%Z eqn:E; [|discriminate]. apply Z.leb_le in E.
    injection H as <-. lia.
  Qed.

  Lemma init_inj_g x y l : In x (so_init so) -> In y (so_init so) -> so_loc so x = Some l -> so_loc so y = Some l -> x = y.
  Proof.
    intros Hx Hy Lx Ly. destruct M6 as (K1 & _).
    destruct (init_g c caps cmin reuse strip WF Hcmin stems Hst HD1 HD2 HA HB so Hb x Hx) as (X1 & X2 & X3).
    destruct (init_g c caps cmin reuse strip WF Hcmin stems Hst HD1 HD2 HA HB so Hb y Hy) as (Y1 & Y2 & Y3).
    rewrite (so_loc_g c caps cmin reuse strip WF Hcmin stems Hst HD1 HD2 HA HB so Hb) in Lx, Ly by assumption.
    rewrite HD1 in Lx, Ly by assumption.
    pose proof (locF_eq0 S6 x y l Lx Ly) as E.
    rewrite (K1 x X3), (K1 y Y3) in E. destruct (fold5g c cmin strip Hcmin stems) as ((_ & _ & G3 & _) & _). apply G3; assumption.
  Qed.

  Lemma zero_loc_g : so_loc so nl <> None.
  Proof.
    apply (loc_some_g c caps cmin reuse strip WF Hcmin stems Hst HD1 HD2 HA HB so Hb); [lia|]. rewrite HD1 by lia.
    apply (ald56g c caps cmin reuse strip WF Hcmin stems Hst HD1 HD2 HA HB so Hb). apply ald5g_zero. exact Hcmin.
  Qed.

  (** the constant-zero slot is pinned: its reference count exceeds the number of reads *)
  Lemma Pg_zero : (0 < Pg c cmin strip stems nl)%Z.
  Proof.
    destruct (ref3g c cmin strip Hcmin stems HD1 HD2 HA) as [L N].
    destruct (iface_fold_ref_g c cmin Hcmin stems all_ip S4) as (_ & I2 & _).
    unfold Pg. pose proof (I2 nl) as X. change (fold_left (iface_step c cmin stems ppi) all_ip S4) with S5 in X.
    assert (Y : (cntR stems nl ops + 1 <= refZ S4 nl)%Z).
    { unfold st4g. rewrite !refZ_pinref, N, !lenref_pinref, L.
      replace (Nat.eqb nl nl) with true by (symmetry; apply Nat.eqb_refl).
      replace (Nat.ltb nl len) with true by (symmetry; apply Nat.ltb_lt; lia). cbn [andb].
      repeat match goal with |- context [if ?b then _ else _] => destruct b end; lia. }
    lia.
  Qed.

  (** ... so no op ever writes its location, with or without c_reuse *)
  Lemma zero_kept_g o l : In o ops -> so_loc so (s_out o) = Some l -> so_loc so nl <> Some l.
  Proof.
    intros Ho Lo Lz. destruct M6 as (_ & _ & _ & K4 & _).
    pose proof (out_lt_g c cmin strip Hcmin stems HB o Ho) as Hol.
    pose proof (out_al c caps cmin reuse strip WF Hcmin stems Hst HD1 HD2 HA HB so Hb o Ho) as Hoa.
    rewrite (so_loc_g c caps cmin reuse strip WF Hcmin stems Hst HD1 HD2 HA HB so Hb) in Lo, Lz by lia.
    rewrite Hoa in Lo. rewrite HD1 in Lz by lia.
    pose proof Ho as Ho'. apply in_split in Ho'. destruct Ho' as (pre & post & E).
    apply (K4 pre o post E nl).
    - destruct (HB pre o post E) as [H|(H & _)]; lia.
    - left. apply ald5g_zero. exact Hcmin.
    - left. apply Pg_zero.
    - apply (locF_eq0 S6 nl (s_out o) l Lz Lo).
  Qed.

  Lemma ppo_char_g i : i < slen ->
    match snode_in c i with Some _ => In (ppo + i) (so_final so) | None => so_loc so (ppo + i) = None end.
  Proof.
    intros Hi. unfold snode_in. apply Nat.ltb_lt in Hi. rewrite Hi. apply Nat.ltb_lt in Hi.
    destruct (n_ins (get_node c (nth i sn 0))) as [|[l0|] t] eqn:En.
    - apply (so_loc_ppo_none_g c caps cmin reuse strip WF Hcmin stems Hst HD1 HD2 HA HB so Hb i Hi). intros l0 t. rewrite En. discriminate.
    - apply (final_char_g c caps cmin reuse strip WF Hcmin stems Hst HD1 HD2 HA HB so Hb). exists i, l0, t.
      split; [exact Hi|]. split; [reflexivity|]. split; [exact En|].
      pose proof (ip_ins_lt c WF _ _ _ En) as Hl0. pose proof (HLD l0 Hl0) as Hw. apply in_map_iff in Hw. destruct Hw as (o & <- & Ho).
      apply (ald6g_out c caps cmin reuse strip WF Hcmin stems Hst HD1 HD2 HA HB so Hb o Ho).
    - apply (so_loc_ppo_none_g c caps cmin reuse strip WF Hcmin stems Hst HD1 HD2 HA HB so Hb i Hi). intros l0 t'. rewrite En. discriminate.
  Qed.

  Lemma glue_g :
    so_nlines so = nl /\ so_slen so = slen /\ so_ops so = ops /\ locs_ok so (N.to_nat (so_len so)) /\
    (forall x y l, In x (so_init so) -> In y (so_init so) -> so_loc so x = Some l -> so_loc so y = Some l -> x = y) /\
    so_loc so nl <> None /\
    (forall o l, In o ops -> so_loc so (s_out o) = Some l -> so_loc so nl <> Some l) /\
    (forall i, i < slen -> match snode_in c i with Some _ => In (ppo + i) (so_final so) | None => so_loc so (ppo + i) = None end).
  Proof.
    split; [exact Enl|]. split; [exact Eslen|]. split; [exact Eops|]. split; [exact locs_ok_g|]. split; [exact init_inj_g|].
    split; [exact zero_loc_g|]. split; [exact zero_kept_g|exact ppo_char_g].
  Qed.
End GlueG.

(** with forks stripped, the stem of every line is written by an op of the stripped schedule (as [gates_known_reads_defined_t]) *)
Lemma lines_driven_t c stems :
  wf_netlist c -> comb_acyclic c -> gates_known c -> forks_ok c ->
  build_stems c true (length (c_lines c) + 3 + length (s_nodes c) + length (s_nodes c)) = Some stems ->
  forall l, l < length (c_lines c) -> In (stemmed stems l) (map s_out (build_ops c true)).
Proof.
  intros WF AC GK FK Hst x Hl.
  destruct (ws_HD2 c WF AC stems Hst x Hl) as [Hal _].
  pose proof (all_lines_driven c WF AC GK _ Hal) as Hd. rewrite build_ops_eq in Hd.
  apply in_outs_flat in Hd. destruct Hd as (m & o' & Hm & Ho' & Eo).
  destruct (topo_nodup c WF) as [_ Hlt]. pose proof (Hlt m Hm) as HmN.
  destruct (fops_out c WF m o' HmN Ho') as [[_ Hdrv]|Ht]; [|lia]. rewrite Eo in Hdrv.
  apply in_map_iff. exists o'. split; [exact Eo|]. rewrite build_ops_t_eq. apply in_flat_map. exists m. split; [exact Hm|].
  destruct (fops_t_cases c m) as [H|(_ & Hi & Hf)]; [rewrite H; exact Ho'|]. exfalso.
  destruct (FK m HmN Hi Hf) as [Hk Hp].
  apply (al_not_fork c WF stems Hst x Hl). rewrite Hdrv. split; [rewrite Hk; reflexivity|exact Hp].
Qed.

(** G1 for [build]: the side conditions of the refinement lemmas and the slot facts, for all four option combinations *)
Theorem build_glue c caps cmin reuse strip so :
  wf_netlist c -> comb_acyclic c -> (0 < cmin)%N -> gates_known c -> (strip = true -> forks_ok c) ->
  build c caps cmin reuse strip = Some so ->
  let nl := length (c_lines c) in let slen := length (s_nodes c) in let ppo := nl + 3 + slen in
  so_nlines so = nl /\ so_slen so = slen /\ so_ops so = build_ops c strip /\ locs_ok so (N.to_nat (so_len so)) /\
  (forall x y l, In x (so_init so) -> In y (so_init so) -> so_loc so x = Some l -> so_loc so y = Some l -> x = y) /\
  so_loc so nl <> None /\
  (forall o l, In o (build_ops c strip) -> so_loc so (s_out o) = Some l -> so_loc so nl <> Some l) /\
  (forall i, i < slen -> match snode_in c i with Some _ => In (ppo + i) (so_final so) | None => so_loc so (ppo + i) = None end).
Proof.
  intros WF AC Hc GK FK Hb. cbv zeta. destruct strip.
  - destruct (build_stems c true (length (c_lines c) + 3 + length (s_nodes c) + length (s_nodes c))) as [stems|] eqn:Hst.
    + pose proof (gates_known_reads_defined_t c stems WF AC GK (FK eq_refl) Hst) as RDt.
      apply (glue_g c caps cmin reuse true WF Hc stems Hst (ws_HD1 c WF stems Hst) (ws_HD2 c WF AC stems Hst)
               (ws_HA c WF AC stems Hst RDt cmin Hc) (ws_HB c WF AC stems Hst)
               (lines_driven_t c stems WF AC GK (FK eq_refl) Hst) so Hb).
    + exfalso. unfold build in Hb. cbv zeta in Hb. rewrite Hst in Hb. discriminate.
  - pose proof (gates_known_reads_defined c WF AC GK) as RD.
    apply (glue_g c caps cmin reuse false WF Hc _ (ns_Hst c) (ns_HD1 c) (ns_HD2 c)
             (ns_HA c WF cmin Hc RD) (ns_HB c WF)).
    + intros l Hl. rewrite stemmed_repeat. apply (all_lines_driven c WF AC GK l Hl).
    + exact Hb.
Qed.

Lemma build_ops_known_so c caps cmin reuse strip so :
  wf_netlist c -> comb_acyclic c -> (0 < cmin)%N -> gates_known c -> (strip = true -> forks_ok c) ->
  build c caps cmin reuse strip = Some so -> ops_known so.
Proof.
  intros WF AC Hc GK FK Hb o Ho. destruct (build_glue c caps cmin reuse strip so WF AC Hc GK FK Hb) as (_ & _ & E & _).
  rewrite E in Ho. apply (build_ops_known c strip o Ho).
Qed.

(* ------------------------------------------------------------------------------------------------ *)
(** * G2 / G3: one cycle of the model = one [line_cycle]; [simulate]; [cycles] *)

Lemma ppi_in_init so i l : i < so_slen so -> so_loc so (so_ppi so + i) = Some l -> In (so_ppi so + i) (so_init so).
Proof.
  intros Hi Hl. unfold so_init. right. apply filter_In. split.
  - apply in_map_iff. exists i. split; [reflexivity|]. apply in_seq. lia.
  - rewrite Hl. reflexivity.
Qed.

Lemma zero_in_init so : In (so_nlines so) (so_init so).
Proof. left. reflexivity. Qed.

Lemma init_cases so x : In x (so_init so) -> x = so_nlines so \/ exists i, i < so_slen so /\ x = so_ppi so + i.
Proof.
  intros [H|H]; [left; symmetry; exact H|right]. apply filter_In in H. destruct H as [H _]. apply in_map_iff in H.
  destruct H as (i & <- & Hi). apply in_seq in Hi. exists i. split; [lia|reflexivity].
Qed.

Lemma semN_buf1 {V} (sem : prim -> V -> V -> V -> V -> V) :
  (forall x b cc d, sem BUF1 x b cc d = x) -> forall x b cc d, semN sem (lutv "BUF1") x b cc d = x.
Proof. intros H x b cc d. unfold semN. rewrite prim_buf1. apply H. Qed.

Lemma ppo_to_ppi_transfer {V} (zero : V) c (s0 s1 : list V) :
  length s0 = length (s_nodes c) -> length s1 = length (s_nodes c) ->
  ppo_to_ppi (length (c_io c)) s0 s1 = transfer zero c s0 s1.
Proof.
  intros H0 H1. unfold ppo_to_ppi, transfer.
  assert (Hc : length (combine s0 s1) = length s0) by (rewrite combine_length; lia).
  rewrite <- Hc. rewrite (map_combine_seq (zero, zero)). rewrite Hc, H0. apply map_ext. intros p. cbn [fst snd].
  rewrite Nat.sub_0_r. rewrite combine_nth by lia. reflexivity.
Qed.

Section Model.
  Context {V : Type} (dflt : V) (sem : prim -> V -> V -> V -> V -> V).
  Variable c : netlist.
  Variable caps : list N.
  Variable cmin : N.
  Variable reuse strip : bool.
  Variable so : simops.
  Hypothesis WF : wf_netlist c.
  Hypothesis AC : comb_acyclic c.
  Hypothesis Hc : (0 < cmin)%N.
  Hypothesis GK : gates_known c.
  Hypothesis FK : strip = true -> forks_ok c /\ forall x b cc d, sem BUF1 x b cc d = x.
  Hypothesis Hb : build c caps cmin reuse strip = Some so.
  Notation nl := (length (c_lines c)).
  Notation slen := (length (s_nodes c)).
  Notation ppo := (nl + 3 + slen).
  Notation sN := (semN sem).

  Let FK1 : strip = true -> forks_ok c. Proof. intros E. apply (FK E). Qed.
  Let FK2 : strip = true -> forks_ok c /\ forall x b cc d, sN (lutv "BUF1") x b cc d = x.
  Proof. intros E. destruct (FK E) as [A B]. split; [exact A|apply semN_buf1; exact B]. Qed.
  Let G := build_glue c caps cmin reuse strip so WF AC Hc GK FK1 Hb.

  (** the memory invariant between cycles: full length, the constant-zero slot holds the default value *)
  Definition mem_inv (m : list V) : Prop :=
    length m = N.to_nat (so_len so) /\ forall lz, so_loc so nl = Some lz -> nth lz m dflt = dflt.

  Lemma cycle_step m s0 s1 : mem_inv m -> length s0 = slen -> length s1 = slen ->
    let m2 := c_prop dflt sem so (s_to_c so s0 m) in
    mem_inv m2 /\ c_to_s dflt so m2 s1 = capture dflt c (line_prop sN dflt c s0) s1.
  Proof.
    intros [Hlen Hz] Hs0 Hs1. cbv zeta in *.
    destruct G as (Enl & Eslen & Eops & HL & Hinj & Hz0 & Hzk & Hppo).
    assert (Eppi : so_ppi so = nl + 3) by (unfold so_ppi; rewrite Enl; reflexivity).
    assert (Eppo : so_ppo so = ppo) by (unfold so_ppo; rewrite Enl, Eslen; reflexivity).
    set (m1 := s_to_c so s0 m).
    assert (L1 : length m1 = length m) by apply s_to_c_length.
    assert (HL1 : locs_ok so (length m1)) by (rewrite L1, Hlen; exact HL).
    assert (PInj : forall i j l', i < so_slen so -> j < so_slen so ->
              so_loc so (so_ppi so + i) = Some l' -> so_loc so (so_ppi so + j) = Some l' -> i = j).
    { intros i j l' Hi Hj Li Lj.
      pose proof (Hinj _ _ l' (ppi_in_init so i l' Hi Li) (ppi_in_init so j l' Hj Lj) Li Lj). lia. }
    assert (Zoth : forall lz, so_loc so nl = Some lz -> nth lz m1 dflt = nth lz m dflt).
    { intros lz Lz. apply s_to_c_other. intros i Hi Li.
      pose proof (Hinj _ _ lz (ppi_in_init so i lz Hi Li) (zero_in_init so) Li) as X. rewrite Enl in X. specialize (X Lz).
      rewrite Eppi in X. lia. }
    assert (HM : forall x l, In x (so_init so) -> so_loc so x = Some l ->
              absm dflt m1 l = init_env dflt c (stim_of dflt s0) x).
    { intros x l Hx Lx. unfold absm. destruct (init_cases so x Hx) as [->|(i & Hi & ->)].
      - rewrite Enl in Lx. rewrite (Zoth l Lx), (Hz l Lx). rewrite Enl. unfold init_env. cbv zeta.
        destruct (Nat.leb (nl + 3) nl) eqn:E; [apply Nat.leb_le in E; lia|reflexivity].
      - unfold m1. rewrite (s_to_c_ppi dflt so s0 m i l PInj Hi); [|rewrite Hs0, <- Eslen; exact Hi|exact Lx|rewrite Hlen; apply (HL _ _ Lx)].
        rewrite Eppi. unfold init_env, stim_of. cbv zeta.
        destruct (Nat.leb (nl + 3) (nl + 3 + i)) eqn:E; [|apply Nat.leb_gt in E; lia].
        replace (nl + 3 + i - (nl + 3)) with i by lia. reflexivity. }
    destruct (c_prop_refines dflt sem so m1 (build_ops_known_so c caps cmin reuse strip so WF AC Hc GK FK1 Hb) HL1) as [L2 R2].
    split; [split|].
    - rewrite L2, L1. exact Hlen.
    - intros lz Lz. rewrite R2. rewrite <- (gexec_mexec dflt sN).
      rewrite gexec_frame; [unfold absm; rewrite (Zoth lz Lz); apply (Hz lz Lz)|].
      intros o Ho Lo. rewrite Eops in Ho. apply (Hzk o lz Ho Lo Lz).
    - rewrite (c_to_s_eq dflt so _ s1) by (rewrite Hs1, Eslen; reflexivity).
      unfold capture. rewrite Eslen, Eppo. apply map_ext_in. intros p Hp. apply in_seq in Hp. assert (Hp' : p < slen) by lia.
      pose proof (Hppo p Hp') as X. destruct (snode_in c p) as [l0|] eqn:Es.
      + destruct (end_to_end_all sN dflt c caps cmin reuse strip so (stim_of dflt s0) (absm dflt m1) WF AC Hc GK FK2 Hb HM _ X)
          as (i & l0' & t & Ei & Hi & En & R).
        assert (i = p) by lia. subst i.
        assert (l0' = l0).
        { unfold snode_in in Es. apply Nat.ltb_lt in Hp'. rewrite Hp', En in Es. injection Es as ->. reflexivity. }
        subst l0'. unfold mread in R. unfold so_final in X. apply filter_In in X. destruct X as [_ X].
        destruct (so_loc so (ppo + p)) as [l|]; [|discriminate]. rewrite R2. exact R.
      + rewrite X. reflexivity.
  Qed.

  Lemma mem_inv_cleared : mem_inv (repeat dflt (N.to_nat (so_len so))).
  Proof. split; [apply repeat_length|]. intros lz _. apply nth_repeat_any. Qed.

  (** G2: one propagation from the cleared memory captures THE gate-by-gate values *)
  Theorem simulate_capture s0 s1 : length s0 = slen -> length s1 = slen ->
    simulate dflt sem so s0 s1 = capture dflt c (line_prop sN dflt c s0) s1.
  Proof. intros H0 H1. unfold simulate. apply (cycle_step _ s0 s1 mem_inv_cleared H0 H1). Qed.

  (** G3: k cycles, memory carried over *)
  Theorem cycles_line_cycles : forall k m s0 s1, mem_inv m -> length s0 = slen -> length s1 = slen ->
    mem_inv (fst (fst (cycles k dflt sem so (length (c_io c)) m s0 s1))) /\
    (snd (fst (cycles k dflt sem so (length (c_io c)) m s0 s1)), snd (cycles k dflt sem so (length (c_io c)) m s0 s1))
    = line_cycles sN dflt c k (s0, s1).
  Proof.
    induction k as [|k IH]; intros m s0 s1 Hm H0 H1; [split; [exact Hm|reflexivity]|].
    cbn [cycles line_cycles]. destruct (cycle_step m s0 s1 Hm H0 H1) as [Hm2 E]. cbv zeta in Hm2, E.
    set (m2 := c_prop dflt sem so (s_to_c so s0 m)) in *.
    assert (Lc : length (capture dflt c (line_prop sN dflt c s0) s1) = slen) by (unfold capture; rewrite map_length, seq_length; reflexivity).
    rewrite E. rewrite (ppo_to_ppi_transfer dflt c s0 _ H0 Lc).
    unfold line_cycle. cbn [fst snd]. apply IH; [exact Hm2| |exact Lc].
    unfold transfer. rewrite map_length, seq_length. reflexivity.
  Qed.
End Model.

(* ------------------------------------------------------------------------------------------------ *)
(** * The theorems in closed form *)

(** G2: at every s_node position with a data line the model captures the value of that line in ANY solution of the netlist's
    equations (= the scheduler-independent gate-by-gate evaluation); the other positions keep their entry *)
Theorem logicsim_model_correct {V} (dflt : V) (sem : prim -> V -> V -> V -> V -> V) c caps cmin reuse strip so s0 s1 v :
  wf_netlist c -> comb_acyclic c -> (0 < cmin)%N -> gates_known c ->
  (strip = true -> forks_ok c /\ forall x b cc d, sem BUF1 x b cc d = x) ->
  build c caps cmin reuse strip = Some so ->
  length s0 = so_slen so -> length s1 = so_slen so ->
  solution (semN sem) dflt c (fun p => nth p s0 dflt) v ->
  so_slen so = length (s_nodes c) /\ length (simulate dflt sem so s0 s1) = so_slen so /\
  forall p, p < so_slen so ->
    nth p (simulate dflt sem so s0 s1) dflt = match snode_in c p with Some l0 => v l0 | None => nth p s1 dflt end.
Proof.
  intros WF AC Hc GK FK Hb H0 H1 Hv.
  assert (FK1 : strip = true -> forks_ok c) by (intros E; apply (FK E)).
  destruct (build_glue c caps cmin reuse strip so WF AC Hc GK FK1 Hb) as (_ & Eslen & _).
  rewrite Eslen in *. split; [reflexivity|].
  rewrite (simulate_capture dflt sem c caps cmin reuse strip so WF AC Hc GK FK Hb s0 s1 H0 H1).
  assert (E : capture dflt c (line_prop (semN sem) dflt c s0) s1 = capture dflt c v s1).
  { apply (capture_ext dflt c WF). intros l Hl. destruct GK as (G1 & G2 & G3).
    apply (solution_unique (semN sem) dflt c (stim_of dflt s0) _ v WF AC G1 G2 G3); [apply build_ops_solution; assumption|exact Hv|exact Hl]. }
  rewrite E. unfold capture. split; [rewrite map_length, seq_length; reflexivity|].
  intros p Hp. rewrite (nth_indep _ dflt ((fun p => match snode_in c p with Some l0 => v l0 | None => nth p s1 dflt end) 0))
    by (rewrite map_length, seq_length; exact Hp).
  rewrite (map_nth (fun p => match snode_in c p with Some l0 => v l0 | None => nth p s1 dflt end)), seq_nth by exact Hp. reflexivity.
Qed.

(** ... equivalently: the whole result vector is the capture of the scheduler's line-level execution *)
Theorem logicsim_model_capture {V} (dflt : V) (sem : prim -> V -> V -> V -> V -> V) c caps cmin reuse strip so s0 s1 :
  wf_netlist c -> comb_acyclic c -> (0 < cmin)%N -> gates_known c ->
  (strip = true -> forks_ok c /\ forall x b cc d, sem BUF1 x b cc d = x) ->
  build c caps cmin reuse strip = Some so ->
  length s0 = length (s_nodes c) -> length s1 = length (s_nodes c) ->
  simulate dflt sem so s0 s1
  = capture dflt c (iexec (semN sem) (fun x => x) (build_ops c false) (init_env dflt c (fun p => nth p s0 dflt))) s1.
Proof. intros WF AC Hc GK FK Hb H0 H1. apply (simulate_capture dflt sem c caps cmin reuse strip so WF AC Hc GK FK Hb s0 s1 H0 H1). Qed.

(** G3: k cycles of the model (memory carried over) = k line-level cycles = THE k-fold synchronous semantics *)
Theorem cycles_model_correct {V} (dflt : V) (sem : prim -> V -> V -> V -> V -> V) c caps cmin reuse strip so k s0 s1 :
  wf_netlist c -> comb_acyclic c -> (0 < cmin)%N -> gates_known c ->
  (strip = true -> forks_ok c /\ forall x b cc d, sem BUF1 x b cc d = x) ->
  build c caps cmin reuse strip = Some so ->
  length s0 = length (s_nodes c) -> length s1 = length (s_nodes c) ->
  let r := cycles k dflt sem so (length (c_io c)) (repeat dflt (N.to_nat (so_len so))) s0 s1 in
  (snd (fst r), snd r) = line_cycles (semN sem) dflt c k (s0, s1) /\
  iter_sem (semN sem) dflt c k s0 s1 (snd (fst r)) (snd r).
Proof.
  intros WF AC Hc GK FK Hb H0 H1 r.
  destruct (cycles_line_cycles dflt sem c caps cmin reuse strip so WF AC Hc GK FK Hb k _ s0 s1
              (mem_inv_cleared dflt c so) H0 H1) as [_ E].
  fold r in E. split; [exact E|]. apply (cycles_are_iter_sem (semN sem) dflt c k s0 s1 _ _ WF AC GK). exact E.
Qed.

(** the 2-valued opcode semantics through the primitive table IS the LUT semantics *)
Lemma prim_of_lut_lut_of l p : prim_of_lut l = Some p -> lut_of p = Some l.
Proof.
  unfold prim_of_lut, lut_of. intros H. apply find_some in H. destruct H as [_ H].
  destruct (assoc (prim_name p) lut_table) as [v|]; [|discriminate]. apply N.eqb_eq in H. subst v. reflexivity.
Qed.

Lemma semN_sem2_lut l : prim_of_lut l <> None -> forall a b cc d, semN sem2 l a b cc d = sem_lut l a b cc d.
Proof.
  intros H a b cc d. unfold semN. destruct (prim_of_lut l) as [p|] eqn:E; [|congruence].
  symmetry. apply (lut_of_sem p l (prim_of_lut_lut_of l p E)).
Qed.

Lemma line_prop_sem_ext {V} (sem1 sem2' : N -> V -> V -> V -> V -> V) (zero : V) c s0 :
  (forall l a b cc d, prim_of_lut l <> None -> sem1 l a b cc d = sem2' l a b cc d) ->
  line_prop sem1 zero c s0 = line_prop sem2' zero c s0.
Proof.
  intros H. unfold line_prop. rewrite <- !giexec_iexec. apply giexec_f_ext. intros o a b cc d Ho. apply H.
  apply (build_ops_known c false o Ho).
Qed.

Lemma line_cycles_sem_ext {V} (sem1 sem2' : N -> V -> V -> V -> V -> V) (zero : V) c :
  (forall l a b cc d, prim_of_lut l <> None -> sem1 l a b cc d = sem2' l a b cc d) ->
  forall k st, line_cycles sem1 zero c k st = line_cycles sem2' zero c k st.
Proof.
  intros H. induction k as [|k IH]; intros st; [reflexivity|]. cbn [line_cycles]. rewrite IH. f_equal.
  unfold line_cycle. rewrite (line_prop_sem_ext sem1 sem2' zero c (fst st) H). reflexivity.
Qed.

Definition std_len (c : netlist) : nat := length (c_lines c) + 3 + length (s_nodes c) + length (s_nodes c).

Lemma build_std_total c reuse strip :
  wf_netlist c -> comb_acyclic c -> gates_known c -> (strip = true -> forks_ok c) ->
  build c (repeat 1%N (length (c_lines c) + 3)) 1%N reuse strip = None -> build_stems c strip (std_len c) = None.
Proof.
  intros WF AC GK FK Hn. destruct (build_stems c strip (std_len c)) as [st|] eqn:E; [|reflexivity]. exfalso.
  destruct (build_total_all c (repeat 1%N (length (c_lines c) + 3)) 1%N reuse strip WF AC eq_refl GK FK) as (so & Hs).
  - rewrite repeat_length. lia.
  - unfold std_len in E. rewrite E. discriminate.
  - congruence.
Qed.

(** C01, the correspondence-checked 2-valued entry point: the assignment and result vectors after k cycles are those of the k-fold
    synchronous Boolean semantics of the netlist ([None] only where SimOps itself raises: a stripped fork without stem) *)
Theorem sim_case2_correct c reuse strip k s0 s1 :
  wf_netlist c -> comb_acyclic c -> gates_known c -> (strip = true -> forks_ok c) ->
  length s0 = length (s_nodes c) -> length s1 = length (s_nodes c) ->
  match sim_case2 c reuse strip k s0 s1 with
  | Some r => r = line_cycles sem_lut false c k (s0, s1) /\ iter_sem sem_lut false c k s0 s1 (fst r) (snd r)
  | None => build_stems c strip (std_len c) = None
  end.
Proof.
  intros WF AC GK FK H0 H1. unfold sim_case2.
  destruct (build c (repeat 1%N (length (c_lines c) + 3)) 1%N reuse strip) as [so|] eqn:Hb;
    [|apply (build_std_total c reuse strip WF AC GK FK Hb)].
  assert (FK' : strip = true -> forks_ok c /\ forall x b cc d, sem2 BUF1 x b cc d = x)
    by (intros E; split; [apply (FK E)|reflexivity]).
  destruct (cycles_model_correct false sem2 c _ 1%N reuse strip so k s0 s1 WF AC eq_refl GK FK' Hb H0 H1) as [E _]. cbv zeta in E.
  destruct (cycles k false sem2 so (length (c_io c)) (repeat false (N.to_nat (so_len so))) s0 s1) as [[m' a] b]. cbn [fst snd] in E.
  assert (E' : (a, b) = line_cycles sem_lut false c k (s0, s1)).
  { rewrite E. apply line_cycles_sem_ext. intros l x y z w Hl. apply semN_sem2_lut. exact Hl. }
  split; [exact E'|]. cbn [fst snd]. apply (cycles_are_iter_sem sem_lut false c k s0 s1 a b WF AC GK). exact E'.
Qed.

(** C02, the correspondence-checked multi-valued entry point: the captured vector is the composition of the documented operators
    ([spec_prim]) along the netlist, gate by gate *)
Theorem sim_case8_correct c reuse strip s0 s1 :
  wf_netlist c -> comb_acyclic c -> gates_known c -> (strip = true -> forks_ok c) ->
  length s0 = length (s_nodes c) -> length s1 = length (s_nodes c) ->
  match sim_case8 c reuse strip s0 s1 with
  | Some r => r = capture Zero c (iexec (semN sem8) (fun x => x) (build_ops c false) (init_env Zero c (fun p => nth p s0 Zero))) s1 /\
              forall v, solution (semN sem8) Zero c (fun p => nth p s0 Zero) v ->
                forall p l0, snode_in c p = Some l0 -> nth p r Zero = v l0
  | None => build_stems c strip (std_len c) = None
  end.
Proof.
  intros WF AC GK FK H0 H1. unfold sim_case8.
  destruct (build c (repeat 1%N (length (c_lines c) + 3)) 1%N reuse strip) as [so|] eqn:Hb;
    [|apply (build_std_total c reuse strip WF AC GK FK Hb)].
  assert (FK' : strip = true -> forks_ok c /\ forall x b cc d, sem8 BUF1 x b cc d = x)
    by (intros E; split; [apply (FK E)|reflexivity]).
  split; [apply (logicsim_model_capture Zero sem8 c _ 1%N reuse strip so s0 s1 WF AC eq_refl GK FK' Hb H0 H1)|].
  intros v Hv p l0 Hp.
  destruct (build_glue c _ 1%N reuse strip so WF AC eq_refl GK FK Hb) as (_ & Eslen & _).
  destruct (logicsim_model_correct Zero sem8 c _ 1%N reuse strip so s0 s1 v WF AC eq_refl GK FK' Hb) as (_ & _ & X);
    [rewrite Eslen; exact H0|rewrite Eslen; exact H1|exact Hv|].
  assert (Hlt : p < so_slen so).
  { rewrite Eslen. unfold snode_in in Hp. destruct (Nat.ltb p (length (s_nodes c))) eqn:E; [apply Nat.ltb_lt; exact E|discriminate]. }
  rewrite (X p Hlt), Hp. reflexivity.
Qed.

(* ------------------------------------------------------------------------------------------------ *)
(** * G4: the fault-injection callback *)

Definition prim_or_buf (l : N) : prim := match prim_of_lut l with Some p => p | None => BUF1 end.
(** the op row at line level: primitive from the opcode table, operands read through the alias (stem) table *)
Definition line_op (alias : nat -> nat) (o : sop) : op :=
  {| o_prim := prim_or_buf (s_lut o); o_out := s_out o;
     o_i0 := alias (s_i0 o); o_i1 := alias (s_i1 o); o_i2 := alias (s_i2 o); o_i3 := alias (s_i3 o) |}.
Definition line_ops (c : netlist) (so : simops) : list op := map (line_op (so_alias c so)) (so_ops so).

Lemma giexec_cb_exec {V} (sem : prim -> V -> V -> V -> V -> V) nlines cb alias : forall ops (e : @ienv V),
  (forall o, In o ops -> prim_of_lut (s_lut o) <> None) ->
  giexec (fcb sem nlines cb) alias ops e = exec_ops_cb sem (line_cb nlines cb) (map (line_op alias) ops) e.
Proof.
  induction ops as [|o r IH]; intros e H; [reflexivity|]. unfold giexec, exec_ops_cb in *. cbn [map fold_left].
  assert (E : gistep (fcb sem nlines cb) alias e o = exec1_cb sem (line_cb nlines cb) e (line_op alias o)).
  { unfold gistep, exec1_cb, fcb, semN, line_op, prim_or_buf. cbn [o_prim o_out o_i0 o_i1 o_i2 o_i3].
    pose proof (H o (or_introl eq_refl)) as K. destruct (prim_of_lut (s_lut o)); [reflexivity|congruence]. }
  rewrite E. apply IH. intros o' Ho'. apply H. right. exact Ho'.
Qed.

(** the call sequence of the model: the outputs of the (line-level) op list in op order, lines only *)
Lemma cb_lines_trace {V} (sem : prim -> V -> V -> V -> V -> V) cb' c so (e : env V) :
  cb_lines so = filter (fun k => Nat.ltb k (so_nlines so)) (map fst (cb_trace sem cb' (line_ops c so) e)).
Proof. rewrite cb_trace_outputs. unfold cb_lines, line_ops. rewrite map_map. reflexivity. Qed.

(** c_prop with callback on the list memory, read at an observed slot = the op-list callback semantics of Model/OpSem.v *)
Theorem model_callback_correct {V} (dflt : V) (sem : prim -> V -> V -> V -> V -> V) cb c caps cmin reuse strip so m (e : env V) :
  wf_netlist c -> comb_acyclic c -> (0 < cmin)%N -> gates_known c -> (strip = true -> forks_ok c) ->
  build c caps cmin reuse strip = Some so ->
  length m = N.to_nat (so_len so) ->
  (forall x l, In x (so_init so) -> so_loc so x = Some l -> nth l m dflt = e x) ->
  forall p, In p (so_final so) ->
    LogicSimModel.rd dflt so (c_prop_cb dflt sem cb so m) p
    = exec_ops_cb sem (line_cb (so_nlines so) cb) (line_ops c so) e (so_alias c so p).
Proof.
  intros WF AC Hc GK FK Hb Hlen Hm p Hp.
  destruct (build_glue c caps cmin reuse strip so WF AC Hc GK FK Hb) as (_ & _ & Eops & HL & _).
  pose proof (build_ops_known_so c caps cmin reuse strip so WF AC Hc GK FK Hb) as HK.
  assert (HL' : locs_ok so (length m)) by (rewrite Hlen; exact HL).
  destruct (c_prop_cb_refines dflt sem cb so m HK HL') as [_ R].
  pose proof (build_map_check_all c caps cmin reuse strip so WF AC Hc GK FK Hb) as K.
  pose proof (gmap_check_sound dflt (fcb sem (so_nlines so) cb) _ _ _ _ _ K e (absm dflt m) Hm p Hp) as X.
  unfold line_ops. rewrite <- (giexec_cb_exec sem (so_nlines so) cb (so_alias c so) (so_ops so) e HK), <- X.
  rewrite rd_mread. unfold mread. destruct (so_loc so p) as [l|]; [|reflexivity]. apply R.
Qed.

(** ... hence C16_override / C16_upstream transfer: a callback that alters the output of one op only = the rest of the circuit
    simulated with that signal driven by the overwritten value; everything scheduled before it is untouched *)
Theorem model_callback_override {V} (dflt : V) (sem : prim -> V -> V -> V -> V -> V) cb c caps cmin reuse strip so m (e : env V) ops1 o ops2 :
  wf_netlist c -> comb_acyclic c -> (0 < cmin)%N -> gates_known c -> (strip = true -> forks_ok c) ->
  build c caps cmin reuse strip = Some so ->
  length m = N.to_nat (so_len so) ->
  (forall x l, In x (so_init so) -> so_loc so x = Some l -> nth l m dflt = e x) ->
  line_ops c so = ops1 ++ o :: ops2 ->
  (forall o', In o' ops1 -> forall v, cb (o_out o') v = v) ->
  (forall o', In o' ops2 -> forall v, cb (o_out o') v = v) ->
  forall p, In p (so_final so) ->
    LogicSimModel.rd dflt so (c_prop_cb dflt sem cb so m) p
    = exec_ops sem ops2 (upd (exec_ops sem ops1 e) (o_out o)
        (line_cb (so_nlines so) cb (o_out o) (let e1 := exec_ops sem ops1 e in
                                               sem (o_prim o) (e1 (o_i0 o)) (e1 (o_i1 o)) (e1 (o_i2 o)) (e1 (o_i3 o))))) (so_alias c so p).
Proof.
  intros WF AC Hc GK FK Hb Hlen Hm Eo H1 H2 p Hp.
  rewrite (model_callback_correct dflt sem cb c caps cmin reuse strip so m e WF AC Hc GK FK Hb Hlen Hm p Hp), Eo.
  rewrite cb_override_single; [reflexivity| |].
  - intros o' Ho' v. unfold line_cb. rewrite (H1 o' Ho'). destruct (Nat.ltb _ _); reflexivity.
  - intros o' Ho' v. unfold line_cb. rewrite (H2 o' Ho'). destruct (Nat.ltb _ _); reflexivity.
Qed.

(** the full pipeline that is compared with LogicSim.c_prop(inject_cb=...): s_to_c from the cleared memory, c_prop with callback, c_to_s *)
Theorem model_callback_pipeline {V} (dflt : V) (sem : prim -> V -> V -> V -> V -> V) cb c caps cmin reuse strip so s0 s1 :
  wf_netlist c -> comb_acyclic c -> (0 < cmin)%N -> gates_known c -> (strip = true -> forks_ok c) ->
  build c caps cmin reuse strip = Some so ->
  length s0 = length (s_nodes c) -> length s1 = length (s_nodes c) ->
  let r := c_to_s dflt so (c_prop_cb dflt sem cb so (s_to_c so s0 (repeat dflt (N.to_nat (so_len so))))) s1 in
  let ev := exec_ops_cb sem (line_cb (so_nlines so) cb) (line_ops c so) (init_env dflt c (fun p => nth p s0 dflt)) in
  r = map (fun p => match snode_in c p with Some l0 => ev (stemmed (so_stems so) l0) | None => nth p s1 dflt end) (seq 0 (length (s_nodes c))).
Proof.
  intros WF AC Hc GK FK Hb Hs0 Hs1 r ev.
  destruct (build_glue c caps cmin reuse strip so WF AC Hc GK FK Hb) as (Enl & Eslen & Eops & HL & Hinj & Hz0 & Hzk & Hppo).
  cbv zeta in Hppo.
  assert (Eppi : so_ppi so = length (c_lines c) + 3) by (unfold so_ppi; rewrite Enl; reflexivity).
  assert (Eppo : so_ppo so = length (c_lines c) + 3 + length (s_nodes c)) by (unfold so_ppo; rewrite Enl, Eslen; reflexivity).
  set (m0 := repeat dflt (N.to_nat (so_len so))). set (m1 := s_to_c so s0 m0).
  assert (L0 : length m0 = N.to_nat (so_len so)) by apply repeat_length.
  assert (L1 : length m1 = N.to_nat (so_len so)) by (unfold m1; rewrite s_to_c_length; exact L0).
  assert (PInj : forall i j l', i < so_slen so -> j < so_slen so ->
            so_loc so (so_ppi so + i) = Some l' -> so_loc so (so_ppi so + j) = Some l' -> i = j).
  { intros i j l' Hi Hj Li Lj.
    pose proof (Hinj _ _ l' (ppi_in_init so i l' Hi Li) (ppi_in_init so j l' Hj Lj) Li Lj). lia. }
  assert (HM : forall x l, In x (so_init so) -> so_loc so x = Some l ->
            nth l m1 dflt = init_env dflt c (fun p => nth p s0 dflt) x).
  { intros x l Hx Lx. destruct (init_cases so x Hx) as [->|(i & Hi & ->)].
    - unfold m1. rewrite s_to_c_other.
      + unfold m0. rewrite nth_repeat_any. rewrite Enl. unfold init_env. cbv zeta.
        destruct (Nat.leb (length (c_lines c) + 3) (length (c_lines c))) eqn:E; [apply Nat.leb_le in E; lia|reflexivity].
      + intros i Hi Li. pose proof (Hinj _ _ l (ppi_in_init so i l Hi Li) (zero_in_init so) Li Lx) as X. rewrite Eppi, Enl in X. lia.
    - unfold m1. rewrite (s_to_c_ppi dflt so s0 m0 i l PInj Hi); [|rewrite Hs0, <- Eslen; exact Hi|exact Lx|rewrite L0; apply (HL _ _ Lx)].
      rewrite Eppi. unfold init_env. cbv zeta.
      destruct (Nat.leb (length (c_lines c) + 3) (length (c_lines c) + 3 + i)) eqn:E; [|apply Nat.leb_gt in E; lia].
      replace (length (c_lines c) + 3 + i - (length (c_lines c) + 3)) with i by lia. reflexivity. }
  unfold r. rewrite (c_to_s_eq dflt so _ s1) by (rewrite Hs1, Eslen; reflexivity). rewrite Eslen, Eppo.
  apply map_ext_in. intros p Hp. apply in_seq in Hp. assert (Hp' : p < length (s_nodes c)) by lia.
  pose proof (Hppo p Hp') as X. destruct (snode_in c p) as [l0|] eqn:Es; [|rewrite X; reflexivity].
  pose proof (model_callback_correct dflt sem cb c caps cmin reuse strip so m1 _ WF AC Hc GK FK Hb L1 HM _ X) as Y.
  unfold LogicSimModel.rd in Y. change (loc_of so) with (so_loc so) in Y.
  unfold so_final in X. apply filter_In in X. destruct X as [_ X].
  destruct (so_loc so (length (c_lines c) + 3 + length (s_nodes c) + p)) as [l|]; [|discriminate].
  fold m0. fold m1. rewrite Y. unfold ev. f_equal.
  unfold so_alias. rewrite Eppo. unfold snode_in in Es. apply Nat.ltb_lt in Hp'. rewrite Hp' in Es.
  replace (Nat.leb (length (c_lines c) + 3 + length (s_nodes c)) (length (c_lines c) + 3 + length (s_nodes c) + p)) with true
    by (symmetry; apply Nat.leb_le; lia).
  replace (length (c_lines c) + 3 + length (s_nodes c) + p - (length (c_lines c) + 3 + length (s_nodes c))) with p by lia.
  destruct (n_ins (get_node c (nth p (s_nodes c) 0))) as [|[x|] t]; try discriminate. injection Es as ->. reflexivity.
Qed.

(** C16, the correspondence-checked entry point *)
Theorem sim_case8_cb_correct c reuse strip s0 s1 il iv :
  wf_netlist c -> comb_acyclic c -> gates_known c -> (strip = true -> forks_ok c) ->
  length s0 = length (s_nodes c) -> length s1 = length (s_nodes c) ->
  match sim_case8_cb c reuse strip s0 s1 il iv, build c (repeat 1%N (length (c_lines c) + 3)) 1%N reuse strip with
  | Some (calls, r), Some so =>
      let cb := fun k v => if Nat.eqb k il then iv else v in
      let ev := exec_ops_cb sem8 (line_cb (so_nlines so) cb) (line_ops c so) (init_env Zero c (fun p => nth p s0 Zero)) in
      calls = filter (fun k => Nat.ltb k (so_nlines so))
                     (map fst (cb_trace sem8 (line_cb (so_nlines so) cb) (line_ops c so) (init_env Zero c (fun p => nth p s0 Zero)))) /\
      r = map (fun p => match snode_in c p with Some l0 => ev (stemmed (so_stems so) l0) | None => nth p s1 Zero end)
              (seq 0 (length (s_nodes c)))
  | None, None => build_stems c strip (std_len c) = None
  | _, _ => False
  end.
Proof.
  intros WF AC GK FK H0 H1. unfold sim_case8_cb.
  destruct (build c (repeat 1%N (length (c_lines c) + 3)) 1%N reuse strip) as [so|] eqn:Hb;
    [|apply (build_std_total c reuse strip WF AC GK FK Hb)].
  cbv zeta. split; [apply cb_lines_trace|].
  apply (model_callback_pipeline Zero sem8 _ c _ 1%N reuse strip so s0 s1 WF AC eq_refl GK FK Hb H0 H1).
Qed.

(** the side conditions of [c_prop_refines] / [c_prop_cb_refines], and what s_to_c / c_to_s do, for every [build] result *)
Theorem build_refinement_conditions c caps cmin reuse strip so :
  wf_netlist c -> comb_acyclic c -> (0 < cmin)%N -> gates_known c -> (strip = true -> forks_ok c) ->
  build c caps cmin reuse strip = Some so ->
  ops_known so /\ locs_ok so (N.to_nat (so_len so)) /\
  (forall V (dflt : V) (s0 m : list V) i l, i < so_slen so -> i < length s0 -> so_loc so (so_ppi so + i) = Some l ->
     length m = N.to_nat (so_len so) -> nth l (s_to_c so s0 m) dflt = nth i s0 dflt) /\
  (forall V (dflt : V) (s0 m : list V) lz, so_loc so (so_nlines so) = Some lz -> nth lz (s_to_c so s0 m) dflt = nth lz m dflt) /\
  (forall V (dflt : V) (m s1 : list V), length s1 = so_slen so ->
     c_to_s dflt so m s1 = map (fun p => match so_loc so (so_ppo so + p) with Some l => nth l m dflt | None => nth p s1 dflt end)
                               (seq 0 (so_slen so))).
Proof.
  intros WF AC Hc GK FK Hb.
  destruct (build_glue c caps cmin reuse strip so WF AC Hc GK FK Hb) as (Enl & Eslen & Eops & HL & Hinj & _).
  split; [apply (build_ops_known_so c caps cmin reuse strip so WF AC Hc GK FK Hb)|]. split; [exact HL|]. split; [|split].
  - intros V dflt s0 m i l Hi Hs Li Hm. apply (s_to_c_ppi dflt so s0 m i l); [|exact Hi|exact Hs|exact Li|rewrite Hm; apply (HL _ _ Li)].
    intros a b l' Ha Hb' La Lb. pose proof (Hinj _ _ l' (ppi_in_init so a l' Ha La) (ppi_in_init so b l' Hb' Lb) La Lb). lia.
  - intros V dflt s0 m lz Lz. apply s_to_c_other. intros i Hi Li.
    pose proof (Hinj _ _ lz (ppi_in_init so i lz Hi Li) (zero_in_init so) Li Lz) as X. unfold so_ppi in X. lia.
  - intros V dflt m s1 H. apply c_to_s_eq. exact H.
Qed.

(* ------------------------------------------------------------------------------------------------ *)
(** * Examples: the netlists of ReuseProofs.ReuseExample (fork, reconvergence, flip-flop) and CycleProofs.CycleExample (toggle
      flip-flop); every hypothesis about the netlist is discharged by the proved-sound checker [hyps_all_b] *)
Module GlueExample.
  Import ReuseExample CycleExample.

  Lemma exR_hyps : wf_netlist exR /\ comb_acyclic exR /\ gates_known exR /\ forks_ok exR.
  Proof. apply hyps_all_b_sound. vm_compute. reflexivity. Qed.
  Lemma tff_hyps : wf_netlist tff /\ comb_acyclic tff /\ gates_known tff /\ forks_ok tff.
  Proof. apply hyps_all_b_sound. vm_compute. reflexivity. Qed.

  (** G1 on exR with both options: locations 0..8, every opcode known *)
  Example exR_glue so : build exR (repeat 1%N 7) 1%N true true = Some so ->
    ops_known so /\ locs_ok so (N.to_nat (so_len so)) /\ so_len so = 9%N.
  Proof.
    intros Hb. destruct exR_hyps as (WF & AC & GK & FO).
    split; [apply (build_ops_known_so exR _ 1%N true true so WF AC eq_refl GK (fun _ => FO) Hb)|].
    split; [apply (build_glue exR _ 1%N true true so WF AC eq_refl GK (fun _ => FO) Hb)|].
    vm_compute in Hb. injection Hb as <-. reflexivity.
  Qed.

  (** G2 instantiated: any value domain in which BUF1 copies, any option combination, any stimulus *)
  Example exR_model {V} (dflt : V) sem reuse strip so s0 s1 : (forall x b cc d, sem BUF1 x b cc d = x) ->
    build exR (repeat 1%N 7) 1%N reuse strip = Some so -> length s0 = 3 -> length s1 = 3 ->
    simulate dflt sem so s0 s1
    = capture dflt exR (iexec (semN sem) (fun x => x) (build_ops exR false) (init_env dflt exR (fun p => nth p s0 dflt))) s1.
  Proof.
    intros Hbuf Hb H0 H1. destruct exR_hyps as (WF & AC & GK & FO).
    apply (logicsim_model_capture dflt sem exR _ 1%N reuse strip so s0 s1 WF AC eq_refl GK (fun _ => conj FO Hbuf) Hb H0 H1).
  Qed.

  (** the 8-valued entry point on a concrete stimulus (input = 1, flip-flop state = X): the output port shows the state, the
      flip-flop's data input is not(and(not a, a)) = 1 -- for all four option combinations, and by the theorem for every stimulus *)
  Example exR_sim8_runs :
    map (fun rs => sim_case8 exR (fst rs) (snd rs) [One; Rise; Unk] [Zero; Zero; Zero]) [(false, false); (true, false); (false, true); (true, true)]
    = repeat (Some [Zero; Unk; One]) 4.
  Proof. vm_compute. reflexivity. Qed.

  Example exR_sim8_by_theorem reuse strip s0 s1 r : length s0 = 3 -> length s1 = 3 -> sim_case8 exR reuse strip s0 s1 = Some r ->
    r = capture Zero exR (iexec (semN sem8) (fun x => x) (build_ops exR false) (init_env Zero exR (fun p => nth p s0 Zero))) s1.
  Proof.
    intros H0 H1 E. destruct exR_hyps as (WF & AC & GK & FO).
    pose proof (sim_case8_correct exR reuse strip s0 s1 WF AC GK (fun _ => FO) H0 H1) as X. rewrite E in X. apply X.
  Qed.

  (** G3 on the toggle flip-flop: four cycles with en = 1 under all option combinations, and the theorem for every k and stimulus *)
  Example tff_sim2_runs :
    map (fun rs => sim_case2 tff (fst rs) (snd rs) 4 [true; false; false] [false; false; false]) [(false, false); (true, false); (false, true); (true, true)]
    = repeat (Some ([true; false; false], [false; true; false])) 4.
  Proof. vm_compute. reflexivity. Qed.

  Example tff_sim2_by_theorem reuse strip k s0 s1 r : length s0 = 3 -> length s1 = 3 -> sim_case2 tff reuse strip k s0 s1 = Some r ->
    r = line_cycles sem_lut false tff k (s0, s1) /\ iter_sem sem_lut false tff k s0 s1 (fst r) (snd r).
  Proof.
    intros H0 H1 E. destruct tff_hyps as (WF & AC & GK & FO).
    pose proof (sim_case2_correct tff reuse strip k s0 s1 WF AC GK (fun _ => FO) H0 H1) as X. rewrite E in X. exact X.
  Qed.

  (** G4 on exR (c_reuse and strip_forks on): line 0 forced to a falling transition; the callback is called for the five lines that
      ops drive (the stripped branches 1, 2 are not evaluated); the flip-flop captures not(and(not F, F)) *)
  Example exR_cb_runs : sim_case8_cb exR true true [One; Rise; Unk] [Zero; Zero; Zero] 0 Fall = Some ([0; 6; 3; 4; 5], [Zero; Unk; NP]).
  Proof. vm_compute. reflexivity. Qed.

  Example exR_cb_by_theorem reuse strip so s0 s1 il iv calls r : length s0 = 3 -> length s1 = 3 ->
    build exR (repeat 1%N 10) 1%N reuse strip = Some so -> sim_case8_cb exR reuse strip s0 s1 il iv = Some (calls, r) ->
    let cb := line_cb (so_nlines so) (fun k v => if Nat.eqb k il then iv else v) in
    let e0 := init_env Zero exR (fun p => nth p s0 Zero) in
    calls = filter (fun k => Nat.ltb k (so_nlines so)) (map fst (cb_trace sem8 cb (line_ops exR so) e0)) /\
    r = map (fun p => match snode_in exR p with Some l0 => exec_ops_cb sem8 cb (line_ops exR so) e0 (stemmed (so_stems so) l0) | None => nth p s1 Zero end)
            (seq 0 3).
  Proof.
    intros H0 H1 Hb E. destruct exR_hyps as (WF & AC & GK & FO).
    pose proof (sim_case8_cb_correct exR reuse strip s0 s1 il iv WF AC GK (fun _ => FO) H0 H1) as X.
    rewrite E in X. change (repeat 1%N (length (c_lines exR) + 3)) with (repeat 1%N 10) in X. rewrite Hb in X. exact X.
  Qed.
End GlueExample.

Print Assumptions c_prop_refines.
Print Assumptions build_glue.
Print Assumptions build_refinement_conditions.
Print Assumptions logicsim_model_correct.
Print Assumptions logicsim_model_capture.
Print Assumptions cycles_model_correct.
Print Assumptions sim_case2_correct.
Print Assumptions sim_case8_correct.
Print Assumptions model_callback_correct.
Print Assumptions model_callback_override.
Print Assumptions sim_case8_cb_correct.
Print Assumptions GlueExample.exR_cb_by_theorem.
