(** C06, timing-simulation clauses.
    B  a zero-delay BUF1 evaluation is the identity on strictly increasing waveforms that fit into the output region
       ([buf_zero_delay_identity]); what it does when the region is too small ([buf_zero_delay_overflow]) and that it is NOT the
       identity on a waveform that is not strictly increasing ([buf_zero_delay_nonmonotone_refuted], known finding D26);
    S  fork stripping: the stripped op list read through the stem alias ([wexec_alias]) computes at the stem of every line the
       waveform the unstripped op list ([wexec]) computes at that line ([wave_strip_forks_irrelevant], its corollary for
       polarity-free delays [wave_strip_forks_polfree], and a refutation without the monotonicity hypothesis);
    D  delay-dataset selection ([dataset_selection], [dataset_selection_lanes]). *)
From Coq Require Import List ZArith NArith Bool Arith Lia String.
From KV Require Import Model.Prims Model.Netlist Model.NetlistWf Model.Heap Model.SimOps Model.AllocCheck Model.NetlistSem
     Model.NetlistSemGen Model.Time Model.WaveEval Model.WaveSpec Model.WaveOps Model.WaveSimModel Model.WaveAcc Model.WaveStripModel
     Gen.SimTables Proofs.TopoProofs Proofs.WfCheck Proofs.WaveCore Proofs.WaveEquiv Proofs.WaveCircuit Proofs.WaveCircuit2 Proofs.SemProofs Proofs.SemCompose
     Proofs.SemGen.
Import ListNotations.
Local Open Scope list_scope.

(* ------------------------------------------------------------------ *)
(** * Small facts *)

Lemma tadd_0 t : tadd t 0 = t.
Proof. destruct t; cbn; rewrite ?Z.add_0_r; reflexivity. Qed.

Lemma dget_dzero i j : dget dzero i j = 0%Z.
Proof. destruct i, j; reflexivity. Qed.

Lemma min4_buf t : min4 [t; MaxInf; MaxInf; MaxInf] = if is_end t then MaxInf else t.
Proof. destruct t; reflexivity. Qed.

Lemma ite_end_false t : is_end (if is_end t then MaxInf else t) = false -> is_end t = false.
Proof. destruct (is_end t) eqn:E; cbn; congruence. Qed.
Lemma ite_end_true t : is_end (if is_end t then MaxInf else t) = true -> is_end t = true.
Proof. destruct (is_end t) eqn:E; cbn; congruence. Qed.

Lemma max4_buf t : is_end t = true -> max4 [t; MaxInf; MaxInf; MaxInf] = t.
Proof. destruct t; intros H; try discriminate H; reflexivity. Qed.

Lemma gap_of_lt p x : tltb p x = true -> is_end x = false -> gap_gt x p 0 = true.
Proof.
  destruct p, x; cbn; intros H He; try discriminate; try reflexivity.
  apply Z.ltb_lt in H. apply Z.ltb_lt. lia.
Qed.

Lemma upto_end_idem w : upto_end (upto_end w) = upto_end w.
Proof.
  induction w as [|t r IH]; [reflexivity|]. cbn [upto_end]. destruct (is_end t) eqn:E; cbn [upto_end]; rewrite E; [reflexivity|].
  f_equal. exact IH.
Qed.

(** two waveforms that agree up to and including the terminator of the first are the same waveform *)
Lemma upto_end_ext : forall w z, ntrans w < List.length w -> ntrans w < List.length z ->
  (forall i, i <= ntrans w -> wget z i = wget w i) -> upto_end z = upto_end w.
Proof.
  induction w as [|t r IH]; intros z Hl Hz H; [simpl in Hl; lia|].
  destruct z as [|u s]; [simpl in Hz; lia|].
  pose proof (H 0 ltac:(lia)) as H0. cbn in H0. subst u.
  cbn [upto_end ntrans] in *. destruct (is_end t); [reflexivity|]. f_equal.
  apply IH; [simpl in Hl; lia|simpl in Hz; lia|]. intros i Hi. apply (H (S i)). lia.
Qed.

(** a region that holds the non-terminator entries [l] followed by a terminator [T] *)
Lemma upto_end_char : forall l z T, Forall (fun t => is_end t = false) l -> is_end T = true ->
  List.length l < List.length z -> (forall i, i < List.length l -> wget z i = nth i l MaxInf) -> wget z (List.length l) = T ->
  upto_end z = l ++ [T].
Proof.
  induction l as [|a l IH]; intros z T Hf HT Hlen H HT'.
  - destruct z as [|u s]; [simpl in Hlen; lia|]. cbn in HT'. subst u. cbn. rewrite HT. reflexivity.
  - destruct z as [|u s]; [simpl in Hlen; lia|]. inversion Hf as [|? ? Ha Hf']; subst.
    pose proof (H 0 ltac:(simpl; lia)) as H0. cbn in H0. subst u. cbn [upto_end app]. rewrite Ha. f_equal.
    apply IH; auto.
    + simpl in Hlen. lia.
    + intros i Hi. apply (H (S i)). simpl. lia.
Qed.

Lemma nth_firstn_lt {A} (d : A) : forall k l i, i < k -> nth i (firstn k l) d = nth i l d.
Proof.
  induction k as [|k IH]; intros l i Hi; [lia|]. destruct l as [|a l]; [destruct i; reflexivity|].
  destruct i as [|i]; [reflexivity|]. cbn. apply IH. lia.
Qed.

Lemma firstn_body_nonend w k : k <= ntrans w -> Forall (fun t => is_end t = false) (firstn k w).
Proof.
  revert w. induction k as [|k IH]; intros w Hk; [constructor|].
  destruct w as [|t r]; [simpl in Hk; lia|]. cbn [ntrans] in Hk. destruct (is_end t) eqn:E; [lia|].
  cbn [firstn]. constructor; [exact E|]. apply IH. lia.
Qed.

Lemma edges_upto_end w : edges (upto_end w) = edges w.
Proof. rewrite !edges_spec, WaveEquiv.ntrans_upto_end, WaveEquiv.hd_upto_end. reflexivity. Qed.

Lemma edges_of_upto_end w z : upto_end z = upto_end w -> edges z = edges w.
Proof. intros H. rewrite <- (edges_upto_end z), H. apply edges_upto_end. Qed.

(* ------------------------------------------------------------------ *)
(** * B: one step of a BUF1 evaluation whose operands 1..3 are constant *)

(** what matters of the BUF1 look-up table (0xAAAA): output 0 for row 0, 1 for row 1 *)
Definition buf_lut (lut : N) : Prop := N.odd lut = false /\ N.testbit lut 0 = false /\ N.testbit lut 1 = true.
Lemma buf1_is_buf_lut : buf_lut (lutv "BUF1").
Proof. vm_compute. auto. Qed.

(** constant-0 operand: the first entry is already the plain terminator *)
Definition const0 (z : list time) : Prop := wget z 0 = MaxInf.
Lemma wzero_const0 : const0 wzero.
Proof. reflexivity. Qed.

Section Buf.
Variables (lut : N) (w z1 z2 z3 : list time) (d1 d2 d3 : dtab) (zcap : nat).
Hypothesis Hlut : buf_lut lut.
Hypothesis Hz1 : const0 z1.
Hypothesis Hz2 : const0 z2.
Hypothesis Hz3 : const0 z3.
Notation ws := [w; z1; z2; z3].
Notation ds := [dzero; d1; d2; d3].

Lemma buf_pending c zv : pending ws ds [c; 0; 0; 0] zv = [wget w c; MaxInf; MaxInf; MaxInf].
Proof.
  unfold pending. cbn [map nth]. unfold const0 in *. rewrite Hz1, Hz2, Hz3, dget_dzero, tadd_0. reflexivity.
Qed.

Definition buf_next (c : nat) (i : N) (za : list time) (zc : nat) (zv : bool) (pv : time) (ov : nat) : wst :=
  let t := wget w c in
  let i' := N.lxor i 1 in
  if negb (Bool.eqb (Nat.odd zc) (N.testbit lut i')) then
    let '(z', zc', pv', ov') :=
      if Nat.eqb zc 0 || tltb (wget w (S c)) t || gap_gt t pv 0 then
        if Nat.ltb zc (zcap - 1) then (wset za zc t, S zc, t, ov) else (za, zc - 1, wget za (zc - 1), S ov)
      else (za, zc - 1, (if Nat.ltb 0 (zc - 1) then wget za (zc - 2) else MinInf), ov) in
    {| cur4 := [S c; 0; 0; 0]; inputs := i'; zarr := z'; zcur := zc'; zval := negb zv; prev := pv'; ovf := ov' |}
  else {| cur4 := [S c; 0; 0; 0]; inputs := i'; zarr := za; zcur := zc; zval := zv; prev := pv; ovf := ov |}.

Lemma buf_step c i za zc zv pv ov : is_end (wget w c) = false ->
  step lut ws ds zcap {| cur4 := [c; 0; 0; 0]; inputs := i; zarr := za; zcur := zc; zval := zv; prev := pv; ovf := ov |}
  = buf_next c i za zc zv pv ov.
Proof.
  intros He. unfold step, buf_next. cbv zeta. cbn [cur4 inputs zarr zcur zval prev ovf].
  rewrite buf_pending, min4_buf, He. cbn [firstn first_eq]. rewrite WaveEquiv.teqb_refl. cbn [incr_nth nth].
  change (N.shiftl 1 (N.of_nat 0)) with 1%N. rewrite !dget_dzero, !tadd_0. reflexivity.
Qed.

Lemma buf_cur_t c i za zc zv pv ov :
  cur_t ws ds {| cur4 := [c; 0; 0; 0]; inputs := i; zarr := za; zcur := zc; zval := zv; prev := pv; ovf := ov |}
  = if is_end (wget w c) then MaxInf else wget w c.
Proof. unfold cur_t, pend. cbn [cur4 zval]. rewrite buf_pending. apply min4_buf. Qed.

(** the row addressed after c toggles of operand 0 *)
Lemma buf_row c : N.testbit lut (N.lxor (N.b2n (Nat.odd c)) 1) = negb (Nat.odd c).
Proof. destruct Hlut as (_ & H0 & H1). destruct (Nat.odd c); cbn; [exact H0|exact H1]. Qed.
Lemma buf_inputs c : N.lxor (N.b2n (Nat.odd c)) 1 = N.b2n (Nat.odd (S c)).
Proof. rewrite WaveCore.odd_S. destruct (Nat.odd c); reflexivity. Qed.
Lemma buf_row0 c : N.testbit lut (N.b2n (Nat.odd c)) = Nat.odd c.
Proof. destruct Hlut as (_ & H0 & H1). destruct (Nat.odd c); cbn; [exact H1|exact H0]. Qed.
End Buf.

(* ------------------------------------------------------------------ *)
(** * B1: the identity case *)

Section BufId.
Variables (lut : N) (w z1 z2 z3 : list time) (d1 d2 d3 : dtab) (zreg : list time).
Hypothesis Hlut : buf_lut lut.
Hypothesis Hz1 : const0 z1.
Hypothesis Hz2 : const0 z2.
Hypothesis Hz3 : const0 z3.
Hypothesis Hsi : strictly_increasing w.
Notation ws := [w; z1; z2; z3].
Notation ds := [dzero; d1; d2; d3].
Notation zcap := (List.length zreg).
Notation n := (ntrans w).

Definition prev_of (c : nat) : time := match c with 0 => MinInf | S c' => wget w c' end.

(** phase 1: c transitions consumed, c transitions stored, nothing dropped *)
Definition P1 (st : wst) : Prop :=
  exists c, c <= n /\ cur4 st = [c; 0; 0; 0] /\ inputs st = N.b2n (Nat.odd c) /\ zcur st = c /\ ovf st = 0 /\
            prev st = prev_of c /\ forall i, i < c -> wget (zarr st) i = wget w i.

Lemma P1_init : P1 (init_st lut zreg).
Proof.
  destruct Hlut as (Ho & _). unfold init_st. rewrite Ho. exists 0. cbn [cur4 inputs zarr zcur zval prev ovf].
  repeat split; try reflexivity; try lia.
Qed.

(** the pulse filter lets transition c of a strictly increasing waveform pass *)
Lemma gap_ok c pv : c < n -> pv = prev_of c -> Nat.eqb c 0 || tltb (wget w (S c)) (wget w c) || gap_gt (wget w c) pv 0 = true.
Proof.
  intros Hc ->. destruct c as [|c]; [reflexivity|]. cbn [prev_of].
  rewrite (gap_of_lt (wget w c) (wget w (S c))); [apply orb_true_r| |].
  - apply Hsi; lia.
  - apply WaveEquiv.wget_lt_ntrans. exact Hc.
Qed.

Lemma P1_step st : Inv lut ws zcap st -> P1 st -> is_end (cur_t ws ds st) = false ->
  zcur st < zcap - 1 -> P1 (stp lut ws ds zcap st).
Proof.
  intros HI (c & Hc & H4 & Hin & Hzc & Hov & Hpv & Hz) He Hroom.
  destruct st as [cu inp za zc zv pv ov]. cbn [cur4 inputs zarr zcur zval prev ovf] in *. subst cu inp zc ov.
  rewrite (buf_cur_t w z1 z2 z3 d1 d2 d3 Hz1 Hz2 Hz3) in He.
  assert (Hne : is_end (wget w c) = false) by (apply ite_end_false; exact He).
  assert (Hlt : c < n) by (apply WaveEquiv.lt_ntrans; assumption).
  unfold stp. rewrite (buf_step lut w z1 z2 z3 d1 d2 d3 zcap Hz1 Hz2 Hz3) by exact Hne.
  unfold buf_next. cbv zeta. rewrite (buf_row lut Hlut), (gap_ok c pv Hlt Hpv).
  replace (negb (Bool.eqb (Nat.odd c) (negb (Nat.odd c)))) with true by (destruct (Nat.odd c); reflexivity).
  apply Nat.ltb_lt in Hroom. rewrite Hroom.
  exists (S c). cbn [cur4 inputs zarr zcur zval prev ovf]. split; [lia|]. split; [reflexivity|].
  split; [apply buf_inputs|]. split; [reflexivity|]. split; [reflexivity|]. split; [reflexivity|].
  intros i Hi. pose proof (i_zlen _ _ _ _ HI) as Hlen. cbn [zarr] in Hlen. apply Nat.ltb_lt in Hroom.
  destruct (Nat.eq_dec i c) as [->|Hic].
  - apply WaveCore.wget_wset_eq. lia.
  - rewrite WaveCore.wget_wset_neq by lia. apply Hz. lia.
Qed.

(** the exit state of phase 1 stores [w] up to its terminator *)
Lemma P1_exit st : wf_wave w -> Inv lut ws zcap st -> P1 st -> is_end (cur_t ws ds st) = true ->
  upto_end (z_of ws ds st) = upto_end w /\ ovf st = 0.
Proof.
  intros Hwf HI (c & Hc & H4 & Hin & Hzc & Hov & Hpv & Hz) He.
  pose proof (i_zlen _ _ _ _ HI) as Hlen. pose proof (i_zcur _ _ _ _ HI) as Hzlt.
  destruct st as [cu inp za zc zv pv ov]. cbn [cur4 inputs zarr zcur zval prev ovf] in *. subst cu inp zc ov.
  rewrite (buf_cur_t w z1 z2 z3 d1 d2 d3 Hz1 Hz2 Hz3) in He.
  assert (Hend : is_end (wget w c) = true) by (apply ite_end_true; exact He).
  assert (Hcn : c = n).
  { destruct (Nat.eq_dec c n) as [E|E]; [exact E|]. rewrite WaveEquiv.wget_lt_ntrans in Hend by lia. discriminate. }
  subst c. split; [|reflexivity].
  unfold WaveCore.z_of, WaveCore.term_of, WaveCore.pend. cbn [cur4 inputs zarr zcur zval prev ovf]. cbn [Nat.ltb Nat.leb].
  rewrite (buf_pending w z1 z2 z3 d1 d2 d3 Hz1 Hz2 Hz3), (max4_buf _ Hend).
  apply upto_end_ext.
  - apply Hwf.
  - rewrite WaveCore.wset_length. lia.
  - intros i Hi. destruct (Nat.eq_dec i n) as [->|Hin].
    + apply WaveCore.wget_wset_eq. lia.
    + rewrite WaveCore.wget_wset_neq by lia. apply Hz. lia.
Qed.
End BufId.

(** B1.  BUF1 (any table with rows 0 -> 0, 1 -> 1) over [w] and three constant-0 operands, zero delay table on [w]:
    if [w] is well formed and strictly increasing and has fewer transitions than the output region has entries, the stored
    waveform IS [w] (up to the terminator, which is preserved: TMAX stays TMAX, TMAX_OVL stays TMAX_OVL), nothing is dropped,
    and the returned counts are the transitions of [w]. *)
Theorem buf_zero_delay_identity lut w z1 z2 z3 d1 d2 d3 zreg r :
  buf_lut lut -> const0 z1 -> const0 z2 -> const0 z3 ->
  WaveCore.wf_args [w; z1; z2; z3] [dzero; d1; d2; d3] zreg ->
  strictly_increasing w -> ntrans w < List.length zreg ->
  wave_eval lut [w; z1; z2; z3] [dzero; d1; d2; d3] zreg = Some r ->
  upto_end (r_z r) = upto_end w /\ r_ovf r = 0 /\ (r_rise r, r_fall r) = edges w.
Proof.
  intros Hlut Hz1 Hz2 Hz3 Hwf Hsi Hfit Hev.
  assert (Hw : wf_wave w) by (apply (wf_args_ws _ _ _ Hwf 0); lia).
  destruct (wave_run lut _ _ zreg r (fun st => P1 w st /\ zcur st <= ntrans w) Hwf Hev) as (st & HI & (HP & _) & He & Hr).
  - split; [apply P1_init; exact Hlut|]. destruct Hlut as (Ho & _). unfold init_st. rewrite Ho. cbn. lia.
  - intros st HI (HP & _) He.
    assert (Hroom : zcur st < List.length zreg - 1).
    { destruct HP as (c & Hc & H4 & _ & Hzc & _). rewrite Hzc.
      destruct st as [cu inp za zc zv pv ov]. cbn [cur4 zcur] in *. subst cu.
      rewrite (buf_cur_t w z1 z2 z3 d1 d2 d3 Hz1 Hz2 Hz3) in He.
      assert (Hne : is_end (wget w c) = false) by (apply ite_end_false; exact He).
      pose proof (WaveEquiv.lt_ntrans w c Hc Hne). lia. }
    pose proof (P1_step lut w z1 z2 z3 d1 d2 d3 zreg Hlut Hz1 Hz2 Hz3 Hsi st HI HP He Hroom) as HP'.
    split; [exact HP'|]. destruct HP' as (c & Hc & _ & _ & Hzc & _). lia.
  - destruct (P1_exit lut w z1 z2 z3 d1 d2 d3 zreg Hz1 Hz2 Hz3 st Hw HI HP He) as (Hz & Hov).
    assert (Hzr : upto_end (r_z r) = upto_end w) by (rewrite Hr; exact Hz).
    split; [exact Hzr|]. split; [rewrite Hr; exact Hov|].
    rewrite (wsa_counts _ _ _ _ _ Hwf Hev). apply edges_of_upto_end. exact Hzr.
Qed.

Print Assumptions buf_zero_delay_identity.

(* ------------------------------------------------------------------ *)
(** * B2: the output region is too small *)

Section BufOvf.
Variables (lut : N) (w z1 z2 z3 : list time) (d1 d2 d3 : dtab) (zreg : list time).
Hypothesis Hlut : buf_lut lut.
Hypothesis Hz1 : const0 z1.
Hypothesis Hz2 : const0 z2.
Hypothesis Hz3 : const0 z3.
Hypothesis Hsi : strictly_increasing w.
Notation ws := [w; z1; z2; z3].
Notation ds := [dzero; d1; d2; d3].
Notation zcap := (List.length zreg).
Notation n := (ntrans w).
Hypothesis Hcap4 : 4 <= zcap.

(** phase 2: after the first overflow the region holds w[0 .. cap-3], and entry cap-2 alternates between "free" (an even
    number of transitions behind the region's end: the last stored pair was dropped) and "holds the latest transition" *)
Definition P2 (st : wst) : Prop :=
  exists c j, c <= n /\ cur4 st = [c; 0; 0; 0] /\ inputs st = N.b2n (Nat.odd c) /\ ovf st = S j /\
    (forall i, i < zcap - 2 -> wget (zarr st) i = wget w i) /\
    ((c = zcap + 2 * j /\ zcur st = zcap - 2 /\ prev st = wget w (c - 2)) \/
     (c = zcap + 2 * j + 1 /\ zcur st = zcap - 1 /\ prev st = wget w (c - 1) /\ wget (zarr st) (zcap - 2) = wget w (c - 1))).

Definition PB (st : wst) : Prop := (P1 w st /\ zcur st <= zcap - 1) \/ P2 st.

Lemma PB_step st : Inv lut ws zcap st -> PB st -> is_end (cur_t ws ds st) = false -> PB (stp lut ws ds zcap st).
Proof.
  intros HI [[HP Hle]|HP] He.
  - destruct (Nat.eq_dec (zcur st) (zcap - 1)) as [Hfull|Hroom].
    + (* the region is full: first overflow *)
      right. destruct HP as (c & Hc & H4 & Hin & Hzc & Hov & Hpv & Hz).
      destruct st as [cu inp za zc zv pv ov]. cbn [cur4 inputs zarr zcur zval prev ovf] in *. subst cu inp zc ov.
      rewrite (buf_cur_t w z1 z2 z3 d1 d2 d3 Hz1 Hz2 Hz3) in He. apply ite_end_false in He.
      assert (Hlt : c < n) by (apply WaveEquiv.lt_ntrans; assumption).
      unfold stp. rewrite (buf_step lut w z1 z2 z3 d1 d2 d3 zcap Hz1 Hz2 Hz3) by exact He.
      unfold buf_next. cbv zeta. rewrite (buf_row lut Hlut), (gap_ok w Hsi c pv Hlt Hpv).
      replace (negb (Bool.eqb (Nat.odd c) (negb (Nat.odd c)))) with true by (destruct (Nat.odd c); reflexivity).
      replace (Nat.ltb c (zcap - 1)) with false by (symmetry; apply Nat.ltb_ge; lia).
      exists (S c), 0. cbn [cur4 inputs zarr zcur zval prev ovf]. split; [lia|]. split; [reflexivity|].
      split; [apply buf_inputs; exact Hlut|]. split; [reflexivity|]. split; [intros i Hi; apply Hz; lia|].
      left. split; [lia|]. split; [lia|]. rewrite Hz by lia. f_equal; lia.
    + left. assert (Hr : zcur st < zcap - 1) by lia.
      pose proof (P1_step lut w z1 z2 z3 d1 d2 d3 zreg Hlut Hz1 Hz2 Hz3 Hsi st HI HP He Hr) as HP'.
      split; [exact HP'|]. destruct HP as (c & _ & _ & _ & Hzc & _).
      destruct HP' as (c' & _ & _ & _ & Hzc' & _).
      (* the new cursor is the old one plus one *)
      destruct st as [cu inp za zc zv pv ov]. cbn [zcur] in *.
      revert Hzc'. unfold stp, step. cbv zeta. cbn [zcur].
      repeat match goal with |- context [if ?b then _ else _] => destruct b end; cbn [zcur]; lia.
  - right. destruct HP as (c & j & Hc & H4 & Hin & Hov & Hz & Hcase).
    pose proof (i_par _ _ _ _ HI) as Hpar. pose proof (i_zlen _ _ _ _ HI) as Hlen.
    destruct st as [cu inp za zc zv pv ov]. cbn [cur4 inputs zarr zcur zval prev ovf] in *. subst cu inp ov.
    rewrite (buf_row0 lut Hlut) in Hpar.
    rewrite (buf_cur_t w z1 z2 z3 d1 d2 d3 Hz1 Hz2 Hz3) in He. apply ite_end_false in He.
    assert (Hlt : c < n) by (apply WaveEquiv.lt_ntrans; assumption).
    unfold stp. rewrite (buf_step lut w z1 z2 z3 d1 d2 d3 zcap Hz1 Hz2 Hz3) by exact He.
    unfold buf_next. cbv zeta. rewrite (buf_row lut Hlut), Hpar.
    replace (negb (Bool.eqb (Nat.odd c) (negb (Nat.odd c)))) with true by (destruct (Nat.odd c); reflexivity).
    assert (Hgap : forall b, b < c -> pv = wget w b -> Nat.eqb zc 0 || tltb (wget w (S c)) (wget w c) || gap_gt (wget w c) pv 0 = true).
    { intros b Hb ->. rewrite (gap_of_lt (wget w b) (wget w c)); [apply orb_true_r| |exact He]. apply Hsi; lia. }
    destruct Hcase as [(Ec & Ezc & Epv)|(Ec & Ezc & Epv & Elast)].
    + rewrite (Hgap (c - 2)) by (lia || exact Epv). subst zc.
      replace (Nat.ltb (zcap - 2) (zcap - 1)) with true by (symmetry; apply Nat.ltb_lt; lia).
      exists (S c), j. cbn [cur4 inputs zarr zcur zval prev ovf]. split; [lia|]. split; [reflexivity|].
      split; [apply buf_inputs; exact Hlut|]. split; [reflexivity|].
      split; [intros i Hi; rewrite WaveCore.wget_wset_neq by lia; apply Hz; lia|].
      right. split; [lia|]. split; [lia|]. replace (S c - 1) with c by lia. split; [reflexivity|].
      apply WaveCore.wget_wset_eq. lia.
    + rewrite (Hgap (c - 1)) by (lia || exact Epv). subst zc.
      replace (Nat.ltb (zcap - 1) (zcap - 1)) with false by (symmetry; apply Nat.ltb_irrefl).
      exists (S c), (S j). cbn [cur4 inputs zarr zcur zval prev ovf]. split; [lia|]. split; [reflexivity|].
      split; [apply buf_inputs; exact Hlut|]. split; [reflexivity|]. split; [exact Hz|].
      left. split; [lia|]. split; [lia|]. replace (zcap - 1 - 1) with (zcap - 2) by lia. rewrite Elast. f_equal; lia.
Qed.

Lemma PB_exit st : wf_wave w -> zcap <= n -> Inv lut ws zcap st -> PB st -> is_end (cur_t ws ds st) = true ->
  exists j, ovf st = S j /\
    ((n = zcap + 2 * j /\ upto_end (z_of ws ds st) = firstn (zcap - 2) w ++ [MaxOvl]) \/
     (n = zcap + 2 * j + 1 /\ upto_end (z_of ws ds st) = firstn (zcap - 2) w ++ [wget w (n - 1); MaxOvl])).
Proof.
  intros Hwf Hsmall HI HPB He. pose proof (i_zlen _ _ _ _ HI) as Hlen.
  assert (Hcn : forall c, c <= n -> cur4 st = [c; 0; 0; 0] -> c = n).
  { intros c Hc H4. destruct st as [cu inp za zc zv pv ov]. cbn [cur4] in H4. subst cu.
    rewrite (buf_cur_t w z1 z2 z3 d1 d2 d3 Hz1 Hz2 Hz3) in He. apply ite_end_true in He.
    destruct (Nat.eq_dec c n) as [E|E]; [exact E|]. rewrite WaveEquiv.wget_lt_ntrans in He by lia. discriminate. }
  destruct HPB as [[(c & Hc & H4 & _ & Hzc & _) Hle]|(c & j & Hc & H4 & Hin & Hov & Hz & Hcase)].
  - pose proof (Hcn c Hc H4). lia.
  - pose proof (Hcn c Hc H4) as ->. exists j. split; [exact Hov|].
    pose proof (WaveCore.ntrans_le_length w) as Hnl.
    assert (Hfl : List.length (firstn (zcap - 2) w) = zcap - 2) by (apply firstn_length_le; lia).
    assert (Hpre : forall z i, i < zcap - 2 -> wget z i = wget w i -> wget z i = nth i (firstn (zcap - 2) w) MaxInf).
    { intros z i Hi ->. unfold wget. symmetry. apply nth_firstn_lt. exact Hi. }
    destruct st as [cu inp za zc zv pv ov]. cbn [cur4 inputs zarr zcur zval prev ovf] in *. subst ov.
    unfold WaveCore.z_of, WaveCore.term_of. cbn [cur4 inputs zarr zcur zval prev ovf]. cbn [Nat.ltb Nat.leb].
    destruct Hcase as [(Ec & Ezc & Epv)|(Ec & Ezc & Epv & Elast)]; subst zc; [left|right]; (split; [exact Ec|]).
    + apply upto_end_char.
      * apply firstn_body_nonend. lia.
      * reflexivity.
      * rewrite WaveCore.wset_length, Hfl. lia.
      * rewrite Hfl. intros i Hi. apply Hpre; [exact Hi|]. rewrite WaveCore.wget_wset_neq by lia. apply Hz. exact Hi.
      * rewrite Hfl. apply WaveCore.wget_wset_eq. lia.
    + change (firstn (zcap - 2) w ++ [wget w (n - 1); MaxOvl]) with (firstn (zcap - 2) w ++ [wget w (n - 1)] ++ [MaxOvl]).
      rewrite app_assoc.
      assert (Hl2 : List.length (firstn (zcap - 2) w ++ [wget w (n - 1)]) = zcap - 1) by (rewrite app_length, Hfl; simpl; lia).
      apply upto_end_char.
      * apply Forall_app. split; [apply firstn_body_nonend; lia|]. constructor; [|constructor].
        apply WaveEquiv.wget_lt_ntrans. lia.
      * reflexivity.
      * rewrite WaveCore.wset_length, Hl2. lia.
      * rewrite Hl2. intros i Hi. rewrite WaveCore.wget_wset_neq by lia.
        destruct (Nat.eq_dec i (zcap - 2)) as [->|Hne].
        -- rewrite Elast, app_nth2 by lia. rewrite Hfl, Nat.sub_diag. reflexivity.
        -- rewrite app_nth1 by lia. apply Hpre; [lia|]. apply Hz. lia.
      * rewrite Hl2. apply WaveCore.wget_wset_eq. lia.
Qed.
End BufOvf.

(** B2.  Same evaluation, but the region has at most as many entries as [w] has transitions: the first cap-2 transitions are
    kept, the last stored pair is dropped again and again (overflow count j+1), the very last transition is kept iff that is
    needed for the final value, and the terminator is TMAX_OVL. *)
Theorem buf_zero_delay_overflow lut w z1 z2 z3 d1 d2 d3 zreg r :
  buf_lut lut -> const0 z1 -> const0 z2 -> const0 z3 ->
  WaveCore.wf_args [w; z1; z2; z3] [dzero; d1; d2; d3] zreg ->
  strictly_increasing w -> List.length zreg <= ntrans w ->
  wave_eval lut [w; z1; z2; z3] [dzero; d1; d2; d3] zreg = Some r ->
  exists j, r_ovf r = S j /\
    ((ntrans w = List.length zreg + 2 * j /\ upto_end (r_z r) = firstn (List.length zreg - 2) w ++ [MaxOvl]) \/
     (ntrans w = List.length zreg + 2 * j + 1 /\
      upto_end (r_z r) = firstn (List.length zreg - 2) w ++ [wget w (ntrans w - 1); MaxOvl])).
Proof.
  intros Hlut Hz1 Hz2 Hz3 Hwf Hsi Hsmall Hev.
  assert (Hw : wf_wave w) by (apply (wf_args_ws _ _ _ Hwf 0); lia).
  pose proof (wf_args_cap _ _ _ Hwf) as Hcap.
  destruct (wave_run lut _ _ zreg r (PB w zreg) Hwf Hev) as (st & HI & HP & He & Hr).
  - left. split; [apply P1_init; exact Hlut|]. destruct Hlut as (Ho & _). unfold init_st. rewrite Ho. cbn. lia.
  - intros st HI HP He. apply (PB_step lut w z1 z2 z3 d1 d2 d3 zreg Hlut Hz1 Hz2 Hz3 Hsi Hcap st HI HP He).
  - destruct (PB_exit lut w z1 z2 z3 d1 d2 d3 zreg Hz1 Hz2 Hz3 Hcap st Hw Hsmall HI HP He) as (j & Hov & Hz).
    exists j. rewrite Hr. cbn [result r_z r_ovf]. split; [exact Hov|exact Hz].
Qed.

(** B3.  [w] not strictly increasing (possible on a stem when delays depend on the polarity: known finding D26): the pulse
    filter of the zero-delay evaluation drops the pair (42, 8) and the reader sees its first transition at 46 instead of 8. *)
Theorem buf_zero_delay_nonmonotone_refuted :
  exists w zreg r, wf_wave w /\ ntrans w < List.length zreg /\
    wave_eval (lutv "BUF1") [w; wzero; wzero; wzero] [dzero; dzero; dzero; dzero] zreg = Some r /\
    upto_end (r_z r) <> upto_end w /\ r_ovf r = 0 /\
    upto_end w = [Fin 42; Fin 8; Fin 46; MaxInf] /\ upto_end (r_z r) = [Fin 46; MaxInf].
Proof.
  exists [Fin 42; Fin 8; Fin 46; MaxInf], (repeat MaxInf 8).
  eexists. split; [|split; [|split; [vm_compute; reflexivity|]]].
  - split; [cbn; lia|]. intros i H0 Hi. cbn in Hi. destruct i as [|[|[|i]]]; try lia; discriminate.
  - cbn. lia.
  - cbn. split; [discriminate|]. repeat split.
Qed.

(** the two theorems for the BUF1 table of the implementation *)
Corollary buf1_zero_delay_identity w z1 z2 z3 d1 d2 d3 zreg r :
  const0 z1 -> const0 z2 -> const0 z3 ->
  WaveCore.wf_args [w; z1; z2; z3] [dzero; d1; d2; d3] zreg ->
  strictly_increasing w -> ntrans w < List.length zreg ->
  wave_eval (lutv "BUF1") [w; z1; z2; z3] [dzero; d1; d2; d3] zreg = Some r ->
  upto_end (r_z r) = upto_end w /\ r_ovf r = 0 /\ (r_rise r, r_fall r) = edges w.
Proof. apply buf_zero_delay_identity. exact buf1_is_buf_lut. Qed.

Corollary buf1_zero_delay_overflow w z1 z2 z3 d1 d2 d3 zreg r :
  const0 z1 -> const0 z2 -> const0 z3 ->
  WaveCore.wf_args [w; z1; z2; z3] [dzero; d1; d2; d3] zreg ->
  strictly_increasing w -> List.length zreg <= ntrans w ->
  wave_eval (lutv "BUF1") [w; z1; z2; z3] [dzero; d1; d2; d3] zreg = Some r ->
  exists j, r_ovf r = S j /\
    ((ntrans w = List.length zreg + 2 * j /\ upto_end (r_z r) = firstn (List.length zreg - 2) w ++ [MaxOvl]) \/
     (ntrans w = List.length zreg + 2 * j + 1 /\
      upto_end (r_z r) = firstn (List.length zreg - 2) w ++ [wget w (ntrans w - 1); MaxOvl])).
Proof. apply buf_zero_delay_overflow. exact buf1_is_buf_lut. Qed.

Print Assumptions buf_zero_delay_overflow.
Print Assumptions buf_zero_delay_nonmonotone_refuted.

(* ------------------------------------------------------------------ *)
(** * S: fork stripping at line level *)

(** [wexec_alias] is the op-dependent generic execution of Model/NetlistSemGen.v over waveforms ... *)
Lemma wexec_alias_gexec delays cap al ops e : wexec_alias delays cap al ops e = gexec (wsem delays cap) al ops e.
Proof. reflexivity. Qed.

(** ... and with the identity alias it is [wexec] *)
Lemma wexec_alias_id delays cap ops e : wexec_alias delays cap (fun x => x) ops e = wexec delays cap ops e.
Proof. reflexivity. Qed.

(** with no fork stripped ([build_stems c false]) every index is its own stem *)
Lemma wexec_alias_nostrip delays cap c len ops e st : build_stems c false len = Some st ->
  forall k, wexec_alias delays cap (stemmed st) ops e k = wexec delays cap ops e k.
Proof.
  intros H. unfold build_stems in H. cbn in H. injection H as <-. revert e.
  induction ops as [|o ops IH]; intros e k; [reflexivity|].
  change (wexec_alias delays cap (stemmed (repeat (-1)%Z len)) (o :: ops) e)
    with (wexec_alias delays cap (stemmed (repeat (-1)%Z len)) ops (wstep_alias delays cap (stemmed (repeat (-1)%Z len)) e o)).
  rewrite wexec_cons, IH. apply wexec_ext; [reflexivity|]. intros j.
  unfold wstep_alias, wstep, wupd, wop_alias, wsem, wop. rewrite !stemmed_repeat. reflexivity.
Qed.

(** environments whose entries are read up to the terminator stay so *)
Definition normal (w : list time) : Prop := upto_end w = w.
Lemma wop_normal delays cap e o : normal (wop delays cap e o).
Proof. unfold normal, wop. destruct (wave_eval _ _ _ _); [apply upto_end_idem|reflexivity]. Qed.
Lemma wexec_normal delays cap ops : forall e, (forall k, normal (e k)) -> forall k, normal (wexec delays cap ops e k).
Proof.
  induction ops as [|o ops IH]; intros e He k; [apply He|]. rewrite wexec_cons. apply IH.
  intros j. unfold wstep, wupd. destruct (Nat.eqb j (s_out o)); [apply wop_normal|apply He].
Qed.

(** every index below [nl] holds fewer transitions than its capacity (a terminator always fits) *)
Lemma wexec_fits delays cap nl ops : good_delays delays -> good_caps cap ->
  forall e, (forall k, wf_wave (e k)) -> (forall k, k < nl -> ntrans (e k) < cap k) ->
  forall k, k < nl -> ntrans (wexec delays cap ops e k) < cap k.
Proof.
  intros Hd Hc. induction ops as [|o ops IH]; intros e Hw Hf k Hk; [apply Hf; exact Hk|].
  rewrite wexec_cons. apply IH; [| |exact Hk].
  - intros j. unfold wstep, wupd. destruct (Nat.eqb j (s_out o)); [apply wop_props; assumption|apply Hw].
  - intros j Hj. unfold wstep, wupd. destruct (Nat.eqb j (s_out o)) eqn:E; [|apply Hf; exact Hj].
    apply Nat.eqb_eq in E. subst j.
    destruct (wop_some delays cap e o Hd Hc Hw) as (r & Hr & ->).
    rewrite WaveEquiv.ntrans_upto_end.
    destruct (wave_wf _ _ _ _ _ (args_wf delays cap e o Hd Hc Hw) Hr) as (_ & _ & Hn).
    unfold zof in Hn. rewrite repeat_length in Hn. exact Hn.
Qed.

Lemma wzero_wf : wf_wave wzero.
Proof. split; [cbn; lia|]. intros i H0 Hi. cbn in Hi. lia. Qed.
Lemma wzero_si : strictly_increasing wzero.
Proof. intros i j Hij Hj. cbn in Hj. lia. Qed.

Lemma init_env_cases {V} (zero : V) c stim k :
  init_env zero c stim k = zero \/ exists p, init_env zero c stim k = stim p.
Proof. unfold init_env. destruct (Nat.leb _ k); eauto. Qed.

Section WaveStrip.
  Variable delays : nat -> dtab.
  Variable cap : nat -> nat.
  Variable c : netlist.
  Variable stim : nat -> list time.
  Notation nl := (List.length (c_lines c)).
  Notation NN := (List.length (c_nodes c)).
  Hypothesis Hd : good_delays delays.
  Hypothesis Hc : good_caps cap.
  Hypothesis Hsw : forall p, wf_wave (stim p).
  Hypothesis Hsn : forall p, normal (stim p).
  (** the zero slot has the all-zero delay row (WaveSim pads the delay table with zeros beyond the lines) *)
  Hypothesis Hdz : delays nl = dzero.

  Let e0 := init_env wzero c stim.
  Let eu := wexec delays cap (build_ops c false) e0.

  Lemma e0_wf k : wf_wave (e0 k).
  Proof. destruct (init_env_cases wzero c stim k) as [H|(p & H)]; unfold e0; rewrite H; [apply wzero_wf|apply Hsw]. Qed.
  Lemma e0_normal k : normal (e0 k).
  Proof. destruct (init_env_cases wzero c stim k) as [H|(p & H)]; unfold e0; rewrite H; [reflexivity|apply Hsn]. Qed.
  Lemma eu_wf k : wf_wave (eu k).
  Proof. apply (wave_circuit_settles delays cap (build_ops c false) e0 Hd Hc e0_wf k). Qed.
  Lemma eu_normal k : normal (eu k).
  Proof. apply wexec_normal. apply e0_normal. Qed.

  (** a zero-delay BUF1 op over (x, zero slot x 3) reproduces x *)
  Lemma wsem_buf_copy o i0 x : delays i0 = dzero ->
    wf_wave x -> normal x -> strictly_increasing x -> ntrans x < cap o ->
    wsem delays cap (mksop (lutv "BUF1") o i0 nl nl nl) x wzero wzero wzero = x.
  Proof.
    intros Hi0 Hx Hn Hs Hfit. unfold wsem. cbn [mksop s_lut s_out s_i0 s_i1 s_i2 s_i3 map]. rewrite Hi0, Hdz.
    assert (Hwf : WaveCore.wf_args [x; wzero; wzero; wzero] [dzero; dzero; dzero; dzero] (repeat MaxInf (cap o))).
    { split; [reflexivity|]. split; [reflexivity|]. split.
      { apply Forall_cons; [exact Hx|]. repeat (apply Forall_cons; [exact wzero_wf|]). constructor. }
      split; [repeat (apply Forall_cons; [cbv; repeat split; discriminate|]); constructor|].
      rewrite repeat_length. apply Hc. }
    destruct (wave_total (lutv "BUF1") _ _ _ Hwf) as (r & Hr). rewrite Hr.
    destruct (buf_zero_delay_identity _ _ _ _ _ _ _ _ _ r buf1_is_buf_lut wzero_const0 wzero_const0 wzero_const0 Hwf Hs) as (Hz & _);
      [rewrite repeat_length; exact Hfit|exact Hr|].
    rewrite Hz. exact Hn.
  Qed.

  Variable len : nat.
  Variable stems : list Z.
  Hypothesis WF : wf_netlist c.
  Hypothesis AC : comb_acyclic c.
  Hypothesis Hlen : nl <= len.
  Hypothesis Hst : build_stems c true len = Some stems.
  Hypothesis Hkind : forall n, n < NN -> iface_pos c n = None -> is_fork (get_node c n) = true ->
     n_kind (get_node c n) = "__fork__"%string.
  Hypothesis Hsel : forall n, n < NN -> iface_pos c n = None -> is_fork (get_node c n) = false ->
     select_lut kind_prefixes (n_kind (get_node c n)) (negb (is_some (pin (n_ins (get_node c n)) 2)))
                (negb (is_some (pin (n_ins (get_node c n)) 3))) <> None.
  Hypothesis Hdff : forall n, n < NN -> is_dff (get_node c n) = true -> forall k o, 2 <= k -> pin (n_outs (get_node c n)) k = Some o -> False.
  Hypothesis Hg1 : forall n, n < NN -> iface_pos c n = None -> is_fork (get_node c n) = false ->
     forall k o, 1 <= k -> pin (n_outs (get_node c n)) k = Some o -> False.
  (** stripped forks have one input pin *)
  Hypothesis Hf1 : forall n, n < NN -> iface_pos c n = None -> is_fork (get_node c n) = true ->
     forall k, 1 <= k <= 3 -> pin (n_ins (get_node c n)) k = None.
  (** their input line has zero delay and carries, in the UNSTRIPPED run, a strictly increasing waveform that fits into the
      region of every branch *)
  Hypothesis Hstem : forall n l0, n < NN -> iface_pos c n = None -> is_fork (get_node c n) = true ->
     pin (n_ins (get_node c n)) 0 = Some l0 ->
     delays l0 = dzero /\ strictly_increasing (eu l0) /\
     forall k o, pin (n_outs (get_node c n)) k = Some o -> ntrans (eu l0) < cap o.

  Theorem wave_strip_forks_gen : forall l, l < nl ->
    wexec_alias delays cap (stemmed stems) (build_ops c true) e0 (stemmed stems l) = eu l.
  Proof.
    intros l Hl. rewrite wexec_alias_gexec.
    apply (gstrip_forks_irrelevant (wsem delays cap) wzero c stim len stems WF AC Hlen Hst Hkind Hsel Hdff Hg1); [|exact Hl].
    change (gexec (wsem delays cap) (fun x => x) (build_ops c false) (init_env wzero c stim)) with eu.
    intros n k o Hn Hi Hk Ho.
    pose proof (gexec_solution (wsem delays cap) wzero c stim WF AC n Hn) as S.
    change (gexec (wsem delays cap) (fun x => x) (build_ops c false) (init_env wzero c stim)) with eu in S.
    unfold gnode_ok in S. cbv zeta in S. rewrite Hi, Hk in S. rewrite (S k o Ho). clear S.
    unfold pinv at 2 3 4. unfold pin_or at 2 3 4. rewrite (Hf1 n Hn Hi Hk 1), (Hf1 n Hn Hi Hk 2), (Hf1 n Hn Hi Hk 3) by lia.
    unfold pinv, pin_or. destruct (pin (n_ins (get_node c n)) 0) as [l0|] eqn:Ep.
    - destruct (Hstem n l0 Hn Hi Hk Ep) as (Hz & Hs & Hfit).
      apply wsem_buf_copy; [exact Hz|apply eu_wf|apply eu_normal|exact Hs|apply (Hfit k o Ho)].
    - apply wsem_buf_copy; [exact Hdz|apply wzero_wf|reflexivity|apply wzero_si|]. cbn. pose proof (Hc o). lia.
  Qed.
End WaveStrip.

(** S1.  For every well-formed acyclic netlist (hypotheses as in [strip_forks_irrelevant]) whose stripped forks have a single
    input, well-formed stimuli, non-negative delays that are ZERO on every fork input, capacities >= 4: if in the unstripped
    run every fork input (stem) carries a strictly increasing waveform with fewer transitions than each branch region has
    entries, then the stripped schedule -- operands read through the stem alias, delays of the operand index named in the op --
    leaves at the stem of EVERY line exactly the waveform the unstripped schedule leaves at that line. *)
Theorem wave_strip_forks_irrelevant delays cap c stim len stems :
  good_delays delays -> good_caps cap -> (forall p, wf_wave (stim p)) -> (forall p, upto_end (stim p) = stim p) ->
  delays (List.length (c_lines c)) = dzero ->
  wf_netlist c -> comb_acyclic c -> List.length (c_lines c) <= len -> build_stems c true len = Some stems ->
  (forall n, n < List.length (c_nodes c) -> iface_pos c n = None -> is_fork (get_node c n) = true ->
     n_kind (get_node c n) = "__fork__"%string) ->
  (forall n, n < List.length (c_nodes c) -> iface_pos c n = None -> is_fork (get_node c n) = false ->
     select_lut kind_prefixes (n_kind (get_node c n)) (negb (is_some (pin (n_ins (get_node c n)) 2)))
                (negb (is_some (pin (n_ins (get_node c n)) 3))) <> None) ->
  (forall n, n < List.length (c_nodes c) -> is_dff (get_node c n) = true -> forall k o, 2 <= k -> pin (n_outs (get_node c n)) k = Some o -> False) ->
  (forall n, n < List.length (c_nodes c) -> iface_pos c n = None -> is_fork (get_node c n) = false ->
     forall k o, 1 <= k -> pin (n_outs (get_node c n)) k = Some o -> False) ->
  (forall n, n < List.length (c_nodes c) -> iface_pos c n = None -> is_fork (get_node c n) = true ->
     forall k, 1 <= k <= 3 -> pin (n_ins (get_node c n)) k = None) ->
  let e0 := init_env wzero c stim in
  let eu := wexec delays cap (build_ops c false) e0 in
  (forall n l0, n < List.length (c_nodes c) -> iface_pos c n = None -> is_fork (get_node c n) = true ->
     pin (n_ins (get_node c n)) 0 = Some l0 ->
     delays l0 = dzero /\ strictly_increasing (eu l0) /\
     forall k o, pin (n_outs (get_node c n)) k = Some o -> ntrans (eu l0) < cap o) ->
  forall l, l < List.length (c_lines c) ->
    wexec_alias delays cap (stemmed stems) (build_ops c true) e0 (stemmed stems l) = eu l.
Proof.
  intros Hd Hc Hsw Hsn Hdz WF AC Hlen Hst Hkind Hsel Hdff Hg1 Hf1 e0 eu Hstem.
  exact (wave_strip_forks_gen delays cap c stim Hd Hc Hsw Hsn Hdz len stems WF AC Hlen Hst Hkind Hsel Hdff Hg1 Hf1 Hstem).
Qed.

(** S2.  Polarity-free delays: every waveform of the run is strictly increasing ([circuit_mono]), so the condition on the
    stems reduces to conditions on the INPUTS -- zero delay on fork inputs, strictly increasing stimuli -- and on the capacities
    (a branch region is at least as large as the stem region: always so for a uniform capacity). *)
Theorem wave_strip_forks_polfree delays cap c stim len stems :
  good_delays delays -> good_caps cap -> (forall k, dtab_polfree (delays k)) ->
  (forall p, wf_wave (stim p)) -> (forall p, upto_end (stim p) = stim p) -> (forall p, strictly_increasing (stim p)) ->
  delays (List.length (c_lines c)) = dzero ->
  wf_netlist c -> comb_acyclic c -> List.length (c_lines c) <= len -> build_stems c true len = Some stems ->
  (forall n, n < List.length (c_nodes c) -> iface_pos c n = None -> is_fork (get_node c n) = true ->
     n_kind (get_node c n) = "__fork__"%string) ->
  (forall n, n < List.length (c_nodes c) -> iface_pos c n = None -> is_fork (get_node c n) = false ->
     select_lut kind_prefixes (n_kind (get_node c n)) (negb (is_some (pin (n_ins (get_node c n)) 2)))
                (negb (is_some (pin (n_ins (get_node c n)) 3))) <> None) ->
  (forall n, n < List.length (c_nodes c) -> is_dff (get_node c n) = true -> forall k o, 2 <= k -> pin (n_outs (get_node c n)) k = Some o -> False) ->
  (forall n, n < List.length (c_nodes c) -> iface_pos c n = None -> is_fork (get_node c n) = false ->
     forall k o, 1 <= k -> pin (n_outs (get_node c n)) k = Some o -> False) ->
  (forall n, n < List.length (c_nodes c) -> iface_pos c n = None -> is_fork (get_node c n) = true ->
     forall k, 1 <= k <= 3 -> pin (n_ins (get_node c n)) k = None) ->
  (forall n l0, n < List.length (c_nodes c) -> iface_pos c n = None -> is_fork (get_node c n) = true ->
     pin (n_ins (get_node c n)) 0 = Some l0 -> delays l0 = dzero) ->
  (forall n l0 k o, n < List.length (c_nodes c) -> iface_pos c n = None -> is_fork (get_node c n) = true ->
     pin (n_ins (get_node c n)) 0 = Some l0 -> pin (n_outs (get_node c n)) k = Some o -> cap l0 <= cap o) ->
  forall l, l < List.length (c_lines c) ->
    wexec_alias delays cap (stemmed stems) (build_ops c true) (init_env wzero c stim) (stemmed stems l)
    = wexec delays cap (build_ops c false) (init_env wzero c stim) l.
Proof.
  intros Hd Hc Hp Hsw Hsn Hss Hdz WF AC Hlen Hst Hkind Hsel Hdff Hg1 Hf1 Hfz Hfork.
  assert (Hw0 : forall k, wf_wave (init_env wzero c stim k)).
  { intros k. destruct (init_env_cases wzero c stim k) as [H|(p & H)]; rewrite H; [apply wzero_wf|apply Hsw]. }
  assert (Hs0 : forall k, strictly_increasing (init_env wzero c stim k)).
  { intros k. destruct (init_env_cases wzero c stim k) as [H|(p & H)]; rewrite H; [apply wzero_si|apply Hss]. }
  apply (wave_strip_forks_irrelevant delays cap c stim len stems); try assumption.
  intros n l0 Hn Hi Hk Ep. cbv zeta.
  assert (Hl0 : l0 < List.length (c_lines c)).
  { pose proof (pin_somes _ _ _ Ep) as Hin. apply (wf_in_ins c WF n l0 Hn) in Hin. tauto. }
  split; [apply (Hfz n l0 Hn Hi Hk Ep)|split].
  - apply circuit_mono; assumption.
  - intros k o Ho. pose proof (Hfork n l0 k o Hn Hi Hk Ep Ho) as Hle.
    assert (Hfit : ntrans (wexec delays cap (build_ops c false) (init_env wzero c stim) l0) < cap l0).
    { apply (wexec_fits delays cap (List.length (c_lines c))); try assumption.
      intros j Hj. unfold init_env. destruct (Nat.leb _ j) eqn:E; [apply Nat.leb_le in E; lia|]. cbn. pose proof (Hc j). lia. }
    lia.
Qed.

Print Assumptions wave_strip_forks_irrelevant.
Print Assumptions wave_strip_forks_polfree.

(* ------------------------------------------------------------------ *)
(** * D: delay-dataset selection *)

(** modes 0 and 1 (and the case of a single dataset) pick the same dataset for every op of a lane *)
Lemma select_mode01 pick2 D mode seed ctl0 d :
  (1 < List.length D -> (mode = 0 /\ d = seed) \/ (mode = 1 /\ d = ctl0)) -> (List.length D <= 1 -> d = 0) ->
  forall z, select_delays pick2 D mode seed ctl0 z = nth d D [].
Proof.
  intros H1 H0 z. unfold select_delays, select_idx. destruct (Nat.ltb 1 (List.length D)) eqn:E.
  - apply Nat.ltb_lt in E. destruct (H1 E) as [[-> ->]|[-> ->]]; reflexivity.
  - apply Nat.ltb_ge in E. rewrite (H0 E). reflexivity.
Qed.

(** D1.  One lane of c_prop with the dataset table D, in which every op evaluation selects its dataset from (mode, seed,
    simctl_int[0]), is the run with the single dataset D[d], where d = seed in mode 0 (global selection), d = simctl_int[0] of
    that lane in mode 1 (per-simulation selection), and d = 0 when there is only one dataset (any mode, also mode 2). *)
Theorem dataset_selection pick2 D cap mode seed ctl0 d ops :
  (1 < List.length D -> (mode = 0 /\ d = seed) \/ (mode = 1 /\ d = ctl0)) -> (List.length D <= 1 -> d = 0) ->
  forall e, wexec_sel pick2 D cap mode seed ctl0 ops e = wexec (dl_of (nth d D [])) cap ops e.
Proof.
  intros H1 H0. induction ops as [|o ops IH]; intros e; [reflexivity|].
  change (wexec_sel pick2 D cap mode seed ctl0 (o :: ops) e)
    with (wexec_sel pick2 D cap mode seed ctl0 ops (wstep_sel pick2 D cap mode seed ctl0 e o)).
  rewrite wexec_cons, IH. unfold wstep_sel, wstep. rewrite (select_mode01 pick2 D mode seed ctl0 d H1 H0). reflexivity.
Qed.

(** the dataset a lane with column (simctl_int[0], simctl_int[1]) uses in modes 0 / 1 *)
Definition chosen (seed : nat) (cm : nat * nat) : nat := match snd cm with 0 => seed | _ => fst cm end.

(** D2.  All lanes at once: each lane equals the run with the dataset chosen for it alone. *)
Theorem dataset_selection_lanes pick2 D cap seed ctl ops es :
  1 < List.length D -> Forall (fun cm : nat * nat => snd cm <= 1) ctl ->
  wexec_lanes pick2 D cap seed ctl ops es
  = map (fun ce : (nat * nat) * wenv => wexec (dl_of (nth (chosen seed (fst ce)) D [])) cap ops (snd ce)) (combine ctl es).
Proof.
  intros HD Hm. unfold wexec_lanes. apply map_ext_in. intros [[c0 m] e] Hin. cbn [fst snd].
  apply in_combine_l in Hin. rewrite Forall_forall in Hm. specialize (Hm _ Hin). cbn [snd] in Hm.
  apply dataset_selection; [|lia]. intros _. unfold chosen. cbn [fst snd].
  destruct m as [|[|m]]; [left; auto|right; auto|lia].
Qed.

(** D3.  A single dataset is used whatever the selection mode says (also the pseudo-random mode 2). *)
Theorem dataset_single pick2 d0 cap mode seed ctl0 ops e :
  wexec_sel pick2 [d0] cap mode seed ctl0 ops e = wexec (dl_of d0) cap ops e.
Proof. apply (dataset_selection pick2 [d0] cap mode seed ctl0 0); [cbn; lia|reflexivity]. Qed.

Print Assumptions dataset_selection.
Print Assumptions dataset_selection_lanes.

(* ------------------------------------------------------------------ *)
(** * Instances *)

Module StripWaveExample.
Local Open Scope string_scope.
Local Open Scope Z_scope.

(** input 0 -> buf 1 -> fork 2 -> two branches reconverge at and-gate 3 -> output 4; a third branch is output 5 *)
Definition cxw : netlist :=
  {| c_nodes :=
       [ {| n_kind := "input";    n_ins := [];               n_outs := [Some 0%nat] |};
         {| n_kind := "buf";      n_ins := [Some 0%nat];     n_outs := [Some 1%nat] |};
         {| n_kind := "__fork__"; n_ins := [Some 1%nat];     n_outs := [Some 2%nat; Some 3%nat; Some 5%nat] |};
         {| n_kind := "and";      n_ins := [Some 2%nat; Some 3%nat]; n_outs := [Some 4%nat] |};
         {| n_kind := "output";   n_ins := [Some 4%nat];     n_outs := [] |};
         {| n_kind := "output";   n_ins := [Some 5%nat];     n_outs := [] |} ];
     c_lines :=
       [ {| l_drv := 0; l_dpin := 0; l_rdr := 1; l_rpin := 0 |};
         {| l_drv := 1; l_dpin := 0; l_rdr := 2; l_rpin := 0 |};
         {| l_drv := 2; l_dpin := 0; l_rdr := 3; l_rpin := 0 |};
         {| l_drv := 2; l_dpin := 1; l_rdr := 3; l_rpin := 1 |};
         {| l_drv := 3; l_dpin := 0; l_rdr := 4; l_rpin := 0 |};
         {| l_drv := 2; l_dpin := 2; l_rdr := 5; l_rpin := 0 |} ];
     c_io := [0%nat; 4%nat; 5%nat] |}.

Lemma cxw_wf : wf_netlist cxw.
Proof. apply WfCheck.wf_netlist_b_sound. vm_compute. reflexivity. Qed.
Lemma cxw_acyclic : comb_acyclic cxw.
Proof. apply (WfCheck.acyclic_b_sound cxw cxw_wf). vm_compute. reflexivity. Qed.

Definition stemsw : list Z := [-1; -1; 1; 1; -1; 1; -1; -1; -1; -1; -1; -1; -1; -1; -1].
Example cxw_stems : build_stems cxw true 15 = Some stemsw.
Proof. vm_compute. reflexivity. Qed.

(** the stripped op list has no fork ops; the xor names the BRANCH lines 2 and 3 (whose delay rows are used) *)
Example cxw_ops_strip : map (fun o => (s_lut o, s_out o, [s_i0 o; s_i1 o; s_i2 o; s_i3 o])) (build_ops cxw true) =
  [ (lutv "BUF1", 0, [9; 6; 6; 6]); (lutv "BUF1", 1, [0; 6; 6; 6]); (lutv "AND2", 4, [2; 3; 6; 6]) ]%nat.
Proof. vm_compute. reflexivity. Qed.

Lemma lt6 n : (n < 6)%nat -> n = 0%nat \/ n = 1%nat \/ n = 2%nat \/ n = 3%nat \/ n = 4%nat \/ n = 5%nat.
Proof. lia. Qed.
Ltac node_cases n Hn := apply lt6 in Hn; destruct Hn as [-> | [-> | [-> | [-> | [-> | ->]]]]].

Lemma cxw_kind n : (n < List.length (c_nodes cxw))%nat -> iface_pos cxw n = None -> is_fork (get_node cxw n) = true ->
  n_kind (get_node cxw n) = "__fork__".
Proof. intros Hn Hi Hk. node_cases n Hn; vm_compute in Hi, Hk |- *; try discriminate; reflexivity. Qed.
Lemma cxw_sel n : (n < List.length (c_nodes cxw))%nat -> iface_pos cxw n = None -> is_fork (get_node cxw n) = false ->
  select_lut kind_prefixes (n_kind (get_node cxw n)) (negb (is_some (pin (n_ins (get_node cxw n)) 2)))
             (negb (is_some (pin (n_ins (get_node cxw n)) 3))) <> None.
Proof. intros Hn Hi Hk. node_cases n Hn; vm_compute in Hi, Hk |- *; try discriminate. Qed.
Lemma cxw_dff n : (n < List.length (c_nodes cxw))%nat -> is_dff (get_node cxw n) = true ->
  forall k o, (2 <= k)%nat -> pin (n_outs (get_node cxw n)) k = Some o -> False.
Proof. intros Hn Hd. node_cases n Hn; vm_compute in Hd; discriminate. Qed.
Lemma cxw_g1 n : (n < List.length (c_nodes cxw))%nat -> iface_pos cxw n = None -> is_fork (get_node cxw n) = false ->
  forall k o, (1 <= k)%nat -> pin (n_outs (get_node cxw n)) k = Some o -> False.
Proof.
  intros Hn Hi Hk k o H1 Hp. node_cases n Hn; vm_compute in Hi, Hk; try discriminate;
    (destruct k as [|[|k]]; [lia| |]; vm_compute in Hp; discriminate).
Qed.
Lemma cxw_f1 n : (n < List.length (c_nodes cxw))%nat -> iface_pos cxw n = None -> is_fork (get_node cxw n) = true ->
  forall k, (1 <= k <= 3)%nat -> pin (n_ins (get_node cxw n)) k = None.
Proof.
  intros Hn Hi Hk k H1. node_cases n Hn; vm_compute in Hi, Hk; try discriminate.
  destruct k as [|[|[|[|k]]]]; try lia; reflexivity.
Qed.
(** the only stripped fork is node 2, its input is line 1, its branches are lines 2, 3 and 5 *)
Lemma cxw_fork n l0 : (n < List.length (c_nodes cxw))%nat -> iface_pos cxw n = None -> is_fork (get_node cxw n) = true ->
  pin (n_ins (get_node cxw n)) 0 = Some l0 -> n = 2%nat /\ l0 = 1%nat.
Proof.
  intros Hn Hi Hk Hp. node_cases n Hn; vm_compute in Hi, Hk, Hp; try discriminate. injection Hp as <-. auto.
Qed.

(** polarity-free delays, zero on the fork input (line 1); branches 2 and 3 differ, so the xor produces a pulse *)
Definition mkd (x : Z) : dtab := {| d00 := x; d01 := x; d10 := x; d11 := x |}.
Definition dlw : nat -> dtab := fun k =>
  match k with 0%nat => mkd 3 | 2%nat => mkd 2 | 3%nat => mkd 5 | 4%nat => mkd 1 | _ => dzero end.
Definition capw : nat -> nat := fun _ => 8%nat.
Definition stimw : nat -> list time := fun p => match p with 0%nat => [Fin 10; Fin 20; Fin 31; MaxInf] | _ => wzero end.

Lemma dlw_ok : good_delays dlw.
Proof. intros k. do 5 (destruct k as [|k]; [cbv; repeat split; discriminate|]). cbv; repeat split; discriminate. Qed.
Lemma dlw_polfree k : dtab_polfree (dlw k).
Proof. do 5 (destruct k as [|k]; [cbv; repeat split|]). cbv; repeat split. Qed.
Lemma capw_ok : good_caps capw.
Proof. intros k. cbv. lia. Qed.
Lemma stimw_wf p : wf_wave (stimw p).
Proof.
  destruct p as [|p]; [|apply wzero_wf]. split; [cbn; lia|]. intros i H0 Hi. cbn in Hi.
  destruct i as [|[|[|i]]]; try lia; discriminate.
Qed.
Lemma stimw_normal p : upto_end (stimw p) = stimw p.
Proof. destruct p; reflexivity. Qed.
Lemma stimw_si p : strictly_increasing (stimw p).
Proof.
  destruct p as [|p]; [|apply wzero_si]. intros i j Hij Hj. cbn in Hj.
  destruct j as [|[|[|j]]]; try lia; destruct i as [|[|i]]; try lia; reflexivity.
Qed.

(** the hypotheses of [wave_strip_forks_polfree] are satisfiable: its conclusion on this instance ... *)
Example cxw_strip_irrelevant : forall l, (l < 6)%nat ->
  wexec_alias dlw capw (stemmed stemsw) (build_ops cxw true) (init_env wzero cxw stimw) (stemmed stemsw l)
  = wexec dlw capw (build_ops cxw false) (init_env wzero cxw stimw) l.
Proof.
  apply (wave_strip_forks_polfree dlw capw cxw stimw 15 stemsw dlw_ok capw_ok dlw_polfree stimw_wf stimw_normal stimw_si
           eq_refl cxw_wf cxw_acyclic); try (cbn; lia).
  - exact cxw_stems.
  - exact cxw_kind.
  - exact cxw_sel.
  - exact cxw_dff.
  - exact cxw_g1.
  - exact cxw_f1.
  - intros n l0 Hn Hi Hk Hp. destruct (cxw_fork n l0 Hn Hi Hk Hp) as [-> ->]. reflexivity.
  - intros n l0 k o _ _ _ _ _. cbv. lia.
Qed.

(** ... and what both sides are: the stem carries three transitions, the xor output two pulses *)
(** ... and what both sides are: the stem carries three transitions, the gate output as well *)
Example cxw_values :
  (wexec dlw capw (build_ops cxw false) (init_env wzero cxw stimw) 1%nat,
   wexec dlw capw (build_ops cxw false) (init_env wzero cxw stimw) 2%nat,
   wexec dlw capw (build_ops cxw false) (init_env wzero cxw stimw) 4%nat,
   wexec_alias dlw capw (stemmed stemsw) (build_ops cxw true) (init_env wzero cxw stimw) 4%nat,
   (* a stripped branch is not written at all: it is read through its stem *)
   wexec_alias dlw capw (stemmed stemsw) (build_ops cxw true) (init_env wzero cxw stimw) 2%nat, stemmed stemsw 2)
  = ([Fin 13; Fin 23; Fin 34; MaxInf], [Fin 13; Fin 23; Fin 34; MaxInf],
     [Fin 18; Fin 25; Fin 39; MaxInf], [Fin 18; Fin 25; Fin 39; MaxInf], [MaxInf], 1%nat).
Proof. vm_compute. reflexivity. Qed.

(** Polarity-DEPENDENT delay on line 0 (the buffer's input): the stem (line 1) carries [41; 40; 55], which is not strictly
    increasing.  Every other hypothesis of [wave_strip_forks_irrelevant] holds, and the conclusion fails at the branch that
    output port 5 captures: unstripped, the zero-delay fork evaluation filters the stem down to [55]; stripped, the port sees
    the raw stem (earliest arrival 40 instead of 55). *)
Definition dlx : nat -> dtab := fun k =>
  match k with 0%nat => {| d00 := 40; d01 := 1; d10 := 1; d11 := 30 |} | 2%nat => mkd 2 | 3%nat => mkd 5 | _ => dzero end.
Definition stimx : nat -> list time := fun p => match p with 0%nat => [Fin 1; Fin 10; Fin 15; MaxInf] | _ => wzero end.

Lemma dlx_ok : good_delays dlx.
Proof. intros k. do 4 (destruct k as [|k]; [cbv; repeat split; discriminate|]). cbv; repeat split; discriminate. Qed.

Example cxw_nonmonotone_values :
  (wexec dlx capw (build_ops cxw false) (init_env wzero cxw stimx) 1%nat,
   wexec dlx capw (build_ops cxw false) (init_env wzero cxw stimx) 5%nat,
   wexec_alias dlx capw (stemmed stemsw) (build_ops cxw true) (init_env wzero cxw stimx) (stemmed stemsw 5))
  = ([Fin 41; Fin 40; Fin 55; MaxInf], [Fin 55; MaxInf], [Fin 41; Fin 40; Fin 55; MaxInf]).
Proof. vm_compute. reflexivity. Qed.
End StripWaveExample.

(** S3.  Without the hypothesis that the stems carry strictly increasing waveforms the stripped and the unstripped schedule
    differ (known finding D26): a witness on which every other hypothesis of [wave_strip_forks_irrelevant] holds. *)
Theorem wave_strip_nonmonotone_refuted :
  exists delays cap c stim len stems l,
    good_delays delays /\ good_caps cap /\ (forall p, wf_wave (stim p)) /\ (forall p, upto_end (stim p) = stim p) /\
    delays (List.length (c_lines c)) = dzero /\
    wf_netlist c /\ comb_acyclic c /\ List.length (c_lines c) <= len /\ build_stems c true len = Some stems /\
    (forall n l0, n < List.length (c_nodes c) -> iface_pos c n = None -> is_fork (get_node c n) = true ->
       pin (n_ins (get_node c n)) 0 = Some l0 ->
       delays l0 = dzero /\
       forall k o, pin (n_outs (get_node c n)) k = Some o ->
         ntrans (wexec delays cap (build_ops c false) (init_env wzero c stim) l0) < cap o) /\
    l < List.length (c_lines c) /\
    wexec_alias delays cap (stemmed stems) (build_ops c true) (init_env wzero c stim) (stemmed stems l)
    <> wexec delays cap (build_ops c false) (init_env wzero c stim) l.
Proof.
  exists StripWaveExample.dlx, StripWaveExample.capw, StripWaveExample.cxw, StripWaveExample.stimx, 15,
         StripWaveExample.stemsw, 5.
  split; [exact StripWaveExample.dlx_ok|]. split; [exact StripWaveExample.capw_ok|].
  split. { intros p. destruct p as [|p]; [|apply wzero_wf]. split; [cbn; lia|]. intros i H0 Hi. cbn in Hi.
           destruct i as [|[|[|i]]]; try lia; discriminate. }
  split. { intros p. destruct p; reflexivity. }
  split; [reflexivity|]. split; [exact StripWaveExample.cxw_wf|]. split; [exact StripWaveExample.cxw_acyclic|].
  split; [cbn; lia|]. split; [exact StripWaveExample.cxw_stems|].
  split.
  { intros n l0 Hn Hi Hk Hp. destruct (StripWaveExample.cxw_fork n l0 Hn Hi Hk Hp) as [-> ->].
    split; [reflexivity|]. intros k o _. vm_compute. lia. }
  split; [cbn; lia|]. vm_compute. discriminate.
Qed.

Print Assumptions StripWaveExample.cxw_strip_irrelevant.
Print Assumptions wave_strip_nonmonotone_refuted.

(** instances of B1 / B2 and of D1 *)
Module BufExample.
Local Open Scope Z_scope.
Definition w5 : list time := [MinInf; Fin 3; Fin 7; Fin 8; Fin 20; MaxInf; MaxInf].
Example buf_copy_8 :
  match wave_eval (lutv "BUF1") [w5; wzero; wzero; wzero] [dzero; dzero; dzero; dzero] (repeat MaxInf 8) with
  | Some r => (upto_end (r_z r), r_ovf r, (r_rise r, r_fall r)) | None => ([], 0, (0, 0))%nat end
  = (upto_end w5, 0%nat, edges w5).
Proof. vm_compute. reflexivity. Qed.
(** capacity 4 <= 5 transitions: 5 = 4 + 2*0 + 1, one overflow, entries 0..1 and the last transition are kept *)
Example buf_overflow_4 :
  match wave_eval (lutv "BUF1") [w5; wzero; wzero; wzero] [dzero; dzero; dzero; dzero] (repeat MaxInf 4) with
  | Some r => (upto_end (r_z r), r_ovf r) | None => ([], 0%nat) end
  = (firstn 2 w5 ++ [Fin 20; MaxOvl], 1%nat).
Proof. vm_compute. reflexivity. Qed.

Import Example1.
(** two datasets over the op list of Proofs/WaveCircuit.v: mode 1 with simctl_int[0] = 1 is the run with dataset 1 alone *)
Definition D2 : list (list dtab) := [map dl (seq 0 10); map (fun k => dscale 2 (dl k)) (seq 0 10)].
Example sel_mode1 pick2 : wexec_sel pick2 D2 cp 1 7 1 ops e0 = wexec (dl_of (nth 1 D2 [])) cp ops e0.
Proof. apply dataset_selection; [intros _; right; auto|cbn; lia]. Qed.
Example sel_mode1_differs : wexec (dl_of (nth 1 D2 [])) cp ops e0 4%nat <> wexec (dl_of (nth 0 D2 [])) cp ops e0 4%nat.
Proof. vm_compute. discriminate. Qed.
End BufExample.
