(** Proofs about Model/Sdf.v: grouping of CELL blocks, slot characterisation of iopaths / interconnects. *)
From Coq Require Import List ZArith NArith Bool Arith String Ascii Lia.
From KV Require Import Model.Prims Model.Netlist Model.TechCell Model.Sdf.
Import ListNotations.
Local Open Scope list_scope.

(** * keys *)
Lemma key_eqb_eq a b : key_eqb a b = true <-> a = b.
Proof.
  destruct a, b; simpl; split; intro H; try discriminate; try reflexivity.
  - apply String.eqb_eq in H. now subst.
  - inversion H. apply String.eqb_refl.
Qed.
Lemma key_eqb_refl a : key_eqb a a = true.
Proof. now apply key_eqb_eq. Qed.
Lemma key_eqb_neq a b : key_eqb a b = false <-> a <> b.
Proof.
  split; intro H.
  - intro E. apply key_eqb_eq in E. congruence.
  - destruct (key_eqb a b) eqn:E; auto. apply key_eqb_eq in E. contradiction.
Qed.
Lemma key_mem_In k ks : key_mem k ks = true <-> In k ks.
Proof.
  unfold key_mem. rewrite existsb_exists. split.
  - intros [x [H1 H2]]. apply key_eqb_eq in H2. now subst.
  - intro H. exists k. split; auto. apply key_eqb_refl.
Qed.

(** * grouping (fixed code) *)
Lemma dict_get_extend {A} k k' (v : list A) d :
  dict_get k (dict_extend k' v d) =
  if key_eqb k k' then Some (match dict_get k d with Some v0 => v0 ++ v | None => v end) else dict_get k d.
Proof.
  induction d as [|[k0 v0] r IH]; simpl.
  - reflexivity.
  - destruct (key_eqb k' k0) eqn:E0; simpl.
    + apply key_eqb_eq in E0. subst k0.
      destruct (key_eqb k k') eqn:E; reflexivity.
    + rewrite IH. destruct (key_eqb k k0) eqn:E1; destruct (key_eqb k k') eqn:E2; try reflexivity.
      apply key_eqb_eq in E1. apply key_eqb_eq in E2. subst. rewrite key_eqb_refl in E0. discriminate.
Qed.

Definition ext (d : list block) (b : block) := dict_extend (fst b) (snd b) d.

Lemma group_get_gen bs : forall d k,
  dict_get k (fold_left ext bs d) =
  match dict_get k d with
  | Some v0 => Some (v0 ++ entries_of k bs)
  | None => if has_block k bs then Some (entries_of k bs) else None
  end.
Proof.
  induction bs as [|b bs IH]; intros d k; simpl.
  - destruct (dict_get k d); [now rewrite app_nil_r | reflexivity].
  - rewrite IH. unfold ext. rewrite dict_get_extend.
    unfold entries_of, has_block. simpl.
    destruct (key_eqb k (fst b)) eqn:E; simpl.
    + destruct (dict_get k d); [now rewrite app_assoc | reflexivity].
    + reflexivity.
Qed.

Theorem cells_none_lost bs k :
  dict_get k (group bs) = if has_block k bs then Some (entries_of k bs) else None.
Proof. unfold group. change (fun d b => dict_extend (fst b) (snd b) d) with ext. now rewrite group_get_gen. Qed.

Lemma entries_of_nil k bs : has_block k bs = false -> entries_of k bs = [].
Proof.
  unfold has_block, entries_of. induction bs as [|b bs IH]; simpl; auto.
  intro H. apply orb_false_iff in H. destruct H as [H1 H2]. rewrite H1. simpl. auto.
Qed.

Lemma entries_of_In k bs e : In e (entries_of k bs) <-> exists b, In b bs /\ fst b = k /\ In e (snd b).
Proof.
  unfold entries_of. rewrite in_flat_map. split.
  - intros [b [H1 H2]]. destruct (key_eqb k (fst b)) eqn:E; [|contradiction].
    apply key_eqb_eq in E. exists b. auto.
  - intros [b [H1 [H2 H3]]]. exists b. split; auto. subst k. now rewrite key_eqb_refl.
Qed.

Definition addk (acc : list key) (k : key) := if key_mem k acc then acc else acc ++ [k].
Lemma keys_extend {A} k (v : list A) d : map fst (dict_extend k v d) = addk (map fst d) k.
Proof.
  unfold addk. induction d as [|[k0 v0] r IH]; simpl; auto.
  rewrite (key_eqb_refl k) || idtac.
  destruct (key_eqb k k0) eqn:E; simpl; auto.
  rewrite IH. unfold key_mem. destruct (existsb (key_eqb k) (map fst r)); reflexivity.
Qed.
Lemma group_keys_gen bs : forall d, map fst (fold_left ext bs d) = fold_left addk (map fst bs) (map fst d).
Proof.
  induction bs as [|b bs IH]; intro d; simpl; auto.
  rewrite IH. unfold ext. now rewrite keys_extend.
Qed.
Lemma first_occ_fold ks : first_occ ks = fold_left addk ks [].
Proof. reflexivity. Qed.
Theorem group_keys bs : map fst (group bs) = first_occ (map fst bs).
Proof. unfold group. change (fun d b => dict_extend (fst b) (snd b) d) with ext. now rewrite group_keys_gen. Qed.

Lemma NoDup_snoc {A} (l : list A) x : NoDup l -> ~ In x l -> NoDup (l ++ [x]).
Proof.
  induction l as [|y l IH]; intros H1 H2; simpl.
  - constructor; [intros []|constructor].
  - inversion H1; subst. constructor.
    + rewrite in_app_iff. intros [H|[H|[]]]; [contradiction|]. subst. apply H2. now left.
    + apply IH; auto. intro H. apply H2. now right.
Qed.
Lemma addk_fold_nodup ks : forall acc, NoDup acc -> NoDup (fold_left addk ks acc).
Proof.
  induction ks as [|k ks IH]; intros acc H; simpl; auto.
  apply IH. unfold addk. destruct (key_mem k acc) eqn:E; auto.
  apply NoDup_snoc; auto. intro H1. apply key_mem_In in H1. congruence.
Qed.
Theorem first_occ_nodup ks : NoDup (first_occ ks).
Proof. apply addk_fold_nodup. constructor. Qed.
Lemma addk_fold_in ks : forall acc k, In k (fold_left addk ks acc) <-> In k acc \/ In k ks.
Proof.
  induction ks as [|k0 ks IH]; intros acc k; simpl.
  - tauto.
  - rewrite IH. unfold addk. destruct (key_mem k0 acc) eqn:E.
    + apply key_mem_In in E. split; [tauto|]. intros [H|[H|H]]; auto. subst. auto.
    + rewrite in_app_iff. simpl. tauto.
Qed.
Theorem first_occ_in ks k : In k (first_occ ks) <-> In k ks.
Proof. unfold first_occ. change (fun acc k => if key_mem k acc then acc else acc ++ [k]) with addk. rewrite addk_fold_in. simpl. tauto. Qed.

(** a dictionary with distinct keys is determined by its key order and its lookups *)
Lemma dict_repr {V} (dflt : V) (d : list (key * V)) : NoDup (map fst d) ->
  d = map (fun k => (k, match dict_get k d with Some v => v | None => dflt end)) (map fst d).
Proof.
  induction d as [|[k0 v0] r IH]; intro H; simpl; auto.
  inversion H; subst. rewrite key_eqb_refl. f_equal.
  rewrite IH at 1; auto. apply map_ext_in. intros k Hk.
  destruct (key_eqb k k0) eqn:E; auto. apply key_eqb_eq in E. subst. contradiction.
Qed.

Theorem group_char bs : group bs = map (fun k => (k, entries_of k bs)) (first_occ (map fst bs)).
Proof.
  rewrite (dict_repr [] (group bs)) at 1.
  - rewrite group_keys. apply map_ext. intro k. rewrite cells_none_lost.
    destruct (has_block k bs) eqn:E; auto. now rewrite entries_of_nil.
  - rewrite group_keys. apply first_occ_nodup.
Qed.

Lemma has_block_In k bs : has_block k bs = true <-> In k (map fst bs).
Proof.
  unfold has_block. rewrite existsb_exists, in_map_iff. split.
  - intros [b [H1 H2]]. apply key_eqb_eq in H2. exists b. auto.
  - intros [b [H1 H2]]. exists b. split; auto. subst. apply key_eqb_refl.
Qed.

Lemma flat_map_map {A B C} (f : B -> list C) (g : A -> B) l : flat_map f (map g l) = flat_map (fun x => f (g x)) l.
Proof. induction l; simpl; auto. now rewrite IHl. Qed.

(** the DelayFile built by the (fixed) start callback, in terms of the CELL blocks of the file *)
Theorem delayfile_of_blocks args df : start_cb args = Ok df ->
  exists bs, blocks_of args = Ok bs /\
    df_name df = first_sname args /\
    df_ic df = (if has_block None bs then Some (entries_of None bs) else None) /\
    df_cells df = map (fun s => (s, entries_of (Some s) bs)) (named_keys (first_occ (map fst bs))).
Proof.
  unfold start_cb, start_with, bind. destruct (blocks_of args) as [bs|] eqn:E; [|discriminate].
  intro H. inversion H; subst; clear H. exists bs. split; auto. split; auto. simpl. split.
  - apply cells_none_lost.
  - unfold named_cells, named_keys. rewrite group_char, flat_map_map. simpl.
    induction (first_occ (map fst bs)) as [|k ks IH]; simpl; auto.
    rewrite map_app, <- IH. f_equal. destruct k as [[|c s]|]; reflexivity.
Qed.

(** the pinned code loses the earlier block *)
Definition ex_e1 := {| e_io := true; e_a := "A1"; e_b := "ZN"; e_r := [8; 16; 24]%Z; e_f := [32; 40; 48]%Z |}.
Definition ex_e2 := {| e_io := true; e_a := "A2"; e_b := "ZN"; e_r := [56; 64; 72]%Z; e_f := [80; 88; 96]%Z |}.
Definition ex_e3 := {| e_io := true; e_a := "I"; e_b := "ZN"; e_r := [4; 4; 4]%Z; e_f := [4; 4; 4]%Z |}.
Definition ex_i1 := {| e_io := false; e_a := "a0"; e_b := "u1/A1"; e_r := [8; 8; 8]%Z; e_f := [16; 16; 16]%Z |}.
Definition ex_i2 := {| e_io := false; e_a := "u1/ZN"; e_b := "u2/I"; e_r := [2; 4; 6]%Z; e_f := [2; 4; 6]%Z |}.
Definition ex_blocks : list block :=
  [(Some "u1", [ex_e1]); (None, [ex_i1]); (Some "u2", [ex_e3]); (Some "u1", [ex_e2]); (None, [ex_i2])]%string.

Theorem cells_lost_refuted : exists bs k e,
  In e (entries_of k bs) /\ forall es, dict_get k (group_pinned bs) = Some es -> ~ In e es.
Proof.
  exists ex_blocks, (Some "u1"%string), ex_e1. split.
  - vm_compute. now left.
  - vm_compute. intros es H. inversion H; subst; clear H. intros [H|[]]. discriminate.
Qed.

Example ex_group : group ex_blocks = [(Some "u1", [ex_e1; ex_e2]); (None, [ex_i1; ex_i2]); (Some "u2", [ex_e3])]%string
  /\ group_pinned ex_blocks = [(Some "u1", [ex_e2]); (None, [ex_i2]); (Some "u2", [ex_e3])]%string.
Proof. split; reflexivity. Qed.

(** * callbacks *)
Lemma map_res_Forall2 {A B} (f : A -> res B) l ys : map_res f l = Ok ys -> Forall2 (fun x y => f x = Ok y) l ys.
Proof.
  revert ys. induction l as [|x l IH]; intros ys H; simpl in H.
  - inversion H. constructor.
  - destruct (f x) eqn:E; [|discriminate]. destruct (map_res f l); [|discriminate].
    inversion H; subst. constructor; auto.
Qed.

(** a CELL block keeps every entry of every DELAY section, in file order; its name is the INSTANCE id *)
Theorem cell_entries_kept args n es : cell_cb args = Ok (n, es) ->
  n = first_cname args /\ Forall2 (fun t e => entry_cb t = Ok e) (cell_entries args) es.
Proof.
  unfold cell_cb, bind. destruct (map_res entry_cb (cell_entries args)) eqn:E; [|discriminate].
  intro H. inversion H; subst. split; auto. now apply map_res_Forall2.
Qed.
Lemma cell_entries_app a b : cell_entries (a ++ b) = cell_entries a ++ cell_entries b.
Proof. unfold cell_entries. apply flat_map_app. Qed.

(** one triple applies to both output polarities; two triples: rising, falling *)
Theorem one_triple_both io a b t e : entry_cb (TEntry io a b [t]) = Ok e ->
  e_r e = triple_cb t /\ e_f e = triple_cb t /\ e_a e = a /\ e_b e = b.
Proof. simpl. intro H. inversion H; subst. simpl. auto. Qed.
Theorem two_triples io a b t1 t2 e : entry_cb (TEntry io a b [t1; t2]) = Ok e ->
  e_r e = triple_cb t1 /\ e_f e = triple_cb t2 /\ e_a e = a /\ e_b e = b.
Proof. simpl. intro H. inversion H; subst. simpl. auto. Qed.
Theorem other_triple_counts io a b ts : List.length ts <> 1 -> List.length ts <> 2 -> entry_cb (TEntry io a b ts) = Err.
Proof. destruct ts as [|t1 [|t2 [|t3 ts]]]; simpl; intros; try reflexivity; congruence. Qed.

(** "()" and empty components read as 0 *)
Theorem empty_triple_zero : to_dt (nz (triple_cb [])) = Ok dzero /\ to_dt (nz (triple_cb [None; None; None])) = Ok dzero /\
  forall a b c, to_dt (nz (triple_cb [Some a; None; Some c])) = Ok (a, 0%Z, c) /\ to_dt (nz (triple_cb [Some a; Some b; Some c])) = Ok (a, b, c).
Proof. repeat split. Qed.

(** * loops as folds of assignments *)
Lemma fold_step_err {E} (f : E -> res (option write)) es : fold_left (step f) es Err = Err.
Proof. induction es; simpl; auto. Qed.
Lemma fold_step_resolve {E} (f : E -> res (option write)) es : forall a,
  fold_left (step f) es (Ok a) = match resolve_all f es with Ok ws => Ok (fold_left apply ws a) | Err => Err end.
Proof.
  induction es as [|e es IH]; intro a; simpl; auto.
  destruct (f e) as [[w|]|]; simpl.
  - rewrite IH. destruct (resolve_all f es); reflexivity.
  - apply IH.
  - apply fold_step_err.
Qed.

Lemma fold_apply_slots ws : forall a l ip op,
  fold_left apply ws a l ip op = match last_hit ws l ip with Some w => wval w op | None => a l ip op end.
Proof.
  unfold last_hit. induction ws as [|w ws IH] using rev_ind; intros a l ip op; simpl; auto.
  rewrite fold_left_app, rev_app_distr. simpl. unfold apply at 1.
  destruct (hits w l ip); auto.
Qed.

Lemma resolve_all_app {E} (f : E -> res (option write)) a b :
  resolve_all f (a ++ b) = match resolve_all f a, resolve_all f b with Ok x, Ok y => Ok (x ++ y) | _, _ => Err end.
Proof.
  induction a as [|e a IH]; simpl.
  - destruct (resolve_all f b); reflexivity.
  - destruct (f e) as [[w|]|]; auto. rewrite IH.
    destruct (resolve_all f a), (resolve_all f b); reflexivity.
Qed.
Lemma resolve_all_split {E} (f : E -> res (option write)) pre e post ws w :
  resolve_all f (pre ++ e :: post) = Ok ws -> f e = Ok (Some w) ->
  exists ws1 ws2, ws = ws1 ++ w :: ws2 /\ resolve_all f pre = Ok ws1 /\ resolve_all f post = Ok ws2.
Proof.
  rewrite resolve_all_app. simpl. intros H He. rewrite He in H.
  destruct (resolve_all f pre) as [ws1|]; [|discriminate].
  destruct (resolve_all f post) as [ws2|]; [|discriminate].
  inversion H. exists ws1, ws2. auto.
Qed.
Lemma resolve_all_in {E} (f : E -> res (option write)) es : forall ws w, resolve_all f es = Ok ws -> In w ws ->
  exists e, In e es /\ f e = Ok (Some w).
Proof.
  induction es as [|e es IH]; intros ws w H Hin; simpl in H.
  - inversion H; subst. contradiction.
  - destruct (f e) as [[w0|]|] eqn:Efe; try discriminate.
    + destruct (resolve_all f es) as [ws'|]; [|discriminate]. inversion H; subst.
      destruct Hin as [Hin|Hin].
      * subst. exists e. split; auto. now left.
      * destruct (IH ws' w eq_refl Hin) as [e' [H1 H2]]. exists e'. split; auto. now right.
    + destruct (IH ws w H Hin) as [e' [H1 H2]]. exists e'. split; auto. now right.
Qed.

Lemma find_none_iff {A} (p : A -> bool) l : find p l = None <-> forall x, In x l -> p x = false.
Proof.
  split; [apply find_none|]. induction l as [|x l IH]; intro H; simpl; auto.
  rewrite (H x (or_introl eq_refl)). apply IH. intros y Hy. apply H. now right.
Qed.
Lemma find_app {A} (p : A -> bool) a b : find p (a ++ b) = match find p a with Some x => Some x | None => find p b end.
Proof. induction a; simpl; auto. destruct (p a); auto. Qed.

Lemma last_hit_here ws1 w ws2 l ip : hits w l ip = true -> (forall w', In w' ws2 -> hits w' l ip = false) ->
  last_hit (ws1 ++ w :: ws2) l ip = Some w.
Proof.
  intros H1 H2. unfold last_hit. rewrite rev_app_distr. simpl. rewrite <- app_assoc. simpl.
  rewrite find_app. replace (find (fun w0 => hits w0 l ip) (rev ws2)) with (@None write).
  - simpl. now rewrite H1.
  - symmetry. apply find_none_iff. intros x Hx. apply H2. now apply in_rev.
Qed.
Lemma last_hit_none ws l ip : (forall w, In w ws -> hits w l ip = false) -> last_hit ws l ip = None.
Proof. intro H. unfold last_hit. apply find_none_iff. intros x Hx. apply H. now apply in_rev. Qed.

(** generic statements for a loop [fold_left (step f) es (Ok azero)] *)
Section Loop.
  Context {E : Type} (f : E -> res (option write)) (es : list E) (a : darr).
  Hypothesis Hrun : fold_left (step f) es (Ok azero) = Ok a.

  Lemma loop_slots : exists ws, resolve_all f es = Ok ws /\ forall l ip op, a l ip op = slot_value ws l ip op.
  Proof.
    rewrite fold_step_resolve in Hrun. destruct (resolve_all f es) as [ws|]; [|discriminate].
    inversion Hrun; subst. exists ws. split; auto. intros. now rewrite fold_apply_slots.
  Qed.

  Lemma loop_entry_present pre e post w l ip :
    es = pre ++ e :: post -> f e = Ok (Some w) -> hits w l ip = true ->
    (forall e' w', In e' post -> f e' = Ok (Some w') -> hits w' l ip = false) ->
    forall op, a l ip op = wval w op.
  Proof.
    intros Hes He Hh Hpost op. destruct loop_slots as [ws [Hws Ha]]. rewrite Ha. unfold slot_value.
    subst es. destruct (resolve_all_split f pre e post ws w Hws He) as [ws1 [ws2 [H1 [H2 H3]]]]. subst ws.
    rewrite last_hit_here; auto.
    intros w' Hw'. destruct (resolve_all_in f post ws2 w' H3 Hw') as [e' [H4 H5]]. eauto.
  Qed.

  Lemma loop_untouched_zero l ip :
    (forall e w, In e es -> f e = Ok (Some w) -> hits w l ip = false) -> forall op, a l ip op = dzero.
  Proof.
    intros H op. destruct loop_slots as [ws [Hws Ha]]. rewrite Ha. unfold slot_value.
    rewrite last_hit_none; auto. intros w Hw. destruct (resolve_all_in f es ws w Hws Hw) as [e [H1 H2]]. eauto.
  Qed.
End Loop.

(** * iopaths *)
Lemma iopaths_cell_flat c lib ne : forall a,
  iopaths_cell c lib a ne = fold_left (step (io_resolve_item c lib)) (map (fun e => (fst ne, e)) (snd ne)) a.
Proof.
  unfold iopaths_cell. destruct ne as [n es]. simpl.
  destruct (assoc (strip_bs n) (cc_cells c)) as [i|] eqn:E.
  - induction es as [|e es IH]; intro a; simpl; auto. rewrite <- IH. f_equal.
    unfold step, io_resolve_item. simpl. now rewrite E.
  - induction es as [|e es IH]; intro a; simpl; auto.
    replace (step (io_resolve_item c lib) a (n, e)) with a; [apply IH|].
    unfold step, io_resolve_item. simpl. rewrite E. now destruct a.
Qed.
Lemma iopaths_flat c lib cells : forall a,
  fold_left (iopaths_cell c lib) cells a = fold_left (step (io_resolve_item c lib)) (io_items cells) a.
Proof.
  unfold io_items. induction cells as [|ne cells IH]; intro a; simpl; auto.
  rewrite fold_left_app, IH, iopaths_cell_flat. reflexivity.
Qed.

Theorem iopath_slots c lib df a : iopaths c lib df = Ok a ->
  exists ws, resolve_all (io_resolve_item c lib) (io_items (df_cells df)) = Ok ws /\
    forall l ip op, a l ip op = slot_value ws l ip op.
Proof. unfold iopaths. rewrite iopaths_flat. apply loop_slots. Qed.

Theorem iopath_entry_present c lib df a pre it post w l ip : iopaths c lib df = Ok a ->
  io_items (df_cells df) = pre ++ it :: post ->
  io_resolve_item c lib it = Ok (Some w) -> hits w l ip = true ->
  (forall it' w', In it' post -> io_resolve_item c lib it' = Ok (Some w') -> hits w' l ip = false) ->
  forall op, a l ip op = wval w op.
Proof. unfold iopaths. rewrite iopaths_flat. intro H. now apply loop_entry_present. Qed.

Theorem iopath_untouched_zero c lib df a l ip : iopaths c lib df = Ok a ->
  (forall it w, In it (io_items (df_cells df)) -> io_resolve_item c lib it = Ok (Some w) -> hits w l ip = false) ->
  forall op, a l ip op = dzero.
Proof. unfold iopaths. rewrite iopaths_flat. intro H. now apply loop_untouched_zero. Qed.

(** every entry of every block of a named instance is applied, and within one instance in file order *)
Theorem io_items_of_blocks args df : start_cb args = Ok df -> exists bs, blocks_of args = Ok bs /\
  io_items (df_cells df) =
  flat_map (fun s => map (fun e => (s, e)) (entries_of (Some s) bs)) (named_keys (first_occ (map fst bs))).
Proof.
  intro H. destruct (delayfile_of_blocks args df H) as [bs [H1 [_ [_ H2]]]]. exists bs. split; auto.
  rewrite H2. unfold io_items. rewrite flat_map_map. reflexivity.
Qed.

Lemma mk_write_inv line pols r f w : mk_write line pols r f = Ok (Some w) <->
  w_line w = line /\ w_pols w = pols /\ to_dt r = Ok (w_r w) /\ to_dt f = Ok (w_f w).
Proof.
  unfold mk_write, bind. split.
  - destruct (to_dt r); [|discriminate]. destruct (to_dt f); [|discriminate]. intro H. inversion H. simpl. auto.
  - destruct w as [l p wr wf]. simpl. intros [H1 [H2 [H3 H4]]]. subst. now rewrite H3, H4.
Qed.

(** which slot an IOPATH addresses: the line at the position of the named pin in the cell's input list,
    the input polarities selected by the edge qualifier, rising / falling triple (empty = 0) *)
Theorem iopath_resolve c lib name e w : io_resolve_item c lib (name, e) = Ok (Some w) <->
  exists i idx, assoc (strip_bs name) (cc_cells c) = Some i /\
    pin_index lib (n_kind (get_node (cc_net c) i)) (strip_edge (e_a e)) = Ok idx /\
    nth_error (n_ins (get_node (cc_net c) i)) idx = Some (Some (w_line w)) /\
    w_pols w = pols_of (e_a e) /\ to_dt (nz (e_r e)) = Ok (w_r w) /\ to_dt (nz (e_f e)) = Ok (w_f w).
Proof.
  unfold io_resolve_item, io_resolve, bind. simpl. split.
  - destruct (assoc (strip_bs name) (cc_cells c)) as [i|] eqn:E1; [|discriminate].
    destruct (pin_index lib _ _) as [idx|] eqn:E2; [|discriminate].
    destruct (nth_error _ idx) as [[line|]|] eqn:E3; try discriminate.
    intro H. apply mk_write_inv in H. destruct H as [H1 [H2 [H3 H4]]]. exists i, idx. subst line. auto 10.
  - intros [i [idx [H1 [H2 [H3 [H4 [H5 H6]]]]]]]. rewrite H1, H2, H3. apply mk_write_inv. auto.
Qed.

(** * edge qualifiers *)
Local Open Scope string_scope.
Theorem edge_posedge p : pols_of ("(posedge " ++ p) = [false].
Proof. destruct p; reflexivity. Qed.
Theorem edge_negedge p : pols_of ("(negedge " ++ p) = [true].
Proof. destruct p; reflexivity. Qed.

Lemma span_rparen_app p rest : no_rparen p = true -> span_rparen (p ++ String rparen rest) = (p, Some rest).
Proof.
  induction p as [|x p IH]; simpl; intro H.
  - reflexivity.
  - apply andb_true_iff in H. destruct H as [H1 H2]. apply negb_true_iff in H1. rewrite H1, (IH H2). reflexivity.
Qed.
Lemma re_sub_edge_nil f : re_sub_edge f "" = "".
Proof. destruct f; reflexivity. Qed.
Lemma append_nil_r s : s ++ "" = s.
Proof. induction s; simpl; congruence. Qed.

Lemma re_sub_edge_pos f p : no_rparen p = true -> p <> "" -> re_sub_edge (S f) ("(posedge " ++ p ++ ")") = p.
Proof.
  intros H1 H2. change (")") with (String rparen ""). 
  cbn -[span_rparen]. rewrite span_rparen_app; auto.
  destruct p as [|y p]; [congruence|]. now rewrite re_sub_edge_nil, append_nil_r.
Qed.
Lemma re_sub_edge_neg f p : no_rparen p = true -> p <> "" -> re_sub_edge (S f) ("(negedge " ++ p ++ ")") = p.
Proof.
  intros H1 H2. change (")") with (String rparen "").
  cbn -[span_rparen]. rewrite span_rparen_app; auto.
  destruct p as [|y p]; [congruence|]. now rewrite re_sub_edge_nil, append_nil_r.
Qed.
(** "(posedge P)" addresses pin P at input polarity 0 only; "(negedge P)" at polarity 1 only *)
Theorem edge_posedge_pin p : no_rparen p = true -> p <> "" ->
  strip_edge ("(posedge " ++ p ++ ")") = p /\ pols_of ("(posedge " ++ p ++ ")") = [false].
Proof. intros. split; [apply re_sub_edge_pos; auto | apply edge_posedge]. Qed.
Theorem edge_negedge_pin p : no_rparen p = true -> p <> "" ->
  strip_edge ("(negedge " ++ p ++ ")") = p /\ pols_of ("(negedge " ++ p ++ ")") = [true].
Proof. intros. split; [apply re_sub_edge_neg; auto | apply edge_negedge]. Qed.

Lemma re_sub_edge_plain p : forall f, no_lparen p = true -> re_sub_edge f p = p.
Proof.
  induction p as [|x p IH]; intros f H; destruct f; try reflexivity.
  simpl in H. apply andb_true_iff in H. destruct H as [H1 H2]. apply negb_true_iff in H1.
  cbn. rewrite Ascii.eqb_sym in H1. unfold lparen in H1. simpl in H1. rewrite H1. now rewrite IH.
Qed.
Lemma prefix_cons a s1 b s2 : prefix (String a s1) (String b s2) = if ascii_dec a b then prefix s1 s2 else false.
Proof. reflexivity. Qed.
(** an unqualified pin name addresses both input polarities *)
Theorem edge_plain p : no_lparen p = true -> strip_edge p = p /\ pols_of p = [false; true].
Proof.
  intro H. split; [now apply re_sub_edge_plain|].
  destruct p as [|x p]; [reflexivity|]. simpl in H. apply andb_true_iff in H. destruct H as [H1 _].
  apply negb_true_iff, Ascii.eqb_neq in H1. unfold pols_of. rewrite !prefix_cons.
  destruct (ascii_dec "(" x) as [E|E]; [subst; exfalso; now apply H1 | reflexivity].
Qed.
Local Close Scope string_scope.

(** * interconnects *)
(** which line an INTERCONNECT addresses: the input line of the single-output fork [f2] that drives the destination
    pin; [f2] is the fork read by the source pin, or a branch fork whose input line is an output of that fork *)
Theorem ic_line_spec net lo li l : ic_line net lo li = Ok (Some l) ->
  let i1 := l_rdr (get_line net lo) in
  let i2 := l_drv (get_line net li) in
  is_fork (get_node net i1) = true /\ is_fork (get_node net i2) = true /\
  List.length (n_outs (get_node net i2)) = 1 /\
  nth_error (n_ins (get_node net i2)) 0 = Some (Some l) /\
  (i1 = i2 \/ exists lx, nth_error (n_outs (get_node net i1)) (l_dpin (get_line net l)) = Some (Some lx) /\
                         line_eqb (get_line net lx) (get_line net l) = true).
Proof.
  unfold ic_line. cbv zeta.
  destruct (is_fork (get_node net (l_rdr (get_line net lo)))); cbn [negb]; [|discriminate].
  destruct (is_fork (get_node net (l_drv (get_line net li)))); cbn [negb]; [|discriminate].
  destruct (Nat.eqb (l_rdr (get_line net lo)) (l_drv (get_line net li))) eqn:E12; cbn [negb].
  - apply Nat.eqb_eq in E12.
    destruct (Nat.eqb (List.length (n_outs (get_node net (l_drv (get_line net li))))) 1) eqn:E1; [|discriminate].
    apply Nat.eqb_eq in E1.
    destruct (nth_error (n_ins (get_node net (l_drv (get_line net li)))) 0) as [[l0|]|] eqn:E0; try discriminate.
    intro H. inversion H; subst. auto 10.
  - destruct (Nat.eqb (List.length (n_outs (get_node net (l_drv (get_line net li))))) 1) eqn:E1; cbn [negb]; [|discriminate].
    apply Nat.eqb_eq in E1.
    destruct (nth_error (n_ins (get_node net (l_drv (get_line net li)))) 0) as [[l0|]|] eqn:E0; try discriminate.
    destruct (nth_error (n_outs (get_node net (l_rdr (get_line net lo)))) (l_dpin (get_line net l0))) as [[lx|]|] eqn:Ex; try discriminate.
    destruct (line_eqb (get_line net lx) (get_line net l0)) eqn:El; [|discriminate].
    intro H. inversion H; subst. repeat split; auto. right. exists lx. auto.
Qed.

Theorem interconnect_resolve c lib e w : ic_resolve c lib e = Ok (Some w) ->
  exists cn1 pn1 cn2 pn2 i1 i2 p1 p2 lo li,
    ic_skipped (nz (e_r e)) (nz (e_f e)) = Ok false /\
    split_pin (e_a e) = Ok (cn1, pn1) /\ split_pin (e_b e) = Ok (cn2, pn2) /\
    assoc (strip_bs cn1) (cc_cells c) = Some i1 /\ assoc (strip_bs cn2) (cc_cells c) = Some i2 /\
    opt_pin lib (n_kind (get_node (cc_net c) i1)) pn1 = Ok p1 /\ opt_pin lib (n_kind (get_node (cc_net c) i2)) pn2 = Ok p2 /\
    nth_error (n_outs (get_node (cc_net c) i1)) p1 = Some (Some lo) /\
    nth_error (n_ins (get_node (cc_net c) i2)) p2 = Some (Some li) /\
    ic_line (cc_net c) lo li = Ok (Some (w_line w)) /\
    w_pols w = all_pols /\ to_dt (nz (e_r e)) = Ok (w_r w) /\ to_dt (nz (e_f e)) = Ok (w_f w).
Proof.
  unfold ic_resolve, bind.
  destruct (ic_skipped (nz (e_r e)) (nz (e_f e))) as [[|]|] eqn:Es; try discriminate.
  destruct (split_pin (e_a e)) as [[cn1 pn1]|] eqn:S1; [|discriminate].
  destruct (split_pin (e_b e)) as [[cn2 pn2]|] eqn:S2; [|discriminate].
  destruct (assoc (strip_bs cn1) (cc_cells c)) as [i1|] eqn:A1; [|discriminate].
  destruct (assoc (strip_bs cn2) (cc_cells c)) as [i2|] eqn:A2; [|discriminate].
  destruct (opt_pin lib (n_kind (get_node (cc_net c) i1)) pn1) as [p1|] eqn:P1; [|discriminate].
  destruct (opt_pin lib (n_kind (get_node (cc_net c) i2)) pn2) as [p2|] eqn:P2; [|discriminate].
  destruct (nth_error (n_outs (get_node (cc_net c) i1)) p1) as [[lo|]|] eqn:O1; try discriminate.
  destruct (nth_error (n_ins (get_node (cc_net c) i2)) p2) as [[li|]|] eqn:I2; try discriminate.
  destruct (ic_line (cc_net c) lo li) as [[line|]|] eqn:L; try discriminate.
  intro H. apply mk_write_inv in H. destruct H as [H1 [H2 [H3 H4]]]. subst line.
  exists cn1, pn1, cn2, pn2, i1, i2, p1, p2, lo, li. auto 20.
Qed.

Theorem interconnect_slots c lib df a : interconnects c lib df = Ok a ->
  exists es ws, df_ic df = Some es /\ resolve_all (ic_resolve c lib) es = Ok ws /\
    (forall w, In w ws -> w_pols w = all_pols) /\
    forall l ip op, a l ip op = slot_value ws l ip op.
Proof.
  unfold interconnects. destruct (df_ic df) as [es|]; [|discriminate]. intro H.
  destruct (loop_slots _ _ _ H) as [ws [H1 H2]]. exists es, ws. repeat split; auto.
  intros w Hw. destruct (resolve_all_in _ _ _ _ H1 Hw) as [e [_ He]].
  destruct (interconnect_resolve _ _ _ _ He) as (?&?&?&?&?&?&?&?&?&?&?&?&?&?&?&?&?&?&?&?&?&?&?). tauto.
Qed.

Theorem interconnect_entry_present c lib df a es pre e post w l : interconnects c lib df = Ok a ->
  df_ic df = Some es -> es = pre ++ e :: post ->
  ic_resolve c lib e = Ok (Some w) -> w_line w = l ->
  (forall e' w', In e' post -> ic_resolve c lib e' = Ok (Some w') -> w_line w' <> l) ->
  forall ip op, a l ip op = wval w op.
Proof.
  unfold interconnects. intros H Hes Hsplit Hw Hl Hpost ip op. rewrite Hes in H.
  apply (loop_entry_present _ _ _ H pre e post w l ip Hsplit Hw).
  - destruct (interconnect_resolve _ _ _ _ Hw) as (?&?&?&?&?&?&?&?&?&?&?&?&?&?&?&?&?&?&?&?&Hp&?&?).
    unfold hits. rewrite Hp, Hl, Nat.eqb_refl. destruct ip; reflexivity.
  - intros e' w' H1 H2. unfold hits. specialize (Hpost e' w' H1 H2).
    apply Nat.eqb_neq in Hpost. rewrite Nat.eqb_sym in Hpost. now rewrite Hpost.
Qed.

Theorem interconnect_untouched_zero c lib df a es l : interconnects c lib df = Ok a -> df_ic df = Some es ->
  (forall e w, In e es -> ic_resolve c lib e = Ok (Some w) -> w_line w <> l) ->
  forall ip op, a l ip op = dzero.
Proof.
  unfold interconnects. intros H Hes Hno ip op. rewrite Hes in H.
  apply (loop_untouched_zero _ _ _ H l ip). intros e w H1 H2. unfold hits.
  specialize (Hno e w H1 H2). apply Nat.eqb_neq in Hno. rewrite Nat.eqb_sym in Hno. now rewrite Hno.
Qed.

(** the skip test [max(max(delvals)) == 0]: for non-negative delays it skips exactly the all-zero entries *)
Theorem interconnect_skip_nonneg r0 r1 r2 f0 f1 f2 :
  (0 <= r0 -> 0 <= r1 -> 0 <= r2 -> 0 <= f0 -> 0 <= f1 -> 0 <= f2 ->
  (ic_skipped [r0; r1; r2] [f0; f1; f2] = Ok true <-> (r0 = 0 /\ r1 = 0 /\ r2 = 0 /\ f0 = 0 /\ f1 = 0 /\ f2 = 0)))%Z.
Proof.
  intros. unfold ic_skipped, bind, py_max. simpl.
  destruct (Z.eqb_spec f0 r0); [destruct (Z.eqb_spec f1 r1); [destruct (Z.eqb_spec f2 r2)|]|]; simpl;
  repeat match goal with |- context [Z.gtb ?a ?b] => destruct (Z.gtb_spec a b) end; simpl;
  (split; [intro Hm; inversion Hm as [Hz]; apply Z.eqb_eq in Hz; lia | intros (?&?&?&?&?&?); subst; reflexivity]).
Qed.
(** ... with a negative component an entry with non-zero values can be skipped *)
Example interconnect_negative_skipped : ic_skipped [0; 0; 0]%Z [-1; 0; 0]%Z = Ok true.
Proof. reflexivity. Qed.

(** * dataset axis: the result is [dataset, line, input polarity, output polarity] *)
Theorem dataset_axis n a d l (ip op : bool) : d < 3 -> l < n ->
  nth (if op then 1 else 0) (nth (if ip then 1 else 0) (nth l (nth d (tab n a) []) []) []) 0%Z = dsel d (a l ip op).
Proof.
  intros Hd Hl. unfold tab.
  assert (Hn : forall (f : nat -> list (list Z)), nth l (map f (seq 0 n)) [] = f l).
  { intro f. rewrite (nth_indep _ [] (f 0)); [|now rewrite map_length, seq_length].
    rewrite map_nth. now rewrite seq_nth. }
  destruct d as [|[|[|d]]]; try lia; simpl; rewrite Hn; destruct ip, op; reflexivity.
Qed.

(** * Examples: a NAND2 + INV netlist parsed with branchforks=True (11 lines), a file with two CELL blocks for u1 and
      two instance-less blocks, an edge-qualified path with an empty triple, a single triple with an empty component *)
Local Open Scope string_scope.
Definition ex_lib : list tcell :=
  [{| t_pattern := "NAND2_X{1,2}"; t_names := ["NAND2_X1"; "NAND2_X2"]; t_ins := ["A1"; "A2"]; t_outs := ["ZN"]; t_gates := [("ZN", "NAND2", ["A1"; "A2"])];
      t_stmts := [TIn ["A1"; "A2"]; TOut ["ZN"]; TGate "ZN" "NAND2" ["A1"; "A2"]] |};
   {| t_pattern := "INV_X1"; t_names := ["INV_X1"]; t_ins := ["I"]; t_outs := ["ZN"]; t_gates := [("ZN", "INV1", ["I"])];
      t_stmts := [TIn ["I"]; TOut ["ZN"]; TGate "ZN" "INV1" ["I"]] |}].
Definition ex_circ : circ :=
  {| cc_net := {| c_nodes := [{| n_kind := "NAND2_X1"; n_ins := [Some 5; Some 7]; n_outs := [Some 0] |}; {| n_kind := "__fork__"; n_ins := [Some 0]; n_outs := [Some 8] |};
       {| n_kind := "INV_X1"; n_ins := [Some 9]; n_outs := [Some 1] |}; {| n_kind := "__fork__"; n_ins := [Some 1]; n_outs := [Some 10] |};
       {| n_kind := "input"; n_ins := []; n_outs := [Some 2] |}; {| n_kind := "__fork__"; n_ins := [Some 2]; n_outs := [Some 4] |};
       {| n_kind := "input"; n_ins := []; n_outs := [Some 3] |}; {| n_kind := "__fork__"; n_ins := [Some 3]; n_outs := [Some 6] |};
       {| n_kind := "output"; n_ins := [Some 10]; n_outs := [] |}; {| n_kind := "__fork__"; n_ins := [Some 4]; n_outs := [Some 5] |};
       {| n_kind := "__fork__"; n_ins := [Some 6]; n_outs := [Some 7] |}; {| n_kind := "__fork__"; n_ins := [Some 8]; n_outs := [Some 9] |}];
     c_lines := [{| l_drv := 0; l_dpin := 0; l_rdr := 1; l_rpin := 0 |}; {| l_drv := 2; l_dpin := 0; l_rdr := 3; l_rpin := 0 |};
       {| l_drv := 4; l_dpin := 0; l_rdr := 5; l_rpin := 0 |}; {| l_drv := 6; l_dpin := 0; l_rdr := 7; l_rpin := 0 |};
       {| l_drv := 5; l_dpin := 0; l_rdr := 9; l_rpin := 0 |}; {| l_drv := 9; l_dpin := 0; l_rdr := 0; l_rpin := 0 |};
       {| l_drv := 7; l_dpin := 0; l_rdr := 10; l_rpin := 0 |}; {| l_drv := 10; l_dpin := 0; l_rdr := 0; l_rpin := 1 |};
       {| l_drv := 1; l_dpin := 0; l_rdr := 11; l_rpin := 0 |}; {| l_drv := 11; l_dpin := 0; l_rdr := 2; l_rpin := 0 |};
       {| l_drv := 3; l_dpin := 0; l_rdr := 8; l_rpin := 0 |}]; c_io := [4; 6; 8] |};
     cc_cells := [("u1", 0); ("u2", 2); ("a0", 4); ("a1", 6); ("z0", 8)] |}.
Definition ex_tree : list tsarg :=
  [SName "top";
   SCell [CName "u1"; CDelay [TEntry true "A1" "ZN" [[Some 8; Some 16; Some 24]; [Some 32; Some 40; Some 48]]]];
   SCell [CDelay [TEntry false "a0" "u1/A1" [[Some 8; Some 8; Some 8]; [Some 16; Some 16; Some 16]]]];
   SCell [CName "u2"; CDelay [TEntry true "(posedge I)" "ZN" [[]; [Some 24; Some 24; Some 24]]]];
   SCell [CName "u1"; CDelay [TEntry true "A2" "ZN" [[Some 56; None; Some 72]]]; CDelay [TEntry true "(negedge A1)" "ZN" [[Some 1; Some 2; Some 3]]]];
   SCell [CDelay [TEntry false "u1/ZN" "u2/I" [[Some 2; Some 4; Some 6]]]]]%Z.

Example ex_blocks_of : exists bs, blocks_of ex_tree = Ok bs /\ has_block (Some "u1") bs = true /\ has_block None bs = true /\
  List.length (entries_of (Some "u1") bs) = 3 /\ List.length (entries_of None bs) = 2 /\
  first_occ (map fst bs) = [Some "u1"; None; Some "u2"].
Proof. eexists. split; [vm_compute; reflexivity|]. vm_compute. auto. Qed.

(** iopaths: line 5 feeds u1/A1, line 7 feeds u1/A2, line 9 feeds u2/I *)
Example ex_iopaths : exists a, sdf_iopaths ex_circ ex_lib ex_tree = Ok a /\
  a 5 false false = (8, 16, 24)%Z /\ a 5 false true = (32, 40, 48)%Z /\      (* A1, rising input: first / second triple *)
  a 5 true false = (1, 2, 3)%Z /\ a 5 true true = (1, 2, 3)%Z /\              (* overridden by the later (negedge A1) of the second block *)
  a 7 false false = (56, 0, 72)%Z /\ a 7 true true = (56, 0, 72)%Z /\          (* entry of the SECOND block for u1; one triple; empty component *)
  a 9 false false = dzero /\ a 9 false true = (24, 24, 24)%Z /\ a 9 true true = dzero /\   (* (posedge I) () (..) *)
  a 0 false false = dzero /\ a 8 true false = dzero.
Proof. eexists. split; [vm_compute; reflexivity|]. vm_compute. repeat split. Qed.

(** interconnects: line 4 = a0 -> branch fork a0~u1/A1, line 8 = n0 -> branch fork n0~u2/I *)
Example ex_interconnects : exists a, sdf_interconnects ex_circ ex_lib ex_tree = Ok a /\
  a 4 false false = (8, 8, 8)%Z /\ a 4 true false = (8, 8, 8)%Z /\ a 4 false true = (16, 16, 16)%Z /\ a 4 true true = (16, 16, 16)%Z /\
  a 8 false false = (2, 4, 6)%Z /\ a 8 true true = (2, 4, 6)%Z /\ a 5 false false = dzero /\ a 9 true true = dzero.
Proof. eexists. split; [vm_compute; reflexivity|]. vm_compute. repeat split. Qed.

(** the hypotheses of iopath_entry_present / iopath_untouched_zero / interconnect_entry_present are satisfiable *)
Example ex_entry_present : exists df a pre it post w,
  start_cb ex_tree = Ok df /\ iopaths ex_circ ex_lib df = Ok a /\
  io_items (df_cells df) = (pre ++ it :: post)%list /\ List.length pre = 1 /\ List.length post = 2 /\
  io_resolve_item ex_circ ex_lib it = Ok (Some w) /\ hits w 7 true = true /\
  (forall it' w', In it' post -> io_resolve_item ex_circ ex_lib it' = Ok (Some w') -> hits w' 7 true = false).
Proof.
  eexists. eexists. exists [("u1", ex_e1)].
  exists ("u1", {| e_io := true; e_a := "A2"; e_b := "ZN"; e_r := [56; 0; 72]%Z; e_f := [56; 0; 72]%Z |}).
  eexists. eexists.
  split; [vm_compute; reflexivity|]. split; [vm_compute; reflexivity|]. split; [vm_compute; reflexivity|].
  split; [reflexivity|]. split; [reflexivity|]. split; [vm_compute; reflexivity|]. split; [reflexivity|].
  intros it' w' [H|[H|[]]] Hr; subst it'; vm_compute in Hr; inversion Hr; reflexivity.
Qed.

Example ex_ic_entry_present : exists df a es pre e post w,
  start_cb ex_tree = Ok df /\ interconnects ex_circ ex_lib df = Ok a /\ df_ic df = Some es /\ es = (pre ++ e :: post)%list /\
  ic_resolve ex_circ ex_lib e = Ok (Some w) /\ w_line w = 4 /\
  (forall e' w', In e' post -> ic_resolve ex_circ ex_lib e' = Ok (Some w') -> w_line w' <> 4).
Proof.
  eexists. eexists. eexists. exists []. exists ex_i1. exists [ex_i2]. eexists.
  split; [vm_compute; reflexivity|]. split; [vm_compute; reflexivity|]. split; [vm_compute; reflexivity|].
  split; [reflexivity|]. split; [vm_compute; reflexivity|]. split; [reflexivity|].
  intros e' w' [H|[]] Hr; subst e'; vm_compute in Hr; inversion Hr; simpl; discriminate.
Qed.

Example ex_edge : strip_edge "(posedge CLK)" = "CLK" /\ pols_of "(posedge CLK)" = [false] /\
  strip_edge "(negedge RSTB)" = "RSTB" /\ pols_of "(negedge RSTB)" = [true] /\ strip_edge "A1" = "A1" /\ pols_of "A1" = [false; true] /\
  no_rparen "CLK" = true /\ no_lparen "A1" = true.
Proof. vm_compute. repeat split. Qed.
Example ex_names : strip_bs "u\[3\]" = "u[3]" /\ split_pin "u\[3\]/A1" = Ok ("u\[3\]", Some "A1") /\ split_pin "a0" = Ok ("a0", None) /\
  split_pin "top/u1/A" = Err.
Proof. vm_compute. repeat split. Qed.
Example ex_skip : ic_skipped [0; 0; 0]%Z [0; 0; 0]%Z = Ok true /\ ic_skipped [0; 0; 0]%Z [0; 2; 0]%Z = Ok false /\ (0 <= 2)%Z.
Proof. repeat split. discriminate. Qed.
Example ex_dataset_axis : forall a, nth 1 (nth 0 (nth 5 (nth 2 (tab 11 a) []) []) []) 0%Z = dsel 2 (a 5 false true) /\ 2 < 3 /\ 5 < 11.
Proof. intro a. split; [exact (dataset_axis 11 a 2 5 false true ltac:(lia) ltac:(lia)) | lia]. Qed.
Local Close Scope string_scope.

Theorem cells_none_lost_in bs k e : In e (entries_of k bs) <-> exists es, dict_get k (group bs) = Some es /\ In e es.
Proof.
  rewrite cells_none_lost. split.
  - intro H. destruct (has_block k bs) eqn:E.
    + eauto.
    + rewrite entries_of_nil in H; auto. contradiction.
  - intros [es [H1 H2]]. destruct (has_block k bs); [|discriminate]. inversion H1; subst. auto.
Qed.
