(** Circuit.__getstate__ / Circuit.__setstate__ translated from the source (Gen/CircuitPickleSrc.v,
    translate/gen_circuit_pickle.py) = the hand model [getstate] / [setstate] / [pickle_roundtrip] of Model/Circuit.v on EVERY
    circuit state and EVERY model state dict, the raising cases included.  No invariant is needed: the only precondition is the
    representation itself (indices and pin positions of a [circ] are naturals, so the ints of the state dict are non-negative).
    The rebuilt circuit is compared with [ceq]; the classes __setstate__ creates the list attributes with are part of the result
    and equal what Circuit.__init__ creates ([init_meta]).  *)
From Coq Require Import List Arith Bool String ZArith Lia.
From KV Require Import Model.Circuit Model.CircuitInv Model.CircuitPrimsSrcLib Model.CircuitPickleSrcLib
  Gen.CircuitPrimsSrc Gen.CircuitPickleSrc Proofs.CircuitCeq Proofs.CircuitPrimsSrcProofs Proofs.CircuitCopy Proofs.CircuitProofs.
Import ListNotations.
Local Open Scope list_scope.

Notation sloop1 := Circuit_setstate_src_loop1.
Notation sloop2 := Circuit_setstate_src_loop2.
Notation sloop3 := Circuit_setstate_src_loop3.

(** ** comprehensions *)
Lemma py_map_opt_total {A} (f : A -> pyval) l : py_map_opt (fun x => Some (f x)) l = Some (map f l).
Proof. induction l as [|x l IH]; [reflexivity|]. cbn [py_map_opt map]. rewrite IH. reflexivity. Qed.

Lemma py_map_opt_all_somes {A B} (g : A -> option B) (enc : B -> pyval) (f : A -> option pyval) l :
  (forall x, f x = option_map enc (g x)) -> py_map_opt f l = option_map (map enc) (all_somes (map g l)).
Proof.
  intros H. induction l as [|x l IH]; [reflexivity|]. cbn [py_map_opt map all_somes]. rewrite H.
  destruct (g x) as [y|]; [|reflexivity]. cbn [option_map]. rewrite IH.
  destruct (all_somes (map g l)); reflexivity.
Qed.

(** ** __getstate__ *)
Theorem getstate_src_eq c nm : Circuit_getstate_src c nm = option_map (enc_pstate nm) (getstate c).
Proof.
  unfold Circuit_getstate_src, getstate, py_list_comp.
  rewrite (py_map_opt_total (fun n => PTuple [PStr (n_name (nst c n)); PStr (n_kind (nst c n))])).
  cbn [option_map].
  rewrite (py_map_opt_all_somes
             (fun l => match l_drv (lst c l), l_rdr (lst c l) with
                       | Some d, Some r => Some (n_index (nst c d), l_dpin (lst c l), n_index (nst c r), l_rpin (lst c l))
                       | _, _ => None end) enc_line).
  2: { intros l. destruct (l_drv (lst c l)), (l_rdr (lst c l)); reflexivity. }
  rewrite (py_map_opt_all_somes (option_map (fun n => n_index (nst c n))) enc_io).
  2: { intros [n|]; reflexivity. }
  destruct (all_somes (map _ (lines c))) as [ls|]; [|reflexivity]. cbn [option_map].
  destruct (all_somes (map _ (io c))) as [ios|]; [|reflexivity]. cbn [option_map].
  unfold enc_pstate, name_of, kind_of. rewrite map_map. reflexivity.
Qed.

(** ** the three loops of __setstate__ *)
Lemma sloop1_is_fold st : forall nds a b, ceq a b ->
  oceq (sloop1 a st (map enc_node nds)) (fold_opt set_node nds b).
Proof.
  induction nds as [|[name kind] nds IH]; intros a b H; [exact H|].
  cbn [map fold_opt Circuit_setstate_src_loop1]. unfold enc_node at 1. cbn [fst snd].
  change (py_star_name_kind Node_init_default_kind (PTuple [PStr name; PStr kind])) with (Some (name, kind)).
  cbn [fst snd]. unfold set_node. cbn [fst snd].
  pose proof (node_init_src_eq a name kind) as H1. pose proof (add_node_ceq a b name kind H) as H2.
  destruct (Node_init_src a name kind) as [[s i]|], (add_node a name kind) as [[a1 i1]|]; simpl in H1; try contradiction;
    destruct (add_node b name kind) as [[b1 j]|]; simpl in H2; try contradiction; cbn [option_map fst]; [|exact I].
  apply IH. eapply ceq_trans; [apply H1 | apply H2].
Qed.

Lemma sloop2_is_fold st : forall ls a b, ceq a b ->
  oceq (sloop2 a st (map enc_line ls)) (fold_opt set_line ls b).
Proof.
  induction ls as [|[[[d dp] r] rp] ls IH]; intros a b H; [exact H|].
  cbn [map fold_opt Circuit_setstate_src_loop2]. unfold enc_line at 1.
  change (py_unpack 4 (PTuple [PInt (Z.of_nat d); PInt (Z.of_nat dp); PInt (Z.of_nat r); PInt (Z.of_nat rp)]))
    with (Some [PInt (Z.of_nat d); PInt (Z.of_nat dp); PInt (Z.of_nat r); PInt (Z.of_nat rp)]).
  cbn [py_as_int]. rewrite !py_idx_nat. unfold py_lget, set_line.
  assert (Hno : nodes a = nodes b) by apply H. rewrite Hno.
  destruct (nth_error (nodes b) d) as [d'|]; [|exact I].
  destruct (nth_error (nodes b) r) as [r'|]; [|exact I].
  pose proof (line_init_src_eq a d' (Some dp) r' (Some rp)) as H1.
  pose proof (add_line_ceq a b d' (Some dp) r' (Some rp) H) as [H2 _].
  set (al := add_line a d' (Some dp) r' (Some rp)) in *. clearbody al. destruct al as [a1 i1].
  destruct (Line_init_src a (pin_arg d' (Some dp)) (pin_arg r' (Some rp))) as [[s i]|]; cbn [oceq_id] in H1; [|contradiction].
  destruct H1 as [H1 _]. cbn [fst] in H2.
  apply IH. eapply ceq_trans; [exact H1 | exact H2].
Qed.

Lemma sloop3_is_fold st : forall ios a b, ceq a b ->
  oceq (sloop3 a st (map enc_io ios)) (fold_opt set_ionode ios b).
Proof.
  induction ios as [|i ios IH]; intros a b H; [exact H|].
  cbn [map fold_opt Circuit_setstate_src_loop3]. unfold enc_io at 1. cbn [py_as_int]. rewrite py_idx_nat.
  unfold py_lget, set_ionode, py_append.
  assert (Hno : nodes a = nodes b) by apply H. assert (Hio : io a = io b) by apply H. rewrite Hno, Hio.
  destruct (nth_error (nodes b) i) as [n|]; [|exact I].
  apply IH. apply with_io_ceq. exact H.
Qed.

(** ** __setstate__ on every state dict of the model *)
Theorem setstate_src_eq nm s :
  omceq (Circuit_setstate_src (enc_pstate nm s)) (option_map (pair (init_meta nm)) (setstate s)).
Proof.
  destruct s as [[nds ls] ios]. unfold Circuit_setstate_src, setstate.
  change (py_getitem_key (enc_pstate nm (nds, ls, ios)) "name") with (Some nm).
  change (py_getitem_key (enc_pstate nm (nds, ls, ios)) "nodes") with (Some (PList (map enc_node nds))).
  change (py_getitem_key (enc_pstate nm (nds, ls, ios)) "lines") with (Some (PList (map enc_line ls))).
  change (py_getitem_key (enc_pstate nm (nds, ls, ios)) "io_nodes") with (Some (PList (map enc_io ios))).
  cbv beta zeta iota. cbn [py_iter].
  set (c0 := with_forks _ _).
  assert (H0 : ceq c0 empty) by (apply ceq_refl).
  set (st := enc_pstate nm (nds, ls, ios)).
  pose proof (sloop1_is_fold st nds c0 empty H0) as H1.
  destruct (sloop1 c0 st (map enc_node nds)) as [s1|], (fold_opt set_node nds empty) as [c1|]; simpl in H1; try contradiction;
    [|exact I].
  pose proof (sloop2_is_fold st ls s1 c1 H1) as H2.
  destruct (sloop2 s1 st (map enc_line ls)) as [s2|], (fold_opt set_line ls c1) as [c2|]; simpl in H2; try contradiction;
    [|exact I].
  pose proof (sloop3_is_fold st ios s2 c2 H2) as H3.
  destruct (sloop3 s2 st (map enc_io ios)) as [s3|], (fold_opt set_ionode ios c2) as [c3|]; simpl in H3; try contradiction;
    [|exact I].
  split; [reflexivity | exact H3].
Qed.

(** ** the pair: pickling and unpickling through the translated methods is the model's round trip *)
Definition pickle_roundtrip_src (c : circ) (nm : pyval) : option (cmeta * circ) :=
  match Circuit_getstate_src c nm with Some v => Circuit_setstate_src v | None => None end.

Theorem pickle_source_is_model : forall c nm,
  omceq (pickle_roundtrip_src c nm) (option_map (pair (init_meta nm)) (pickle_roundtrip c)).
Proof.
  intros c nm. unfold pickle_roundtrip_src, pickle_roundtrip. rewrite getstate_src_eq.
  destruct (getstate c) as [s|]; [|exact I]. cbn [option_map]. apply setstate_src_eq.
Qed.

Lemma getstate_ceq a b : ceq a b -> getstate a = getstate b.
Proof.
  intros H. ceq_split H. unfold getstate, name_of, kind_of. rewrite Hno, Hli, Hio.
  replace (map (fun n => (n_name (nst a n), n_kind (nst a n))) (nodes b))
    with (map (fun n => (n_name (nst b n), n_kind (nst b n))) (nodes b)) by (apply map_ext; intros n; rewrite Hn; reflexivity).
  replace (map (option_map (fun n => n_index (nst a n))) (io b))
    with (map (option_map (fun n => n_index (nst b n))) (io b))
    by (apply map_ext; intros [n|]; cbn [option_map]; rewrite ?Hn; reflexivity).
  match goal with |- match all_somes (map ?f _) with _ => _ end = match all_somes (map ?g _) with _ => _ end =>
    replace (map f (lines b)) with (map g (lines b)); [reflexivity|] end.
  apply map_ext. intros l. rewrite Hl. destruct (l_drv (lst b l)), (l_rdr (lst b l)); rewrite ?Hn; reflexivity.
Qed.

(** consequences for a consistent circuit: the unpickled object has the containers of a constructed circuit, satisfies the
    graph invariant, and removing any of its lines afterwards (IndexList.__delitem__ through Line.remove, both translated) keeps
    the invariant -- in particular line indices stay consecutive *)
Theorem pickle_source_inv : forall c nm, CInv c -> io_ok_b c = true ->
  exists m c', pickle_roundtrip_src c nm = Some (m, c') /\ m = init_meta nm /\ CInv c' /\ canon c' = canon c /\ IoLive c'.
Proof.
  intros c nm HI Hio. destruct (pickle_inv c HI Hio) as [c1 [Hp [HI1 [Hc1 HL1]]]].
  pose proof (pickle_source_is_model c nm) as H. rewrite Hp in H. cbn [option_map] in H.
  destruct (pickle_roundtrip_src c nm) as [[m c']|]; simpl in H; [|contradiction]. destruct H as [Hm Hc].
  exists m, c'. split; [reflexivity|]. split; [exact Hm|].
  split; [exact (CInv_ceq _ _ (ceq_sym _ _ Hc) HI1)|]. split; [|exact (IoLive_ceq _ _ (ceq_sym _ _ Hc) HL1)].
  rewrite <- Hc1. unfold canon. apply getstate_ceq. exact Hc.
Qed.

Theorem unpickled_line_remove : forall c nm m c' l, CInv c -> io_ok_b c = true ->
  pickle_roundtrip_src c nm = Some (m, c') -> In l (lines c') ->
  (m_nodes_cls m = CIndexList /\ m_lines_cls m = CIndexList /\ m_io_cls m = CGrowingList) /\
  exists c'', Line_remove_src c' l = Some c'' /\ CInv c'' /\
              forall i l2, nth_error (lines c'') i = Some l2 -> l_alive (lst c'' l2) = true /\ l_index (lst c'' l2) = i.
Proof.
  intros c nm m c' l HI Hio Hp Hin.
  destruct (pickle_source_inv c nm HI Hio) as (m0 & c0 & Hp0 & Hm & HI' & _). rewrite Hp in Hp0. injection Hp0 as <- <-.
  split; [rewrite Hm; repeat split|].
  destruct (line_remove_inv c' l HI' Hin) as (c2 & Hr & HI2).
  pose proof (line_remove_src_eq c' l) as H. rewrite Hr in H.
  destruct (Line_remove_src c' l) as [c''|]; simpl in H; [|contradiction].
  exists c''. split; [reflexivity|].
  assert (HI3 : CInv c'') by exact (CInv_ceq _ _ (ceq_sym _ _ H) HI2).
  split; [exact HI3|]. destruct HI3 as [HC _]. exact (cc_lidx _ _ HC).
Qed.

(** ** concrete instance: the six-node circuit of Proofs/CircuitElimSrcExample.v (two ports, five lines) *)
Definition pk_summary (c : circ) :=
  (map (fun n => (name_of c n, kind_of c n, n_index (nst c n))) (nodes c),
   map (fun l => (l_index (lst c l), l_drv (lst c l), l_dpin (lst c l), l_rdr (lst c l), l_rpin (lst c l))) (lines c),
   io c, map fst (cells c), map fst (forks c)).
From KV Require Import Proofs.CircuitBool Proofs.CircuitElimSrcExample.

Theorem pickle_source_example :
  CInv ex_c /\ io_ok_b ex_c = true /\
  Circuit_getstate_src ex_c (PStr "top") =
    Some (PDict [("name", PStr "top");
                 ("nodes", PList [PTuple [PStr "a"; PStr "__fork__"]; PTuple [PStr "f"; PStr "__fork__"];
                                  PTuple [PStr "s"; PStr "__fork__"]; PTuple [PStr "g"; PStr "AND2"];
                                  PTuple [PStr "z"; PStr "__fork__"]; PTuple [PStr "r"; PStr "BUF1"]]);
                 ("lines", PList [PTuple [PInt 0; PInt 0; PInt 1; PInt 0]; PTuple [PInt 1; PInt 0; PInt 3; PInt 0];
                                  PTuple [PInt 2; PInt 0; PInt 3; PInt 1]; PTuple [PInt 3; PInt 0; PInt 4; PInt 0];
                                  PTuple [PInt 4; PInt 0; PInt 5; PInt 0]]);
                 ("io_nodes", PList [PInt 0; PInt 4])]%string) /\
  option_map (fun p => (fst p, pk_summary (snd p))) (pickle_roundtrip_src ex_c (PStr "top")) =
    Some (init_meta (PStr "top"),
          ([("a", "__fork__", 0); ("f", "__fork__", 1); ("s", "__fork__", 2); ("g", "AND2", 3); ("z", "__fork__", 4);
            ("r", "BUF1", 5)],
           [(0, Some 0, 0, Some 1, 0); (1, Some 1, 0, Some 3, 0); (2, Some 2, 0, Some 3, 1); (3, Some 3, 0, Some 4, 0);
            (4, Some 4, 0, Some 5, 0)],
           [Some 0; Some 4], ["g"; "r"], ["a"; "f"; "s"; "z"]))%string /\
  (* removing the FIRST of the five lines of the unpickled circuit: the last line (id 4) moves to position 0 and is renumbered *)
  match pickle_roundtrip_src ex_c (PStr "top") with
  | Some (_, c') => option_map (fun c => map (fun l => (l, l_index (lst c l))) (lines c)) (Line_remove_src c' 0)
  | None => None
  end = Some [(4, 0); (1, 1); (2, 2); (3, 3)] /\
  (* a state dict that names a missing node / a second node of the same name raises *)
  Circuit_setstate_src (enc_pstate PNone ([("a", "__fork__")], [(0, 0, 1, 0)], []))%string = None /\
  Circuit_setstate_src (enc_pstate PNone ([("a", "__fork__"); ("a", "__fork__")], [], []))%string = None.
Proof.
  split; [apply cinv_b_sound; vm_compute; reflexivity|].
  repeat split; vm_compute; reflexivity.
Qed.
