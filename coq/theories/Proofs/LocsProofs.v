(** C17, prefix lookups: positions of one dictionary level are listed in ascending key order -- numerically
    for bus indices (LSB first), not lexicographically. *)
From Coq Require Import List NArith Bool Arith String Ascii Sorted Lia Permutation.
From KV Require Import Model.Locs.
Import ListNotations.
Local Open Scope list_scope.

Definition key_le (a b : key) : Prop := key_ltb b a = false.

(** on integer keys the order is the numeric one *)
Lemma key_ltb_nat a b : key_ltb (KI a) (KI b) = Nat.ltb a b.
Proof. reflexivity. Qed.

Definition int_keys (l : list (key * trie)) : Prop := Forall (fun kv => exists n, fst kv = KI n) l.

Lemma insert_key_perm kv l : Permutation (insert_key kv l) (kv :: l).
Proof.
  induction l as [|x r IH]; cbn [insert_key]; [apply Permutation_refl|].
  destruct (key_ltb (fst kv) (fst x)); [apply Permutation_refl|].
  eapply Permutation_trans; [apply perm_skip; exact IH | apply perm_swap].
Qed.

Lemma sort_kids_perm l : Permutation (sort_kids l) l.
Proof.
  unfold sort_kids. induction l as [|x r IH]; cbn [fold_right]; [apply Permutation_refl|].
  eapply Permutation_trans; [apply insert_key_perm | apply perm_skip; exact IH].
Qed.

Definition nkey (kv : key * trie) : nat := match fst kv with KI n => n | KS _ => 0 end.

Lemma insert_key_sorted kv l : int_keys (kv :: l) ->
  Sorted (fun a b => nkey a <= nkey b) l -> Sorted (fun a b => nkey a <= nkey b) (insert_key kv l).
Proof.
  intros Hk Hs. induction l as [|x r IH]; cbn [insert_key]; [repeat constructor|].
  inversion Hk as [|? ? [n Hn] Hr]; subst. inversion Hr as [|? ? [m Hm] Hr']; subst.
  destruct (key_ltb (fst kv) (fst x)) eqn:E.
  - constructor; [exact Hs|]. constructor. unfold nkey. rewrite Hn, Hm in *. cbn [key_ltb] in E. apply Nat.ltb_lt in E. lia.
  - inversion Hs as [|? ? Hs' Hh]; subst.
    assert (IHs : Sorted (fun a b => nkey a <= nkey b) (insert_key kv r)).
    { apply IH; [constructor; [exists n; exact Hn | exact Hr'] | exact Hs']. }
    constructor; [exact IHs|].
    assert (Hxk : nkey x <= nkey kv).
    { unfold nkey. rewrite Hn, Hm in *. cbn [key_ltb] in E. apply Nat.ltb_ge in E. exact E. }
    destruct r as [|y r']; cbn [insert_key].
    + constructor. exact Hxk.
    + destruct (key_ltb (fst kv) (fst y)); constructor; [exact Hxk|].
      inversion Hh; subst. assumption.
Qed.

(** a dictionary level with integer keys is listed in ascending NUMERIC order of the keys *)
Theorem sort_kids_numeric l : int_keys l -> Sorted (fun a b => nkey a <= nkey b) (sort_kids l) /\ Permutation (sort_kids l) l.
Proof.
  intro Hk. split; [|apply sort_kids_perm].
  unfold sort_kids. induction l as [|x r IH]; cbn [fold_right]; [constructor|].
  inversion Hk as [|? ? Hx Hr]; subst.
  apply insert_key_sorted; [|apply IH; exact Hr].
  constructor; [exact Hx|].
  eapply Permutation_Forall; [apply Permutation_sym; apply sort_kids_perm | exact Hr].
Qed.

(** a bus is listed from LSB to MSB by numeric index, not lexicographically *)
Example bus_numeric :
  locs "d" ["d[10]"; "d[2]"; "q"; "d[1]"; "d[0]"]%string = Some (Some (RList [RLeaf 4; RLeaf 3; RLeaf 1; RLeaf 0])).
Proof. vm_compute. reflexivity. Qed.
(** multi-dimensional names give nested lists, outer keys in order *)
Example bus_2d :
  locs "m" ["m[1][0]"; "m[0][1]"; "m[0][0]"; "m[1][1]"]%string
  = Some (Some (RList [RList [RLeaf 2; RLeaf 1]; RList [RLeaf 0; RLeaf 3]])).
Proof. vm_compute. reflexivity. Qed.
