(** C10, library clause: the exhaustive sweeps over lib_GSC180 (regenerated from techlib.py on every run), evaluated by the
    kernel's VM once each (vm_cast_no_check: the only evaluation is the one at Qed).  Nothing but Properties/C10Lib.v depends
    on this file. *)
From Coq Require Import List Bool String.
From KV Require Import Model.TechCell Model.CellCircuit Gen.TechLibs.

Lemma GSC180_all : lib_all_fast lib_GSC180 d15_GSC180 = true.
Proof. vm_cast_no_check (eq_refl true). Qed.
Lemma GSC180_one : lib_one_fast lib_GSC180 d15_GSC180 = true.
Proof. vm_cast_no_check (eq_refl true). Qed.
Lemma GSC180_noout : lib_noout_fast lib_GSC180 = true.
Proof. vm_cast_no_check (eq_refl true). Qed.
Lemma GSC180_all_refuted : lib_all_refuted lib_GSC180 d15_GSC180 = true.
Proof. vm_cast_no_check (eq_refl true). Qed.
Lemma GSC180_one_refuted : lib_one_refuted lib_GSC180 d15_GSC180 = true.
Proof. vm_cast_no_check (eq_refl true). Qed.
Lemma GSC180_noout_refuted : lib_noout_refuted lib_GSC180 = true.
Proof. vm_cast_no_check (eq_refl true). Qed.

(* instances inside and outside the exceptions exist *)
Lemma GSC180_has_seq : lib_has lib_GSC180 (wit_seq d15_GSC180) = true.
Proof. vm_cast_no_check (eq_refl true). Qed.
Lemma GSC180_has_comb : lib_has lib_GSC180 (wit_comb d15_GSC180) = true.
Proof. vm_cast_no_check (eq_refl true). Qed.
Lemma GSC180_has_d22 : lib_has lib_GSC180 wit_d22 = true.
Proof. vm_cast_no_check (eq_refl true). Qed.
Lemma GSC180_has_d15 : lib_has lib_GSC180 (fun _ name => is_d15 d15_GSC180 name) = true.
Proof. vm_cast_no_check (eq_refl true). Qed.
