(** Non-vacuity of the source tie of the evaluation loop: a concrete netlist (fork, reconvergence, flip-flop; both options on) inside the
    domain of [build_ops_located], on which the translated loop is run. *)
From Coq Require Import List ZArith NArith Bool Arith Lia String.
From KV Require Import Model.Prims Model.Netlist Model.NetlistWf Model.SimOps Model.SimOpsCert Model.LogicSimModel
     Model.LogicSimDrvPrelude Gen.LogicSimDriversSrc Proofs.ReuseProofs Proofs.LogicSimGlue Proofs.LogicSimDriversProofs.
Import ListNotations.
Local Open Scope list_scope.
Import ReuseExample GlueExample.

Example source_loop_example : exists so, build exR (repeat 1%N 7) 1%N true true = Some so /\ ops_located so /\ (2 <= List.length (so_ops so))%nat /\
  let m := [true; false; true; true; false; true; false; true; true] in
  run_loop 1 loop_prop_cpu (so_locs so) (so_nlines so) 0 0 None (map row_of (so_ops so)) (map emb2 m) = (map emb2 (c_prop false sem2 so m), []) /\
  c_prop false sem2 so m <> m.
Proof.
  destruct (build exR (repeat 1%N 7) 1%N true true) as [so|] eqn:Hb; [|vm_compute in Hb; discriminate Hb].
  exists so. split; [reflexivity|]. destruct exR_hyps as (WF & AC & GK & FO).
  pose proof (build_ops_located exR _ 1%N true true so WF AC eq_refl GK (fun _ => FO) Hb) as HL.
  split; [exact HL|]. split; [vm_compute in Hb; injection Hb as <-; vm_compute; lia|].
  cbv zeta. split; [apply prop_cpu_source_is_model; exact HL|].
  vm_compute in Hb. injection Hb as <-. vm_compute. discriminate.
Qed.
