(** Circuit-level (op-list level) corollaries of the per-gate waveform theorems:
    W1 settling (C03), W2 8-valued logic predicts timing simulation (C05), W3 static timing window (C04). *)
From Coq Require Import List ZArith NArith Bool Arith Lia.
From KV Require Import Model.Prims Model.Logic Model.OpSem Model.SimOps Model.Time Model.WaveEval Model.WaveSpec Model.WaveOps
     Gen.SimTables Proofs.WaveCore Proofs.WaveEquiv Proofs.Dispatch.
Import ListNotations.
Local Open Scope list_scope.

Definition good_caps (cap : nat -> nat) := forall k, 4 <= cap k.
Definition good_delays (delays : nat -> dtab) := forall k, dtab_nonneg (delays k).

(* ------------------------------------------------------------------ *)
(** * [upto_end] keeps everything one can say about a waveform *)

Lemma body_upto_end w : body (upto_end w) = body w.
Proof.
  unfold body. rewrite WaveEquiv.ntrans_upto_end.
  induction w as [|t r IH]; [reflexivity|].
  simpl. destruct (is_end t); simpl; [reflexivity|]. f_equal. exact IH.
Qed.

Lemma length_upto_end w : ntrans w < length w -> length (upto_end w) = S (ntrans w).
Proof.
  induction w as [|t r IH]; simpl; [lia|].
  destruct (is_end t); simpl; [reflexivity|]. intros H. f_equal. apply IH. lia.
Qed.

Lemma wf_upto_end w : wf_wave w -> wf_wave (upto_end w).
Proof.
  intros (Hlen & Hmin). split.
  - rewrite WaveEquiv.ntrans_upto_end, length_upto_end by exact Hlen. lia.
  - intros i H0 Hi. rewrite WaveEquiv.ntrans_upto_end in Hi.
    rewrite WaveEquiv.wget_upto_end by lia. apply Hmin; assumption.
Qed.

Lemma init_upto_end w : init_val (upto_end w) = init_val w.
Proof. unfold init_val. rewrite WaveEquiv.hd_upto_end. reflexivity. Qed.

Lemma final_upto_end w : final_val (upto_end w) = final_val w.
Proof. unfold final_val. rewrite WaveEquiv.ntrans_upto_end. reflexivity. Qed.

Lemma has_finite_upto_end w : has_finite (upto_end w) = has_finite w.
Proof. unfold has_finite. rewrite body_upto_end. reflexivity. Qed.

Lemma terminator_upto_end w : terminator (upto_end w) = terminator w.
Proof. unfold terminator. rewrite WaveEquiv.ntrans_upto_end. apply WaveEquiv.wget_upto_end. lia. Qed.

(* ------------------------------------------------------------------ *)
(** * One op *)

Lemma lut_at_bit lut a b c d : lut_at lut [a; b; c; d] = lut_bit lut a b c d.
Proof. unfold lut_at, lut_bit. f_equal. destruct a, b, c, d; reflexivity. Qed.

Definition idxs (o : sop) : list nat := [s_i0 o; s_i1 o; s_i2 o; s_i3 o].
Definition wsof (e : wenv) (o : sop) : list (list time) := map e (idxs o).
Definition dsof (delays : nat -> dtab) (o : sop) : list dtab := map delays (idxs o).
Definition zof (cap : nat -> nat) (o : sop) : list time := repeat MaxInf (cap (s_out o)).

Lemma wop_eq delays cap e o :
  wop delays cap e o =
  match wave_eval (s_lut o) (wsof e o) (dsof delays o) (zof cap o) with
  | Some r => upto_end (r_z r) | None => [MaxInf] end.
Proof. reflexivity. Qed.

Lemma args_wf delays cap e o :
  good_delays delays -> good_caps cap -> (forall k, wf_wave (e k)) ->
  WaveCore.wf_args (wsof e o) (dsof delays o) (zof cap o).
Proof.
  intros Hd Hc He. unfold WaveCore.wf_args, wsof, dsof, zof, idxs. cbn [map].
  split; [reflexivity|]. split; [reflexivity|].
  split; [repeat constructor; apply He|].
  split; [repeat constructor; apply Hd|].
  rewrite repeat_length. apply Hc.
Qed.

Lemma args_wf' delays cap e o :
  good_delays delays -> good_caps cap -> (forall k, wf_wave (e k)) ->
  WaveEquiv.wf_args (wsof e o) (dsof delays o) (zof cap o).
Proof. exact (args_wf delays cap e o). Qed.

Lemma wop_some delays cap e o :
  good_delays delays -> good_caps cap -> (forall k, wf_wave (e k)) ->
  exists r, wave_eval (s_lut o) (wsof e o) (dsof delays o) (zof cap o) = Some r /\
            wop delays cap e o = upto_end (r_z r).
Proof.
  intros Hd Hc He. pose proof (args_wf delays cap e o Hd Hc He) as Hwf.
  destruct (wave_total (s_lut o) _ _ _ Hwf) as (r & Hr). exists r. split; [exact Hr|].
  rewrite wop_eq, Hr. reflexivity.
Qed.

Lemma wop_props delays cap e o :
  good_delays delays -> good_caps cap -> (forall k, wf_wave (e k)) ->
  wf_wave (wop delays cap e o) /\
  init_val (wop delays cap e o) =
    lut_bit (s_lut o) (init_val (e (s_i0 o))) (init_val (e (s_i1 o))) (init_val (e (s_i2 o))) (init_val (e (s_i3 o))) /\
  final_val (wop delays cap e o) =
    lut_bit (s_lut o) (final_val (e (s_i0 o))) (final_val (e (s_i1 o))) (final_val (e (s_i2 o))) (final_val (e (s_i3 o))).
Proof.
  intros Hd Hc He. pose proof (args_wf delays cap e o Hd Hc He) as Hwf.
  destruct (wop_some delays cap e o Hd Hc He) as (r & Hr & ->).
  split; [|split].
  - apply wf_upto_end. eapply wave_wf; eauto.
  - rewrite init_upto_end, (wave_init _ _ _ _ _ Hwf Hr). apply lut_at_bit.
  - rewrite final_upto_end, (wave_final _ _ _ _ _ Hwf Hr). apply lut_at_bit.
Qed.

(* ------------------------------------------------------------------ *)
(** * W1 *)

Lemma settles_gen delays cap : good_delays delays -> good_caps cap ->
  forall ops (e : wenv) (bi bf : nat -> bool),
  (forall k, wf_wave (e k) /\ init_val (e k) = bi k /\ final_val (e k) = bf k) ->
  forall k, wf_wave (wexec delays cap ops e k) /\
            init_val (wexec delays cap ops e k) = bexec ops bi k /\
            final_val (wexec delays cap ops e k) = bexec ops bf k.
Proof.
  intros Hd Hc. induction ops as [|o ops IH]; intros e bi bf H; [exact H|].
  cbn [wexec bexec fold_left]. apply IH. intros k.
  assert (Hw : forall j, wf_wave (e j)) by (intro j; apply H).
  assert (Hi : forall j, init_val (e j) = bi j) by (intro j; apply H).
  assert (Hf : forall j, final_val (e j) = bf j) by (intro j; apply H).
  unfold wstep, wupd, bstep, lut_sem. destruct (Nat.eqb k (s_out o)); [|apply H].
  destruct (wop_props delays cap e o Hd Hc Hw) as (H1 & H2 & H3).
  rewrite H2, H3, !Hi, !Hf. auto.
Qed.

Theorem wave_circuit_settles delays cap ops (e : wenv) :
  good_delays delays -> good_caps cap -> (forall k, wf_wave (e k)) ->
  forall k, wf_wave (wexec delays cap ops e k) /\
            init_val (wexec delays cap ops e k) = bexec ops (fun j => init_val (e j)) k /\
            final_val (wexec delays cap ops e k) = bexec ops (fun j => final_val (e j)) k.
Proof.
  intros Hd Hc He. apply settles_gen; auto.
Qed.

(* ------------------------------------------------------------------ *)
(** * W2 *)

Definition predicts (w : list time) (c : code) : Prop :=
  wf_wave w /\ known c = true /\ init_val w = ini c /\ final_val w = fin c /\ (act c = false -> has_finite w = false).

Lemma prim_of_lut l p : prim_of l = Some p -> lut_of p = Some l.
Proof.
  unfold prim_of. intros H. apply find_some in H. destruct H as (_ & H).
  unfold lut_of. destruct (assoc (prim_name p) lut_table) as [v|]; [|discriminate].
  apply N.eqb_eq in H. subst. reflexivity.
Qed.

Lemma prim_of_fn l p : prim_of l = Some p -> forall a b c d, lut_bit l a b c d = prim_fn p a b c d.
Proof.
  intros H. apply prim_of_lut in H. destruct (lut_correct p) as (l' & E & Hl).
  rewrite H in E. injection E as <-. exact Hl.
Qed.

Lemma quiet_is2 c : known c = true -> act c = false -> is2 c = true.
Proof. destruct c; cbn; congruence. Qed.

Lemma is2_ini_fin c : is2 c = true -> ini c = fin c.
Proof. destruct c; cbn; congruence. Qed.

Lemma predicts_cube w x v : predicts w x -> (has_finite w = false -> v = init_val w) -> in_cube x v = true.
Proof.
  intros (_ & Hk & Hi & _ & Ha) Hv. unfold in_cube. destruct (act x) eqn:E; [reflexivity|].
  cbn [orb]. rewrite (Hv (Ha eq_refl)), Hi, (is2_ini_fin x (quiet_is2 x Hk E)). apply eqb_reflx.
Qed.

Lemma wop_predicts delays cap e e8 o p :
  good_delays delays -> good_caps cap -> (forall k, predicts (e k) (e8 k)) ->
  prim_of (s_lut o) = Some p ->
  predicts (wop delays cap e o) (spec_prim p (e8 (s_i0 o)) (e8 (s_i1 o)) (e8 (s_i2 o)) (e8 (s_i3 o))).
Proof.
  intros Hd Hc H Hp.
  assert (Hw : forall j, wf_wave (e j)) by (intro j; apply H).
  assert (Hk : forall j, known (e8 j) = true) by (intro j; apply H).
  assert (Hi : forall j, init_val (e j) = ini (e8 j)) by (intro j; apply H).
  assert (Hf : forall j, final_val (e j) = fin (e8 j)) by (intro j; apply H).
  pose proof (prim_of_fn _ _ Hp) as Hfn.
  destruct (wop_props delays cap e o Hd Hc Hw) as (H1 & H2 & H3).
  destruct (proj8_op p _ _ _ _ (Hk (s_i0 o)) (Hk (s_i1 o)) (Hk (s_i2 o)) (Hk (s_i3 o))) as (P1 & P2 & P3).
  split; [exact H1|]. split; [exact P1|].
  split; [rewrite H2, Hfn, !Hi, P3; reflexivity|].
  split; [rewrite H3, Hfn, !Hf, P2; reflexivity|].
  intros Hact.
  pose proof (args_wf delays cap e o Hd Hc Hw) as Hwf.
  destruct (wop_some delays cap e o Hd Hc Hw) as (r & Hr & ->).
  rewrite has_finite_upto_end.
  apply (no_change_no_edge _ _ _ _ _ Hwf Hr).
  intros vs Hlen Hvs.
  destruct vs as [|a' [|b' [|c' [|d' [|? ?]]]]]; try discriminate Hlen.
  pose proof (quiet_is2 _ P1 Hact) as His2.
  unfold wsof, idxs in *. cbn [map]. rewrite !lut_at_bit, !Hfn, !Hi, <- P3, (is2_ini_fin _ His2).
  apply hazard_sound_op; auto.
  - apply (predicts_cube (e (s_i0 o))); [apply H|]. exact (Hvs 0 ltac:(lia)).
  - apply (predicts_cube (e (s_i1 o))); [apply H|]. exact (Hvs 1 ltac:(lia)).
  - apply (predicts_cube (e (s_i2 o))); [apply H|]. exact (Hvs 2 ltac:(lia)).
  - apply (predicts_cube (e (s_i3 o))); [apply H|]. exact (Hvs 3 ltac:(lia)).
Qed.

Theorem logic8_predicts_wave delays cap ops (e : wenv) (e8 : nat -> code) :
  good_delays delays -> good_caps cap ->
  (forall o, In o ops -> prim_of (s_lut o) <> None) ->
  (forall k, predicts (e k) (e8 k)) ->
  forall k, predicts (wexec delays cap ops e k) (cexec ops e8 k).
Proof.
  intros Hd Hc. revert e e8. induction ops as [|o ops IH]; intros e e8 Hops H; [exact H|].
  cbn [wexec cexec fold_left]. apply IH; [intros o' Ho'; apply Hops; right; exact Ho'|].
  intros k. unfold wstep, wupd, cstep. destruct (Nat.eqb k (s_out o)); [|apply H].
  destruct (prim_of (s_lut o)) as [p|] eqn:Hp; [|exfalso; apply (Hops o); [left; reflexivity|exact Hp]].
  apply wop_predicts; auto.
Qed.

(* ------------------------------------------------------------------ *)
(** * W3 *)

Lemma dget_bounds d i j : (dmin d <= dget d i j <= dmax d)%Z.
Proof. unfold dmin, dmax. destruct i, j; cbn [dget]; lia. Qed.

Lemma wjoin_l a b t : in_win a t -> in_win (wjoin a b) t.
Proof. destruct a as [[l1 h1]|], b as [[l2 h2]|]; cbn; lia. Qed.

Lemma wjoin_r a b t : in_win b t -> in_win (wjoin a b) t.
Proof. destruct a as [[l1 h1]|], b as [[l2 h2]|]; cbn; lia. Qed.

Lemma wjoin_fold_acc l : forall acc t, in_win acc t -> in_win (fold_left wjoin l acc) t.
Proof. induction l as [|x l IH]; intros acc t H; [exact H|]. cbn [fold_left]. apply IH, wjoin_l, H. Qed.

Lemma wjoin_fold_in l : forall acc x t, In x l -> in_win x t -> in_win (fold_left wjoin l acc) t.
Proof.
  induction l as [|y l IH]; intros acc x t Hin H; [destruct Hin|].
  cbn [fold_left]. destruct Hin as [ -> | Hin].
  - apply wjoin_fold_acc, wjoin_r, H.
  - eapply IH; eauto.
Qed.

Lemma wshift_in delays (w : nat -> win) k u i j :
  in_win (w k) u -> in_win (wshift delays w k) (u + dget (delays k) i j).
Proof.
  unfold wshift. destruct (w k) as [[l h]|]; cbn; [|auto].
  pose proof (dget_bounds (delays k) i j). lia.
Qed.

Lemma wop_covers delays cap e (w : nat -> win) o :
  good_delays delays -> good_caps cap -> (forall k, wf_wave (e k)) -> (forall k, covers (w k) (e k)) ->
  covers (fold_left wjoin (map (wshift delays w) (idxs o)) None) (wop delays cap e o).
Proof.
  intros Hd Hc Hw Hcov t Hin.
  destruct (wop_some delays cap e o Hd Hc Hw) as (r & Hr & E). rewrite E, body_upto_end in Hin.
  destruct (emit_is_sum _ _ _ _ _ (args_wf' delays cap e o Hd Hc Hw) Hr t Hin) as (k & u & i & j & Hk & Hu & ->).
  assert (Hk' : k = 0 \/ k = 1 \/ k = 2 \/ k = 3) by lia.
  unfold wsof, dsof, idxs in *. cbn [map] in *.
  destruct Hk' as [ -> | [ -> | [ -> | -> ] ] ]; cbn [nth] in *;
    (eapply wjoin_fold_in; [|apply wshift_in; eapply Hcov; exact Hu]); cbn; auto.
Qed.

Lemma sta_gen delays cap : good_delays delays -> good_caps cap ->
  forall ops (e : wenv) (w : nat -> win),
  (forall k, wf_wave (e k) /\ covers (w k) (e k)) ->
  forall k, wf_wave (wexec delays cap ops e k) /\ covers (sta delays ops w k) (wexec delays cap ops e k).
Proof.
  intros Hd Hc. induction ops as [|o ops IH]; intros e w H; [exact H|].
  cbn [wexec sta fold_left]. apply IH. intros k.
  assert (Hw : forall j, wf_wave (e j)) by (intro j; apply H).
  assert (Hcov : forall j, covers (w j) (e j)) by (intro j; apply H).
  unfold wstep, wupd, sta_step. destruct (Nat.eqb k (s_out o)); [|apply H].
  split; [apply wop_props; auto|]. apply (wop_covers delays cap e w o); auto.
Qed.

Theorem sta_window delays cap ops (e : wenv) (w0 : nat -> win) :
  good_delays delays -> good_caps cap -> (forall k, wf_wave (e k)) ->
  (forall k, covers (w0 k) (e k)) ->
  forall k, covers (sta delays ops w0 k) (wexec delays cap ops e k).
Proof.
  intros Hd Hc Hw Hcov k. apply sta_gen; auto.
Qed.

(* ------------------------------------------------------------------ *)
(** * A concrete instance: inverter chain 0 -> 2 -> 3 and XOR2 of (0, 3) into 4; index 9 is the constant-0 slot *)

Module Example1.
Local Open Scope Z_scope.
Definition ops : list sop :=
  [ {| s_lut := 21845; s_out := 2; s_i0 := 0; s_i1 := 9; s_i2 := 9; s_i3 := 9 |};     (* INV1 *)
    {| s_lut := 21845; s_out := 3; s_i0 := 2; s_i1 := 9; s_i2 := 9; s_i3 := 9 |};     (* INV1 *)
    {| s_lut := 26214; s_out := 4; s_i0 := 0; s_i1 := 3; s_i2 := 9; s_i3 := 9 |} ].   (* XOR2 *)
Definition e0 : wenv := fun k =>
  match k with
  | 0%nat => [Fin 10; Fin 20; Fin 50; MaxInf; MaxInf]
  | 1%nat => [MinInf; Fin 7; MaxInf]
  | _ => [MaxInf]
  end.
Definition dl : nat -> dtab := fun k =>
  match k with
  | 0%nat => {| d00 := 1; d01 := 2; d10 := 3; d11 := 4 |}
  | 2%nat => {| d00 := 5; d01 := 5; d10 := 6; d11 := 6 |}
  | 3%nat => {| d00 := 2; d01 := 3; d10 := 2; d11 := 3 |}
  | _ => dzero
  end.
Definition cp : nat -> nat := fun k => match k with 4%nat => 4%nat | _ => 8%nat end.

Lemma e0_wf k : wf_wave (e0 k).
Proof.
  destruct k as [|[|k]]; (split; [vm_compute; lia|]); cbn; intros i H0 Hi;
    try (destruct i as [|[|[|i]]]; try lia; cbn; discriminate).
Qed.
Lemma dl_ok : good_delays dl.
Proof. intros k. destruct k as [|[|[|[|k]]]]; cbv; repeat split; discriminate. Qed.
Lemma cp_ok : good_caps cp.
Proof. intros k. unfold cp. destruct k as [|[|[|[|[|k]]]]]; lia. Qed.

Definition settles := wave_circuit_settles dl cp ops e0 dl_ok cp_ok e0_wf.

Eval vm_compute in (map (wexec dl cp ops e0) [0; 2; 3; 4]%nat).
Eval vm_compute in (map (bexec ops (fun j => init_val (e0 j))) [0; 2; 3; 4]%nat,
                    map (bexec ops (fun j => final_val (e0 j))) [0; 2; 3; 4]%nat).
Eval vm_compute in (map (sta dl ops (fun k => match k with 0%nat => Some (10, 50) | _ => None end)) [0; 2; 3; 4]%nat).

Example settles_line4 :
  wf_wave (wexec dl cp ops e0 4%nat) /\ init_val (wexec dl cp ops e0 4%nat) = false /\
  final_val (wexec dl cp ops e0 4%nat) = false.
Proof. exact (settles 4%nat). Qed.

(* the XOR output overflows its 4-entry region; it still starts and ends at the Boolean values *)
Example line4_wave : wexec dl cp ops e0 4%nat = [Fin 11; Fin 21; MaxOvl].
Proof. vm_compute. reflexivity. Qed.
(* W3 instance: the overflowed XOR output [Fin 11; Fin 21; MaxOvl] lies inside the STA window (11, 63) *)
Definition w0 : nat -> win := fun k => match k with 0%nat => Some (10, 50) | 1%nat => Some (7, 7) | _ => None end.
Lemma w0_covers k : covers (w0 k) (e0 k).
Proof.
  destruct k as [|[|k]]; intros t Hin; cbn in Hin; repeat (destruct Hin as [Hin|Hin]; try discriminate Hin);
    try (injection Hin as <-; cbn; lia); try contradiction.
Qed.
Example sta_line4 : covers (Some (11, 63)) (wexec dl cp ops e0 4%nat).
Proof. exact (sta_window dl cp ops e0 w0 dl_ok cp_ok e0_wf w0_covers 4%nat). Qed.

(* W2 instance: input 0 rises, input 1 falls, everything else is a plain 0 *)
Definition c0 : nat -> code := fun k => match k with 0%nat => Rise | 1%nat => Fall | _ => Zero end.
Lemma c0_predicts k : predicts (e0 k) (c0 k).
Proof.
  split; [apply e0_wf|]. destruct k as [|[|k]]; cbn; repeat split; congruence.
Qed.
Lemma ops_prims o : In o ops -> prim_of (s_lut o) <> None.
Proof. intros [<-|[<-|[<-|[]]]]; vm_compute; discriminate. Qed.
Eval vm_compute in (map (cexec ops c0) [0; 2; 3; 4]%nat).
Example predicts_line4 : predicts (wexec dl cp ops e0 4%nat) PP.
Proof. exact (logic8_predicts_wave dl cp ops e0 c0 dl_ok cp_ok ops_prims c0_predicts 4%nat). Qed.
End Example1.

Print Assumptions wave_circuit_settles.
Print Assumptions logic8_predicts_wave.
Print Assumptions sta_window.
