(** The delay-dataset selection at the top of wave_sim._wave_eval, as translated from the source (Gen/WaveEvalSrc.v
    [select_idx_src]; the translator pins the shape of that `if`), is Model/WaveStripModel.v [select_idx] with the LCG of the
    source as its mode-2 parameter -- the selection all C06 dataset theorems are about. *)
From Coq Require Import List ZArith NArith Bool Arith Lia.
From KV Require Import Model.Time Model.WaveEval Model.WaveSrcPrelude Gen.WaveEvalSrc Model.WaveStripModel.
Import ListNotations.

(** mode 2: the four LCG rounds of the source on Python's unbounded ints *)
Definition pick2_src (seed zidx ctl0 : nat) : nat :=
  Z.to_nat (WaveEvalSrc.select_rnd_src (Z.of_nat seed) (Z.of_nat zidx) (Z.of_nat ctl0)).

Lemma rnd_nonneg s z c : (0 <= s -> 0 <= z -> 0 <= c -> 0 <= WaveEvalSrc.select_rnd_src s z c)%Z.
Proof.
  intros Hs Hz Hc. unfold WaveEvalSrc.select_rnd_src. cbv zeta.
  pose proof (proj2 (Z.shiftl_nonneg s 4) Hs). pose proof (proj2 (Z.shiftl_nonneg z 20) Hz). lia.
Qed.

Theorem select_idx_src_is_model nd mode seed ctl0 zidx :
  WaveEvalSrc.select_idx_src (Z.of_nat nd) (Z.of_nat mode) (Z.of_nat seed) (Z.of_nat ctl0) (Z.of_nat zidx) =
  Z.of_nat (select_idx pick2_src nd mode seed ctl0 zidx).
Proof.
  unfold WaveEvalSrc.select_idx_src, select_idx.
  assert (E : (1 <? Z.of_nat nd)%Z = Nat.ltb 1 nd).
  { destruct (Nat.ltb_spec 1 nd); [apply Z.ltb_lt|apply Z.ltb_ge]; lia. }
  rewrite E. destruct (Nat.ltb 1 nd) eqn:Hnd; [|reflexivity].
  destruct mode as [|[|m]]; [reflexivity|reflexivity|].
  destruct (Z.eqb_spec (Z.of_nat (S (S m))) 0); [lia|]. destruct (Z.eqb_spec (Z.of_nat (S (S m))) 1); [lia|].
  unfold pick2_src. rewrite Nat2Z.inj_mod, Z2Nat.id; [reflexivity|].
  apply rnd_nonneg; lia.
Qed.
