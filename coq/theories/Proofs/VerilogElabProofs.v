(** C11 -- theorems about the transcribed helpers of verilog.py (Model/VerilogElab.v): ranges and bit
    names, sized constants, concatenation, the port position table and the io list.  All statements
    quantify over all inputs; each is followed by an Example on non-trivial data. *)
From Coq Require Import List ZArith NArith Bool String Ascii Lia Arith FinFun DecimalString DecimalN DecimalPos.
From KV Require Import Model.VerilogElab.
Import ListNotations.
Local Open Scope list_scope.

(** * ranges *)
Lemma up_length a b : List.length (py_range_up a b) = Z.to_nat (b - a).
Proof. unfold py_range_up. now rewrite map_length, seq_length. Qed.
Lemma down_length a b : List.length (py_range_down a b) = Z.to_nat (a - b).
Proof. unfold py_range_down. now rewrite map_length, seq_length. Qed.
Lemma nth_map_seq {A} (f : nat -> A) n : forall s k d, (k < n)%nat -> nth k (map f (seq s n)) d = f (s + k)%nat.
Proof.
  induction n as [| n IH]; intros s k d H; [lia |].
  destruct k; simpl; [f_equal; lia |]. rewrite IH by lia. f_equal. lia.
Qed.
Lemma up_nth a b k : (k < Z.to_nat (b - a))%nat -> nth k (py_range_up a b) 0%Z = (a + Z.of_nat k)%Z.
Proof. intros H. unfold py_range_up. now rewrite nth_map_seq. Qed.
Lemma down_nth a b k : (k < Z.to_nat (a - b))%nat -> nth k (py_range_down a b) 0%Z = (a - Z.of_nat k)%Z.
Proof. intros H. unfold py_range_down. now rewrite nth_map_seq. Qed.

Theorem range_length : forall l r, List.length (vrange l (Some r)) = Z.to_nat (Z.abs (l - r) + 1).
Proof.
  intros l r. unfold vrange. destruct (Z.leb_spec l r).
  - rewrite up_length. f_equal. lia.
  - rewrite down_length. f_equal. lia.
Qed.
Theorem range_nth : forall l r k, (k < Z.to_nat (Z.abs (l - r) + 1))%nat ->
  nth k (vrange l (Some r)) 0%Z = if (l <=? r)%Z then (l + Z.of_nat k)%Z else (l - Z.of_nat k)%Z.
Proof.
  intros l r k H. unfold vrange. destruct (Z.leb_spec l r).
  - apply up_nth. lia.
  - apply down_nth. lia.
Qed.
Theorem range_single : forall l, vrange l None = [l].
Proof.
  intros l. unfold vrange. rewrite Z.leb_refl. unfold py_range_up.
  replace (l + 1 - l)%Z with 1%Z by lia. simpl. f_equal. lia.
Qed.
Lemma last_as_nth {A} (l : list A) d : last l d = nth (List.length l - 1) l d.
Proof.
  induction l as [| x l IH]; [reflexivity |]. destruct l as [| y l]; [reflexivity |].
  change (last (x :: y :: l) d) with (last (y :: l) d). rewrite IH. simpl. now rewrite Nat.sub_0_r.
Qed.
Theorem range_ends : forall l r, hd 0%Z (vrange l (Some r)) = l /\ last (vrange l (Some r)) 0%Z = r.
Proof.
  intros l r. split.
  - assert (HD : forall (x : list Z), hd 0%Z x = nth 0 x 0%Z) by (intros [|]; reflexivity).
    rewrite HD, range_nth by lia. destruct (l <=? r)%Z; simpl; lia.
  - rewrite last_as_nth, range_length, range_nth by lia.
    destruct (Z.leb_spec l r); lia.
Qed.
Theorem range_bounds : forall l r x, In x (vrange l (Some r)) -> (Z.min l r <= x <= Z.max l r)%Z.
Proof.
  intros l r x H. apply (In_nth _ _ 0%Z) in H. destruct H as [k [Hk E]].
  rewrite range_length in Hk. rewrite range_nth in E by assumption.
  destruct (Z.leb_spec l r); lia.
Qed.
Theorem range_nodup : forall l r, NoDup (vrange l r).
Proof.
  intros l r. unfold vrange. destruct (l <=? _)%Z.
  - unfold py_range_up. apply Injective_map_NoDup; [intros a b; lia | apply seq_NoDup].
  - unfold py_range_down. apply Injective_map_NoDup; [intros a b; lia | apply seq_NoDup].
Qed.

(** names of a declared bus: one per index, in declared direction *)
Theorem range_names : forall kind base l r,
  let names := decl_names {| d_kind := kind; d_base := base; d_rng := Some (vrange l (Some r)) |} in
  List.length names = Z.to_nat (Z.abs (l - r) + 1) /\
  (forall k, (k < List.length names)%nat ->
     nth k names ""%string = bitname base (if (l <=? r)%Z then l + Z.of_nat k else l - Z.of_nat k)%Z) /\
  sigsel (AName base (Some (vrange l (Some r)))) = one_or_many names.
Proof.
  intros kind base l r names. unfold names, decl_names. simpl.
  rewrite map_length, range_length. split; [reflexivity | split; [| reflexivity]].
  intros k Hk.
  rewrite (nth_indep _ ""%string (bitname base 0%Z)) by now rewrite map_length, range_length.
  rewrite map_nth. rewrite range_nth by assumption. destruct (l <=? r)%Z; reflexivity.
Qed.
Example range_names_ex :
  decl_names {| d_kind := KOutput; d_base := "q"%string; d_rng := Some (vrange 2 (Some 0%Z)) |} = ["q[2]"; "q[1]"; "q[0]"]%string /\
  decl_names {| d_kind := KInput; d_base := "d"%string; d_rng := Some (vrange 9 (Some 11%Z)) |} = ["d[9]"; "d[10]"; "d[11]"]%string.
Proof. split; reflexivity. Qed.

(** * bit names are injective (bases without '[', non-negative indices) *)
Lemma to_uint_nonnil n : N.to_uint n <> Decimal.Nil.
Proof. destruct n; simpl; [discriminate | apply Unsigned.to_uint_nonnil]. Qed.
Lemma dec_inj i j : (0 <= i)%Z -> (0 <= j)%Z -> dec i = dec j -> i = j.
Proof.
  unfold dec. intros Hi Hj E.
  assert (N.to_uint (Z.to_N i) = N.to_uint (Z.to_N j)).
  { pose proof (NilZero.usu _ (to_uint_nonnil (Z.to_N i))) as A.
    pose proof (NilZero.usu _ (to_uint_nonnil (Z.to_N j))) as B.
    rewrite E in A. rewrite A in B. now injection B. }
  apply DecimalN.Unsigned.to_uint_inj in H. lia.
Qed.
Lemma str_len_app s t : String.length (s ++ t)%string = (String.length s + String.length t)%nat.
Proof. induction s; simpl; congruence. Qed.
Lemma app_cancel_r s1 : forall s2 t, (s1 ++ t)%string = (s2 ++ t)%string -> s1 = s2.
Proof.
  induction s1 as [| c s1 IH]; intros [| d s2] t E; simpl in E.
  - reflexivity.
  - apply (f_equal String.length) in E. simpl in E. rewrite str_len_app in E. lia.
  - apply (f_equal String.length) in E. simpl in E. rewrite str_len_app in E. lia.
  - injection E as -> E. f_equal. eauto.
Qed.
Fixpoint no_bracket (s : string) : bool :=
  match s with EmptyString => true | String c r => negb (Ascii.eqb c "["%char) && no_bracket r end.
Theorem bitname_inj : forall b1 b2 i j, no_bracket b1 = true -> no_bracket b2 = true ->
  (0 <= i)%Z -> (0 <= j)%Z -> bitname b1 i = bitname b2 j -> b1 = b2 /\ i = j.
Proof.
  unfold bitname. induction b1 as [| c b1 IH]; intros [| d b2] i j H1 H2 Hi Hj E; simpl in *.
  - injection E as E. split; [reflexivity |]. apply app_cancel_r in E. now apply dec_inj.
  - injection E as <- _. simpl in H2. discriminate.
  - injection E as -> _. simpl in H1. discriminate.
  - injection E as -> E. apply andb_true_iff in H1 as [_ H1]. apply andb_true_iff in H2 as [_ H2].
    destruct (IH b2 i j H1 H2 Hi Hj E) as [-> ->]. split; reflexivity.
Qed.
(** consequence: the names of one declared bus are pairwise distinct *)
Theorem bus_names_nodup : forall kind base l r, (0 <= l)%Z -> (0 <= r)%Z ->
  NoDup (decl_names {| d_kind := kind; d_base := base; d_rng := Some (vrange l (Some r)) |}).
Proof.
  intros kind base l r Hl Hr. unfold decl_names. simpl.
  assert (G : forall xs, NoDup xs -> (forall x, In x xs -> (0 <= x)%Z) -> NoDup (map (bitname base) xs)).
  { induction xs as [| x xs IH]; intros ND NN; simpl; constructor.
    - intros HI. apply in_map_iff in HI as [y [E Hy]]. inversion ND; subst.
      unfold bitname in E. apply (f_equal (fun s => s)) in E.
      assert (y = x).
      { assert (E' : (("[" ++ dec y ++ "]")%string = ("[" ++ dec x ++ "]")%string)).
        { clear -E. induction base; simpl in E; [assumption | injection E; auto]. }
        injection E' as E'. apply app_cancel_r in E'. apply dec_inj; auto with datatypes. }
      subst. contradiction.
    - inversion ND; subst. apply IH; auto with datatypes. }
  apply G; [apply range_nodup |]. intros x Hx. apply range_bounds in Hx. lia.
Qed.

(** * sized constants *)
Definition bits_value (l : list bool) : N := fold_left (fun acc b => (2 * acc + N.b2n b)%N) l 0%N.

Lemma const_loop_app w : forall c l, const_loop w c l = const_loop w c [] ++ l.
Proof.
  induction w as [| w IH]; intros c l; simpl; [reflexivity |].
  rewrite IH. rewrite (IH _ [N.odd c]). rewrite <- app_assoc. reflexivity.
Qed.
Lemma const_bits_S w c : const_bits (S w) c = const_bits w (N.shiftr c 1) ++ [N.odd c].
Proof. unfold const_bits. simpl. apply const_loop_app. Qed.
Lemma bits_value_snoc l b : bits_value (l ++ [b]) = (2 * bits_value l + N.b2n b)%N.
Proof. unfold bits_value. rewrite fold_left_app. reflexivity. Qed.

Theorem const_bits_length : forall w n, List.length (const_bits w n) = w.
Proof.
  induction w as [| w IH]; intros n; [reflexivity |].
  rewrite const_bits_S, app_length, IH. simpl. lia.
Qed.
Theorem const_bits_value : forall w n, bits_value (const_bits w n) = (n mod 2 ^ N.of_nat w)%N.
Proof.
  induction w as [| w IH]; intros n.
  - simpl. now rewrite N.mod_1_r.
  - rewrite const_bits_S, bits_value_snoc, IH.
    rewrite Nat2N.inj_succ, N.pow_succ_r'.
    rewrite N.mod_mul_r by (try apply N.pow_nonzero; lia).
    rewrite <- N.div2_spec, N.div2_div.
    rewrite <- N.bit0_mod. rewrite N.bit0_odd. lia.
Qed.
(** MSB first: the k-th produced bit is bit (w-1-k) of n *)
Theorem const_bits_nth : forall w n k, (k < w)%nat -> nth k (const_bits w n) false = N.testbit n (N.of_nat (w - 1 - k)).
Proof.
  induction w as [| w IH]; intros n k H; [lia |].
  rewrite const_bits_S.
  destruct (Nat.eq_dec k w) as [-> | NE].
  - rewrite app_nth2 by (rewrite const_bits_length; lia). rewrite const_bits_length.
    replace (w - w)%nat with 0%nat by lia. replace (S w - 1 - w)%nat with 0%nat by lia. simpl.
    now rewrite N.bit0_odd.
  - rewrite app_nth1 by (rewrite const_bits_length; lia). rewrite IH by lia.
    rewrite N.shiftr_spec by lia. f_equal. lia.
Qed.

Lemma split_quote_from_noq cur s : has_quote s = false -> split_quote_from cur s = [(cur ++ s)%string].
Proof.
  revert cur. induction s as [| c s IH]; intros cur H; simpl in *.
  - f_equal. induction cur; simpl; congruence.
  - apply orb_false_iff in H as [H1 H2]. rewrite H1, IH by assumption. f_equal.
    clear. induction cur; simpl; congruence.
Qed.
Lemma split_quote_from_one cur w rest : has_quote w = false -> has_quote rest = false ->
  split_quote_from cur (w ++ String quote rest)%string = [(cur ++ w)%string; rest].
Proof.
  revert cur. induction w as [| c w IH]; intros cur H1 H2; simpl in *.
  - rewrite ?Ascii.eqb_refl. rewrite split_quote_from_noq by assumption. simpl. f_equal.
    induction cur; simpl; congruence.
  - apply orb_false_iff in H1 as [Hc H1]. rewrite Hc. rewrite IH by assumption. f_equal.
    clear. induction cur; simpl; congruence.
Qed.
Lemma digits_noq base s : forall acc n, parse_digits_from base acc s = Some n -> has_quote s = false.
Proof.
  induction s as [| c s IH]; intros acc n H; simpl in *; [reflexivity |].
  destruct (digit_val c) eqn:D; [| discriminate].
  destruct (n0 <? base)%N; [| discriminate].
  apply IH in H. rewrite H, orb_false_r.
  destruct (Ascii.eqb_spec c quote); [subst; vm_compute in D; discriminate | reflexivity].
Qed.
Lemma parse_digits_noq base s n : parse_digits base s = Some n -> has_quote s = false.
Proof. destruct s; [discriminate | unfold parse_digits; apply digits_noq]. Qed.

(** [w'bN], [w'dN], [w'hN] (any letter case, any number of digits): exactly w one-bit constants, MSB
    first, whose value is N mod 2^w *)
Theorem sized_const_spec : forall wstr b digits width base n,
  parse_digits 10%N wstr = Some width -> base_of b = Some base -> parse_digits base digits = Some n ->
  let bits := const_bits (N.to_nat width) n in
  List.length bits = N.to_nat width /\ bits_value bits = (n mod 2 ^ width)%N /\
  sigsel (AName (wstr ++ String quote (String b digits))%string None) = one_or_many (map bit_str bits).
Proof.
  intros wstr b digits width base n Hw Hb Hd bits. unfold bits.
  split; [apply const_bits_length | split].
  - rewrite const_bits_value, N2Nat.id. reflexivity.
  - assert (Q1 : has_quote wstr = false) by (eapply parse_digits_noq; eauto).
    assert (Q2 : has_quote (String b digits) = false).
    { simpl. erewrite parse_digits_noq by eauto. rewrite orb_false_r.
      destruct (Ascii.eqb_spec b quote); [subst; vm_compute in Hb; discriminate | reflexivity]. }
    simpl sigsel.
    assert (HQ : has_quote (wstr ++ String quote (String b digits))%string = true).
    { clear. induction wstr; simpl; [reflexivity | rewrite IHwstr; apply orb_true_r]. }
    rewrite HQ. unfold sized_const, split_quote.
    rewrite split_quote_from_one by assumption. simpl append.
    rewrite Hw, Hb. unfold py_int. rewrite Hd. reflexivity.
Qed.
Example sized_const_ex :
  sigsel (AName "4'hA"%string None) = Some (SMany ["1'b1"; "1'b0"; "1'b1"; "1'b0"]%string) /\
  sigsel (AName "3'D13"%string None) = Some (SMany ["1'b1"; "1'b0"; "1'b1"]%string) /\   (* 13 mod 8 = 5 *)
  sigsel (AName "1'b1"%string None) = Some (SOne "1'b1"%string) /\
  sigsel (AName "2'b12"%string None) = None /\ sigsel (AName "0'b0"%string None) = None /\
  sigsel (AName "2'B0b11"%string None) = Some (SMany ["1'b1"; "1'b1"]%string) /\ sigsel (AName "1'b0b"%string None) = None /\
  sigsel (AName "1'd0b1"%string None) = None.
Proof. repeat split; reflexivity. Qed.

(** * concatenation *)
Lemma concat_acc args : forall acc, fold_left concat_step args acc = acc ++ flat_map sig_list args.
Proof.
  induction args as [| a args IH]; intros acc; simpl; [now rewrite app_nil_r |].
  rewrite IH. destruct a; simpl; now rewrite <- app_assoc.
Qed.
Theorem concat_flatten : forall args, concat args = flat_map sig_list args.
Proof. intros. unfold concat. now rewrite concat_acc. Qed.
Example concat_ex : concat [SOne "a"; SMany ["b[1]"; "b[0]"]; SOne "1'b0"; SMany []]%string = ["a"; "b[1]"; "b[0]"; "1'b0"]%string.
Proof. reflexivity. Qed.

(** * dictionaries *)
Lemma dget_dset_same {A} k (v : A) m : dget k (dset k v m) = Some v.
Proof.
  induction m as [| [k' v'] m IH]; simpl.
  - now rewrite String.eqb_refl.
  - destruct (String.eqb_spec k k'); simpl.
    + subst. now rewrite String.eqb_refl.
    + destruct (String.eqb_spec k k'); [contradiction | assumption].
Qed.
Lemma dget_dset_other {A} k k' (v : A) m : k <> k' -> dget k' (dset k v m) = dget k' m.
Proof.
  intros NE. induction m as [| [k2 v2] m IH]; simpl.
  - destruct (String.eqb_spec k' k); [subst; contradiction | reflexivity].
  - destruct (String.eqb_spec k k2); simpl.
    + subst. destruct (String.eqb_spec k' k2); [subst; contradiction | reflexivity].
    + destruct (String.eqb_spec k' k2); [reflexivity | assumption].
Qed.

(** * the position table *)
Lemma pos_fold_spec names : forall m p, NoDup names ->
  snd (fold_left pos_step names (m, p)) = (p + List.length names)%nat /\
  (forall k n, nth_error names k = Some n -> dget n (fst (fold_left pos_step names (m, p))) = Some (p + k)%nat) /\
  (forall n, ~ In n names -> dget n (fst (fold_left pos_step names (m, p))) = dget n m).
Proof.
  induction names as [| a names IH]; intros m p ND.
  - simpl. split; [lia | split; [intros [| k] n H; discriminate | reflexivity]].
  - inversion ND as [| ? ? NI ND']; subst.
    change (fold_left pos_step (a :: names) (m, p)) with (fold_left pos_step names (dset a p m, S p)).
    destruct (IH (dset a p m) (S p) ND') as [L [A B]].
    split; [rewrite L; simpl; lia | split].
    + intros [| k] n H; simpl in H.
      * injection H as <-. rewrite B by assumption. rewrite dget_dset_same. f_equal. lia.
      * rewrite (A k n H). f_equal. lia.
    + intros n H. rewrite B by (intros I; apply H; now right). apply dget_dset_other. intros ->. apply H. now left.
Qed.
Lemma nested_fold nls : forall st,
  fold_left (fun st names => fold_left pos_step names st) nls st = fold_left pos_step (List.concat nls) st.
Proof.
  induction nls as [| x nls IH]; intros st; simpl; [reflexivity |].
  rewrite fold_left_app. apply IH.
Qed.

Lemma port_name_lists_spec ports m : forall nls, port_name_lists ports m = Some nls ->
  Forall2 (fun p nl => exists d, dget p m = Some d /\ nl = decl_names d) ports nls.
Proof.
  induction ports as [| p ports IH]; intros nls H; simpl in H.
  - injection H as <-. constructor.
  - destruct (dget p m) eqn:D; [| discriminate].
    destruct (port_name_lists ports m) eqn:R; [| discriminate].
    injection H as <-. constructor; [eauto | auto].
Qed.

(** positions are 0..n-1 in port-list order, bus bits in declared range order; no position twice *)
Theorem port_positions : forall ports m nls,
  port_name_lists ports m = Some nls -> NoDup (List.concat nls) ->
  let pos := positions_of nls in
  let flat := List.concat nls in
  Forall2 (fun p nl => exists d, dget p m = Some d /\ nl = decl_names d) ports nls /\
  (forall k n, nth_error flat k = Some n -> dget n pos = Some k) /\
  (forall n k, dget n pos = Some k -> nth_error flat k = Some n) /\
  (forall n1 n2 k, dget n1 pos = Some k -> dget n2 pos = Some k -> n1 = n2).
Proof.
  intros ports m nls H ND pos flat.
  split; [now apply port_name_lists_spec |].
  unfold pos, positions_of. rewrite nested_fold.
  destruct (pos_fold_spec (List.concat nls) [] 0 ND) as [_ [A B]]. fold flat in A, B |- *.
  assert (C : forall n k, dget n (fst (fold_left pos_step flat ([], 0%nat))) = Some k -> nth_error flat k = Some n).
  { intros n k G. destruct (in_dec string_dec n flat) as [I | NI].
    - apply In_nth_error in I as [k' E]. rewrite (A k' n E) in G. simpl in G. injection G as <-. assumption.
    - rewrite B in G by assumption. discriminate. }
  split; [intros k n E; now rewrite (A k n E) | split; [exact C |]].
  intros n1 n2 k G1 G2. apply C in G1. apply C in G2. congruence.
Qed.

(** * the io list *)
Lemma set_nth_length {A} (l : list (option A)) : forall i v, List.length (set_nth l i v) = Nat.max (List.length l) (S i).
Proof.
  induction l as [| x l IH]; intros i v.
  - induction i as [| i IHi]; simpl; [reflexivity |]. simpl in IHi. rewrite IHi. lia.
  - destruct i; simpl; [lia |]. rewrite IH. lia.
Qed.
Lemma set_nth_same {A} (l : list (option A)) : forall i v, nth i (set_nth l i v) None = Some v.
Proof.
  induction l as [| x l IH]; intros i v.
  - induction i as [| i IHi]; simpl; [reflexivity | exact IHi].
  - destruct i; simpl; [reflexivity | apply IH].
Qed.
Lemma set_nth_other {A} (l : list (option A)) : forall i k v, k <> i -> nth k (set_nth l i v) None = nth k l None.
Proof.
  induction l as [| x l IH]; intros i k v NE.
  - revert k NE. induction i as [| i IHi]; intros k NE; simpl.
    + destruct k; [lia |]. destruct k; reflexivity.
    + destruct k; [reflexivity |]. rewrite IHi by lia. destruct k; reflexivity.
  - destruct i, k; simpl; try reflexivity; try lia. apply IH. lia.
Qed.

Section Fill.
  Variable pos : list (string * nat).
  Hypothesis pos_inj : forall n1 n2 k, dget n1 pos = Some k -> dget n2 pos = Some k -> n1 = n2.

  Lemma fill_miss its : forall tbl k,
    (forall it, In it its -> dget (fst it) pos <> Some k) ->
    nth k (fold_left (io_fill pos) its tbl) None = nth k tbl None.
  Proof.
    induction its as [| a its IH]; intros tbl k H; simpl; [reflexivity |].
    rewrite IH by (intros; apply H; now right).
    unfold io_fill. destruct (dget (fst a) pos) eqn:D; [| reflexivity].
    apply set_nth_other. intros ->. apply (H a); [now left | assumption].
  Qed.
  Lemma fill_hit its : forall tbl it k, NoDup (map fst its) -> In it its -> dget (fst it) pos = Some k ->
    nth k (fold_left (io_fill pos) its tbl) None = Some it.
  Proof.
    induction its as [| a its IH]; intros tbl it k ND I D; simpl; [contradiction |].
    inversion ND as [| ? ? NI ND']; subst. destruct I as [-> | I].
    - rewrite fill_miss.
      + unfold io_fill. rewrite D. apply set_nth_same.
      + intros it' I' D'. apply NI. rewrite (pos_inj _ _ _ D D'). now apply in_map.
    - now apply IH.
  Qed.
  Lemma fill_length_ge its : forall tbl, (List.length tbl <= List.length (fold_left (io_fill pos) its tbl))%nat.
  Proof.
    induction its as [| a its IH]; intros tbl; simpl; [lia |].
    etransitivity; [| apply IH]. unfold io_fill. destruct (dget (fst a) pos); [rewrite set_nth_length |]; lia.
  Qed.
  Lemma fill_length_hit its : forall tbl it k, In it its -> dget (fst it) pos = Some k ->
    (k < List.length (fold_left (io_fill pos) its tbl))%nat.
  Proof.
    induction its as [| a its IH]; intros tbl it k I D; simpl; [contradiction |].
    destruct I as [-> | I]; [| eauto].
    eapply Nat.lt_le_trans; [| apply fill_length_ge]. unfold io_fill. rewrite D, set_nth_length. lia.
  Qed.
  Lemma fill_length_le its N : forall tbl, (List.length tbl <= N)%nat ->
    (forall it k, In it its -> dget (fst it) pos = Some k -> (k < N)%nat) ->
    (List.length (fold_left (io_fill pos) its tbl) <= N)%nat.
  Proof.
    induction its as [| a its IH]; intros tbl L H; simpl; [assumption |].
    apply IH; [| intros; eapply H; [right |]; eauto].
    unfold io_fill. destruct (dget (fst a) pos) eqn:D; [| assumption].
    rewrite set_nth_length. specialize (H a n (or_introl eq_refl) D). lia.
  Qed.
End Fill.

(** io_nodes = the ports in port-list order, bus bits in declared range order, each with the direction
    of its declaration, nothing else and no holes -- provided the names are unambiguous and every
    port is declared input/output (inout counts as input) *)
Theorem io_order : forall ports stmts nls,
  let m := collect_decls stmts in
  port_name_lists ports m = Some nls ->
  NoDup (List.concat nls) -> NoDup (map fst (io_items m)) ->
  (forall n, In n (List.concat nls) -> In n (map fst (io_items m))) ->
  exists tbl, io_table ports stmts = Some tbl /\ List.length tbl = List.length (List.concat nls) /\
    forall k n, nth_error (List.concat nls) k = Some n ->
      exists kd, nth_error tbl k = Some (Some (n, kd)) /\ In (n, kd) (io_items m).
Proof.
  intros ports stmts nls m H ND NDI COV.
  destruct (port_positions ports m nls H ND) as [_ [A [C INJ]]].
  unfold io_table. fold m. rewrite H. eexists; split; [reflexivity |].
  set (pos := positions_of nls) in *. set (flat := List.concat nls) in *.
  assert (LEN : List.length (fold_left (io_fill pos) (io_items m) []) = List.length flat).
  { apply Nat.le_antisymm.
    - apply fill_length_le; [simpl; lia |]. intros it k _ D. apply C in D.
      apply nth_error_Some. congruence.
    - destruct (List.length flat) as [| n] eqn:LF; [lia |].
      assert (E : exists x, nth_error flat n = Some x).
      { destruct (nth_error flat n) eqn:E; [eauto |]. apply nth_error_None in E. lia. }
      destruct E as [x E]. pose proof (A n x E) as D.
      assert (I : In x (map fst (io_items m))) by (apply COV; eapply nth_error_In; eauto).
      apply in_map_iff in I as [it [<- I]].
      pose proof (fill_length_hit pos (io_items m) [] it n I D). lia. }
  split; [exact LEN |].
  intros k n E. pose proof (A k n E) as D.
  assert (I : In n (map fst (io_items m))) by (apply COV; eapply nth_error_In; eauto).
  apply in_map_iff in I as [[n' kd] [E' I]]. simpl in E'. subst n'.
  exists kd. split; [| assumption].
  pose proof (fill_hit pos INJ (io_items m) [] (n, kd) k NDI I D) as G.
  assert (LT : (k < List.length (fold_left (io_fill pos) (io_items m) []))%nat).
  { rewrite LEN. apply nth_error_Some. congruence. }
  rewrite (nth_error_nth' _ None LT). now rewrite G.
Qed.

Definition ex_stmts : list (list decl) :=
  [declaration KInput (Some (vrange 1 (Some 0%Z))) ["a"; "b"]%string;
   declaration KWire None ["z"; "w"]%string;
   declaration KOutput (Some (vrange 0 (Some 2%Z))) ["y"]%string;
   declaration KOutput None ["z"]%string;
   declaration KWire (Some (vrange 0 (Some 2%Z))) ["y"]%string].
Example io_order_ex :
  io_table ["z"; "b"; "y"; "a"]%string ex_stmts =
  Some [Some ("z", KOutput); Some ("b[1]", KInput); Some ("b[0]", KInput); Some ("y[0]", KOutput); Some ("y[1]", KOutput);
        Some ("y[2]", KOutput); Some ("a[1]", KInput); Some ("a[0]", KInput)]%string.
Proof. reflexivity. Qed.
(* the hypotheses of io_order hold on this example *)
Example io_order_hyps_ex : exists nls,
  port_name_lists ["z"; "b"; "y"; "a"]%string (collect_decls ex_stmts) = Some nls /\
  NoDup (List.concat nls) /\ NoDup (map fst (io_items (collect_decls ex_stmts))) /\
  (forall n, In n (List.concat nls) -> In n (map fst (io_items (collect_decls ex_stmts)))).
Proof.
  eexists. split; [reflexivity |]. vm_compute.
  repeat split.
  - repeat (constructor; [simpl; intuition discriminate |]). constructor.
  - repeat (constructor; [simpl; intuition discriminate |]). constructor.
  - intros n H. repeat (destruct H as [<- | H]; [simpl; tauto |]). contradiction.
Qed.
