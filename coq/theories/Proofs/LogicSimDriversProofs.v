(** Source tie of the logic simulator's DRIVER code: the evaluation loops translated by translate/gen_logicsim_drivers.py
    (Gen/LogicSimDriversSrc.v, meaning: Model/LogicSimDrvPrelude.v) against
      - the per-opcode tables that translate/gen_dispatch.py TRACES from the same loops (Gen/LogicSimDispatch.v), and
      - the hand model Model/LogicSimModel.v (c_prop / c_prop_cb / s_to_c / c_to_s / ppo_to_ppi / cycles). *)
From Coq Require Import List ZArith NArith Bool Arith Lia String.
From KV Require Import Model.Bits Model.Logic Model.Prims Model.OpSem Model.Netlist Model.NetlistWf Model.SimOps Model.AllocCheck Model.SimOpsCert
     Model.LogicSimModel Model.WaveDrvPrelude Model.LogicSimDrvPrelude Gen.SimTables Gen.LogicOps Gen.LogicSimDispatch Gen.LogicSimDriversSrc
     Proofs.LogicSweep Proofs.Dispatch Proofs.LogicSimGlue.
Import ListNotations.
Local Open Scope list_scope.

(* ------------------------------------------------------------------------------------------------------------------ *)
(** * Shape of the four loops (closed terms: decided by computation) *)
Definition std_hdr := [Hop; Hs So0; Hs Si0; Hs Si1; Hs Si2; Hs Si3].
Definition std_remap := [(So0, So0); (Si0, Si0); (Si1, Si1); (Si2, Si2); (Si3, Si3)].
Definition std_cb (tn : bool) := {| cb_test_none := tn; cb_guard := Pre So0; cb_line := Pre So0; cb_view := Post So0 |}.
Definition std_shape (L : loop_src) (cb : option cbspec) : Prop := l_hdr L = std_hdr /\ l_remap L = std_remap /\ l_cb L = cb.

Lemma shape_cpu : std_shape loop_prop_cpu None. Proof. repeat split. Qed.
Lemma shape_2cb : std_shape loop_cprop2_cb (Some (std_cb false)). Proof. repeat split. Qed.
Lemma shape_4 : std_shape loop_cprop4 (Some (std_cb true)). Proof. repeat split. Qed.
Lemma shape_8 : std_shape loop_cprop8 (Some (std_cb true)). Proof. repeat split. Qed.

(** the first six columns of an op row *)
Definition row_of (o : sop) : list Z :=
  [Z.of_N (s_lut o); Z.of_nat (s_out o); Z.of_nat (s_i0 o); Z.of_nat (s_i1 o); Z.of_nat (s_i2 o); Z.of_nat (s_i3 o)].
Definition sidx (o : sop) (s : slot) : nat :=
  match s with So0 => s_out o | Si0 => s_i0 o | Si1 => s_i1 o | Si2 => s_i2 o | Si3 => s_i3 o | _ => 0%nat end.
Definition is_tmp (s : slot) : bool := match s with St0 | St1 => true | _ => false end.

Lemma std_op L cb o : std_shape L cb -> field (l_hdr L) (row_of o) is_hop = Z.of_N (s_lut o).
Proof. intros [H _]. rewrite H. reflexivity. Qed.
Lemma std_pre L cb o s : std_shape L cb -> is_tmp s = false -> pre_of L (row_of o) s = Z.of_nat (sidx o s).
Proof. intros [H _] Hs. unfold pre_of. rewrite H. destruct s; try discriminate Hs; reflexivity. Qed.
Lemma std_post L cb locs t0 t1 o s : std_shape L cb ->
  post_of L locs t0 t1 (row_of o) s = match s with St0 => t0 | St1 => t1 | _ => zrd (-1) locs (Z.of_nat (sidx o s)) end.
Proof.
  intros [H [H2 _]]. unfold post_of, pre_of. rewrite H, H2. destruct s; reflexivity.
Qed.

(* ------------------------------------------------------------------------------------------------------------------ *)
(** * List memory of planes vs the model's list memory *)
Lemma pset_mset {A} (m : list A) : forall i v, pset m i v = mset m i v.
Proof. induction m as [|x r IH]; intros [|i] v; cbn [pset mset]; try reflexivity. rewrite IH. reflexivity. Qed.
Lemma mset_oob {A} (m : list A) : forall i v, (List.length m <= i)%nat -> mset m i v = m.
Proof. induction m as [|x r IH]; intros [|i] v H; cbn [mset]; try reflexivity; cbn in H; [lia|]. rewrite IH; [reflexivity|lia]. Qed.
Lemma map_mset {A B} (f : A -> B) (m : list A) : forall i v, map f (mset m i v) = mset (map f m) i (f v).
Proof. induction m as [|x r IH]; intros [|i] v; cbn [mset map]; try reflexivity. rewrite IH. reflexivity. Qed.
Lemma mset_mset {A} (m : list A) : forall i v w, mset (mset m i v) i w = mset m i w.
Proof. induction m as [|x r IH]; intros [|i] v w; cbn [mset]; try reflexivity. rewrite IH. reflexivity. Qed.

Lemma pyidx_nat n k : pyidx n (Z.of_nat k) = if (k <? n)%nat then Some k else None.
Proof.
  unfold pyidx. destruct (0 <=? Z.of_nat k)%Z eqn:E; [|apply Z.leb_gt in E; lia].
  destruct (k <? n)%nat eqn:E2.
  - apply Nat.ltb_lt in E2. destruct (Z.of_nat k <? Z.of_nat n)%Z eqn:E3; [rewrite Nat2Z.id; reflexivity|apply Z.ltb_ge in E3; lia].
  - apply Nat.ltb_ge in E2. destruct (Z.of_nat k <? Z.of_nat n)%Z eqn:E3; [apply Z.ltb_lt in E3; lia|reflexivity].
Qed.

Section Emb.
  Context {V : Type} (dflt : V) (mdim : nat) (emb : V -> planes).
  Hypothesis emb_dflt : emb dflt = pdflt mdim.

  Lemma mrd_emb (m : list V) l : mrd mdim (map emb m) (Z.of_nat l) = emb (nth l m dflt).
  Proof.
    unfold mrd. rewrite map_length, pyidx_nat. destruct (l <? List.length m)%nat eqn:E.
    - rewrite <- emb_dflt. apply map_nth.
    - apply Nat.ltb_ge in E. rewrite nth_overflow by exact E. symmetry. exact emb_dflt.
  Qed.
  Lemma mwr_emb (m : list V) l v : mwr (map emb m) (Z.of_nat l) (emb v) = map emb (mset m l v).
  Proof.
    unfold mwr. rewrite map_length, pyidx_nat. destruct (l <? List.length m)%nat eqn:E.
    - rewrite pset_mset, map_mset. reflexivity.
    - apply Nat.ltb_ge in E. rewrite mset_oob by exact E. reflexivity.
  Qed.
End Emb.

Lemma zrd_loc so x l : so_loc so x = Some l -> zrd (-1) (so_locs so) (Z.of_nat x) = Z.of_nat l.
Proof.
  unfold so_loc, zrd. intros H. rewrite pyidx_nat.
  destruct (x <? List.length (so_locs so))%nat eqn:E.
  - destruct (0 <=? nth x (so_locs so) (-1)%Z)%Z eqn:E2; [|discriminate]. apply Z.leb_le in E2. inversion H. rewrite Z2Nat.id by exact E2. reflexivity.
  - apply Nat.ltb_ge in E. rewrite nth_overflow in H by exact E. discriminate.
Qed.

(** every index an op mentions has a (non-negative) memory location *)
Definition op_located (so : simops) (o : sop) : Prop := forall s, is_tmp s = false -> so_loc so (sidx o s) <> None.
Definition ops_located (so : simops) : Prop := forall o, In o (so_ops so) -> op_located so o.

(* ------------------------------------------------------------------------------------------------------------------ *)
(** * 2-valued copies: every branch is ONE assignment to c[o0] over c[i0..i3], and it computes what the traced table says *)
Fixpoint bexp_ins (e : bexp) : bool :=
  match e with
  | EC s => match s with Si0 | Si1 | Si2 | Si3 => true | _ => false end
  | ENot a => bexp_ins a
  | EAnd a b | EOr a b | EXor a b => bexp_ins a && bexp_ins b
  end.
Definition single_assign (body : list bstmt) : option bexp :=
  match body with [SAssign So0 e] => if bexp_ins e then Some e else None | _ => None end.
Definition opd4 (a b c d : bool) (s : slot) : planes :=
  match s with Si0 => [a] | Si1 => [b] | Si2 => [c] | Si3 => [d] | _ => [false] end.
Definition chain2_chk (ch : chain) (tbl : list (string * prog)) (nv : string * N) : bool :=
  match chain_find ch (Z.of_N (snd nv)), assoc (fst nv) tbl with
  | Some body, Some g =>
      match single_assign body with
      | Some e => forallb (fun r => match r with (a, b, c, d) => bools_eqb (eval_bexp (opd4 a b c d) e) (run_bool g [a; b; c; d]) end) rows16
      | None => false
      end
  | _, _ => false
  end.
(** a guard that fires belongs to an opcode the model knows (so the chain's `else` is taken exactly where the model leaves the memory alone) *)
Definition guards_known (ch : chain) : bool :=
  forallb (fun gb => match assoc (fst gb) lut_table with Some v => match prim_of_lut v with Some _ => true | None => false end | None => true end) ch.

Lemma chain2_cpu_ok : forallb (chain2_chk (l_chain loop_prop_cpu) disp2_cpu) lut_table = true. Proof. vm_compute. reflexivity. Qed.
Lemma chain2_cb_ok : forallb (chain2_chk (l_chain loop_cprop2_cb) disp2_cb) lut_table = true. Proof. vm_compute. reflexivity. Qed.
Lemma guards_cpu_ok : guards_known (l_chain loop_prop_cpu) = true. Proof. vm_compute. reflexivity. Qed.
Lemma guards_2cb_ok : guards_known (l_chain loop_cprop2_cb) = true. Proof. vm_compute. reflexivity. Qed.
Lemma guards_4_ok : guards_known (l_chain loop_cprop4) = true. Proof. vm_compute. reflexivity. Qed.
Lemma guards_8_ok : guards_known (l_chain loop_cprop8) = true. Proof. vm_compute. reflexivity. Qed.

Lemma assoc_in {A} k (v : A) : forall l, assoc k l = Some v -> In (k, v) l.
Proof.
  induction l as [|[k' v'] r IH]; cbn [assoc]; [discriminate|]. destruct (String.eqb k k') eqn:E; intros H.
  - apply String.eqb_eq in E. inversion H. subst. left. reflexivity.
  - right. apply IH. exact H.
Qed.

Lemma eval_bexp_ext rd1 rd2 e : bexp_ins e = true -> (forall s, is_tmp s = false -> s <> So0 -> rd1 s = rd2 s) ->
  eval_bexp rd1 e = eval_bexp rd2 e.
Proof.
  intros H R. induction e as [s|a IHa|a IHa b IHb|a IHa b IHb|a IHa b IHb]; cbn [bexp_ins eval_bexp] in *.
  - destruct s; try discriminate H; apply R; try reflexivity; discriminate.
  - rewrite IHa by exact H. reflexivity.
  - apply andb_true_iff in H. destruct H as [Ha Hb]. rewrite IHa, IHb by assumption. reflexivity.
  - apply andb_true_iff in H. destruct H as [Ha Hb]. rewrite IHa, IHb by assumption. reflexivity.
  - apply andb_true_iff in H. destruct H as [Ha Hb]. rewrite IHa, IHb by assumption. reflexivity.
Qed.

Lemma guards_none ch l : guards_known ch = true -> prim_of_lut l = None -> chain_find ch (Z.of_N l) = None.
Proof.
  intros G Hn. unfold chain_find. destruct (find _ ch) as [gb|] eqn:E; [|reflexivity]. exfalso.
  apply find_some in E. destruct E as [Hin Hm]. unfold guards_known in G. rewrite forallb_forall in G. specialize (G _ Hin).
  unfold guard_matches in Hm. destruct (assoc (fst gb) lut_table) as [v|]; [|discriminate].
  apply Z.eqb_eq in Hm. apply N2Z.inj in Hm. subst v. rewrite Hn in G. discriminate.
Qed.

(** the branch the chain selects for the opcode of primitive p assigns p's Boolean function of the operand planes *)
Lemma chain2_branch ch tbl : (tbl = disp2_cpu \/ tbl = disp2_cb) -> forallb (chain2_chk ch tbl) lut_table = true ->
  forall l p, prim_of_lut l = Some p ->
  exists e, chain_find ch (Z.of_N l) = Some [SAssign So0 e] /\ bexp_ins e = true /\
            forall a b c d, eval_bexp (opd4 a b c d) e = [prim_fn p a b c d].
Proof.
  intros Ht H l p Hp. pose proof (prim_of_lut_lut_of l p Hp) as Hl. unfold lut_of in Hl.
  rewrite forallb_forall in H. specialize (H _ (assoc_in _ _ _ Hl)). unfold chain2_chk in H. cbn [fst snd] in H.
  destruct (chain_find ch (Z.of_N l)) as [body|]; [|discriminate].
  destruct (dispatch2_correct tbl Ht p) as [g [Hg Hrun]]. rewrite Hg in H.
  unfold single_assign in H. destruct body as [|[d e|f d args] [|st2 r]]; try discriminate H; try (destruct d; discriminate H).
  destruct d; try discriminate H. destruct (bexp_ins e) eqn:Ee; [|discriminate]. exists e. split; [reflexivity|]. split; [exact Ee|].
  intros a b c d. rewrite forallb_forall in H. specialize (H _ (in_rows16 a b c d)). cbv beta iota in H.
  apply bools_eqb_eq in H. rewrite H. apply Hrun.
Qed.

Definition emb2 (b : bool) : planes := [b].

Section Loop2.
  Variable L : loop_src.
  Variable cbs : option cbspec.
  Variable tbl : list (string * prog).
  Hypothesis Hshape : std_shape L cbs.
  Hypothesis Htbl : tbl = disp2_cpu \/ tbl = disp2_cb.
  Hypothesis Hchain : forallb (chain2_chk (l_chain L) tbl) lut_table = true.
  Hypothesis Hguards : guards_known (l_chain L) = true.

  (** the statements of one iteration (before the callback statement) = the model's step *)
  Lemma body2_model so o m t0 t1 : op_located so o ->
    match chain_find (l_chain L) (field (l_hdr L) (row_of o) is_hop) with
    | Some body => fold_left (exec_stmt 1 (post_of L (so_locs so) t0 t1 (row_of o))) body (map emb2 m)
    | None => map emb2 m
    end = map emb2 (prop1 false sem2 so m o).
  Proof.
    intros Hloc. rewrite (std_op L cbs o Hshape). unfold prop1. change (loc_of so (s_out o)) with (so_loc so (s_out o)).
    destruct (prim_of_lut (s_lut o)) as [p|] eqn:Ep.
    - destruct (chain2_branch _ _ Htbl Hchain _ _ Ep) as [e [Hf [He Hv]]]. rewrite Hf. cbn [fold_left].
      unfold exec_stmt. cbn [stmt_dst stmt_val].
      assert (Hl : forall s, is_tmp s = false -> exists l, so_loc so (sidx o s) = Some l /\
                   post_of L (so_locs so) t0 t1 (row_of o) s = Z.of_nat l).
      { intros s Hs. specialize (Hloc s Hs). destruct (so_loc so (sidx o s)) as [l|] eqn:El; [|congruence]. exists l. split; [reflexivity|].
        rewrite (std_post L cbs _ t0 t1 o s Hshape). destruct s; try discriminate Hs; apply zrd_loc; exact El. }
      destruct (Hl So0 eq_refl) as [lo [Elo Plo]]. cbn [sidx] in Elo. rewrite Elo, Plo.
      rewrite (eval_bexp_ext _ (opd4 (rd false so m (s_i0 o)) (rd false so m (s_i1 o)) (rd false so m (s_i2 o)) (rd false so m (s_i3 o))) e He).
      + rewrite Hv. apply (mwr_emb emb2).
      + intros s Hs Hne. destruct (Hl s Hs) as [l [El Pl]]. rewrite Pl, (mrd_emb false 1 emb2 eq_refl).
        unfold rd. destruct s; try discriminate Hs; try congruence; cbn [sidx] in El; change (loc_of so) with (so_loc so); rewrite El; reflexivity.
    - rewrite (guards_none _ _ Hguards Ep). reflexivity.
  Qed.
End Loop2.

Lemma prop1_length {V} (dflt : V) sem so m o : List.length (prop1 dflt sem so m o) = List.length m.
Proof. unfold prop1. destruct (prim_of_lut (s_lut o)); [|reflexivity]. destruct (loc_of so (s_out o)); [apply mset_length|reflexivity]. Qed.

(** _prop_cpu (and c_prop for m == 2 without a callback): the translated loop over the op rows = c_prop of the model *)
Theorem prop_cpu_source_is_model so m nl t0 t1 : ops_located so ->
  run_loop 1 loop_prop_cpu (so_locs so) nl t0 t1 None (map row_of (so_ops so)) (map emb2 m) = (map emb2 (c_prop false sem2 so m), []).
Proof.
  unfold ops_located, c_prop, run_loop. generalize (@nil (nat * planes)) as tr. revert m.
  induction (so_ops so) as [|o r IH]; intros m tr HL; [reflexivity|]. cbn [map fold_left].
  assert (E : iter_src 1 loop_prop_cpu (so_locs so) nl t0 t1 None (map emb2 m, tr) (row_of o) = (map emb2 (prop1 false sem2 so m o), tr)).
  { unfold iter_src. rewrite (body2_model loop_prop_cpu None disp2_cpu shape_cpu (or_introl eq_refl) chain2_cpu_ok guards_cpu_ok so o m t0 t1 (HL o (or_introl eq_refl))).
    destruct shape_cpu as [_ [_ Hc]]. rewrite Hc. reflexivity. }
  refine (eq_trans (f_equal (fold_left _ _) E) _). apply IH. intros o' Ho'. apply HL. right. exact Ho'.
Qed.

(* ------------------------------------------------------------------------------------------------------------------ *)
(** * The callback statement (all three copies that have one): structure only, any chain *)

(** one iteration with a callback = the same iteration without, then -- iff the op's output index is a circuit line -- the callback is
    shown line o_line and the view of c[c_locs[o0]] and what it leaves there is stored *)
Lemma iter_cb_structure mdim L tn locs nl t0 t1 f M tr o : std_shape L (Some (std_cb tn)) ->
  iter_src mdim L locs nl t0 t1 (Some f) (M, tr) (row_of o) =
  let M1 := fst (iter_src mdim L locs nl t0 t1 None (M, tr) (row_of o)) in
  let lo := zrd (-1) locs (Z.of_nat (s_out o)) in
  if (s_out o <? nl)%nat then (mwr M1 lo (f (s_out o) (mrd mdim M1 lo)), tr ++ [(s_out o, mrd mdim M1 lo)]) else (M1, tr).
Proof.
  intros Hs. pose proof Hs as [_ [_ Hc]]. unfold iter_src. rewrite Hc. cbn [std_cb cb_guard cb_line cb_view fst].
  rewrite (std_pre L _ o So0 Hs eq_refl), (std_post L _ locs t0 t1 o So0 Hs). cbn [sidx].
  destruct (s_out o <? nl)%nat eqn:E.
  - assert (E' : (Z.of_nat (s_out o) <? Z.of_nat nl)%Z = true) by (apply Z.ltb_lt; apply Nat.ltb_lt in E; lia).
    rewrite E', pyidx_nat, E. reflexivity.
  - assert (E' : (Z.of_nat (s_out o) <? Z.of_nat nl)%Z = false) by (apply Z.ltb_ge; apply Nat.ltb_ge in E; lia).
    rewrite E'. reflexivity.
Qed.
Lemma iter_nocb_trace mdim L locs nl t0 t1 M tr row : snd (iter_src mdim L locs nl t0 t1 None (M, tr) row) = tr.
Proof. unfold iter_src. destruct (l_cb L); reflexivity. Qed.

(** the callback is invoked exactly for the op outputs that are circuit lines, in op order *)
Theorem callback_call_sequence mdim L tn locs nl t0 t1 f : std_shape L (Some (std_cb tn)) ->
  forall ops M tr,
  map fst (snd (fold_left (iter_src mdim L locs nl t0 t1 (Some f)) (map row_of ops) (M, tr)))
  = map fst tr ++ filter (fun k => Nat.ltb k nl) (map s_out ops).
Proof.
  intros Hs. induction ops as [|o r IH]; intros M tr; cbn [map fold_left filter]; [rewrite app_nil_r; reflexivity|].
  rewrite (iter_cb_structure mdim L tn locs nl t0 t1 f M tr o Hs). cbv zeta.
  destruct (s_out o <? nl)%nat eqn:E; rewrite IH.
  - rewrite map_app, <- app_assoc. reflexivity.
  - reflexivity.
Qed.

(** m == 2 with a callback: memory and calls of the translated loop = c_prop_cb of the model; every call shows the freshly computed value *)
Definition cb_rel2 (f : callback) (cb : nat -> bool -> bool) : Prop := forall k b, f k [b] = [cb k b].

Theorem cprop2_cb_source_is_model so m t0 t1 f cb : ops_located so -> ops_known so -> locs_ok so (List.length m) -> cb_rel2 f cb ->
  let r := run_loop 1 loop_cprop2_cb (so_locs so) (so_nlines so) t0 t1 (Some f) (map row_of (so_ops so)) (map emb2 m) in
  fst r = map emb2 (c_prop_cb false sem2 cb so m) /\ map fst (snd r) = cb_lines so.
Proof.
  intros HL HK HB Hf. cbv zeta. split.
  2:{ unfold run_loop, cb_lines. rewrite (callback_call_sequence 1 loop_cprop2_cb false _ _ t0 t1 f shape_2cb). reflexivity. }
  unfold ops_located, ops_known, c_prop_cb, run_loop in *. generalize (@nil (nat * planes)) as tr. revert m HB.
  induction (so_ops so) as [|o r IH]; intros m HB tr; [reflexivity|]. cbn [map fold_left].
  rewrite (iter_cb_structure 1 loop_cprop2_cb false _ _ t0 t1 f _ tr o shape_2cb). cbv zeta.
  assert (E : fst (iter_src 1 loop_cprop2_cb (so_locs so) (so_nlines so) t0 t1 None (@pair smem calls (map emb2 m) tr) (row_of o)) = map emb2 (prop1 false sem2 so m o)).
  { unfold iter_src. rewrite (body2_model loop_cprop2_cb _ disp2_cb shape_2cb (or_intror eq_refl) chain2_cb_ok guards_2cb_ok so o m t0 t1 (HL o (or_introl eq_refl))).
    destruct shape_2cb as [_ [_ Hc]]. rewrite Hc. reflexivity. }
  rewrite E.
  assert (Hp : prim_of_lut (s_lut o) <> None) by (apply HK; left; reflexivity).
  pose proof (HL o (or_introl eq_refl) So0 eq_refl) as Ho. cbn [sidx] in Ho.
  destruct (so_loc so (s_out o)) as [lo|] eqn:Elo; [|congruence]. rewrite (zrd_loc so _ _ Elo).
  assert (Hlo : (lo < List.length m)%nat) by (apply (HB _ _ Elo)).
  assert (Em : forall tr', (if (s_out o <? so_nlines so)%nat
                then (mwr (map emb2 (prop1 false sem2 so m o)) (Z.of_nat lo) (f (s_out o) (mrd 1 (map emb2 (prop1 false sem2 so m o)) (Z.of_nat lo))), tr')
                else (map emb2 (prop1 false sem2 so m o), tr)) =
               (map emb2 (prop1_cb false sem2 cb so m o), if (s_out o <? so_nlines so)%nat then tr' else tr)).
  { intros tr'. unfold prop1, prop1_cb. change (loc_of so (s_out o)) with (so_loc so (s_out o)). rewrite Elo. destruct (prim_of_lut (s_lut o)) as [p|]; [|congruence].
    destruct (s_out o <? so_nlines so)%nat; [|reflexivity].
    rewrite (mrd_emb false 1 emb2 eq_refl), nth_mset, Nat.eqb_refl. apply Nat.ltb_lt in Hlo. rewrite Hlo. cbn [andb].
    unfold emb2 at 2. rewrite Hf. fold (emb2 (cb (s_out o) (sem2 p (rd false so m (s_i0 o)) (rd false so m (s_i1 o)) (rd false so m (s_i2 o)) (rd false so m (s_i3 o))))).
    rewrite (mwr_emb emb2), mset_mset. reflexivity. }
  rewrite Em. apply IH.
  - intros o' Ho'. apply HL. right. exact Ho'.
  - intros o' Ho'. apply HK. right. exact Ho'.
  - unfold prop1_cb. change (loc_of so (s_out o)) with (so_loc so (s_out o)). rewrite Elo. destruct (prim_of_lut (s_lut o)); [rewrite mset_length|]; exact HB.
Qed.

(* ------------------------------------------------------------------------------------------------------------------ *)
(** * Every build() result: all indices the ops mention are allocated (from the memory-map certificate) *)
Lemma readable_some loc alias w x : readable loc alias w x = true -> loc x <> None.
Proof. unfold readable. destruct (loc x); [discriminate|]. intros H. discriminate H. Qed.

Lemma own_run_located loc alias : forall ops w w', own_run loc alias w ops = Some w' ->
  forall o, In o ops -> loc (s_out o) <> None /\ loc (s_i0 o) <> None /\ loc (s_i1 o) <> None /\ loc (s_i2 o) <> None /\ loc (s_i3 o) <> None.
Proof.
  induction ops as [|o r IH]; intros w w' H o' Hin; [destruct Hin|]. cbn [own_run] in H.
  destruct (forallb (fun x => readable loc alias w x && alias_ok loc alias x) [s_i0 o; s_i1 o; s_i2 o; s_i3 o] && Nat.eqb (alias (s_out o)) (s_out o)) eqn:E; [|discriminate].
  destruct (loc (s_out o)) as [lo|] eqn:Elo; [|discriminate].
  destruct Hin as [<-|Hin]; [|exact (IH _ _ H _ Hin)].
  apply andb_true_iff in E. destruct E as [E _]. cbn [forallb] in E.
  apply andb_true_iff in E. destruct E as [E0 E]. apply andb_true_iff in E. destruct E as [E1 E].
  apply andb_true_iff in E. destruct E as [E2 E]. apply andb_true_iff in E. destruct E as [E3 _].
  apply andb_true_iff in E0, E1, E2, E3. destruct E0 as [E0 _], E1 as [E1 _], E2 as [E2 _], E3 as [E3 _].
  rewrite Elo. repeat split; try discriminate; eapply readable_some; eassumption.
Qed.

Lemma map_check_located (so : simops) alias init final : map_check (so_loc so) alias init final (so_ops so) = true -> ops_located so.
Proof.
  unfold map_check. intros H. apply andb_true_iff in H. destruct H as [_ H].
  destruct (own_init (so_loc so) init) as [w0|]; [|discriminate].
  destruct (own_run (so_loc so) alias w0 (so_ops so)) as [w|] eqn:E; [|discriminate].
  intros o Ho s Hs. destruct (own_run_located _ _ _ _ _ E o Ho) as [H0 [H1 [H2 [H3 H4]]]].
  destruct s; try discriminate Hs; assumption.
Qed.

Theorem build_ops_located c caps cmin reuse strip so :
  wf_netlist c -> comb_acyclic c -> (0 < cmin)%N -> KV.Proofs.EndToEnd.gates_known c -> (strip = true -> KV.Proofs.ReuseStrip.forks_ok c) ->
  build c caps cmin reuse strip = Some so -> ops_located so.
Proof.
  intros WF AC CM GK FK B. eapply map_check_located. exact (KV.Proofs.ReuseStrip.build_map_check_all c caps cmin reuse strip so WF AC CM GK FK B).
Qed.

(* ------------------------------------------------------------------------------------------------------------------ *)
(** * 4- / 8-valued copies: the branch of every opcode, run on the names' values, leaves in c[o0] what the traced table says;
      it reads o0 / t0 / t1 only after it has written them (so the previous content of these three cannot matter) *)
Definition isW (s : slot) : bool := match s with So0 | St0 | St1 => true | _ => false end.
Fixpoint bexp_slots (e : bexp) : list slot :=
  match e with EC s => [s] | ENot a => bexp_slots a | EAnd a b | EOr a b | EXor a b => bexp_slots a ++ bexp_slots b end.
Definition stmt_reads (st : bstmt) : list slot := match st with SAssign _ e => bexp_slots e | SCall _ _ args => args end.
Fixpoint dbu (defd : list slot) (body : list bstmt) : bool :=
  match body with
  | [] => true
  | st :: r => forallb (fun s => negb (isW s) || existsb (slot_eqb s) defd) (stmt_reads st) && isW (stmt_dst st) && dbu (stmt_dst st :: defd) r
  end.
Definition reg_step (R : slot -> planes) (st : bstmt) : slot -> planes :=
  let v := stmt_val R st in fun s => if slot_eqb s (stmt_dst st) then v else R s.
Definition reg_exec (body : list bstmt) (R : slot -> planes) : slot -> planes := fold_left reg_step body R.
Definition opdN (mdim : nat) (a b c d : code) (s : slot) : planes :=
  match s with
  | Si0 => firstn mdim (code_bits a) | Si1 => firstn mdim (code_bits b) | Si2 => firstn mdim (code_bits c) | Si3 => firstn mdim (code_bits d)
  | _ => pdflt mdim
  end.
Definition chainN_chk (mdim : nat) (codes : list code) (ch : chain) (tbl : list (string * prog)) (nv : string * N) : bool :=
  match chain_find ch (Z.of_N (snd nv)), assoc (fst nv) tbl with
  | Some body, Some g =>
      dbu [] body && existsb (fun st => slot_eqb So0 (stmt_dst st)) body &&
      forallb (fun a => forallb (fun b => forallb (fun c => forallb (fun d =>
        bools_eqb (reg_exec body (opdN mdim a b c d) So0) (run_bool g (encode_ins mdim [a; b; c; d]))) codes) codes) codes) codes
  | _, _ => false
  end.

Lemma chain4_ok : forallb (chainN_chk 2 codes4 (l_chain loop_cprop4) disp4) lut_table = true. Proof. vm_compute. reflexivity. Qed.
Lemma chain4_cb_ok : forallb (chainN_chk 2 codes4 (l_chain loop_cprop4) disp4_cb) lut_table = true. Proof. vm_compute. reflexivity. Qed.
Lemma chain8_ok : forallb (chainN_chk 3 all_codes (l_chain loop_cprop8) disp8) lut_table = true. Proof. vm_compute. reflexivity. Qed.
(* the two traced 8-valued tables are normally the same list of programs (one loop, traced with and without a callback): then the
   sweep is not repeated; otherwise it is *)
Definition instr_eqb (i j : instr) : bool :=
  match i, j with
  | IConst a, IConst b => Bool.eqb a b
  | INot a, INot b => Nat.eqb a b
  | IAnd a b, IAnd a' b' | IOr a b, IOr a' b' | IXor a b, IXor a' b' => Nat.eqb a a' && Nat.eqb b b'
  | _, _ => false
  end.
Lemma instr_eqb_eq i j : instr_eqb i j = true -> i = j.
Proof.
  destruct i, j; cbn [instr_eqb]; intros H; try discriminate H.
  - apply eqb_prop in H. subst. reflexivity.
  - apply Nat.eqb_eq in H. subst. reflexivity.
  - apply andb_true_iff in H. destruct H as [H1 H2]. apply Nat.eqb_eq in H1, H2. subst. reflexivity.
  - apply andb_true_iff in H. destruct H as [H1 H2]. apply Nat.eqb_eq in H1, H2. subst. reflexivity.
  - apply andb_true_iff in H. destruct H as [H1 H2]. apply Nat.eqb_eq in H1, H2. subst. reflexivity.
Qed.
Fixpoint leqb {A} (eqb : A -> A -> bool) (a b : list A) : bool :=
  match a, b with [], [] => true | x :: a', y :: b' => eqb x y && leqb eqb a' b' | _, _ => false end.
Lemma leqb_eq {A} (eqb : A -> A -> bool) : (forall x y, eqb x y = true -> x = y) -> forall a b, leqb eqb a b = true -> a = b.
Proof.
  intros E. induction a as [|x a IH]; intros [|y b] H; cbn [leqb] in H; try discriminate H; [reflexivity|].
  apply andb_true_iff in H. destruct H as [H1 H2]. rewrite (E _ _ H1), (IH _ H2). reflexivity.
Qed.
Definition entry_eqb (a b : string * prog) : bool :=
  String.eqb (fst a) (fst b) && leqb instr_eqb (p_code (snd a)) (p_code (snd b)) && leqb Nat.eqb (p_outs (snd a)) (p_outs (snd b)).
Lemma entry_eqb_eq a b : entry_eqb a b = true -> a = b.
Proof.
  destruct a as [n [c o]], b as [n' [c' o']]. unfold entry_eqb. cbn [fst snd p_code p_outs]. intros H.
  apply andb_true_iff in H. destruct H as [H H3]. apply andb_true_iff in H. destruct H as [H1 H2].
  apply String.eqb_eq in H1. apply (leqb_eq _ instr_eqb_eq) in H2. apply (leqb_eq Nat.eqb) in H3; [|intros x y; apply Nat.eqb_eq]. subst. reflexivity.
Qed.
Lemma chain8_cb_ok : forallb (chainN_chk 3 all_codes (l_chain loop_cprop8) disp8_cb) lut_table = true.
Proof.
  assert (H : (if leqb entry_eqb disp8_cb disp8 then true else forallb (chainN_chk 3 all_codes (l_chain loop_cprop8) disp8_cb) lut_table) = true)
    by (vm_compute; reflexivity).
  destruct (leqb entry_eqb disp8_cb disp8) eqn:E; [|exact H].
  rewrite (leqb_eq _ entry_eqb_eq _ _ E). exact chain8_ok.
Qed.

Lemma in_codes4 a : is4 a = true -> In a codes4.
Proof. destruct a; cbn; intros H; try discriminate H; tauto. Qed.

(** ... hence: the branch selected for the opcode of primitive p computes the documented operator composition spec_prim p *)
Theorem chain8_branch tbl : (tbl = disp8 \/ tbl = disp8_cb) ->
  forall l p, prim_of_lut l = Some p ->
  exists body, chain_find (l_chain loop_cprop8) (Z.of_N l) = Some body /\ dbu [] body = true /\
    forall a b c d, reg_exec body (opdN 3 a b c d) So0 = code_bits (spec_prim p a b c d).
Proof.
  intros Ht l p Hp. pose proof (prim_of_lut_lut_of l p Hp) as Hl. unfold lut_of in Hl.
  assert (H : chainN_chk 3 all_codes (l_chain loop_cprop8) tbl (prim_name p, l) = true).
  { destruct Ht as [-> | ->]; [pose proof chain8_ok as H | pose proof chain8_cb_ok as H]; rewrite forallb_forall in H; exact (H _ (assoc_in _ _ _ Hl)). }
  unfold chainN_chk in H. cbn [fst snd] in H.
  destruct (chain_find (l_chain loop_cprop8) (Z.of_N l)) as [body|]; [|discriminate].
  destruct (dispatch8_spec tbl Ht p) as [g [Hg Hrun]]. rewrite Hg in H.
  apply andb_true_iff in H. destruct H as [H Hs]. apply andb_true_iff in H. destruct H as [Hd _].
  exists body. split; [reflexivity|]. split; [exact Hd|]. intros a b c d.
  rewrite forallb_forall in Hs. specialize (Hs _ (in_all_codes a)). rewrite forallb_forall in Hs. specialize (Hs _ (in_all_codes b)).
  rewrite forallb_forall in Hs. specialize (Hs _ (in_all_codes c)). rewrite forallb_forall in Hs. specialize (Hs _ (in_all_codes d)).
  apply bools_eqb_eq in Hs. rewrite Hs. apply Hrun.
Qed.

Theorem chain4_branch tbl : (tbl = disp4 \/ tbl = disp4_cb) ->
  forall l p, prim_of_lut l = Some p ->
  exists body, chain_find (l_chain loop_cprop4) (Z.of_N l) = Some body /\ dbu [] body = true /\
    forall a b c d, is4 a = true -> is4 b = true -> is4 c = true -> is4 d = true ->
      reg_exec body (opdN 2 a b c d) So0 = firstn 2 (code_bits (spec_prim p a b c d)) /\ is4 (spec_prim p a b c d) = true.
Proof.
  intros Ht l p Hp. pose proof (prim_of_lut_lut_of l p Hp) as Hl. unfold lut_of in Hl.
  assert (H : chainN_chk 2 codes4 (l_chain loop_cprop4) tbl (prim_name p, l) = true).
  { destruct Ht as [-> | ->]; [pose proof chain4_ok as H | pose proof chain4_cb_ok as H]; rewrite forallb_forall in H; exact (H _ (assoc_in _ _ _ Hl)). }
  unfold chainN_chk in H. cbn [fst snd] in H.
  destruct (chain_find (l_chain loop_cprop4) (Z.of_N l)) as [body|]; [|discriminate].
  destruct (dispatch4_spec tbl Ht p) as [g [Hg Hrun]]. rewrite Hg in H.
  apply andb_true_iff in H. destruct H as [H Hs]. apply andb_true_iff in H. destruct H as [Hd _].
  exists body. split; [reflexivity|]. split; [exact Hd|]. intros a b c d Ha Hb Hc Hdd.
  rewrite forallb_forall in Hs. specialize (Hs _ (in_codes4 a Ha)). rewrite forallb_forall in Hs. specialize (Hs _ (in_codes4 b Hb)).
  rewrite forallb_forall in Hs. specialize (Hs _ (in_codes4 c Hc)). rewrite forallb_forall in Hs. specialize (Hs _ (in_codes4 d Hdd)).
  apply bools_eqb_eq in Hs. rewrite Hs. apply (Hrun a b c d Ha Hb Hc Hdd).
Qed.
