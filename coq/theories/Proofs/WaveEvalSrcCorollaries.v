(** What the per-gate theorems of C03 / C04 / C05 / C13 say about the TRANSLATED SOURCE of wave_sim._wave_eval
    (Gen/WaveEvalSrc.v): transfer along [kernel_source_is_model]. *)
From Coq Require Import List ZArith NArith Bool Arith Lia.
From KV Require Import Model.Time Model.WaveEval Model.WaveSpec Model.WaveSrcPrelude Gen.WaveEvalSrc
     Proofs.WaveCore Proofs.WaveEquiv Proofs.WaveEvalSrcProofs.
Import ListNotations.
Local Open Scope list_scope.

(* a notation, not a definition: the kernel must never be asked to compare a wrapper with [wave_eval_src] by unfolding *)
Notation src_run lut ws ds zreg := (WaveEvalSrc.wave_eval_src (model_fuel ws) (Z.of_N lut) ws ds zreg) (only parsing).
(** the output region after the call *)
Definition src_z (s : WaveEvalSrc.kst) : list time := nth 0 (WaveEvalSrc.mem s) [].

Lemma src_transfer lut ws ds zreg s nr nf : 2 <= List.length zreg ->
  src_run lut ws ds zreg = Some (s, (nr, nf)) ->
  wave_eval lut ws ds zreg =
    Some {| r_z := src_z s; r_rise := Z.to_nat nr; r_fall := Z.to_nat nf; r_ovf := Z.to_nat (WaveEvalSrc.v_overflows s) |}.
Proof.
  intros Hc E. pose proof (kernel_source_is_model lut ws ds zreg Hc) as K. rewrite E in K.
  unfold res_of in K. symmetry. exact K.
Qed.

Lemma wf_cap ws ds zreg : wf_args ws ds zreg -> 2 <= List.length zreg.
Proof. unfold wf_args. intros (_ & _ & _ & _ & H). lia. Qed.

(** the source terminates (within the model's iteration bound) on well-formed arguments *)
Theorem src_total lut ws ds zreg : wf_args ws ds zreg -> exists s nr nf, src_run lut ws ds zreg = Some (s, (nr, nf)).
Proof.
  intros Hwf. destruct (wave_total lut ws ds zreg Hwf) as [r Hr].
  pose proof (kernel_source_is_model lut ws ds zreg (wf_cap _ _ _ Hwf)) as K.
  destruct (WaveEvalSrc.wave_eval_src _ _ _ _ _) as [[s [nr nf]]|]; [eauto|]. unfold res_of in K. congruence.
Qed.

(** C03: the stored waveform is well formed, starts at the LUT value of the operands' initial values and ends, by
    transition parity, at the LUT value of their final values -- overflow or not *)
Theorem src_settles lut ws ds zreg s nr nf : wf_args ws ds zreg -> src_run lut ws ds zreg = Some (s, (nr, nf)) ->
  wf_wave (src_z s) /\ List.length (src_z s) = List.length zreg /\
  init_val (src_z s) = lut_at lut (map init_val ws) /\ final_val (src_z s) = lut_at lut (map final_val ws).
Proof.
  intros Hwf E. pose proof (src_transfer _ _ _ _ _ _ _ (wf_cap _ _ _ Hwf) E) as M.
  pose proof (wave_wf _ _ _ _ _ Hwf M) as (W1 & W2 & _).
  pose proof (wave_init _ _ _ _ _ Hwf M) as I. pose proof (wave_final _ _ _ _ _ Hwf M) as F. cbn [r_z] in *. auto.
Qed.

(** C13: the returned pair (nrise, nfall) counts the rising / falling transitions of the waveform the call stored *)
Theorem src_counts lut ws ds zreg s nr nf : wf_args ws ds zreg -> src_run lut ws ds zreg = Some (s, (nr, nf)) ->
  (Z.to_nat nr, Z.to_nat nf) = edges (src_z s).
Proof.
  intros Hwf E. pose proof (src_transfer _ _ _ _ _ _ _ (wf_cap _ _ _ Hwf) E) as M.
  exact (wsa_counts _ _ _ _ _ Hwf M).
Qed.

(** C04: every finite time the call stored is a finite operand time plus one of that operand's four delays *)
Theorem src_emit_is_sum lut ws ds zreg s nr nf : wf_args ws ds zreg -> src_run lut ws ds zreg = Some (s, (nr, nf)) ->
  forall t, In (Fin t) (body (src_z s)) ->
  exists k u i j, k < 4 /\ In (Fin u) (body (nth k ws [])) /\ t = (u + dget (nth k ds dzero) i j)%Z.
Proof.
  intros Hwf E. pose proof (src_transfer _ _ _ _ _ _ _ (wf_cap _ _ _ Hwf) E) as M.
  exact (emit_is_sum _ _ _ _ _ Hwf M).
Qed.

(** C05: a LUT that is constant on the cube spanned by the active operands yields no stored transition *)
Theorem src_no_change_no_edge lut ws ds zreg s nr nf : wf_args ws ds zreg -> src_run lut ws ds zreg = Some (s, (nr, nf)) ->
  (forall vs : list bool, List.length vs = 4 ->
     (forall k, k < 4 -> has_finite (nth k ws []) = false -> nth k vs false = init_val (nth k ws [])) ->
     lut_at lut vs = lut_at lut (map init_val ws)) ->
  has_finite (src_z s) = false.
Proof.
  intros Hwf E. pose proof (src_transfer _ _ _ _ _ _ _ (wf_cap _ _ _ Hwf) E) as M.
  exact (no_change_no_edge _ _ _ _ _ Hwf M).
Qed.
