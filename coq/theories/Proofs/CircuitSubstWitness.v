(** C10, substitute: known findings D21 and D29 as machine-checked witnesses.  Both live in the clean-up below unconnected instance
    outputs: it removes nodes (D21: a state element of the implementation disappears from s_nodes; host nodes that fed only the
    removed logic disappear as well) and Node.remove fills the hole with the LAST node (D29: the surviving host state elements change
    their order in s_nodes).  The function theorem C10_substitute_function_full therefore speaks about the SURVIVING lines only and
    about names, not positions, of state elements. *)
From Coq Require Import List Arith Bool String NArith Lia.
From KV Require Import Model.Circuit Model.CircuitInv Model.CircuitCorr Model.CircuitView Model.CircuitSem Model.CircuitSubstSem
     Proofs.CircuitBase Proofs.CircuitBool Proofs.CircuitSubstCheck.
Import ListNotations.
Local Open Scope string_scope.
Local Open Scope list_scope.

Local Definition s0_ : string := "u1".
Local Definition s1_ : string := "MYCELL".
Local Definition s2_ : string := "pi0".
Local Definition s3_ : string := "input".
Local Definition s4_ : string := "pi1".
Local Definition s5_ : string := "po0".
Local Definition s6_ : string := "output".
Local Definition s7_ : string := "po1".
Local Definition s8_ : string := "g".
Local Definition s9_ : string := "BUF1".
Local Definition s10_ : string := "d1".
Local Definition s11_ : string := "DFF".
Local Definition s12_ : string := "d2".
Local Definition s13_ : string := "d3".
Local Definition s14_ : string := "po2".
Local Definition s15_ : string := "a".
Local Definition s16_ : string := "__fork__".
Local Definition s17_ : string := "b".
Local Definition s18_ : string := "y".
Local Definition s19_ : string := "AND2".
Local Definition t1_ : string := "DFFX1".
Local Definition t5_ : string := "d".
Local Definition t7_ : string := "clk".
Local Definition t8_ : string := "q".

Lemma io_live_b : forall c, io_ok_b c = true -> IoLive c.
Proof.
  intros c H e He. unfold io_ok_b in H. rewrite forallb_forall in H. specialize (H e He).
  destruct e as [n|]; [|discriminate]. exists n. split; auto. apply mem_In; auto.
Qed.

(** ** D21: host pi0, pi1 -> u1 (DFFX1), output pin unconnected; implementation input(d,clk) output(q) q=DFF(d,clk) *)
Definition d21_host : circ := (circ_of_tables (NRC (NR s0_ t1_ 0 (OC (So 0) (OC (So 1) ON)) ON) (NRC (NR s2_ s3_ 1 ON (OC (So 0) ON)) (NRC (NR s4_ s3_ 2 ON (OC (So 1) ON)) NRN))) (LRC (LR 0 (So 1) 0 (So 0) 0) (LRC (LR 1 (So 2) 0 (So 0) 1) LRN)) (OC (So 1) (OC (So 2) ON))).
Definition d21_impl : circ := (circ_of_tables (NRC (NR t5_ s16_ 0 ON (OC (So 1) ON)) (NRC (NR t7_ s16_ 1 ON (OC (So 2) ON)) (NRC (NR t8_ s16_ 2 (OC (So 0) ON) ON) (NRC (NR t8_ s11_ 3 (OC (So 1) (OC (So 2) ON)) (OC (So 0) ON)) NRN)))) (LRC (LR 0 (So 3) 0 (So 2) 0) (LRC (LR 1 (So 0) 0 (So 3) 0) (LRC (LR 2 (So 1) 0 (So 3) 1) LRN))) (OC (So 0) (OC (So 1) (OC (So 2) ON)))).
Definition d21_c4 : circ := match substitute_pre d21_host 0 d21_impl with Some (c4, _, _) => c4 | None => empty end.
Definition d21_c' : circ := match substitute d21_host 0 d21_impl with Some c' => c' | None => empty end.

Theorem substitute_d21_refuted :
  CInv d21_host /\ IoLive d21_host /\ In 0 (nodes d21_host) /\ is_fork (kind_of d21_host 0) = false /\ io_mem d21_host 0 = false /\
  CInv d21_impl /\ IoLive d21_impl /\ subst_shape_b d21_impl = true /\ d22_free_b d21_host 0 d21_impl = true /\
  all_outs_connected_b d21_host 0 d21_impl = false /\
  substitute d21_host 0 d21_impl = Some d21_c' /\
  s_names d21_host = ["pi0"; "pi1"; "u1"] /\ s_names d21_c4 = ["pi0"; "pi1"; "u1"] /\ s_names d21_c' = ["pi0"; "pi1"] /\
  ~ In 0 (nodes d21_c').
Proof.
  split. { apply cinv_b_sound. vm_compute. reflexivity. }
  split. { apply io_live_b. vm_compute. reflexivity. }
  split. { apply mem_In. vm_compute. reflexivity. }
  split. { vm_compute. reflexivity. }
  split. { vm_compute. reflexivity. }
  split. { apply cinv_b_sound. vm_compute. reflexivity. }
  split. { apply io_live_b. vm_compute. reflexivity. }
  split. { vm_compute. reflexivity. }
  split. { vm_compute. reflexivity. }
  split. { vm_compute. reflexivity. }
  split. { unfold d21_c'. destruct (substitute d21_host 0 d21_impl) eqn:E; [reflexivity|vm_compute in E; discriminate]. }
  split. { vm_compute. reflexivity. }
  split. { vm_compute. reflexivity. }
  split. { vm_compute. reflexivity. }
  intros H. apply mem_In in H. vm_compute in H. discriminate.
Qed.

(** ** D29: host nodes [po0, po1, pi1, po2, pi0, u1, d1, g, d2, d3]; pi1 -> g -> u1.0, pi0 -> d1 -> u1.1, pi0 -> d2 -> po1, pi0 -> d3 -> po2,
    pi1 -> po0; instance output unconnected; implementation input(a,b) output(y) y=AND2(a,b).  The clean-up removes u1, g and d1; each
    removal moves the last node into the hole: s_nodes ..., d1, d2, d3 becomes ..., d3, d2 *)
Definition d29_host : circ := (circ_of_tables (NRC (NR s5_ s6_ 0 (OC (So 6) ON) ON) (NRC (NR s7_ s6_ 1 (OC (So 5) ON) ON) (NRC (NR s4_ s3_ 2 ON (OC (So 0) (OC (So 6) ON))) (NRC (NR s14_ s6_ 3 (OC (So 8) ON) ON) (NRC (NR s2_ s3_ 4 ON (OC (So 2) (OC (So 4) (OC (So 7) ON)))) (NRC (NR s0_ s1_ 5 (OC (So 1) (OC (So 3) ON)) ON) (NRC (NR s10_ s11_ 6 (OC (So 2) ON) (OC (So 3) ON)) (NRC (NR s8_ s9_ 7 (OC (So 0) ON) (OC (So 1) ON)) (NRC (NR s12_ s11_ 8 (OC (So 4) ON) (OC (So 5) ON)) (NRC (NR s13_ s11_ 9 (OC (So 7) ON) (OC (So 8) ON)) NRN)))))))))) (LRC (LR 0 (So 2) 0 (So 7) 0) (LRC (LR 1 (So 7) 0 (So 5) 0) (LRC (LR 2 (So 4) 0 (So 6) 0) (LRC (LR 3 (So 6) 0 (So 5) 1) (LRC (LR 4 (So 4) 1 (So 8) 0) (LRC (LR 5 (So 8) 0 (So 1) 0) (LRC (LR 6 (So 2) 1 (So 0) 0) (LRC (LR 7 (So 4) 2 (So 9) 0) (LRC (LR 8 (So 9) 0 (So 3) 0) LRN))))))))) (OC (So 4) (OC (So 2) (OC (So 0) (OC (So 1) (OC (So 3) ON)))))).
Definition d29_impl : circ := (circ_of_tables (NRC (NR s15_ s16_ 0 ON (OC (So 1) ON)) (NRC (NR s17_ s16_ 1 ON (OC (So 2) ON)) (NRC (NR s18_ s16_ 2 (OC (So 0) ON) ON) (NRC (NR s18_ s19_ 3 (OC (So 1) (OC (So 2) ON)) (OC (So 0) ON)) NRN)))) (LRC (LR 0 (So 3) 0 (So 2) 0) (LRC (LR 1 (So 0) 0 (So 3) 0) (LRC (LR 2 (So 1) 0 (So 3) 1) LRN))) (OC (So 0) (OC (So 1) (OC (So 2) ON)))).
Definition d29_c' : circ := match substitute d29_host 5 d29_impl with Some c' => c' | None => empty end.

Theorem substitute_state_order_refuted :
  CInv d29_host /\ IoLive d29_host /\ In 5 (nodes d29_host) /\ is_fork (kind_of d29_host 5) = false /\ io_mem d29_host 5 = false /\
  CInv d29_impl /\ IoLive d29_impl /\ subst_shape_b d29_impl = true /\ d22_free_b d29_host 5 d29_impl = true /\
  substitute d29_host 5 d29_impl = Some d29_c' /\
  s_names d29_host = ["pi0"; "pi1"; "po0"; "po1"; "po2"; "d1"; "d2"; "d3"] /\
  s_names d29_c' = ["pi0"; "pi1"; "po0"; "po1"; "po2"; "d3"; "d2"].
Proof.
  split. { apply cinv_b_sound. vm_compute. reflexivity. }
  split. { apply io_live_b. vm_compute. reflexivity. }
  split. { apply mem_In. vm_compute. reflexivity. }
  split. { vm_compute. reflexivity. }
  split. { vm_compute. reflexivity. }
  split. { apply cinv_b_sound. vm_compute. reflexivity. }
  split. { apply io_live_b. vm_compute. reflexivity. }
  split. { vm_compute. reflexivity. }
  split. { vm_compute. reflexivity. }
  split. { unfold d29_c'. destruct (substitute d29_host 5 d29_impl) eqn:E; [reflexivity|vm_compute in E; discriminate]. }
  split; vm_compute; reflexivity.
Qed.
