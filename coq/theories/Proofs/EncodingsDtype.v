(** C15, part 3: the generic unpackbits / packbits over the eight integer dtypes (two's complement, Z.testbit) and popcount. *)
From Coq Require Import List ZArith NArith Bool Arith Lia.
From KV Require Import Model.Encodings Proofs.EncodingsBits Gen.LogicTables.
Import ListNotations.
Local Open Scope list_scope.

Fixpoint Z_of_bits (l : list bool) : Z :=
  match l with [] => 0%Z | b :: r => (Z.b2z b + 2 * Z_of_bits r)%Z end.

Lemma Z_of_nat_bits l : Z.of_nat (nat_of_bits l) = Z_of_bits l.
Proof.
  induction l as [|b r IH]; [reflexivity|]. cbn [nat_of_bits Z_of_bits].
  rewrite Nat2Z.inj_add, Nat2Z.inj_mul, IH. destruct b; reflexivity.
Qed.

Lemma Z_of_bits_app l1 l2 :
  Z_of_bits (l1 ++ l2) = (Z_of_bits l1 + 2 ^ Z.of_nat (List.length l1) * Z_of_bits l2)%Z.
Proof.
  induction l1 as [|b r IH]; cbn [app Z_of_bits List.length].
  - change (2 ^ Z.of_nat 0)%Z with 1%Z. lia.
  - rewrite IH, Nat2Z.inj_succ, Z.pow_succ_r by lia. lia.
Qed.

Lemma Z_of_bits_range l : (0 <= Z_of_bits l < 2 ^ Z.of_nat (List.length l))%Z.
Proof.
  induction l as [|b r IH]; cbn [Z_of_bits List.length].
  - change (2 ^ Z.of_nat 0)%Z with 1%Z. lia.
  - rewrite Nat2Z.inj_succ, Z.pow_succ_r by lia. destruct b; cbn [Z.b2z]; lia.
Qed.

Lemma testbit_Z_of_bits l i : Z.testbit (Z_of_bits l) (Z.of_nat i) = nth i l false.
Proof.
  revert i; induction l as [|b r IH]; intros i.
  - cbn [Z_of_bits]. rewrite Z.bits_0. destruct i; reflexivity.
  - cbn [Z_of_bits]. rewrite Z.add_comm. destruct i.
    + apply Z.testbit_0_r.
    + rewrite Nat2Z.inj_succ, Z.testbit_succ_r by lia. apply IH.
Qed.

Lemma of_bytes_pack l : of_bytes (np_packbits_le l) = Z_of_bits l.
Proof.
  induction l using list8_ind.
  - reflexivity.
  - rewrite packbits_short by assumption. cbn [of_bytes]. rewrite Z_of_nat_bits. lia.
  - cbn [np_packbits_le of_bytes]. rewrite IHl, Z_of_nat_bits. cbn [Z_of_bits]. lia.
Qed.

Definition tbits (x : Z) (s n : nat) : list bool := map (fun i => Z.testbit x (Z.of_nat i)) (seq s n).

Lemma Z_of_bits_tbits x n : Z_of_bits (tbits x 0 n) = (x mod 2 ^ Z.of_nat n)%Z.
Proof.
  apply Z.bits_inj'. intros m Hm.
  rewrite <- (Z2Nat.id m Hm). rewrite testbit_Z_of_bits.
  rewrite Z.testbit_mod_pow2 by lia.
  unfold tbits. destruct (Z.ltb_spec (Z.of_nat (Z.to_nat m)) (Z.of_nat n)) as [H|H].
  - rewrite (nth_map_lt _ (seq 0 n) 0 false) by (rewrite seq_length; lia).
    rewrite seq_nth by lia. reflexivity.
  - apply nth_overflow. rewrite map_length, seq_length. lia.
Qed.

Lemma seq_add_map k n : seq k n = map (fun i => k + i) (seq 0 n).
Proof.
  revert k; induction n; intros k; [reflexivity|]. cbn [seq map]. rewrite Nat.add_0_r. f_equal.
  rewrite IHn, <- seq_shift, map_map. apply map_ext. intros; lia.
Qed.

(** one byte of the two's complement representation *)
Lemma nbits8_byte x k :
  nbits 8 (Z.to_nat ((x / 2 ^ (8 * Z.of_nat k)) mod 256)) = tbits x (8 * k) 8.
Proof.
  set (z := ((x / 2 ^ (8 * Z.of_nat k)) mod 256)%Z).
  assert (0 <= z < 256)%Z as Hz by (apply Z.mod_pos_bound; lia).
  set (l := nbits 8 (Z.to_nat z)).
  assert (List.length l = 8) as L by apply nbits_length.
  assert (Z_of_bits l = z) as E.
  { unfold l. rewrite <- Z_of_nat_bits, nat_of_bits_nbits.
    - apply Z2Nat.id. lia.
    - change (2 ^ 8) with (Z.to_nat 256). apply Z2Nat.inj_lt; lia. }
  rewrite <- (map_nth_seq l false) at 1. rewrite L.
  unfold tbits. rewrite (seq_add_map (8 * k) 8), map_map.
  apply map_ext_in. intros i Hi. apply in_seq in Hi.
  rewrite <- testbit_Z_of_bits, E. unfold z.
  change 256%Z with (2 ^ 8)%Z. rewrite Z.mod_pow2_bits_low by lia.
  rewrite Z.div_pow2_bits by lia. f_equal. lia.
Qed.

(** unpackbits is the list of two's complement bits, least significant first *)
Theorem unpackbits_testbit dt x : unpackbits dt x = tbits x 0 (dt_bits dt).
Proof.
  unfold unpackbits, view_u8, np_unpackbits_le, dt_bits.
  assert (forall n k0, flat_map (nbits 8) (map (fun k => Z.to_nat ((x / 2 ^ (8 * Z.of_nat k)) mod 256)) (seq k0 n))
                       = tbits x (8 * k0) (8 * n)) as G.
  { induction n; intros k0.
    - rewrite Nat.mul_0_r. reflexivity.
    - cbn [seq map flat_map]. rewrite IHn, nbits8_byte.
      replace (8 * S n) with (8 + 8 * n) by lia. unfold tbits. rewrite seq_app, map_app.
      replace (8 * S k0) with (8 * k0 + 8) by lia. reflexivity. }
  rewrite G. reflexivity.
Qed.

Lemma unpackbits_length dt x : List.length (unpackbits dt x) = dt_bits dt.
Proof. rewrite unpackbits_testbit. unfold tbits. rewrite map_length, seq_length. reflexivity. Qed.

Lemma packbits_full dt l :
  List.length l = dt_bits dt -> packbits dt l = Some (view_dt dt (np_packbits_le l)).
Proof.
  intros H. unfold packbits. rewrite firstn_all2 by lia. rewrite H, Nat.ltb_irrefl. reflexivity.
Qed.

Definition valid_dtype (dt : dtype) : Prop := In dt dtypes.

Lemma dt_bits_pos dt : valid_dtype dt -> (8 <= Z.of_nat (dt_bits dt))%Z.
Proof.
  unfold valid_dtype, dtypes, dt_bits. intros H. repeat (destruct H as [<-|H]; [cbn; lia|]). destruct H.
Qed.

Lemma pow2_half b : (1 <= b)%Z -> (2 ^ b = 2 * 2 ^ (b - 1))%Z.
Proof. intros. rewrite <- Z.pow_succ_r by lia. f_equal. lia. Qed.

(** reading [x mod 2^bits] back as the dtype gives [x] for every value of the dtype *)
Lemma view_dt_mod dt l x :
  valid_dtype dt -> in_range dt x -> of_bytes l = (x mod 2 ^ Z.of_nat (dt_bits dt))%Z -> view_dt dt l = x.
Proof.
  intros V R E. pose proof (dt_bits_pos dt V) as B. unfold view_dt, in_range in *. rewrite E.
  set (b := Z.of_nat (dt_bits dt)) in *. rewrite (pow2_half b) in * by lia.
  set (P := (2 ^ (b - 1))%Z) in *. assert (0 < P)%Z by (apply Z.pow_pos_nonneg; lia).
  destruct (dt_signed dt); cbn [andb].
  - destruct (Z.leb_spec P (x mod (2 * P))%Z) as [L|L].
    + destruct (Z.lt_ge_cases x 0) as [N|N].
      * rewrite <- (Z_mod_plus_full x 1 (2 * P)). rewrite Z.mod_small by lia. lia.
      * rewrite Z.mod_small in L by lia. lia.
    + destruct (Z.lt_ge_cases x 0) as [N|N].
      * rewrite <- (Z_mod_plus_full x 1 (2 * P)) in L. rewrite Z.mod_small in L by lia. lia.
      * apply Z.mod_small. lia.
  - apply Z.mod_small. lia.
Qed.

(** pack_unpack: every value of every integer dtype survives unpackbits -> packbits *)
Theorem pack_unpack dt x : valid_dtype dt -> in_range dt x -> packbits dt (unpackbits dt x) = Some x.
Proof.
  intros V R. rewrite packbits_full by apply unpackbits_length. f_equal.
  apply view_dt_mod; try assumption.
  rewrite of_bytes_pack, unpackbits_testbit. apply Z_of_bits_tbits.
Qed.

Example pack_unpack_ex :
  in_range (DT 2 true) (-12345) /\ unpackbits (DT 2 true) (-12345) =
    [true; true; true; false; false; false; true; true; true; true; true; true; false; false; true; true] /\
  packbits (DT 2 true) (unpackbits (DT 2 true) (-12345)) = Some (-12345)%Z /\
  packbits (DT 8 false) (unpackbits (DT 8 false) 18446744073709551615) = Some 18446744073709551615%Z.
Proof. cbv [in_range dt_signed dt_bits dt_bytes]. repeat split; try reflexivity; lia. Qed.

Lemma view_dt_range dt l :
  valid_dtype dt -> (0 <= of_bytes l < 2 ^ Z.of_nat (dt_bits dt))%Z ->
  in_range dt (view_dt dt l) /\ (view_dt dt l mod 2 ^ Z.of_nat (dt_bits dt) = of_bytes l)%Z.
Proof.
  intros V R. pose proof (dt_bits_pos dt V) as B. unfold view_dt, in_range.
  set (b := Z.of_nat (dt_bits dt)) in *. rewrite (pow2_half b) in * by lia.
  set (P := (2 ^ (b - 1))%Z) in *. assert (0 < P)%Z by (apply Z.pow_pos_nonneg; lia).
  set (u := of_bytes l) in *.
  destruct (dt_signed dt); cbn [andb].
  - destruct (Z.leb_spec P u) as [L|L].
    + split; [lia|]. rewrite <- (Z_mod_plus_full (u - 2 * P) 1 (2 * P)).
      replace (u - 2 * P + 1 * (2 * P))%Z with u by lia. apply Z.mod_small. lia.
    + split; [lia|]. apply Z.mod_small. lia.
  - split; [lia|]. apply Z.mod_small. lia.
Qed.

(** unpack_pack: every bit list of exactly the dtype's width denotes a value of the dtype whose bits it is *)
Theorem unpack_pack dt l :
  valid_dtype dt -> List.length l = dt_bits dt ->
  exists x, packbits dt l = Some x /\ in_range dt x /\ unpackbits dt x = l.
Proof.
  intros V L. exists (view_dt dt (np_packbits_le l)). split; [apply packbits_full; exact L|].
  pose proof (Z_of_bits_range l) as R. rewrite L in R.
  destruct (view_dt_range dt (np_packbits_le l) V) as [IR M]; [rewrite of_bytes_pack; exact R|].
  split; [exact IR|].
  rewrite unpackbits_testbit. unfold tbits. rewrite <- L.
  transitivity (map (fun i => nth i l false) (seq 0 (List.length l))); [|apply map_nth_seq].
  apply map_ext_in. intros i Hi. apply in_seq in Hi.
  rewrite <- testbit_Z_of_bits, <- of_bytes_pack, <- M.
  symmetry. apply Z.mod_pow2_bits_low. lia.
Qed.

Example unpack_pack_ex :
  let l := [true; false; false; false; false; false; false; true] in
  packbits (DT 1 true) l = Some (-127)%Z /\ unpackbits (DT 1 true) (-127) = l /\ packbits (DT 1 false) l = Some 129%Z.
Proof. repeat split. Qed.

(** truncation / padding of the bit axis: a shorter, non-empty bit list is sign-extended for signed dtypes
    (it denotes its value as a [length l]-bit two's complement number) and zero-extended otherwise *)
Lemma Z_of_bits_repeat b k : Z_of_bits (repeat b k) = if b then (2 ^ Z.of_nat k - 1)%Z else 0%Z.
Proof.
  induction k; [destruct b; reflexivity|]. cbn [repeat Z_of_bits]. rewrite IHk, Nat2Z.inj_succ, Z.pow_succ_r by lia.
  destruct b; cbn [Z.b2z]; lia.
Qed.

Lemma Z_of_bits_last l :
  l <> [] ->
  exists r, (0 <= r < 2 ^ (Z.of_nat (List.length l) - 1))%Z /\
            Z_of_bits l = (r + 2 ^ (Z.of_nat (List.length l) - 1) * Z.b2z (last l false))%Z.
Proof.
  intros H. destruct (exists_last H) as [r' [b ->]].
  rewrite last_last, app_length. cbn [List.length].
  replace (Z.of_nat (List.length r' + 1) - 1)%Z with (Z.of_nat (List.length r')) by lia.
  exists (Z_of_bits r'). split.
  - apply Z_of_bits_range.
  - rewrite Z_of_bits_app. cbn [Z_of_bits]. lia.
Qed.

Definition twos_value (signed : bool) (l : list bool) : Z :=
  if signed && last l false then (Z_of_bits l - 2 ^ Z.of_nat (List.length l))%Z else Z_of_bits l.

Theorem pack_extend dt l :
  valid_dtype dt -> l <> [] -> List.length l <= dt_bits dt ->
  packbits dt l = Some (twos_value (dt_signed dt) l).
Proof.
  intros V Hne Hl. pose proof (dt_bits_pos dt V) as B.
  destruct (Z_of_bits_last l Hne) as [r [Hr Er]].
  assert (1 <= Z.of_nat (List.length l))%Z as L1 by (destruct l; [congruence | cbn [List.length]; lia]).
  set (n := Z.of_nat (List.length l)) in *.
  set (A := (2 ^ (n - 1))%Z) in *. assert (0 < A)%Z as HA by (apply Z.pow_pos_nonneg; lia).
  assert (2 ^ n = 2 * A)%Z as En by (apply pow2_half; lia).
  unfold twos_value. fold n. rewrite En.
  destruct (Nat.eq_dec (List.length l) (dt_bits dt)) as [Heq|Hneq].
  - (* full width *)
    rewrite packbits_full by exact Heq. f_equal. unfold view_dt. rewrite of_bytes_pack.
    replace (Z.of_nat (dt_bits dt)) with n by (unfold n; lia). fold A. rewrite En.
    destruct (dt_signed dt); cbn [andb]; [|reflexivity].
    destruct (last l false); cbn [Z.b2z] in Er.
    + destruct (Z.leb_spec A (Z_of_bits l)); lia.
    + destruct (Z.leb_spec A (Z_of_bits l)); lia.
  - (* shorter: padded *)
    set (k := dt_bits dt - List.length l).
    assert (Z.of_nat (dt_bits dt) = n + Z.of_nat k)%Z as Ek by (unfold n, k; lia).
    assert (1 <= Z.of_nat k)%Z as K1 by (unfold k; lia).
    set (K := (2 ^ Z.of_nat k)%Z). assert (2 <= K)%Z as HK.
    { unfold K. change 2%Z with (2 ^ 1)%Z at 1. apply Z.pow_le_mono_r; lia. }
    assert (2 ^ Z.of_nat (dt_bits dt) = 2 * A * K)%Z as Eb by (rewrite Ek, Z.pow_add_r, En by lia; reflexivity).
    assert (2 ^ (Z.of_nat (dt_bits dt) - 1) = A * K)%Z as Eb1.
    { replace (Z.of_nat (dt_bits dt) - 1)%Z with ((n - 1) + Z.of_nat k)%Z by lia. rewrite Z.pow_add_r by lia. reflexivity. }
    unfold packbits. rewrite firstn_all2 by lia.
    assert ((List.length l <? dt_bits dt) = true) as Lt by (apply Nat.ltb_lt; lia). rewrite Lt. fold k.
    assert (forall b, of_bytes (np_packbits_le (l ++ repeat b k)) = (Z_of_bits l + 2 * A * (if b then K - 1 else 0))%Z) as P.
    { intros b. rewrite of_bytes_pack, Z_of_bits_app, Z_of_bits_repeat. fold n. rewrite En. reflexivity. }
    destruct (dt_signed dt) eqn:S; cbn [andb].
    + destruct l as [|b0 l']; [congruence|]. set (l := b0 :: l') in *.
      f_equal. unfold view_dt. rewrite S, P, Eb, Eb1. cbn [andb].
      destruct (last l false); cbn [Z.b2z] in Er.
      * destruct (Z.leb_spec (A * K) (Z_of_bits l + 2 * A * (K - 1))); nia.
      * destruct (Z.leb_spec (A * K) (Z_of_bits l + 2 * A * 0)); nia.
    + f_equal. unfold view_dt. rewrite S, P. cbn [andb]. lia.
Qed.

Example pack_extend_ex :
  packbits (DT 2 true) [true; false; true] = Some (-3)%Z /\ twos_value true [true; false; true] = (-3)%Z /\
  packbits (DT 2 false) [true; false; true] = Some 5%Z /\ packbits (DT 1 true) [] = None.
Proof. repeat split. Qed.

(** longer bit lists are truncated *)
Lemma packbits_truncate dt l : packbits dt l = packbits dt (firstn (dt_bits dt) l).
Proof.
  unfold packbits. rewrite firstn_firstn, Nat.min_id. reflexivity.
Qed.

(** * popcount *)
Lemma count_ones_app a b : count_ones (a ++ b) = count_ones a + count_ones b.
Proof. unfold count_ones. rewrite filter_app, app_length. reflexivity. Qed.

Lemma popcount_table_all :
  forallb (fun b => nth b pop_count_lut 0 =? count_ones (nbits 8 b)) (seq 0 256) = true.
Proof. vm_compute. reflexivity. Qed.

Theorem popcount_table b : b < 256 -> nth b pop_count_lut 0 = count_ones (nbits 8 b).
Proof.
  intros H. pose proof popcount_table_all as T. rewrite forallb_forall in T.
  apply Nat.eqb_eq. apply T. apply in_seq. lia.
Qed.

Theorem popcount_spec a :
  Forall (fun b => b < 256) a -> popcount pop_count_lut a = count_ones (np_unpackbits_le a).
Proof.
  induction 1 as [|b r Hb Hr IH]; [reflexivity|].
  unfold np_unpackbits_le in *. cbn [popcount fold_right flat_map]. rewrite count_ones_app.
  unfold popcount in IH. rewrite IH, popcount_table by exact Hb. reflexivity.
Qed.

Lemma popcount_app a b : popcount pop_count_lut (a ++ b) = popcount pop_count_lut a + popcount pop_count_lut b.
Proof. unfold popcount. induction a; cbn [app fold_right]; [reflexivity|]. rewrite IHa. lia. Qed.

Example popcount_ex : popcount pop_count_lut [255; 1; 3; 0; 170] = 15 /\ count_ones (np_unpackbits_le [255; 1; 3; 0; 170]) = 15.
Proof. split; reflexivity. Qed.
