(** C10: the semantic theorems for Circuit.substitute on arbitrary implementation circuits, assembled from
    Proofs/CircuitSubstSem.v (solutions correspond, given the pin-by-pin description SubstGlue of the result),
    Proofs/CircuitSubstGlue.v (substitute produces SubstGlue, for all inputs), Proofs/CircuitSubstCheck.v (the boolean checker
    of SubstGlue is sound; substitute = substitute_pre + cleanup) and Proofs/CircuitDanglingSem.v (the clean-up preserves the
    function). *)
From Coq Require Import List Arith Bool String NArith Lia.
From KV Require Model.Prims Model.Netlist Model.SimOps Model.NetlistSem.
From KV Require Import Model.Circuit Model.CircuitInv Model.CircuitView Model.CircuitSem Model.CircuitSubstSem
     Proofs.CircuitBase Proofs.CircuitProofs Proofs.CircuitBool Proofs.CircuitDangling Proofs.CircuitSubstInv Proofs.CircuitElimSem
     Proofs.CircuitSubstSem Proofs.CircuitSubstSemGen Proofs.CircuitSubstCheck Proofs.CircuitDanglingSem Proofs.CircuitSubstGlue.
From KV Require Import Model.CircuitSubstSem2.
Import ListNotations.
Local Open Scope list_scope.

Lemma subst_shape_forks : forall impl, subst_shape_b impl = true -> io_forks_b impl = true.
Proof. intros impl H. unfold subst_shape_b in H. rewrite !andb_true_iff in H. tauto. Qed.

(* values read at the input pins of the surviving host nodes *)
Lemma obs_host : forall V (zero : V) c u impl m c4 (v v' : nat -> V), CInv c -> SubstGlue c u impl m c4 ->
  (forall l, In l (lines c) -> v' l = v l) ->
  forall n k, In n (nodes c) -> n <> u -> obs zero c4 v' n k = obs zero c v n k.
Proof.
  intros V zero c u impl m c4 v v' [HC _] HG Hv n k Hn Hne. unfold obs.
  destruct (sg_host _ _ _ _ _ HG n Hn Hne) as [_ [_ [E _]]]. rewrite E.
  unfold NetlistSem.pinv. destruct (SimOps.pin (ins_of c n) k) as [l|] eqn:Ep; auto.
  rewrite pin_in_at in Ep. destruct (cc_ins [] c HC n k l (or_introl Hn) Ep) as [Hl _]. auto.
Qed.

Section Main.
Context {V : Type} (sem : BinNums.N -> V -> V -> V -> V -> V) (zero : V).
Hypothesis Hbuf : forall x a b d, sem (SimOps.lutv "BUF1") x a b d = x.

Definition SubstSem (c : circ) (u : nat) (impl : circ) (m : list (nat * nat)) (c4 : circ) : Prop :=
  CInv c4 /\ IoLive c4 /\ io c4 = io c /\
  (forall n, In n (nodes c) -> n <> u -> In n (nodes c4) /\ name_of c4 n = name_of c n /\ kind_of c4 n = kind_of c n) /\
  name_of c4 u = name_of c u /\
  (forall l, In l (lines c) -> In l (lines c4)) /\
  (forall x y, mget x m = Some y -> In x (nodes impl) /\ In y (nodes c4) /\
               kind_of c4 y = (if in_ios impl x then FORK else kind_of impl x) /\
               (y <> u -> name_of c4 y = tilde (name_of c u) (name_of impl x))) /\
  (forall y, In y (nodes c4) -> (In y (nodes c) /\ y <> u) \/ exists x, mget x m = Some y) /\
  (forall stim v, inst_sol sem zero c u impl m stim v ->
     exists v', csol sem zero c4 stim v' /\ (forall l, In l (lines c) -> v' l = v l) /\
                forall n k, In n (nodes c) -> n <> u -> obs zero c4 v' n k = obs zero c v n k) /\
  (forall stim v', csol sem zero c4 stim v' ->
     inst_sol sem zero c u impl m stim v' /\ forall n k, In n (nodes c) -> n <> u -> obs zero c4 v' n k = obs zero c v' n k).

Lemma glue_subst_sem : forall c u impl m c4,
  CInv c -> IoLive c -> In u (nodes c) -> io_mem c u = false ->
  CInv impl -> IoLive impl -> io_forks_b impl = true ->
  CInv c4 -> IoLive c4 -> SubstGlue c u impl m c4 ->
  d22_free_b c u impl = true ->
  SubstSem c u impl m c4.
Proof.
  intros c u impl m c4 HI HL Hu Hport HII HIL Hfk HI4 HL4 HG Hd22.
  destruct (glue_function_gen V sem zero Hbuf c u impl m c4 HI HL Hu Hport HII HIL Hfk HI4 HL4 HG Hd22) as [Hf Hb].
  split; [exact HI4|]. split; [exact HL4|]. split; [exact (sg_io _ _ _ _ _ HG)|].
  split. { intros n Hn Hne. destruct (sg_host _ _ _ _ _ HG n Hn Hne) as [A [B _]]. split; [|split; auto].
           apply (sg_nodes _ _ _ _ _ HG). left; auto. }
  split; [exact (sg_uname _ _ _ _ _ HG)|]. split; [exact (sg_lines _ _ _ _ _ HG)|].
  split. { intros x y Hx. destruct (sg_rng _ _ _ _ _ HG x y Hx) as [A [B _]]. split; auto. split; auto. split.
           apply (sg_kind _ _ _ _ _ HG); auto. intros Hy. apply (sg_name _ _ _ _ _ HG); auto. }
  split. { intros y Hy. apply (sg_nodes _ _ _ _ _ HG). exact Hy. }
  split.
  - intros stim v Hs. destruct (Hf stim v Hs) as [v' [A B]]. exists v'. split; auto. split; auto.
    intros n k Hn Hne. eapply obs_host; eauto.
  - intros stim v' Hs. split; auto. intros n k Hn Hne. eapply obs_host; eauto.
Qed.

(** ** with the clean-up: what the result [c'] of substitute has to do with the host read through the implementation *)
Definition SubstFull (c : circ) (u : nat) (impl : circ) (m : list (nat * nat)) (c' : circ) : Prop :=
  CInv c' /\ IoLive c' /\ io c' = io c /\
  (forall n, In n (nodes c') ->
     (In n (nodes c) /\ n <> u /\ name_of c' n = name_of c n /\ kind_of c' n = kind_of c n) \/
     (exists x, mget x m = Some n /\ In x (nodes impl) /\ kind_of c' n = (if in_ios impl x then FORK else kind_of impl x) /\
                (n <> u -> name_of c' n = tilde (name_of c u) (name_of impl x)) /\ (n = u -> name_of c' n = name_of c u))) /\
  (forall n, In n (nodes c) -> n <> u -> ~ In n (nodes c') -> ~ In (Some n) (io c)) /\
  (forall stim v, inst_sol sem zero c u impl m stim v ->
     exists v', csol sem zero c' stim v' /\ (forall l, In l (lines c) -> In l (lines c') -> v' l = v l) /\
                forall n k, In n (nodes c) -> n <> u -> In n (nodes c') -> obs zero c' v' n k = obs zero c v n k) /\
  (forall stim v', csol sem zero c' stim v' ->
     exists v, inst_sol sem zero c u impl m stim v /\ (forall l, In l (lines c) -> In l (lines c') -> v l = v' l) /\
               forall n k, In n (nodes c) -> n <> u -> In n (nodes c') -> obs zero c' v' n k = obs zero c v n k).

Lemma obs_keep : forall c4 c' (v v' : nat -> V) n k, CInv c' -> In n (nodes c') -> ins_of c' n = ins_of c4 n ->
  (forall l, In l (lines c') -> v l = v' l) -> obs zero c4 v n k = obs zero c' v' n k.
Proof.
  intros c4 c' v v' n k [HC _] Hn E Hv. unfold obs. rewrite E. unfold NetlistSem.pinv.
  destruct (SimOps.pin (ins_of c4 n) k) as [l|] eqn:Ep; auto. apply Hv.
  rewrite <- E in Ep. rewrite pin_in_at in Ep. destruct (cc_ins [] c' HC n k l (or_introl Hn) Ep) as [Hl _]. exact Hl.
Qed.

Lemma subst_full_compose : forall c u impl m c4 c',
  SubstSem c u impl m c4 -> DangSemStmt sem zero c4 c' -> SubstFull c u impl m c'.
Proof.
  intros c u impl m c4 c' [HI4 [HL4 [Hio [Hhost [Hun [Hlines [Hmap [Hnodes [Hf Hb]]]]]]]]]
         [HI' [HL' [Hio' [Hnk [Hn' [Hl' [Hif [Hgone [Df Db]]]]]]]]].
  split; [exact HI'|]. split; [exact HL'|]. split; [congruence|].
  split.
  { intros n Hn. pose proof (Hn' n Hn) as Hn4. destruct (Hnk n) as [N1 N2].
    destruct (Hnodes n Hn4) as [[A B]|[x Hx]].
    - left. destruct (Hhost n A B) as [_ [C D]]. split; auto. split; auto. split; congruence.
    - right. exists x. destruct (Hmap x n Hx) as [A [B [C D]]]. split; auto. split; auto. split; [congruence|].
      split. { intros Hne. rewrite N1. auto. } intros ->. rewrite N1. exact Hun. }
  split.
  { intros n Hn Hne Hnot Hin. destruct (Hhost n Hn Hne) as [A _]. apply (Hgone n A Hnot). rewrite Hio. exact Hin. }
  split.
  - intros stim v Hs. destruct (Hf stim v Hs) as [v4 [S4 [Hv4 Ho4]]]. exists v4. split; [apply Df; exact S4|].
    split. { intros l Hl _. apply Hv4; auto. }
    intros n k Hn Hne Hn2. rewrite <- (Ho4 n k Hn Hne). symmetry. destruct (Hif n Hn2) as [_ E].
    apply (obs_keep c4 c' v4 v4 n k HI' Hn2 E). auto.
  - intros stim v' Hs. destruct (Db stim v' Hs) as [v4 [S4 Hag]]. destruct (Hb stim v4 S4) as [Hinst Ho4].
    exists v4. split; [exact Hinst|]. split. { intros l _ Hl. apply Hag; auto. }
    intros n k Hn Hne Hn2. rewrite <- (Ho4 n k Hn Hne). symmetry. destruct (Hif n Hn2) as [_ E].
    apply (obs_keep c4 c' v4 v' n k HI' Hn2 E). exact Hag.
Qed.

Lemma pure_ports_b_sound : forall impl, pure_ports_b impl = true -> pure_ports impl.
Proof.
  intros impl H l r Hl Hr Hio Hlen. unfold pure_ports_b in H. rewrite forallb_forall in H. specialize (H l Hl).
  rewrite Hr, Hio, Hlen in H. simpl in H. apply Nat.eqb_eq. exact H.
Qed.

(** *** (1) the state [c4] before the clean-up: any subset of connected input AND output pins, known finding D22 excluded *)
Theorem substitute_pre_function : forall c u impl c4 dl m,
  CInv c -> IoLive c -> In u (nodes c) -> is_fork (kind_of c u) = false -> io_mem c u = false ->
  CInv impl -> IoLive impl -> subst_shape_b impl = true -> pure_ports_b impl = true ->
  substitute_pre c u impl = Some (c4, dl, m) -> d22_free_b c u impl = true ->
  SubstSem c u impl m c4 /\ (forall d, In d dl -> In d (nodes c4)).
Proof.
  intros c u impl c4 dl m HI HL Hu Hcell Hport HII HIL Hshape Hpure Hpre Hd22.
  destruct (substitute_pre_glue c u impl c4 dl m HI Hu Hcell Hport HII HIL Hshape (pure_ports_b_sound impl Hpure) Hpre)
    as [HI4 [HL4 [HG Hdl]]].
  split; [|exact Hdl]. apply glue_subst_sem; auto. apply subst_shape_forks; auto.
Qed.

(** *** (2) all output pins connected: no clean-up, the result of substitute IS that state *)
Theorem substitute_function : forall c u impl c4 dl m,
  CInv c -> IoLive c -> In u (nodes c) -> is_fork (kind_of c u) = false -> io_mem c u = false ->
  CInv impl -> IoLive impl -> subst_shape_b impl = true -> pure_ports_b impl = true ->
  substitute_pre c u impl = Some (c4, dl, m) ->
  d22_free_b c u impl = true -> all_outs_connected_b c u impl = true ->
  dl = [] /\ substitute c u impl = Some c4 /\ SubstSem c u impl m c4.
Proof.
  intros c u impl c4 dl m HI HL Hu Hcell Hport HII HIL Hshape Hpure Hpre Hd22 Hout.
  pose proof (all_outs_no_cleanup c u impl c4 dl m HIL Hout Hpre) as Hdl. subst dl.
  split; [reflexivity|]. split. { rewrite substitute_split, Hpre. reflexivity. }
  apply (substitute_pre_function c u impl c4 [] m); auto.
Qed.

(** *** (3) the general case: the result [c'] of substitute, clean-up included *)
Theorem substitute_function_full : forall c u impl c',
  CInv c -> IoLive c -> In u (nodes c) -> is_fork (kind_of c u) = false -> io_mem c u = false ->
  CInv impl -> IoLive impl -> subst_shape_b impl = true -> pure_ports_b impl = true ->
  substitute c u impl = Some c' -> d22_free_b c u impl = true ->
  exists c4 dl m, substitute_pre c u impl = Some (c4, dl, m) /\ cleanup dl c4 = Some c' /\
                  SubstSem c u impl m c4 /\ DangSemStmt sem zero c4 c' /\ SubstFull c u impl m c'.
Proof.
  intros c u impl c' HI HL Hu Hcell Hport HII HIL Hshape Hpure Hs Hd22.
  destruct (substitute_pre_success c u impl c' Hs) as [c4 [dl [m [Hpre Hcl]]]].
  exists c4, dl, m. split; [exact Hpre|]. split; [exact Hcl|].
  destruct (substitute_pre_function c u impl c4 dl m HI HL Hu Hcell Hport HII HIL Hshape Hpure Hpre Hd22) as [HS Hdl].
  pose proof HS as [HI4 [HL4 _]].
  assert (HD : DangSemStmt sem zero c4 c').
  { exact (cleanup_sem V sem zero dl c4 c' HI4 HL4 Hdl Hcl). }
  split; [exact HS|]. split; [exact HD|]. eapply subst_full_compose; eauto.
Qed.

(** *** the same with the glue relation DECIDED per case (subst_glue_b, evaluated by the check on every compared case) instead of
    proved for all inputs: an independent second route to (1) that does not go through Proofs/CircuitSubstGlue.v *)
Theorem substitute_pre_function_checked : forall c u impl c4 dl m,
  CInv c -> IoLive c -> In u (nodes c) -> io_mem c u = false ->
  CInv impl -> IoLive impl -> io_forks_b impl = true -> CInv c4 -> IoLive c4 ->
  substitute_pre c u impl = Some (c4, dl, m) -> subst_glue_b c u impl m c4 = true -> d22_free_b c u impl = true ->
  SubstSem c u impl m c4.
Proof.
  intros c u impl c4 dl m HI HL Hu Hport HII HIL Hfk HI4 HL4 Hpre Hglue Hd22.
  apply glue_subst_sem; auto. apply subst_glue_b_sound_cinv; auto.
Qed.
End Main.
