(** C11: the pin tables of all five libraries of techlib.py satisfy the side condition [lib_ok_b] of the module theorems. *)
From Coq Require Import List Bool String.
From KV Require Import Model.TechCell Gen.TechLibs Model.VerilogModule Model.VerilogLibPins.
Import ListNotations.

Lemma all_libs_pins_ok : forallb (fun nl => lib_ok_b (lib_pins_of (snd nl))) all_libs = true.
Proof. vm_compute. reflexivity. Qed.
