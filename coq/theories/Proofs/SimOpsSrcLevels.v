(** Translated source of sim.SimOps.__init__, part 2: the stem table (stems_src = build_stems) and the level /
    reference-count pass (levels_src = levelize) of Model/SimOps.v. *)
From Coq Require Import List NArith ZArith Bool Arith String Lia.
From KV Require Import Model.Prims Model.Netlist Model.NetlistWf Model.Heap Model.HeapSrcLib Model.SimOps Model.SimOpsSrcLib
  Gen.SimTables Gen.HeapSrc Gen.SimOpsSrc Proofs.SimOpsSrcProofs.
Import ListNotations.
Local Open Scope list_scope.

(* ------------------------------------------------------------------------------------------ *)
(** * list stores *)

Lemma setZ_set_nth l : forall i v, setZ l i v = set_nth i v l.
Proof. induction l as [|x r IH]; intros [|i] v; cbn; try reflexivity. now rewrite IH. Qed.
Lemma setN_set_nth l : forall i v, setN l i v = set_nth i v l.
Proof. induction l as [|x r IH]; intros [|i] v; cbn; try reflexivity. now rewrite IH. Qed.
Lemma set_nat_set_nth l : forall i v, set_nat l i v = set_nth i v l.
Proof. induction l as [|x r IH]; intros [|i] v; cbn; try reflexivity. now rewrite IH. Qed.

Lemma set_nth_length {A} (l : list A) : forall i v, List.length (set_nth i v l) = List.length l.
Proof. induction l as [|x r IH]; intros [|i] v; cbn; auto. Qed.
Lemma setZ_length l i v : List.length (setZ l i v) = List.length l.
Proof. rewrite setZ_set_nth. apply set_nth_length. Qed.
Lemma setN_length l i v : List.length (setN l i v) = List.length l.
Proof. rewrite setN_set_nth. apply set_nth_length. Qed.
Lemma set_nat_length l i v : List.length (set_nat l i v) = List.length l.
Proof. rewrite set_nat_set_nth. apply set_nth_length. Qed.
Lemma addZ_length l i d : List.length (addZ l i d) = List.length l.
Proof. apply setZ_length. Qed.

Lemma lset_some {A} (l : list A) i v : i < List.length l -> py_lset i v l = Some (set_nth i v l).
Proof. intros H. unfold py_lset. apply Nat.ltb_lt in H. now rewrite H. Qed.

Lemma lsetZ_src {B} (l : list Z) i v (K : list Z -> option B) : i < List.length l ->
  bind (py_lset i v l) K = K (setZ l i v).
Proof. intros H. rewrite (lset_some l i v H), setZ_set_nth. reflexivity. Qed.
Lemma lsetN_src {B} (l : list N) i v (K : list N -> option B) : i < List.length l ->
  bind (py_lset i v l) K = K (setN l i v).
Proof. intros H. rewrite (lset_some l i v H), setN_set_nth. reflexivity. Qed.
Lemma lset_nat_src {B} (l : list nat) i v (K : list nat -> option B) : i < List.length l ->
  bind (py_lset i v l) K = K (set_nat l i v).
Proof. intros H. rewrite (lset_some l i v H), set_nat_set_nth. reflexivity. Qed.

(** ref_count[i] += d *)
Lemma addZ_src {B} (l : list Z) i d (K : list Z -> option B) : i < List.length l ->
  bind (py_lget i l) (fun t => bind (py_lset i (t + d)%Z l) K) = K (addZ l i d).
Proof.
  intros H. rewrite (lget_nth l i 0%Z H), bind_some. unfold addZ. now apply lsetZ_src.
Qed.

(** stems[x] if stems[x] >= 0 else x *)
Lemma stemmed_src {B} (stems : list Z) x (K : nat -> option B) : x < List.length stems ->
  bind (py_lget x stems) (fun t1 =>
    bind (if Z.leb 0 t1 then bind (py_lget x stems) (fun t2 => bind (py_z2nat t2) (fun t3 => Some t3)) else Some x) K)
  = K (stemmed stems x).
Proof.
  intros H. rewrite (lget_nth stems x (-1)%Z H), bind_some. unfold stemmed.
  destruct (Z.leb 0 (nth x stems (-1)%Z)) eqn:E; [|reflexivity].
  rewrite bind_some. unfold py_z2nat. apply Z.leb_le in E.
  destruct (Z.ltb (nth x stems (-1)%Z) 0) eqn:E2; [apply Z.ltb_lt in E2; lia | reflexivity].
Qed.

Lemma pin_lget (l : list (option nat)) k x : pin l k = Some x -> py_lget k l = Some (Some x).
Proof. unfold pin, py_lget. destruct (nth_error l k) as [[y|]|]; intros H; try discriminate. now inversion H. Qed.

Lemma py_for_view {A S M} (view : M -> S) (body : A -> S -> option (S * bool)) (step : M -> A -> M) (P : M -> Prop) (Q : A -> Prop) :
  (forall x m, Q x -> P m -> body x (view m) = Some (view (step m x), false) /\ P (step m x)) ->
  forall l m, Forall Q l -> P m -> py_for body l (view m) = Some (view (fold_left step l m)) /\ P (fold_left step l m).
Proof.
  intros Hb. induction l as [|x r IH]; intros m Hq Hp; cbn [py_for fold_left]; [split; [reflexivity | exact Hp]|].
  inversion Hq as [|? ? Hx Hr]; subst. destruct (Hb x m Hx Hp) as [E Hp']. rewrite E. now apply IH.
Qed.

(* ------------------------------------------------------------------------------------------ *)
(** * the stem table *)

Section Stems.
  Variable c : netlist.
  Variables s_len zero tmp tmp2 ppi ppo len : nat.
  Hypothesis Hout : forall n l, In (Some l) (n_outs (get_node c n)) -> l < len.

  Lemma while2_eq strip fuel0 stems f : forall fuel l,
    py_while fuel (stems_src_while2 c s_len zero tmp tmp2 ppi ppo len strip fuel0 stems f) (Some l)
    = option_map Some (stem_walk fuel c l).
  Proof.
    induction fuel as [|fuel IH]; intros l; cbn [py_while stem_walk]; [reflexivity|].
    unfold stems_src_while2 at 1. cbv beta zeta. cbn [py_index bind].
    set (d := get_node c (l_drv (get_line c l))).
    destruct (String.eqb (n_kind d) "__fork__").
    - rewrite bind_some, guard_pin, bind_some.
      destruct (pin (n_ins d) 0) as [l'|] eqn:E; cbn [is_some].
      + rewrite (pin_lget _ _ _ E), !bind_some. apply IH.
      + reflexivity.
    - rewrite !bind_some. reflexivity.
  Qed.

  Lemma sloop3_eq strip fuel f prev stem : forall pins stems, (forall l, In (Some l) pins -> l < List.length stems) ->
    py_for (stems_src_loop3 c s_len zero tmp tmp2 ppi ppo len strip fuel f prev stem) pins stems
    = Some (fold_left (fun s ol => setZ s ol (Z.of_nat stem)) (somes pins) stems).
  Proof.
    induction pins as [|[o|] r IH]; intros stems Hr; cbn [py_for]; [reflexivity | |].
    - unfold stems_src_loop3 at 1. cbv beta zeta. cbn [py_is_none negb py_index bind].
      rewrite lsetZ_src by (apply Hr; now left).
      rewrite IH by (intros l Hl; rewrite setZ_length; apply Hr; now right). reflexivity.
    - unfold stems_src_loop3 at 1. cbv beta zeta. cbn [py_is_none negb].
      rewrite IH by (intros l Hl; apply Hr; now right). reflexivity.
  Qed.

  Definition stem_node (nd : node) (st : list Z) : option (list Z) :=
    match pin (n_ins nd) 0 with
    | None => Some st
    | Some l0 => match stem_walk (S (List.length (c_nodes c))) c l0 with
                 | None => None
                 | Some stem => Some (fold_left (fun s ol => setZ s ol (Z.of_nat stem)) (somes (n_outs nd)) st)
                 end
    end.

  Lemma sloop1_eq strip f stems : List.length stems = len ->
    stems_src_loop1 c s_len zero tmp tmp2 ppi ppo len strip (S (List.length (c_nodes c))) f stems
    = option_map (fun s => (s, false)) (stem_node (get_node c f) stems).
  Proof.
    intros Hl. unfold stems_src_loop1, stem_node. cbv beta zeta.
    set (nd := get_node c f).
    assert (G : (if Nat.eqb (List.length (n_ins nd)) 0 then Some true else bind (py_lget 0 (n_ins nd)) (fun t1 => Some (py_is_none t1)))
                = Some (negb (is_some (pin (n_ins nd) 0)))).
    { unfold pin, py_lget. destruct (n_ins nd) as [|[x|] r]; reflexivity. }
    rewrite G, bind_some.
    destruct (pin (n_ins nd) 0) as [l0|] eqn:E; cbn [is_some negb]; [|reflexivity].
    rewrite (pin_lget _ _ _ E), bind_some. rewrite while2_eq.
    destruct (stem_walk (S (List.length (c_nodes c))) c l0) as [stem|]; cbn [option_map bind]; [|reflexivity].
    cbn [py_index bind].
    rewrite sloop3_eq by (intros l Hin; rewrite Hl; apply (Hout f); exact Hin). reflexivity.
  Qed.

  Lemma stem_node_length nd st st' : stem_node nd st = Some st' -> List.length st' = List.length st.
  Proof.
    unfold stem_node. destruct (pin (n_ins nd) 0); [|intros H; now inversion H].
    destruct (stem_walk _ c n) as [stem|]; [|discriminate]. intros H. inversion H; subst st'. clear H.
    generalize st. induction (somes (n_outs nd)) as [|o r IH]; intros st0; cbn [fold_left]; [reflexivity|].
    rewrite IH. apply setZ_length.
  Qed.

  Definition stem_fold (acc : option (list Z)) (f : node) : option (list Z) :=
    match acc with None => None | Some st => if String.eqb (n_kind f) "__fork__" then stem_node f st else Some st end.

  Lemma stem_fold_none l : fold_left stem_fold l None = None.
  Proof. induction l; cbn; auto. Qed.

  Lemma forks_fold strip : forall l pre st, c_nodes c = pre ++ l -> List.length st = len ->
    py_for (stems_src_loop1 c s_len zero tmp tmp2 ppi ppo len strip (S (List.length (c_nodes c))))
      (find_idx (fun nd => String.eqb (n_kind nd) "__fork__") l (List.length pre)) st
    = fold_left stem_fold l (Some st).
  Proof.
    induction l as [|nd r IH]; intros pre st Hc Hl; cbn [find_idx fold_left py_for]; [reflexivity|].
    assert (Hn : get_node c (List.length pre) = nd).
    { unfold get_node. rewrite Hc, app_nth2, Nat.sub_diag by lia. reflexivity. }
    assert (Hc' : c_nodes c = (pre ++ [nd]) ++ r) by (rewrite <- app_assoc; exact Hc).
    assert (Hlen : S (List.length pre) = List.length (pre ++ [nd])) by (rewrite app_length; cbn; lia).
    unfold stem_fold at 2.
    destruct (String.eqb (n_kind nd) "__fork__") eqn:Ek.
    - cbn [py_for]. rewrite (sloop1_eq strip _ st Hl), Hn.
      destruct (stem_node nd st) as [st'|] eqn:Es; cbn [option_map].
      + rewrite Hlen. apply IH; [exact Hc'|]. rewrite (stem_node_length _ _ _ Es). exact Hl.
      + now rewrite stem_fold_none.
    - rewrite Hlen. now apply IH.
  Qed.

  Theorem stems_src_eq strip :
    stems_src c s_len zero tmp tmp2 ppi ppo len strip (S (List.length (c_nodes c))) = build_stems c strip len.
  Proof.
    unfold stems_src, build_stems. cbv zeta. destruct strip; cbn [negb]; [|reflexivity].
    unfold py_forks. pose proof (forks_fold true (c_nodes c) [] (repeat (-1)%Z len) eq_refl (repeat_length _ _)) as H.
    cbn [List.length] in H. rewrite H.
    unfold stem_fold, stem_node. cbv beta.
    destruct (fold_left _ (c_nodes c) (Some (repeat (-1)%Z len))); reflexivity.
  Qed.
End Stems.

(* ------------------------------------------------------------------------------------------ *)
(** * levels and reference counts *)

Definition opnds_of (o : sop) : list nat := [s_i0 o; s_i1 o; s_i2 o; s_i3 o].
(** what keeps the array accesses of the two passes over self.ops in range *)
Definition op_ok (len : nat) (stems : list Z) (o : sop) : Prop :=
  s_out o < len /\ forall x, In x (opnds_of o) -> x < len /\ stemmed stems x < len.

Section Levels.
  Variable c : netlist.
  Variables s_len zero tmp tmp2 ppi ppo len : nat.
  Variable stems : list Z.
  Hypothesis Hst : List.length stems = len.

  Definition lview (ls : lvl_state) : nat * list nat * list nat * list Z :=
    (ls_cur ls, rev (ls_starts ls), ls_levels ls, ls_ref ls).
  Definition lgood (ls : lvl_state) : Prop := List.length (ls_levels ls) = len /\ List.length (ls_ref ls) = len.

  Lemma if_or (a b : bool) : (if a then Some true else Some b) = Some (a || b).
  Proof. destruct a; reflexivity. Qed.

  Lemma lstep_eq rows (x : nat * oprow) ls : op_ok len stems (sop_of_row (snd x)) -> lgood ls ->
    levels_src_loop1 c s_len zero tmp tmp2 ppi ppo len rows stems x (lview ls)
    = Some (lview (level_step stems ls (fst x, sop_of_row (snd x))), false) /\
    lgood (level_step stems ls (fst x, sop_of_row (snd x))).
  Proof.
    destruct x as [i r]. intros [Ho Hx] [Hl Hr]. cbn [fst snd] in *.
    assert (H0 := Hx (r_i0 r) (or_introl eq_refl)).
    assert (H1 := Hx (r_i1 r) (or_intror (or_introl eq_refl))).
    assert (H2 := Hx (r_i2 r) (or_intror (or_intror (or_introl eq_refl)))).
    assert (H3 := Hx (r_i3 r) (or_intror (or_intror (or_intror (or_introl eq_refl))))).
    cbn [sop_of_row s_i0 s_i1 s_i2 s_i3 s_out] in *.
    split.
    - unfold levels_src_loop1, lview. cbv beta zeta iota.
      rewrite stemmed_src by lia. rewrite stemmed_src by lia. rewrite stemmed_src by lia. rewrite stemmed_src by lia.
      set (a := stemmed stems (r_i0 r)) in *. set (b := stemmed stems (r_i1 r)) in *.
      set (cc := stemmed stems (r_i2 r)) in *. set (d := stemmed stems (r_i3 r)) in *.
      rewrite (lget_nth (ls_levels ls) a 0) by lia. rewrite (lget_nth (ls_levels ls) b 0) by lia.
      rewrite (lget_nth (ls_levels ls) cc 0) by lia. rewrite (lget_nth (ls_levels ls) d 0) by lia.
      rewrite !bind_some. rewrite if_or, bind_some, if_or, bind_some, if_or, bind_some.
      unfold level_step. cbv beta zeta iota. cbn [s_i0 s_i1 s_i2 s_i3 s_out sop_of_row].
      fold a b cc d.
      set (bump := Nat.leb (ls_cur ls) (nth a (ls_levels ls) 0) || Nat.leb (ls_cur ls) (nth b (ls_levels ls) 0) ||
                   Nat.leb (ls_cur ls) (nth cc (ls_levels ls) 0) || Nat.leb (ls_cur ls) (nth d (ls_levels ls) 0)).
      destruct bump; cbn [ls_cur ls_starts ls_levels ls_ref rev];
        rewrite lset_nat_src by lia;
        rewrite addZ_src by lia; rewrite addZ_src by (rewrite addZ_length; lia);
        rewrite addZ_src by (rewrite !addZ_length; lia); rewrite addZ_src by (rewrite !addZ_length; lia);
        rewrite ?Nat.add_1_r; reflexivity.
    - unfold lgood, level_step. cbv beta zeta iota. cbn [ls_levels ls_ref].
      rewrite set_nat_length, !addZ_length. split; assumption.
  Qed.

  Lemma combine_seq_map {A B} (f : A -> B) l : forall s,
    combine (seq s (List.length (map f l))) (map f l) = map (fun p => (fst p, f (snd p))) (combine (seq s (List.length l)) l).
  Proof. induction l as [|x r IH]; intros s; cbn; [reflexivity|]. now rewrite IH. Qed.

  Lemma fold_left_map {A B S} (g : A -> B) (f : S -> B -> S) l : forall s, fold_left f (map g l) s = fold_left (fun s x => f s (g x)) l s.
  Proof. induction l as [|x r IH]; intros s; cbn; [reflexivity|]. apply IH. Qed.

  Theorem levels_src_eq rows : Forall (op_ok len stems) (map sop_of_row rows) ->
    let ls := levelize stems (map sop_of_row rows) len in
    levels_src c s_len zero tmp tmp2 ppi ppo len rows stems
    = Some (ls_ref ls, rev (ls_starts ls), tl (rev (ls_starts ls)) ++ [List.length rows]) /\ lgood ls.
  Proof.
    intros Hok ls. unfold levels_src. cbv zeta.
    set (ls0 := {| ls_levels := repeat 0 len; ls_ref := repeat 0%Z len; ls_starts := [0]; ls_cur := 1 |}).
    change (1, [0], repeat 0 len, repeat 0%Z len) with (lview ls0).
    assert (Hq : Forall (fun x : nat * oprow => op_ok len stems (sop_of_row (snd x))) (py_enumerate rows)).
    { apply Forall_forall. intros [i r] Hin. apply in_combine_r in Hin. cbn [snd].
      rewrite Forall_forall in Hok. apply Hok. now apply in_map. }
    assert (Hg0 : lgood ls0) by (split; apply repeat_length).
    destruct (py_for_view lview (levels_src_loop1 c s_len zero tmp tmp2 ppi ppo len rows stems)
                (fun m x => level_step stems m (fst x, sop_of_row (snd x))) lgood _
                (fun x m Hx Hm => lstep_eq rows x m Hx Hm) (py_enumerate rows) ls0 Hq Hg0) as [E Hg].
    rewrite E, bind_some.
    assert (Els : fold_left (fun m x => level_step stems m (fst x, sop_of_row (snd x))) (py_enumerate rows) ls0 = ls).
    { unfold ls, levelize. rewrite combine_seq_map, fold_left_map. reflexivity. }
    rewrite Els in *. split; [reflexivity | exact Hg].
  Qed.
End Levels.

(* ------------------------------------------------------------------------------------------ *)
(** * the sections in source order, up to the allocation pass *)

(** decidable form of [op_ok] (evaluated per generated circuit by the correspondence check) *)
Definition op_ok_b (len : nat) (stems : list Z) (o : sop) : bool :=
  Nat.ltb (s_out o) len && forallb (fun x => Nat.ltb x len && Nat.ltb (stemmed stems x) len) (opnds_of o).
Lemma op_ok_b_sound len stems o : op_ok_b len stems o = true -> op_ok len stems o.
Proof.
  unfold op_ok_b, op_ok. intros H. apply andb_prop in H. destruct H as [H1 H2]. apply Nat.ltb_lt in H1.
  split; [exact H1|]. intros x Hx. rewrite forallb_forall in H2. specialize (H2 x Hx).
  apply andb_prop in H2. destruct H2 as [H2 H3]. apply Nat.ltb_lt in H2. apply Nat.ltb_lt in H3. split; assumption.
Qed.

Definition src_len (c : netlist) : nat := List.length (c_lines c) + 3 + List.length (s_nodes c) + List.length (s_nodes c).

(** stems table from the CURRENT source = build_stems (all netlists whose connected output lines are inside the table) *)
Theorem stems_source_is_model c strip :
  (forall n l, In (Some l) (n_outs (get_node c n)) -> l < src_len c) ->
  bind (idx_src c) (fun '(sl, z, t, t2, ppi, ppo, len) =>
        stems_src c sl z t t2 ppi ppo len strip (S (List.length (c_nodes c))))
  = build_stems c strip (src_len c).
Proof.
  intros Hout. rewrite idx_src_eq, bind_some. apply stems_src_eq. exact Hout.
Qed.

(** level pass from the CURRENT source = levelize: reference counts, level_starts, level_stops *)
Theorem levels_source_is_model c rows stems :
  List.length stems = src_len c -> Forall (op_ok (src_len c) stems) (map sop_of_row rows) ->
  let ls := levelize stems (map sop_of_row rows) (src_len c) in
  bind (idx_src c) (fun '(sl, z, t, t2, ppi, ppo, len) => levels_src c sl z t t2 ppi ppo len rows stems)
  = Some (ls_ref ls, rev (ls_starts ls), tl (rev (ls_starts ls)) ++ [List.length rows]).
Proof.
  intros Hl Hok ls. rewrite idx_src_eq, bind_some.
  exact (proj1 (levels_src_eq c _ _ _ _ _ _ (src_len c) stems Hl rows Hok)).
Qed.

(** the whole translated __init__ reduces to its allocation section run on the MODEL's op list, stem table, reference counts and
    level boundaries *)
Theorem simops_source_prefix c actrl caps cmin reuse strip stems :
  (forall n l, In (Some l) (n_outs (get_node c n)) -> l < List.length actrl /\ l < src_len c) ->
  List.length (c_lines c) + 1 < List.length actrl ->
  build_stems c strip (src_len c) = Some stems -> List.length stems = src_len c ->
  Forall (op_ok (src_len c) stems) (build_ops c strip) ->
  let nl := List.length (c_lines c) in let sl := List.length (s_nodes c) in
  let ops := build_ops c strip in let rows := map (row_of_sop actrl) ops in
  let ls := levelize stems ops (src_len c) in
  let starts := rev (ls_starts ls) in let stops := tl starts ++ [List.length ops] in
  simops_src c actrl caps cmin reuse strip (S (List.length (c_nodes c)))
  = bind (alloc_src_ c sl nl (nl + 1) (nl + 2) (nl + 3) (nl + 3 + sl) (src_len c) rows stems (ls_ref ls) starts stops caps cmin reuse)
      (fun '(locs, cps, clen) => Some (rows, starts, stops, locs, cps, clen, stems)).
Proof.
  intros Hout Htmp Hs Hl Hok nl sl ops rows ls starts stops.
  unfold simops_src. rewrite idx_src_eq, bind_some. cbv beta iota zeta.
  rewrite (ops_src_eq c actrl _ _ _ _ _ _ _ (fun n l H => proj1 (Hout n l H)) Htmp), bind_some.
  fold nl sl. change (nl + 3 + sl + sl) with (src_len c).
  rewrite (stems_src_eq c _ _ _ _ _ _ (src_len c) (fun n l H => proj2 (Hout n l H)) strip), Hs, bind_some.
  assert (Hrows : map sop_of_row rows = ops).
  { unfold rows. rewrite map_map. erewrite map_ext; [apply map_id | intros o; apply sop_row_inv]. }
  assert (Hok' : Forall (op_ok (src_len c) stems) (map sop_of_row rows)) by (rewrite Hrows; exact Hok).
  rewrite (proj1 (levels_src_eq c _ _ _ _ _ _ (src_len c) stems Hl rows Hok')), bind_some.
  rewrite Hrows. unfold stops, starts, ls. replace (List.length ops) with (List.length rows) by (unfold rows; apply map_length). reflexivity.
Qed.

(** non-vacuity: on the example netlist the side conditions hold (checked by the sound checker) and the translated stem / level
    passes return the model's values *)
Definition levels_example_ok (strip : bool) : bool :=
  let c := ex_src_net in
  match build_stems c strip (src_len c) with
  | None => false
  | Some stems =>
      let ops := build_ops c strip in
      let rows := map (row_of_sop (a_ctrl_norm None 9)) ops in
      Nat.eqb (List.length stems) (src_len c) && forallb (op_ok_b (src_len c) stems) ops &&
      Nat.ltb 1 (List.length (ls_starts (levelize stems ops (src_len c)))) &&
      match bind (idx_src c) (fun '(sl, z, t, t2, ppi, ppo, len) => levels_src c sl z t t2 ppi ppo len rows stems) with
      | Some (_, starts, stops) => Nat.eqb (List.length starts) (List.length stops)
      | None => false
      end
  end.
Example levels_source_example : forall strip, levels_example_ok strip = true.
Proof. intros [|]; vm_compute; reflexivity. Qed.
