(** Source tie of the 8-valued evaluation loop of LogicSim.c_prop (m == 8), lifted from the register view of its branches
    (Proofs/LogicSimDriversProofs.v chain8_branch: on the names' VALUES) to the LIST MEMORY and folded over the op list:
    the translated loop over the op rows of a SimOps result = c_prop of the compared model (Model/LogicSimModel.v, sem8 = documented
    operator composition) at every memory location OUTSIDE the two scratch locations c_locs[tmp_idx], c_locs[tmp2_idx].

    The lifting needs the locations of o0, t0, t1 to differ from each other and from the locations of the operands i0..i3 of the same
    op ([ops_sep_b], a decidable condition on c_locs and the op rows: evaluated per generated circuit by the check; that it holds for EVERY
    build() result whose ops all write circuit lines is derived from the allocator invariant in Proofs/LogicSimSepBuild.v). *)
From Coq Require Import List ZArith NArith Bool Arith Lia String.
From KV Require Import Model.Bits Model.Logic Model.Prims Model.OpSem Model.Netlist Model.SimOps Model.SimOpsCert
     Model.LogicSimModel Model.WaveDrvPrelude Model.LogicSimDrvPrelude Gen.SimTables Gen.LogicOps Gen.LogicSimDispatch Gen.LogicSimDriversSrc
     Proofs.LogicSweep Proofs.Dispatch Proofs.LogicSimGlue Proofs.LogicSimDriversProofs.
Import ListNotations.
Local Open Scope list_scope.

(* ------------------------------------------------------------------------------------------------------------------ *)
(** * Small facts *)
Lemma slot_eqb_eq a b : slot_eqb a b = true <-> a = b.
Proof. destruct a, b; cbn; split; intros H; try reflexivity; try discriminate H. Qed.
Lemma slot_eqb_refl a : slot_eqb a a = true.
Proof. destruct a; reflexivity. Qed.
Lemma slot_eqb_neq a b : a <> b -> slot_eqb a b = false.
Proof. intros H. destruct (slot_eqb a b) eqn:E; [|reflexivity]. apply slot_eqb_eq in E. contradiction. Qed.

Lemma mrd_nat mdim M l : mrd mdim M (Z.of_nat l) = nth l M (pdflt mdim).
Proof.
  unfold mrd. rewrite pyidx_nat. destruct (l <? List.length M)%nat eqn:E; [reflexivity|].
  apply Nat.ltb_ge in E. rewrite nth_overflow by exact E. reflexivity.
Qed.
Lemma mwr_nat M l v : mwr M (Z.of_nat l) v = mset M l v.
Proof.
  unfold mwr. rewrite pyidx_nat. destruct (l <? List.length M)%nat eqn:E; [apply pset_mset|].
  apply Nat.ltb_ge in E. rewrite mset_oob by exact E. reflexivity.
Qed.

Lemma eval_bexp_agree R1 R2 e : (forall s, In s (bexp_slots e) -> R1 s = R2 s) -> eval_bexp R1 e = eval_bexp R2 e.
Proof.
  induction e as [s|a IHa|a IHa b IHb|a IHa b IHb|a IHa b IHb]; cbn [bexp_slots eval_bexp]; intros H.
  - apply H. left. reflexivity.
  - rewrite IHa by exact H. reflexivity.
  - rewrite IHa, IHb by (intros s Hs; apply H; apply in_or_app; auto). reflexivity.
  - rewrite IHa, IHb by (intros s Hs; apply H; apply in_or_app; auto). reflexivity.
  - rewrite IHa, IHb by (intros s Hs; apply H; apply in_or_app; auto). reflexivity.
Qed.
Lemma stmt_val_agree st R1 R2 : (forall s, In s (stmt_reads st) -> R1 s = R2 s) -> stmt_val R1 st = stmt_val R2 st.
Proof.
  destruct st as [d e|f d args]; cbn [stmt_reads stmt_val]; intros H.
  - apply eval_bexp_agree. exact H.
  - rewrite (map_ext_in R1 R2 args H). reflexivity.
Qed.
Lemma exec_stmt_loc_ext mdim loc1 loc2 M st : (forall s, loc1 s = loc2 s) -> exec_stmt mdim loc1 M st = exec_stmt mdim loc2 M st.
Proof.
  intros H. unfold exec_stmt. rewrite (H (stmt_dst st)). f_equal. apply stmt_val_agree. intros s _. rewrite (H s). reflexivity.
Qed.
Lemma fold_exec_loc_ext mdim loc1 loc2 : (forall s, loc1 s = loc2 s) -> forall body M,
  fold_left (exec_stmt mdim loc1) body M = fold_left (exec_stmt mdim loc2) body M.
Proof.
  intros H. induction body as [|st r IH]; intros M; [reflexivity|]. cbn [fold_left].
  rewrite (exec_stmt_loc_ext mdim loc1 loc2 M st H). apply IH.
Qed.

Lemma reg_exec_cons st r R : reg_exec (st :: r) R = reg_exec r (reg_step R st).
Proof. reflexivity. Qed.
Lemma reg_exec_ext : forall body R1 R2, (forall s, R1 s = R2 s) -> forall s, reg_exec body R1 s = reg_exec body R2 s.
Proof.
  induction body as [|st r IH]; intros R1 R2 H s; [apply H|]. rewrite !reg_exec_cons. apply IH. intros s'.
  unfold reg_step. rewrite (stmt_val_agree st R1 R2 (fun s0 _ => H s0)), (H s'). reflexivity.
Qed.

(** defined-before-use: the result at the written names and at the names never written depends only on the operands *)
Lemma dbu_agree : forall body defd R1 R2, dbu defd body = true ->
  (forall s, isW s = false \/ In s defd -> R1 s = R2 s) ->
  forall s, isW s = false \/ In s defd \/ In s (map stmt_dst body) -> reg_exec body R1 s = reg_exec body R2 s.
Proof.
  induction body as [|st r IH]; intros defd R1 R2 Hd HA s Hs.
  - cbn [map] in Hs. apply HA. destruct Hs as [H|[H|[]]]; auto.
  - cbn [dbu] in Hd. apply andb_true_iff in Hd. destruct Hd as [Hd Hr]. apply andb_true_iff in Hd. destruct Hd as [Hrd _].
    rewrite forallb_forall in Hrd. rewrite !reg_exec_cons.
    assert (Ev : stmt_val R1 st = stmt_val R2 st).
    { apply stmt_val_agree. intros s' Hs'. apply HA. specialize (Hrd s' Hs'). apply orb_true_iff in Hrd. destruct Hrd as [H|H].
      - left. destruct (isW s'); [discriminate H|reflexivity].
      - right. apply existsb_exists in H. destruct H as (y & Hy & Ey). apply slot_eqb_eq in Ey. subst y. exact Hy. }
    apply (IH (stmt_dst st :: defd)); [exact Hr| |].
    + intros s' Hs'. unfold reg_step. rewrite Ev. destruct (slot_eqb s' (stmt_dst st)) eqn:E; [reflexivity|].
      apply HA. destruct Hs' as [H|[H|H]]; [left; exact H| |right; exact H].
      subst s'. rewrite slot_eqb_refl in E. discriminate E.
    + cbn [map] in Hs. destruct Hs as [H|[H|[H|H]]]; [left; exact H|right; left; right; exact H|right; left; left; exact H|right; right; exact H].
Qed.

Lemma dbu_dstW : forall body defd, dbu defd body = true -> Forall (fun st => isW (stmt_dst st) = true) body.
Proof.
  induction body as [|st r IH]; intros defd H; [constructor|]. cbn [dbu] in H.
  apply andb_true_iff in H. destruct H as [H Hr]. apply andb_true_iff in H. destruct H as [_ Hw].
  constructor; [exact Hw|exact (IH _ Hr)].
Qed.

(* ------------------------------------------------------------------------------------------------------------------ *)
(** * Register view = memory view when the written names own their locations *)
Section MemReg.
  Variable mdim : nat.
  Variable nloc : slot -> nat.
  Hypothesis sepW : forall d s, isW d = true -> s <> d -> nloc s <> nloc d.

  Lemma mem_reg : forall body M, Forall (fun st => isW (stmt_dst st) = true) body ->
    (forall d, isW d = true -> (nloc d < List.length M)%nat) ->
    let M' := fold_left (exec_stmt mdim (fun s => Z.of_nat (nloc s))) body M in
    List.length M' = List.length M /\
    (forall s, nth (nloc s) M' (pdflt mdim) = reg_exec body (fun s => nth (nloc s) M (pdflt mdim)) s) /\
    (forall l, (forall d, isW d = true -> l <> nloc d) -> nth l M' (pdflt mdim) = nth l M (pdflt mdim)).
  Proof.
    induction body as [|st r IH]; intros M HW Hin; cbv zeta; [repeat split; reflexivity|].
    inversion HW as [|st' r' Hd Hr]. subst st' r'. cbn [fold_left]. rewrite reg_exec_cons.
    set (R := fun s => nth (nloc s) M (pdflt mdim)).
    assert (E1 : exec_stmt mdim (fun s => Z.of_nat (nloc s)) M st = mset M (nloc (stmt_dst st)) (stmt_val R st)).
    { unfold exec_stmt. rewrite mwr_nat. f_equal. apply stmt_val_agree. intros s _. apply mrd_nat. }
    rewrite E1. set (M1 := mset M (nloc (stmt_dst st)) (stmt_val R st)).
    assert (L1 : List.length M1 = List.length M) by apply mset_length.
    destruct (IH M1 Hr) as (A & B & C); [intros d Hd'; rewrite L1; apply Hin; exact Hd'|]. cbv zeta in A, B, C.
    split; [rewrite A; exact L1|]. split.
    - intros s. rewrite B. apply reg_exec_ext. intros s'. unfold reg_step, M1. rewrite nth_mset.
      destruct (slot_eqb s' (stmt_dst st)) eqn:E.
      + apply slot_eqb_eq in E. subst s'. rewrite Nat.eqb_refl. pose proof (Hin _ Hd) as Hlt. apply Nat.ltb_lt in Hlt. rewrite Hlt. reflexivity.
      + assert (N : nloc s' <> nloc (stmt_dst st)).
        { apply sepW; [exact Hd|]. intros ->. rewrite slot_eqb_refl in E. discriminate E. }
        apply Nat.eqb_neq in N. rewrite N. reflexivity.
    - intros l Hl. rewrite (C l Hl). unfold M1. rewrite nth_mset.
      pose proof (Hl _ Hd) as N. apply Nat.eqb_neq in N. rewrite N. reflexivity.
  Qed.
End MemReg.

(* ------------------------------------------------------------------------------------------------------------------ *)
(** * The branch of every known opcode also WRITES c[o0] (part of chainN_chk, not exported by chain8_branch) *)
Theorem chain8_branch_w tbl : (tbl = disp8 \/ tbl = disp8_cb) ->
  forall l p, prim_of_lut l = Some p ->
  exists body, chain_find (l_chain loop_cprop8) (Z.of_N l) = Some body /\ dbu [] body = true /\ In So0 (map stmt_dst body) /\
    forall a b c d, reg_exec body (opdN 3 a b c d) So0 = code_bits (spec_prim p a b c d).
Proof.
  intros Ht l p Hp. pose proof (prim_of_lut_lut_of l p Hp) as Hl. unfold lut_of in Hl.
  assert (H : chainN_chk 3 all_codes (l_chain loop_cprop8) tbl (prim_name p, l) = true).
  { destruct Ht as [-> | ->]; [pose proof chain8_ok as H | pose proof chain8_cb_ok as H]; rewrite forallb_forall in H; exact (H _ (assoc_in _ _ _ Hl)). }
  unfold chainN_chk in H. cbn [fst snd] in H.
  destruct (chain_find (l_chain loop_cprop8) (Z.of_N l)) as [body|]; [|discriminate].
  destruct (dispatch8_spec tbl Ht p) as [g [Hg Hrun]]. rewrite Hg in H.
  apply andb_true_iff in H. destruct H as [H Hs]. apply andb_true_iff in H. destruct H as [Hd Hw].
  exists body. split; [reflexivity|]. split; [exact Hd|]. split.
  - apply existsb_exists in Hw. destruct Hw as (st & Hin & E). apply slot_eqb_eq in E. rewrite E. apply in_map. exact Hin.
  - intros a b c d.
    rewrite forallb_forall in Hs. specialize (Hs _ (in_all_codes a)). rewrite forallb_forall in Hs. specialize (Hs _ (in_all_codes b)).
    rewrite forallb_forall in Hs. specialize (Hs _ (in_all_codes c)). rewrite forallb_forall in Hs. specialize (Hs _ (in_all_codes d)).
    apply bools_eqb_eq in Hs. rewrite Hs. apply Hrun.
Qed.

(* ------------------------------------------------------------------------------------------------------------------ *)
(** * Separation (decidable) and agreement outside the scratch locations *)
Definition emb8 (c : code) : planes := code_bits c.

Definition op_sep_b (so : simops) (lt0 lt1 : nat) (o : sop) : bool :=
  match so_loc so (s_out o) with
  | Some lo =>
      negb (Nat.eqb lo lt0) && negb (Nat.eqb lo lt1) &&
      forallb (fun x => match so_loc so x with
                        | Some l => negb (Nat.eqb l lo) && negb (Nat.eqb l lt0) && negb (Nat.eqb l lt1)
                        | None => false
                        end) [s_i0 o; s_i1 o; s_i2 o; s_i3 o]
  | None => false
  end.
(** tmp_idx = lines + 1, tmp2_idx = lines + 2 (sim.py) *)
Definition ops_sep_b (so : simops) : bool :=
  match so_loc so (so_nlines so + 1), so_loc so (so_nlines so + 2) with
  | Some lt0, Some lt1 => negb (Nat.eqb lt0 lt1) && forallb (op_sep_b so lt0 lt1) (so_ops so)
  | _, _ => false
  end.

Definition agree8 (lt0 lt1 : nat) (M : smem) (m : list code) : Prop :=
  List.length M = List.length m /\ forall l, l <> lt0 -> l <> lt1 -> nth l M (pdflt 3) = emb8 (nth l m Zero).

Lemma firstn3_bits a : firstn 3 (code_bits a) = code_bits a.
Proof. destruct a; reflexivity. Qed.

Section Loop8.
  Variable so : simops.
  Variables lt0 lt1 : nat.
  Hypothesis Hne : lt0 <> lt1.

  (** the statements of one iteration on the list memory = the model's step, outside the scratch locations *)
  Lemma body8_model o m M : agree8 lt0 lt1 M m -> locs_ok so (List.length m) -> (lt0 < List.length m)%nat -> (lt1 < List.length m)%nat ->
    op_sep_b so lt0 lt1 o = true ->
    agree8 lt0 lt1
      (match chain_find (l_chain loop_cprop8) (field (l_hdr loop_cprop8) (row_of o) is_hop) with
       | Some body => fold_left (exec_stmt 3 (post_of loop_cprop8 (so_locs so) (Z.of_nat lt0) (Z.of_nat lt1) (row_of o))) body M
       | None => M
       end)
      (prop1 Zero sem8 so m o).
  Proof.
    intros [AL AV] HB Ht0 Ht1 Hsep. rewrite (std_op loop_cprop8 _ o shape_8). unfold prop1.
    change (loc_of so (s_out o)) with (so_loc so (s_out o)).
    destruct (prim_of_lut (s_lut o)) as [p|] eqn:Ep.
    2:{ rewrite (guards_none _ _ guards_8_ok Ep). split; assumption. }
    unfold op_sep_b in Hsep. destruct (so_loc so (s_out o)) as [lo|] eqn:Elo; [|discriminate Hsep].
    apply andb_true_iff in Hsep. destruct Hsep as [Hsep Hins]. apply andb_true_iff in Hsep. destruct Hsep as [N0 N1].
    apply negb_true_iff, Nat.eqb_neq in N0, N1. cbn [forallb] in Hins.
    assert (Hin : forall x, In x [s_i0 o; s_i1 o; s_i2 o; s_i3 o] -> exists l, so_loc so x = Some l /\ l <> lo /\ l <> lt0 /\ l <> lt1).
    { intros x Hx.
      assert (Hb : match so_loc so x with Some l => negb (Nat.eqb l lo) && negb (Nat.eqb l lt0) && negb (Nat.eqb l lt1) | None => false end = true).
      { repeat (apply andb_true_iff in Hins; destruct Hins as [?H Hins]). destruct Hx as [<-|[<-|[<-|[<-|[]]]]]; assumption. }
      destruct (so_loc so x) as [l|]; [|discriminate Hb]. exists l. split; [reflexivity|].
      apply andb_true_iff in Hb. destruct Hb as [Hb B3]. apply andb_true_iff in Hb. destruct Hb as [B1 B2].
      apply negb_true_iff, Nat.eqb_neq in B1, B2, B3. auto. }
    destruct (Hin (s_i0 o)) as (l0 & E0 & A0 & B0 & C0); [cbn; auto|].
    destruct (Hin (s_i1 o)) as (l1 & E1 & A1 & B1 & C1); [cbn; auto|].
    destruct (Hin (s_i2 o)) as (l2 & E2 & A2 & B2 & C2); [cbn; auto|].
    destruct (Hin (s_i3 o)) as (l3 & E3 & A3 & B3 & C3); [cbn; auto 6|].
    destruct (chain8_branch_w disp8 (or_introl eq_refl) _ _ Ep) as (body & Hf & Hd & Hw & Hv). rewrite Hf.
    set (nloc := fun s => match s with So0 => lo | Si0 => l0 | Si1 => l1 | Si2 => l2 | Si3 => l3 | St0 => lt0 | St1 => lt1 end).
    rewrite (fold_exec_loc_ext 3 _ (fun s => Z.of_nat (nloc s))).
    2:{ intros s. rewrite (std_post loop_cprop8 _ _ _ _ o s shape_8). destruct s; cbn [nloc sidx]; try reflexivity; apply zrd_loc; assumption. }
    assert (sepW : forall d s, isW d = true -> s <> d -> nloc s <> nloc d).
    { intros d s Hd' Hs. destruct d; try discriminate Hd'; destruct s; cbn [nloc]; try congruence; auto. }
    assert (Hlo : (lo < List.length m)%nat) by (apply (HB _ _ Elo)).
    destruct (mem_reg 3 nloc sepW body M (dbu_dstW _ _ Hd)) as (A & B & C).
    { intros d Hd'. rewrite AL. destruct d; try discriminate Hd'; cbn [nloc]; assumption. }
    cbv zeta in A, B, C.
    set (M' := fold_left (exec_stmt 3 (fun s => Z.of_nat (nloc s))) body M) in *.
    set (a := rd Zero so m (s_i0 o)). set (b := rd Zero so m (s_i1 o)). set (c := rd Zero so m (s_i2 o)). set (d := rd Zero so m (s_i3 o)).
    assert (Eo : nth lo M' (pdflt 3) = emb8 (sem8 p a b c d)).
    { change lo with (nloc So0). rewrite B.
      rewrite (dbu_agree body [] _ (opdN 3 a b c d) Hd).
      - apply Hv.
      - intros s [Hs|[]]. destruct s; try discriminate Hs; cbn [nloc opdN]; rewrite firstn3_bits;
          [rewrite (AV l0 B0 C0)|rewrite (AV l1 B1 C1)|rewrite (AV l2 B2 C2)|rewrite (AV l3 B3 C3)];
          unfold emb8, a, b, c, d, rd; change (loc_of so) with (so_loc so);
          [rewrite E0|rewrite E1|rewrite E2|rewrite E3]; reflexivity.
      - right. right. exact Hw. }
    split; [rewrite A, mset_length; exact AL|].
    intros l Hl0 Hl1. rewrite nth_mset. destruct (Nat.eqb l lo) eqn:El.
    - apply Nat.eqb_eq in El. subst l. apply Nat.ltb_lt in Hlo. rewrite Hlo. cbn [andb]. exact Eo.
    - cbn [andb]. apply Nat.eqb_neq in El. rewrite C; [apply AV; assumption|].
      intros d' Hd'. destruct d'; try discriminate Hd'; cbn [nloc]; assumption.
  Qed.

  (** LogicSim.c_prop for m == 8 without callback: the translated loop over the op rows = c_prop of the model, outside the scratch locations *)
  Theorem cprop8_loop_is_model nl : forall ops m M, (forall o, In o ops -> op_sep_b so lt0 lt1 o = true) ->
    locs_ok so (List.length m) -> (lt0 < List.length m)%nat -> (lt1 < List.length m)%nat -> agree8 lt0 lt1 M m ->
    forall tr,
    agree8 lt0 lt1 (fst (fold_left (iter_src 3 loop_cprop8 (so_locs so) nl (Z.of_nat lt0) (Z.of_nat lt1) None) (map row_of ops) (M, tr)))
           (fold_left (prop1 Zero sem8 so) ops m).
  Proof.
    induction ops as [|o r IH]; intros m M HS HB H0 H1 HA tr; [exact HA|]. cbn [map fold_left].
    assert (E : iter_src 3 loop_cprop8 (so_locs so) nl (Z.of_nat lt0) (Z.of_nat lt1) None (M, tr) (row_of o) =
                (match chain_find (l_chain loop_cprop8) (field (l_hdr loop_cprop8) (row_of o) is_hop) with
                 | Some body => fold_left (exec_stmt 3 (post_of loop_cprop8 (so_locs so) (Z.of_nat lt0) (Z.of_nat lt1) (row_of o))) body M
                 | None => M
                 end, tr)).
    { unfold iter_src. destruct (l_cb loop_cprop8); reflexivity. }
    rewrite E. apply IH.
    - intros o' Ho'. apply HS. right. exact Ho'.
    - rewrite prop1_length. exact HB.
    - rewrite prop1_length. exact H0.
    - rewrite prop1_length. exact H1.
    - apply body8_model; try assumption. apply HS. left. reflexivity.
  Qed.
End Loop8.

(** the pinned skeleton of c_prop around the loop (t0 = c_locs[tmp_idx], t1 = c_locs[tmp2_idx]) *)
Theorem cprop8_source_is_model so m M : ops_sep_b so = true -> locs_ok so (List.length m) ->
  match so_loc so (so_nlines so + 1), so_loc so (so_nlines so + 2) with
  | Some lt0, Some lt1 =>
      agree8 lt0 lt1 M m ->
      agree8 lt0 lt1 (fst (c_prop_src loop_prop_cpu loop_cprop2_cb loop_cprop4 loop_cprop8 8 (so_locs so) (so_nlines so)
                             (Z.of_nat (so_nlines so + 1)) (Z.of_nat (so_nlines so + 2)) None (map row_of (so_ops so)) M))
             (c_prop Zero sem8 so m)
  | _, _ => False
  end.
Proof.
  intros HS HB. unfold ops_sep_b in HS.
  destruct (so_loc so (so_nlines so + 1)) as [lt0|] eqn:E0; [|discriminate HS].
  destruct (so_loc so (so_nlines so + 2)) as [lt1|] eqn:E1; [|discriminate HS].
  apply andb_true_iff in HS. destruct HS as [Hne HS]. apply negb_true_iff, Nat.eqb_neq in Hne. rewrite forallb_forall in HS.
  intros HA.
  change (c_prop_src loop_prop_cpu loop_cprop2_cb loop_cprop4 loop_cprop8 8 (so_locs so) (so_nlines so)
            (Z.of_nat (so_nlines so + 1)) (Z.of_nat (so_nlines so + 2)) None (map row_of (so_ops so)) M)
    with (run_loop 3 loop_cprop8 (so_locs so) (so_nlines so) (zrd (-1) (so_locs so) (Z.of_nat (so_nlines so + 1)))
            (zrd (-1) (so_locs so) (Z.of_nat (so_nlines so + 2))) None (map row_of (so_ops so)) M).
  rewrite (zrd_loc so _ _ E0), (zrd_loc so _ _ E1). unfold run_loop, c_prop.
  apply (cprop8_loop_is_model so lt0 lt1 Hne (so_nlines so) (so_ops so) m M HS HB (HB _ _ E0) (HB _ _ E1) HA).
Qed.
