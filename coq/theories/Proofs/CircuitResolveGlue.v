(** C10, resolve_tlib_cells over its loop, part 2: ONE substitution, with the OTHER library instances of the host still unresolved and
    read through their implementations ([rsol] of Model/CircuitResolveSem.v).  The state [c4] before the clean-up: the proofs of
    Proofs/CircuitSubstSemGen.v (glue_fwd_gen / glue_bwd_gen) with [rsol] in the place of [csol]; the lemmas of that file about the
    copied implementation nodes are used as they are, host nodes of a library kind are transported with [inst_ok_xfer]. *)
From Coq Require Import List Arith Bool String NArith Lia.
From KV Require Model.Prims Model.Netlist Model.SimOps Model.NetlistSem Gen.SimTables.
From KV Require Import Model.Circuit Model.CircuitInv Model.CircuitView Model.CircuitSem Model.CircuitSubstSem Model.CircuitResolveSem
     Proofs.CircuitBase Proofs.CircuitProofs Proofs.CircuitBool Proofs.CircuitViewProofs Proofs.CircuitElimSem Proofs.CircuitSubstInv
     Proofs.CircuitDanglingSem Proofs.CircuitSubstSem Proofs.CircuitSubstSemGen Proofs.CircuitResolveDang.
Import ListNotations.
Local Open Scope list_scope.

Section GlueR.
Context {V : Type} (sem : BinNums.N -> V -> V -> V -> V -> V) (zero : V).
Hypothesis Hbuf : forall x a b d, sem (SimOps.lutv "BUF1") x a b d = x.
Variables (c : circ) (u : nat) (impl : circ) (m : list (nat * nat)) (c4 : circ).
Hypothesis HIc : CInv c.
Hypothesis HLc : IoLive c.
Hypothesis Hu : In u (nodes c).
Hypothesis Hiou : io_mem c u = false.
Hypothesis HIi : CInv impl.
Hypothesis HLi : IoLive impl.
Hypothesis Hforks : io_forks_b impl = true.
Hypothesis HI4 : CInv c4.
Hypothesis HL4 : IoLive c4.
Hypothesis G : SubstGlue c u impl m c4.
Hypothesis HD22 : d22_free_b c u impl = true.
Variable lib : list (string * circ).
Variable M : nat -> list (nat * nat).
Hypothesis Hkeys : lib_keys_ok_b lib = true.
Hypothesis Hflat : forall x, In x (nodes impl) -> tlib_get (kind_of impl x) lib = None.
Hypothesis Hku : tlib_get (kind_of c u) lib = Some impl.
Hypothesis HMu : M u = m.
Let HCc : CCoreX [] c := proj1 HIc.
Let HCi : CCoreX [] impl := proj1 HIi.
Let HC4 : CCoreX [] c4 := proj1 HI4.

(* a copied implementation node is no library instance *)
Lemma gr_copy_plain : forall x y, mget x m = Some y -> tlib_get (kind_of c4 y) lib = None.
Proof.
  intros x y Hm. rewrite (sg_kind _ _ _ _ _ G x y Hm). destruct (in_ios impl x).
  - unfold lib_keys_ok_b in Hkeys. destruct (tlib_get FORK lib); [discriminate|reflexivity].
  - apply Hflat. apply (g_mapped_listed c u impl m c4 G x y Hm).
Qed.

(* host nodes other than the instance: same pins, so the same equation for valuations that agree on the host lines *)
Lemma gr_host_xfer : forall stim (v v' : nat -> V) n, In n (nodes c) -> n <> u ->
  (forall l, In l (lines c) -> v' l = v l) ->
  (rnode_ok sem zero lib M c stim v n <-> rnode_ok sem zero lib M c4 stim v' n).
Proof.
  intros stim v v' n Hn Hne Ha. destruct (sg_host _ _ _ _ _ G n Hn Hne) as [K [_ [I O]]].
  assert (Hp : forall j, NetlistSem.pinv zero v' (ins_of c n) j = NetlistSem.pinv zero v (ins_of c n) j).
  { intros j. unfold NetlistSem.pinv. destruct (SimOps.pin (ins_of c n) j) as [z|] eqn:E; auto. apply Ha.
    rewrite pin_in_at in E. apply (cc_ins [] c HCc n j z (or_introl Hn) E). }
  assert (Ho : forall k ll, nth k (outs_of c n) None = Some ll -> v' ll = v ll).
  { intros k ll E. apply Ha. apply (cc_outs [] c HCc n k ll (or_introl Hn) E). }
  unfold rnode_ok. rewrite K. destruct (tlib_get (kind_of c n) lib) as [impl'|].
  - split; apply inst_ok_xfer; auto.
    + intros k ll E. rewrite O in E. exists ll. split; auto. eapply Ho; eauto.
    + rewrite I. intros j. symmetry. apply Hp.
    + intros k ll E. exists ll. rewrite O. split; auto. symmetry. eapply Ho; eauto.
  - rewrite (g_host_node_same sem zero c u impl m c4 HIc HLc HI4 HL4 G stim v' n Hn Hne).
    unfold cnode_ok. split; apply gate_ok_ext.
    + intros k. symmetry. apply Hp.
    + reflexivity.
    + intros k o E. symmetry. rewrite pin_out_at in E. eapply Ho; eauto.
    + intros k. apply Hp.
    + reflexivity.
    + intros k o E. rewrite pin_out_at in E. eapply Ho; eauto.
Qed.

(** *** from [c4] to the host *)
Section Bwd.
Variables (stim : nat -> V) (v' w : nat -> V).
Hypothesis HCoh : forall l, In l (lines impl) -> g_carrier impl m c4 l = true -> w l = g_expect zero c u impl m c4 v' l.
Hypothesis Hs : forall x y, mget x m = Some y -> cnode_ok sem zero c4 stim v' y.

(* Proofs/CircuitSubstSemGen.g_out_agree_bw with the equations of the copied nodes only *)
Lemma gr_out_agree_bw :
  forall k o ll, nth_error (impl_outs impl) k = Some o -> nth k (outs_of c u) None = Some ll -> v' ll = obs zero impl w o 0.
Proof.
  intros k o ll Hko Hll. destruct (g_host_out_line c u HIc Hu k ll Hll) as [Hlc [Hdu Hpk]].
  pose proof (cc_lb [] c HCc ll Hlc) as Hlt.
  pose proof (sg_lines _ _ _ _ _ G ll Hlc) as Hl4.
  destruct (cc_line [] c4 HC4 ll Hl4) as [d [r [E1 [E2 [[Hd|[]] [_ [Ho _]]]]]]].
  assert (Hfin : forall x, host_out c u impl x = Some ll -> x = o /\ index_of o (impl_outs impl) = Some k).
  { intros x H. unfold host_out in H. destruct (index_of x (impl_outs impl)) as [k'|] eqn:Hidx; [|discriminate].
    destruct (g_host_out_line c u HIc Hu k' ll H) as [_ [_ Hpk']]. assert (k' = k) by congruence. subst k'.
    pose proof (index_of_nth _ _ _ Hidx) as Hn. assert (x = o) by congruence. subst x. split; congruence. }
  apply (sg_nodes _ _ _ _ _ G) in Hd. destruct Hd as [[Hdc Hne]|[x Hm]].
  - exfalso. destruct (sg_host _ _ _ _ _ G d Hdc Hne) as [_ [_ [_ O]]]. unfold out_at in Ho. rewrite O in Ho.
    destruct (cc_outs [] c HCc d _ ll (or_introl Hdc) Ho) as [_ [A _]]. congruence.
  - destruct (g_mapped_listed c u impl m c4 G x d Hm) as [Hx _]. set (dp := l_dpin (lst c4 ll)) in *.
    destruct (out_at impl x dp) as [l|] eqn:E.
    + destruct (impl_out impl HCi x dp l Hx E) as [Hl [Hdl Hpl]].
      destruct (impl_line impl HCi l Hl) as [d0 [r0 [F1 [F2 _]]]].
      assert (Hcar : g_carrier impl m c4 l = true). { unfold g_carrier. rewrite Hdl, Hm, Hpl, Ho. reflexivity. }
      destruct (g_drv_mapped c u impl m c4 HIc Hu HIi G l x r0 d Hl Hdl F2 Hm)
        as [[r' [z [_ [Hge [Hz _]]]]]|[Hmr [Hrp [Hi0 [Hho _]]]]].
      * rewrite Hpl in Hz. assert (z = ll) by congruence. lia.
      * rewrite Hpl, Ho in Hho. symmetry in Hho. destruct (Hfin r0 Hho) as [-> _].
        unfold obs. rewrite g_pinv_at, Hi0. rewrite (HCoh l Hl Hcar). unfold g_expect. rewrite Hdl, Hm, Hpl, Ho. reflexivity.
    + pose proof Ho as Ho'. rewrite (sg_outs _ _ _ _ _ G x d dp Hm) in Ho'. unfold exp_out in Ho'. rewrite E in Ho'.
      destruct (in_ios impl x) eqn:Hio; simpl in Ho'; [|discriminate].
      destruct (Nat.ltb_spec 0 (List.length (ins_of impl x))); simpl in Ho'; [|discriminate].
      destruct (0 <? List.length (outs_of impl x)); simpl in Ho'; [|discriminate].
      destruct (dp =? List.length (outs_of impl x)); [|discriminate].
      destruct (Hfin x Ho') as [-> _].
      destruct (g_port_ids impl HIi HLi Hforks o Hx Hio) as [Hids Hk]. destruct (g_outport_in0 c u impl m c4 G o Hids H) as [l0 Hl0].
      destruct (g_ciface_port_copy c u impl m c4 HIc HLc Hiou Hforks HI4 HL4 G HD22 o d Hm Hio) as [Hif4 Hk4].
      pose proof (Hs o d Hm) as Hn. unfold cnode_ok in Hn. rewrite Hif4, Hk4 in Hn. rewrite (wire_fork_eq sem zero Hbuf) in Hn.
      rewrite (Hn dp ll) by (rewrite pin_out_at; exact Ho).
      destruct (g_in_corr zero c u impl m c4 HIc Hu HIi HLi Hforks G HD22 v' w HCoh o d 0 l0 Hm Hl0) as [A _]. rewrite A.
      unfold obs. rewrite g_pinv_at, Hl0. reflexivity.
Qed.
End Bwd.

Theorem glue_r_bwd : forall stim v', rsol sem zero lib M c4 stim v' -> rsol sem zero lib M c stim v'.
Proof.
  intros stim v' Hs.
  assert (Hs' : forall x y, mget x m = Some y -> cnode_ok sem zero c4 stim v' y).
  { intros x y Hm. destruct (g_mapped_listed c u impl m c4 G x y Hm) as [_ Hy].
    pose proof (Hs y Hy) as H. unfold rnode_ok in H. rewrite (gr_copy_plain x y Hm) in H. exact H. }
  assert (HCoh : forall l, In l (lines impl) -> g_carrier impl m c4 l = true ->
                           g_wit sem zero c u impl m c4 stim v' l = g_expect zero c u impl m c4 v' l).
  { intros l _ Hcar. unfold g_wit. rewrite Hcar. reflexivity. }
  intros n Hn. destruct (Nat.eq_dec n u) as [->|Hne].
  - unfold rnode_ok. rewrite Hku, HMu. exists (g_wit sem zero c u impl m c4 stim v'). split.
    + intros x Hx. destruct (mget x m) as [y|] eqn:Hm.
      * unfold cnode_ok. apply gate_ok_iff. intros k o Hq val Hval.
        rewrite pin_out_at in Hq. destruct (g_carrier impl m c4 o) eqn:Hcar.
        -- apply (g_pin_bw sem zero Hbuf c u impl m c4 HIc HLc Hu Hiou HIi HLi Hforks HI4 HL4 G HD22 stim v'
                            (g_wit sem zero c u impl m c4 stim v') HCoh x y Hm (Hs' x y Hm) k o Hq Hcar val Hval).
        -- destruct (impl_out impl HCi x k o Hx Hq) as [_ [Hd Hp]].
           rewrite (gate_out_ext sem zero _ _ _ (g_wit sem zero c u impl m c4 stim v') (g_expect zero c u impl m c4 v') k
                                 (g_wit_ins sem zero c u impl m c4 HIc Hu HIi G stim v' x y Hm)) in Hval.
           unfold g_wit. rewrite Hcar, Hd, Hp, Hval. reflexivity.
      * apply (g_node_C sem zero Hbuf c u impl m c4 HIi HLi Hforks G stim v' (g_wit sem zero c u impl m c4 stim v') HCoh x Hx Hm).
    + apply (gr_out_agree_bw stim v' (g_wit sem zero c u impl m c4 stim v') HCoh Hs').
  - apply (gr_host_xfer stim v' v' n Hn Hne); auto. apply Hs. apply (sg_nodes _ _ _ _ _ G). left; auto.
Qed.

(** *** and conversely *)
Theorem glue_r_fwd : forall stim v, rsol sem zero lib M c stim v ->
  exists v', rsol sem zero lib M c4 stim v' /\ (forall l, In l (lines c) -> v' l = v l).
Proof.
  intros stim v Hr. pose proof (Hr u Hu) as Hinst. unfold rnode_ok in Hinst. rewrite Hku, HMu in Hinst.
  destruct Hinst as [w [Hw HOA]]. set (v' := g_fwd_val zero c impl m c4 v w). exists v'.
  assert (Ha : forall z, In z (lines c) -> v' z = v z).
  { intros z Hz. unfold v', g_fwd_val. pose proof (cc_lb [] c HCc z Hz). destruct (Nat.ltb_spec z (lnext c)); auto. lia. }
  assert (Hb : forall k, NetlistSem.pinv zero v' (ins_of c u) k = NetlistSem.pinv zero v (ins_of c u) k).
  { intros k. unfold NetlistSem.pinv. rewrite pin_nth. destruct (nth k (ins_of c u) None) as [z|] eqn:E; auto.
    apply Ha. apply (g_host_in_line c u HIc Hu k z E). }
  assert (Hc : forall x, inst_stim zero c u impl m stim v' x = inst_stim zero c u impl m stim v x).
  { intros x. unfold inst_stim. destruct (index_of x (impl_ins impl)); auto. }
  assert (Hw' : csol sem zero impl (inst_stim zero c u impl m stim v') w).
  { intros x Hx. specialize (Hw x Hx). unfold cnode_ok in *. rewrite Hc. exact Hw. }
  assert (HOA' : forall k o ll, nth_error (impl_outs impl) k = Some o -> nth k (outs_of c u) None = Some ll ->
                                v' ll = obs zero impl w o 0).
  { intros k o ll A B. rewrite Ha. eapply HOA; eauto. apply (g_host_out_line c u HIc Hu k ll B). }
  assert (HCoh : forall l, In l (lines impl) -> g_carrier impl m c4 l = true -> w l = g_expect zero c u impl m c4 v' l).
  { intros l Hl Hcar. destruct (impl_line impl HCi l Hl) as [d [r [E1 [E2 [Hd [Hr' [Ho Hi]]]]]]].
    unfold g_carrier in Hcar. unfold g_expect. rewrite E1 in *. destruct (mget d m) as [d'|] eqn:Hmd.
    - destruct (g_drv_mapped c u impl m c4 HIc Hu HIi G l d r d' Hl E1 E2 Hmd)
        as [[r' [z [Hmr [Hge [Hz _]]]]]|[Hmr [Hrp [Hi0 [Hho Hzc]]]]].
      + rewrite Hz. unfold v', g_fwd_val. destruct (Nat.ltb_spec z (lnext c)); [lia|].
        assert (Hcl : g_copy_of impl m c4 l = Some z). { unfold g_copy_of. rewrite E1, Hmd. exact Hz. }
        destruct (find (fun l0 => oeq (g_copy_of impl m c4 l0) (Some z)) (lines impl)) as [l1|] eqn:Ef.
        * apply find_some in Ef. destruct Ef as [Hl1 Hoe].
          assert (Hc1 : g_copy_of impl m c4 l1 = Some z).
          { destruct (g_copy_of impl m c4 l1) as [z1|]; simpl in Hoe; [|discriminate]. apply Nat.eqb_eq in Hoe. congruence. }
          rewrite (g_copy_inj c u impl m c4 HIi HI4 G l1 l z Hl1 Hl Hc1 Hcl). reflexivity.
        * pose proof (find_none _ _ Ef l Hl) as Hn. simpl in Hn. rewrite Hcl in Hn. simpl in Hn.
          rewrite Nat.eqb_refl in Hn. discriminate.
      + rewrite Hho in *. destruct (host_out c u impl r) as [z|] eqn:Ehz; [|discriminate].
        rewrite (Ha z (Hzc z eq_refl)). unfold host_out in Ehz.
        destruct (index_of r (impl_outs impl)) as [k|] eqn:Hidx; [|discriminate].
        rewrite (HOA k r z (index_of_nth _ _ _ Hidx) Ehz). unfold obs. rewrite g_pinv_at, Hi0. reflexivity.
    - destruct (g_unmapped_driver c u impl m c4 HIi HLi Hforks G l d Hl E1 Hmd) as [_ [[k Hk] [Hod [_ Hlen]]]]. rewrite Hk. rewrite Hb.
      assert (Hids : In d (io_ids impl)).
      { assert (In d (impl_ins impl)) by (eapply nth_error_In; apply index_of_nth; eauto).
        unfold impl_ins in H. apply filter_In in H. tauto. }
      destruct (g_ids_port impl HLi Hforks d Hids) as [_ [_ Hkd]].
      specialize (Hw d Hd). unfold cnode_ok in Hw. rewrite (g_ciface_inport impl HIi HLi d Hids Hlen), Hkd in Hw.
      rewrite (iface_fork_eq sem zero Hbuf) in Hw.
      rewrite (Hw 0 l) by (rewrite Hod; reflexivity). unfold inst_stim. rewrite Hk. reflexivity. }
  split; auto.
  intros y Hy. apply (sg_nodes _ _ _ _ _ G) in Hy. destruct Hy as [[Hyc Hne]|[x Hm]].
  - apply (gr_host_xfer stim v v' y Hyc Hne Ha). apply Hr; auto.
  - destruct (g_mapped_listed c u impl m c4 G x y Hm) as [Hx _].
    unfold rnode_ok. rewrite (gr_copy_plain x y Hm).
    apply (g_node_fw sem zero Hbuf c u impl m c4 HIc HLc Hu Hiou HIi HLi Hforks HI4 HL4 G HD22 stim v' w HCoh x y HOA' Hm).
    apply Hw'. exact Hx.
Qed.
End GlueR.
