(** C13 at op-list level: accumulated weighted switching activity, capture summary and overflow reachability
    for ANY op list (fold of wsa_counts / wave_ovl over [wexec]). *)
From Coq Require Import List ZArith NArith Bool Arith Lia.
From KV Require Import Model.Prims Model.Logic Model.OpSem Model.SimOps Model.Time Model.WaveEval Model.WaveSpec Model.WaveOps
     Model.WaveSimModel Model.WaveAcc Model.CaptureSpec
     Proofs.WaveCore Proofs.WaveEquiv Proofs.WaveCircuit Proofs.WaveCircuit2 Proofs.CaptureProofs.
Import ListNotations.
Local Open Scope list_scope.

(* ------------------------------------------------------------------ *)
(** * Small facts *)

Lemma count_edges_upto_end w : forall v, count_edges (upto_end w) v = count_edges w v.
Proof.
  induction w as [|t r IH]; intros v; [reflexivity|].
  cbn [upto_end count_edges]. destruct (is_end t) eqn:E; cbn [count_edges]; rewrite E; [reflexivity|].
  rewrite IH. reflexivity.
Qed.

Lemma edges_upto_end w : edges (upto_end w) = edges w.
Proof.
  destruct w as [|[|z| |] r]; try reflexivity.
  - cbn [upto_end is_end edges]. apply count_edges_upto_end.
  - unfold edges. change (upto_end (Fin z :: r)) with (Fin z :: upto_end r).
    change (Fin z :: upto_end r) with (upto_end (Fin z :: r)). apply count_edges_upto_end.
Qed.

Lemma addZ_at_length l : forall i d, length (addZ_at l i d) = length l.
Proof. induction l as [|x l IH]; intros [|i] d; cbn [addZ_at length]; auto. Qed.

Lemma nth_addZ_at l : forall i a d, a < length l ->
  nth a (addZ_at l i d) 0%Z = (nth a l 0 + (if Nat.eqb i a then d else 0))%Z.
Proof.
  induction l as [|x l IH]; intros i a d Ha; cbn [length] in Ha; [lia|].
  destruct i as [|i], a as [|a]; cbn [addZ_at nth Nat.eqb]; try lia.
  apply IH. lia.
Qed.

Lemma is_ovl_iff t : is_ovl t = true <-> t = MaxOvl.
Proof. destruct t; cbn; split; congruence. Qed.

Section Acc.
Variable delays : nat -> dtab.
Variable cap : nat -> nat.
Variable actrl : list (Z * Z * Z).
Hypothesis Hd : good_delays delays.
Hypothesis Hc : good_caps cap.

Lemma wop_res_eq (e : wenv) o :
  wop_res delays cap e o = wave_eval (s_lut o) (wsof e o) (dsof delays o) (zof cap o).
Proof. reflexivity. Qed.

(** the counts an op returns are the transitions of the waveform it stores *)
Lemma wop_counts_edges (e : wenv) o : (forall k, wf_wave (e k)) ->
  wop_counts delays cap e o = edges (wop delays cap e o).
Proof.
  intros Hw. destruct (wop_some delays cap e o Hd Hc Hw) as (r & Hr & ->).
  unfold wop_counts. rewrite wop_res_eq, Hr, edges_upto_end.
  apply (wsa_counts _ _ _ _ _ (args_wf delays cap e o Hd Hc Hw) Hr).
Qed.

Lemma wstep_wf (e : wenv) o : (forall k, wf_wave (e k)) -> forall k, wf_wave (wstep delays cap e o k).
Proof.
  intros Hw k. unfold wstep, wupd. destruct (Nat.eqb k (s_out o)); [|apply Hw]. apply wop_props; assumption.
Qed.

Lemma acc_add_length ab i rf : length (acc_add actrl ab i rf) = length ab.
Proof.
  unfold acc_add. destruct (actrl_at actrl i) as [[ai wr] wf]. destruct (0 <=? ai)%Z; [apply addZ_at_length|reflexivity].
Qed.

Lemma nth_acc_add ab i rf a : a < length ab ->
  nth a (acc_add actrl ab i rf) 0%Z = (nth a ab 0 + weight actrl i a rf)%Z.
Proof.
  intros Ha. unfold acc_add, weight. destruct (actrl_at actrl i) as [[ai wr] wf].
  destruct (0 <=? ai)%Z; cbn [andb]; [|lia]. rewrite nth_addZ_at by exact Ha. reflexivity.
Qed.

Lemma wacc_from_env ops : forall i e ab, fst (wacc_from delays cap actrl i ops e ab) = wexec delays cap ops e.
Proof. induction ops as [|o ops IH]; intros i e ab; [reflexivity|]. cbn [wacc_from]. rewrite IH. reflexivity. Qed.

Lemma wacc_from_length ops : forall i e ab, length (snd (wacc_from delays cap actrl i ops e ab)) = length ab.
Proof.
  induction ops as [|o ops IH]; intros i e ab; [reflexivity|]. cbn [wacc_from]. rewrite IH. apply acc_add_length.
Qed.

(** ** C13: what [abuf] holds after any op list *)
Theorem wacc_running ops : forall i (e : wenv) ab a, (forall k, wf_wave (e k)) -> a < length ab ->
  nth a (snd (wacc_from delays cap actrl i ops e ab)) 0%Z = (nth a ab 0 + wsa_running delays cap actrl i ops e a)%Z.
Proof.
  induction ops as [|o ops IH]; intros i e ab a Hw Ha; cbn [wacc_from wsa_running snd]; [lia|].
  rewrite IH; [|apply wstep_wf, Hw|rewrite acc_add_length; exact Ha].
  rewrite nth_acc_add by exact Ha. rewrite wop_counts_edges by exact Hw. lia.
Qed.

(** ** ... and in terms of the waveforms present AT THE END, for op lists that write every output index once *)
Lemma wexec_untouched ops : forall (e : wenv) k, ~ In k (map s_out ops) -> wexec delays cap ops e k = e k.
Proof.
  induction ops as [|o ops IH]; intros e k Hk; [reflexivity|].
  rewrite wexec_cons, IH by (intros H; apply Hk; right; exact H).
  unfold wstep, wupd. destruct (Nat.eqb k (s_out o)) eqn:E; [|reflexivity].
  apply Nat.eqb_eq in E. exfalso. apply Hk. left. symmetry. exact E.
Qed.

Lemma wexec_written o ops (e : wenv) : ~ In (s_out o) (map s_out ops) ->
  wexec delays cap (o :: ops) e (s_out o) = wop delays cap e o.
Proof.
  intros H. rewrite wexec_cons, wexec_untouched by exact H. unfold wstep, wupd. rewrite Nat.eqb_refl. reflexivity.
Qed.

Lemma wsa_final_cons i o ops ef a :
  wsa_final actrl i (o :: ops) ef a = (weight actrl i a (edges (ef (s_out o))) + wsa_final actrl (S i) ops ef a)%Z.
Proof. reflexivity. Qed.

Lemma weight_off i a rf : (fst (fst (actrl_at actrl i)) < 0)%Z -> weight actrl i a rf = 0%Z.
Proof.
  unfold weight. destruct (actrl_at actrl i) as [[ai wr] wf]. cbn [fst]. intros H.
  destruct (Z.leb_spec 0 ai); [lia|reflexivity].
Qed.

Theorem wsa_running_final ops : forall i (e : wenv) a, acc_once actrl i ops ->
  wsa_running delays cap actrl i ops e a = wsa_final actrl i ops (wexec delays cap ops e) a.
Proof.
  induction ops as [|o ops IH]; intros i e a Hnd; [reflexivity|].
  cbn [acc_once] in Hnd. destruct Hnd as (Ho & Hnd').
  cbn [wsa_running]. rewrite wsa_final_cons, wexec_cons, (IH (S i) (wstep delays cap e o) a Hnd').
  f_equal. destruct Ho as [Hnotin|Hoff]; [|rewrite !weight_off by exact Hoff; reflexivity].
  rewrite <- wexec_cons, (wexec_written o ops e Hnotin). reflexivity.
Qed.

Lemma nodup_acc_once ops : forall i, NoDup (map s_out ops) -> acc_once actrl i ops.
Proof.
  induction ops as [|o ops IH]; intros i H; [exact I|].
  cbn [map] in H. inversion H as [|x l Hnotin Hnd']; subst x l. split; [left; exact Hnotin|apply IH, Hnd'].
Qed.

Lemma acc_once_b_sound ops : forall i, acc_once_b actrl i ops = true -> acc_once actrl i ops.
Proof.
  induction ops as [|o ops IH]; intros i H; [exact I|].
  cbn [acc_once_b] in H. apply andb_true_iff in H. destruct H as (H1 & H2). split; [|apply IH, H2].
  apply orb_true_iff in H1. destruct H1 as [H1|H1]; [left|right; apply Z.ltb_lt, H1].
  intros Hin. apply negb_true_iff in H1.
  assert (existsb (Nat.eqb (s_out o)) (map s_out ops) = true); [|congruence].
  apply existsb_exists. exists (s_out o). split; [exact Hin|apply Nat.eqb_refl].
Qed.

Theorem wacc_final ops (e : wenv) ab a : (forall k, wf_wave (e k)) -> acc_once actrl 0 ops -> a < length ab ->
  nth a (wacc delays cap actrl ops e ab) 0%Z = (nth a ab 0 + wsa_final actrl 0 ops (wexec delays cap ops e) a)%Z.
Proof.
  intros Hw Hnd Ha. unfold wacc. rewrite wacc_running by assumption. rewrite wsa_running_final by exact Hnd. reflexivity.
Qed.

Corollary wacc_final_ssa ops (e : wenv) ab a : (forall k, wf_wave (e k)) -> NoDup (map s_out ops) -> a < length ab ->
  nth a (wacc delays cap actrl ops e ab) 0%Z = (nth a ab 0 + wsa_final actrl 0 ops (wexec delays cap ops e) a)%Z.
Proof. intros Hw Hnd Ha. apply wacc_final; [exact Hw|apply nodup_acc_once, Hnd|exact Ha]. Qed.

(* ------------------------------------------------------------------ *)
(** * Overflow mark = reachability of a dropped transition *)

Lemma wop_ovl (e : wenv) (ov : nat -> bool) o : (forall k, wf_wave (e k)) ->
  (forall k, is_ovl (terminator (e k)) = ov k) ->
  is_ovl (terminator (wop delays cap e o)) =
  Nat.ltb 0 (wop_dropped delays cap e o) || ov (s_i0 o) || ov (s_i1 o) || ov (s_i2 o) || ov (s_i3 o).
Proof.
  intros Hw Hov. destruct (wop_some delays cap e o Hd Hc Hw) as (r & Hr & ->).
  unfold wop_dropped. rewrite wop_res_eq, Hr, terminator_upto_end.
  destruct (wave_ovl _ _ _ _ _ (args_wf delays cap e o Hd Hc Hw) Hr) as (Hiff & _).
  apply Bool.eq_iff_eq_true. rewrite is_ovl_iff, Hiff, !orb_true_iff, Nat.ltb_lt, <- !Hov, !is_ovl_iff.
  unfold wsof, idxs. cbn [map]. split.
  - intros [H|(k & Hk & H)]; [tauto|].
    assert (Hk' : k = 0 \/ k = 1 \/ k = 2 \/ k = 3) by lia.
    destruct Hk' as [->|[->|[->| ->]]]; cbn [nth] in H; tauto.
  - intros [[[[H|H]|H]|H]|H]; [left; exact H| | | |].
    + right. exists 0. split; [lia|exact H].
    + right. exists 1. split; [lia|exact H].
    + right. exists 2. split; [lia|exact H].
    + right. exists 3. split; [lia|exact H].
Qed.

Lemma ovf_reach_gen ops : forall (e : wenv) (ov : nat -> bool), (forall k, wf_wave (e k)) ->
  (forall k, is_ovl (terminator (e k)) = ov k) ->
  forall k, is_ovl (terminator (wexec delays cap ops e k)) = ovf_reach delays cap ops e ov k.
Proof.
  induction ops as [|o ops IH]; intros e ov Hw Hov k; [apply Hov|].
  rewrite wexec_cons. cbn [ovf_reach]. apply IH; [apply wstep_wf, Hw|].
  intros j. unfold wstep, wupd, ovf_step. destruct (Nat.eqb j (s_out o)); [|apply Hov].
  apply wop_ovl; assumption.
Qed.

Theorem ovf_reach_spec ops (e : wenv) k : (forall k, wf_wave (e k)) ->
  (terminator (wexec delays cap ops e k) = MaxOvl <-> ovf_reach delays cap ops e (ovf0 e) k = true).
Proof.
  intros Hw. rewrite <- (ovf_reach_gen ops e (ovf0 e) Hw (fun j => eq_refl)). symmetry. apply is_ovl_iff.
Qed.

(** no evaluation dropped a transition and no input carries the mark: no signal carries the mark *)
Theorem ovf_reach_clean ops : forall (e : wenv) (ov : nat -> bool),
  dropped_total delays cap ops e = 0 -> (forall k, ov k = false) -> forall k, ovf_reach delays cap ops e ov k = false.
Proof.
  induction ops as [|o ops IH]; intros e ov H0 Hov k; [apply Hov|].
  cbn [ovf_reach dropped_total] in *. apply IH; [lia|].
  intros j. unfold ovf_step. destruct (Nat.eqb j (s_out o)); [|apply Hov].
  rewrite !Hov. replace (wop_dropped delays cap e o) with 0 by lia. reflexivity.
Qed.

(** a dropped transition marks the output of the op that dropped it and every op output computed from a marked operand *)
Lemma ovf_step_out (e : wenv) ov o :
  ovf_step delays cap e ov o (s_out o) =
  Nat.ltb 0 (wop_dropped delays cap e o) || ov (s_i0 o) || ov (s_i1 o) || ov (s_i2 o) || ov (s_i3 o).
Proof. unfold ovf_step. rewrite Nat.eqb_refl. reflexivity. Qed.

(* ------------------------------------------------------------------ *)
(** * Capture at op-list level *)

Theorem circuit_capture ops (e : wenv) k T : (forall k, wf_wave (e k)) ->
  let w := wexec delays cap ops e k in
  let '(ini, a) := capture w T in
  ini = bexec ops (fun j => init_val (e j)) k /\
  k_fin a = bexec ops (fun j => final_val (e j)) k /\
  k_eat a = earliest w /\ k_lst a = latest w /\ k_val a = value_before w T /\
  (k_ovl a = true <-> ovf_reach delays cap ops e (ovf0 e) k = true).
Proof.
  intros Hw w.
  destruct (wave_circuit_settles delays cap ops e Hd Hc Hw k) as (Hwf & Hi & Hf). fold w in Hwf, Hi, Hf.
  pose proof (capture_summary w T Hwf) as H. destruct (capture w T) as (ini, a).
  destruct H as (H1 & H2 & H3 & H4 & H5 & H6).
  repeat split; try congruence.
  - intros H. apply (ovf_reach_spec ops e k Hw). apply H6, H.
  - intros H. apply H6. apply (ovf_reach_spec ops e k Hw), H.
Qed.
End Acc.

(* ------------------------------------------------------------------ *)
(** * Instance: the op list of Proofs/WaveCircuit.v with two accumulators *)

Module Example3.
Import Example1.
Local Open Scope Z_scope.

(** op 0 (INV -> 2): accumulator 0, weights 1/2; op 1 (INV -> 3): accumulator 1, weights 3/3; op 2 (XOR -> 4): accumulator 0, 5/7 *)
Definition ac : list (Z * Z * Z) := [(0, 1, 2); (1, 3, 3); (0, 5, 7)].

Lemma ops_nodup : NoDup (map s_out ops).
Proof. cbn. repeat constructor; cbn; intuition discriminate. Qed.

Eval vm_compute in (wacc dl cp ac ops e0 [0; 0], map (fun k => edges (wexec dl cp ops e0 k)) [2; 3; 4]%nat).

(* line 2 = [MinInf; 12; 23; 52]: 1 rise 2 falls; line 3 = [18; 28; 58]: 2 rises 1 fall; line 4 = [11; 21; MaxOvl]: 1 rise 1 fall *)
Example acc0 : nth 0 (wacc dl cp ac ops e0 [0; 0]) 0 = 1 * 1 + 2 * 2 + (1 * 5 + 1 * 7).
Proof.
  rewrite (wacc_final_ssa dl cp ac dl_ok cp_ok ops e0 [0; 0] 0%nat e0_wf ops_nodup) by (cbn; lia).
  vm_compute. reflexivity.
Qed.
Example acc1 : nth 1 (wacc dl cp ac ops e0 [0; 0]) 0 = 2 * 3 + 1 * 3.
Proof.
  rewrite (wacc_final_ssa dl cp ac dl_ok cp_ok ops e0 [0; 0] 1%nat e0_wf ops_nodup) by (cbn; lia).
  vm_compute. reflexivity.
Qed.

(* two gates without output line share the scratch index 5: not SSA, but the re-written op does not accumulate *)
Definition ops_tmp : list sop :=
  ops ++ [ {| s_lut := 21845; s_out := 5; s_i0 := 2; s_i1 := 9; s_i2 := 9; s_i3 := 9 |};
           {| s_lut := 21845; s_out := 5; s_i0 := 3; s_i1 := 9; s_i2 := 9; s_i3 := 9 |} ].
Definition ac_tmp : list (Z * Z * Z) := ac ++ [(-1, 0, 0); (1, 1, 1)].
Lemma ops_tmp_once : acc_once ac_tmp 0 ops_tmp.
Proof. apply acc_once_b_sound. vm_compute. reflexivity. Qed.
Example acc1_tmp : nth 1 (wacc dl cp ac_tmp ops_tmp e0 [0; 0]) 0 = 2 * 3 + 1 * 3 + (1 * 1 + 2 * 1).
Proof.
  rewrite (wacc_final dl cp ac_tmp dl_ok cp_ok ops_tmp e0 [0; 0] 1%nat e0_wf ops_tmp_once) by (cbn; lia).
  vm_compute. reflexivity.
Qed.

(* the XOR evaluation dropped a transition: line 4 is marked, lines 2 and 3 are not *)
Eval vm_compute in (map (ovf_reach dl cp ops e0 (ovf0 e0)) [0; 2; 3; 4]%nat, dropped_total dl cp ops e0).
Example capture_line4 :
  let '(ini, a) := capture (wexec dl cp ops e0 4%nat) (Fin 15) in
  ini = false /\ k_fin a = false /\ k_eat a = Fin 11 /\ k_lst a = Fin 21 /\ k_val a = true /\ k_ovl a = true.
Proof.
  pose proof (circuit_capture dl cp dl_ok cp_ok ops e0 4%nat (Fin 15) e0_wf) as H. cbv zeta in H.
  destruct (capture (wexec dl cp ops e0 4%nat) (Fin 15)) as (ini, a).
  destruct H as (H1 & H2 & H3 & H4 & H5 & H6).
  rewrite H1, H2, H3, H4, H5. repeat split; try (vm_compute; reflexivity).
  apply H6. vm_compute. reflexivity.
Qed.
Example line3_unmarked : terminator (wexec dl cp ops e0 3%nat) <> MaxOvl.
Proof.
  intros H. apply (ovf_reach_spec dl cp dl_ok cp_ok ops e0 3%nat e0_wf) in H. vm_compute in H. discriminate.
Qed.
End Example3.

Print Assumptions wacc_running.
Print Assumptions wacc_final.
Print Assumptions wacc_final_ssa.
Print Assumptions ovf_reach_spec.
Print Assumptions ovf_reach_clean.
Print Assumptions circuit_capture.
