(** Translated source of the traversal generators of circuit.py (Gen/TraversalsSrc.v, regenerated from the current source text by
    translate/gen_traversals.py) = the hand models of Model/Netlist.v that the C17 theorems are stated on.

      s_nodes_src                       = s_nodes               for every netlist
      topological_order_src             = topo_order            wf_netlist, every node has fewer than 2^32 connected input pins
                                                                (visit_count is a uint32 array: its counters wrap), fuel > number of nodes
      topological_order_with_level_src  = topo_levels           the same and fewer than 2^31 nodes (level is an int32 array)
      topological_line_order_src        = topo_line_order       as topological_order
      reversed_topological_order_src    = rtopo_order           wf_netlist (visit_count is a Python list here: no wrap), fuel > number of nodes
      fanin_src                         = fanin                 wf_netlist, origins are nodes of the circuit

    None = the Python code raised or the fuel ran out; so each equation also says that the real loop terminates within
    (number of nodes + 1) evaluations of its test and never raises IndexError / AttributeError / ValueError / OverflowError. *)
From Coq Require Import List NArith ZArith Bool Arith String Lia.
From KV Require Import Model.Prims Model.Netlist Model.NetlistWf Model.Reach Model.TraversalsSrcLib Gen.TraversalsSrc
  Proofs.TopoProofs Proofs.FaninProofs.
Import ListNotations.
Local Open Scope list_scope.

(* ------------------------------------------------------------------------------------------ *)
(** * vocabulary *)

Lemma tbind_some {A B} (a : A) (f : A -> option B) : tbind (Some a) f = f a.
Proof. reflexivity. Qed.

Lemma t_lget_nth {A} (l : list A) k d : k < List.length l -> t_lget k l = Some (nth k l d).
Proof. intros H. unfold t_lget. now apply nth_error_nth'. Qed.

Lemma t_lset_some {A} (l : list A) i v : i < List.length l -> t_lset i v l = Some (t_set i v l).
Proof. intros H. unfold t_lset. apply Nat.ltb_lt in H. now rewrite H. Qed.

Lemma t_set_length {A} (l : list A) : forall i v, List.length (t_set i v l) = List.length l.
Proof. induction l as [|x r IH]; intros [|i] v; cbn; auto. Qed.

Lemma t_set_incr l : forall i, t_set i (S (nth i l 0)) l = incr l i.
Proof. induction l as [|x r IH]; intros [|i]; cbn; try reflexivity. now rewrite IH. Qed.

Lemma t_set_set_nat l : forall i v, t_set i v l = set_nat l i v.
Proof. induction l as [|x r IH]; intros [|i] v; cbn; try reflexivity. now rewrite IH. Qed.

Lemma t_set_same {A} (l : list A) d : forall i, t_set i (nth i l d) l = l.
Proof. induction l as [|x r IH]; intros [|i]; cbn; try reflexivity. now rewrite IH. Qed.

Lemma t_set_twice {A} (l : list A) : forall i v w, t_set i w (t_set i v l) = t_set i w l.
Proof. induction l as [|x r IH]; intros [|i] v w; cbn; try reflexivity. now rewrite IH. Qed.

Lemma nth_t_set {A} (l : list A) d : forall i k v, i < List.length l -> nth k (t_set i v l) d = if Nat.eqb k i then v else nth k l d.
Proof.
  induction l as [|x r IH]; intros i k v Hi; [cbn in Hi; lia|].
  destruct i as [|i]; destruct k as [|k]; cbn [t_set nth Nat.eqb]; try reflexivity.
  apply IH. cbn in Hi. lia.
Qed.

(** the marks update of the hand model (Model/Reach.v) is a store *)
Lemma setm_id n m : forall (l : list bool) s, n < s ->
  map (fun im : nat * bool => if Nat.eqb (fst im) n then m else snd im) (combine (seq s (List.length l)) l) = l.
Proof.
  induction l as [|x r IH]; intros s Hs; [reflexivity|]. cbn [List.length seq combine map fst snd].
  assert (E : Nat.eqb s n = false) by (apply Nat.eqb_neq; lia). rewrite E, IH by lia. reflexivity.
Qed.
Lemma setm_t_set n m : forall (l : list bool) s, s <= n ->
  map (fun im : nat * bool => if Nat.eqb (fst im) n then m else snd im) (combine (seq s (List.length l)) l) = t_set (n - s) m l.
Proof.
  induction l as [|x r IH]; intros s Hs; [reflexivity|]. cbn [List.length seq combine map fst snd].
  destruct (Nat.eqb s n) eqn:E.
  - apply Nat.eqb_eq in E. subst s. rewrite Nat.sub_diag. cbn [t_set]. rewrite setm_id by lia. reflexivity.
  - apply Nat.eqb_neq in E. replace (n - s) with (S (n - S s)) by lia. cbn [t_set]. rewrite IH by lia. reflexivity.
Qed.

Lemma u32_small x : (N.of_nat x < 2 ^ 32)%N -> t_uwrap 32 x = x.
Proof. intros H. unfold t_uwrap. rewrite N.mod_small by exact H. apply Nat2N.id. Qed.

Lemma i32_small z : (- 2147483648 <= z < 2147483648)%Z -> t_iwrap 32 z = z.
Proof.
  intros H. unfold t_iwrap. change (Z.pow 2 (Z.of_N 32 - 1)) with 2147483648%Z. cbv zeta.
  rewrite Z.mod_small by lia. lia.
Qed.
Lemma i32_range z : (- 2147483648 <= z < 2147483648)%Z -> t_irange 32 z = true.
Proof.
  intros H. unfold t_irange. change (Z.pow 2 (Z.of_N 32 - 1)) with 2147483648%Z. cbv zeta.
  apply andb_true_iff. split; [apply Z.leb_le | apply Z.ltb_lt]; lia.
Qed.

Lemma is_none_is_some {A} (o : option A) : negb (t_is_none o) = is_some o.
Proof. now destruct o. Qed.

Lemma all_none_connected {A} (l : list (option A)) : forallb (fun v => t_is_none v) l = Nat.eqb (connected l) 0.
Proof.
  unfold connected. induction l as [|[x|] r IH]; cbn [forallb filter is_some t_is_none List.length andb]; auto.
Qed.

Lemma count_connected {A} (l : list (option A)) : t_count (fun v => negb (t_is_none v)) l = connected l.
Proof.
  unfold t_count, connected. f_equal. apply filter_ext. intros o. apply is_none_is_some.
Qed.

Lemma find_idx_filter {A} (f : A -> bool) (d : A) l : forall s,
  find_idx f l s = filter (fun i => f (nth (i - s) l d)) (seq s (List.length l)).
Proof.
  induction l as [|x r IH]; intros s; [reflexivity|]. cbn [find_idx List.length seq filter].
  rewrite Nat.sub_diag. cbn [nth]. rewrite IH.
  assert (E : filter (fun i => f (nth (i - S s) r d)) (seq (S s) (List.length r))
              = filter (fun i => f (nth (i - s) (x :: r) d)) (seq (S s) (List.length r))).
  { apply filter_ext_in. intros i Hi. apply in_seq in Hi. replace (i - s) with (S (i - S s)) by lia. reflexivity. }
  rewrite E. reflexivity.
Qed.

Lemma filter_nodes (c : netlist) (f : node -> bool) :
  filter (fun n => f (get_node c n)) (t_nodes c) = find_idx f (c_nodes c) 0.
Proof.
  rewrite (find_idx_filter f dnode). unfold t_nodes, get_node. apply filter_ext. intros i. now rewrite Nat.sub_0_r.
Qed.

Lemma repeat_map_const {A B} (l : list A) (b : B) : repeat b (List.length l) = map (fun _ => b) l.
Proof. induction l as [|x r IH]; cbn; [reflexivity | now rewrite IH]. Qed.

(** a loop over a pin list that skips None and never breaks = a fold over the connected pins *)
Lemma t_for_pins {S} (body : option nat -> S -> option (S * bool)) (step : S -> nat -> S) (I : S -> list nat -> Prop) :
  (forall st, body None st = Some (st, false)) ->
  (forall st l ls, I st (l :: ls) -> body (Some l) st = Some (step st l, false) /\ I (step st l) ls) ->
  forall pins st, I st (somes pins) -> t_for body pins st = Some (fold_left step (somes pins) st).
Proof.
  intros Hn Hs. induction pins as [|[l|] r IH]; intros st Hi; cbn [t_for]; [reflexivity | |].
  - change (somes (Some l :: r)) with (l :: somes r) in *. destruct (Hs st l (somes r) Hi) as [E Hi']. rewrite E.
    cbn [fold_left]. now apply IH.
  - rewrite Hn. change (somes (None :: r)) with (somes r) in *. now apply IH.
Qed.

(** a loop that never breaks and never raises = a fold *)
Lemma t_for_fold {A S} (body : A -> S -> option (S * bool)) (step : S -> A -> S) (I : S -> list A -> Prop) :
  (forall st x r, I st (x :: r) -> body x st = Some (step st x, false) /\ I (step st x) r) ->
  forall l st, I st l -> t_for body l st = Some (fold_left step l st).
Proof.
  intros Hs. induction l as [|x r IH]; intros st Hi; cbn [t_for fold_left]; [reflexivity|].
  destruct (Hs st x r Hi) as [E Hi']. rewrite E. now apply IH.
Qed.

Lemma t_while_more {S} (step : S -> option (S * bool)) : forall f s r, t_while f step s = Some r -> forall f', f <= f' -> t_while f' step s = Some r.
Proof.
  induction f as [|f IH]; intros s r H f' Hf; [discriminate|].
  destruct f' as [|f']; [lia|]. cbn [t_while] in *. destruct (step s) as [[s' [|]]|]; try discriminate; auto.
  apply (IH _ _ H). lia.
Qed.

(* ------------------------------------------------------------------------------------------ *)
(** * s_nodes *)

Theorem s_nodes_source_is_model c : s_nodes_src c = Some (s_nodes c).
Proof.
  unfold s_nodes_src, s_nodes. rewrite (filter_nodes c is_dff), (filter_nodes c is_latch), <- app_assoc. reflexivity.
Qed.

(* ------------------------------------------------------------------------------------------ *)
(** * topological_order: the loop over n.outs and the while loop *)


Lemma seq_test a b cnd : (a && negb b && negb cnd) = (a && negb (b || cnd)).
Proof. destruct a, b, cnd; reflexivity. Qed.

Lemma loop2_eq c fuel out n NN pins visit queue :
  List.length visit = NN ->
  (forall l, In l (somes pins) -> l_rdr (get_line c l) < NN) ->
  (forall m, m < NN -> (N.of_nat (nth m visit 0 + count_occ Nat.eq_dec (map (fun l => l_rdr (get_line c l)) (somes pins)) m)%nat < 2 ^ 32)%N) ->
  t_for (topological_order_loop2 c fuel out n) pins (visit, queue) = Some (fold_left (visit_succ c) (somes pins) (visit, queue)).
Proof.
  intros Hlen Hr Hb.
  apply (t_for_pins _ (visit_succ c) (fun st ls => List.length (fst st) = NN /\ (forall l, In l ls -> l_rdr (get_line c l) < NN) /\
           forall m, m < NN -> (N.of_nat (nth m (fst st) 0 + count_occ Nat.eq_dec (map (fun l => l_rdr (get_line c l)) ls) m)%nat < 2 ^ 32)%N)).
  - intros [v q]. reflexivity.
  - intros [v q] l ls (Hl & Hin & Hbd). cbn [fst] in *.
    assert (Hs : l_rdr (get_line c l) < NN) by (apply Hin; now left).
    set (s := l_rdr (get_line c l)) in *.
    assert (Hv : nth s (incr v s) 0 = S (nth s v 0)).
    { rewrite nth_incr by lia. rewrite Nat.eqb_refl. lia. }
    assert (E : topological_order_loop2 c fuel out n (Some l) (v, q) = Some (visit_succ c (v, q) l, false)).
    { unfold topological_order_loop2. cbv beta zeta iota. cbn [t_is_none negb t_index tbind]. cbv beta zeta iota. fold s.
      rewrite (t_lget_nth v s 0) by lia. rewrite tbind_some.
      assert (Eu : t_uadd 32 (nth s v 0) 1 = S (nth s v 0)).
      { unfold t_uadd. rewrite u32_small; [lia|]. specialize (Hbd s Hs). cbn [map count_occ] in Hbd. fold s in Hbd.
        destruct (Nat.eq_dec s s) as [_|Hne]; [|contradiction]. lia. }
      rewrite Eu, t_lset_some by lia. rewrite tbind_some, t_set_incr.
      rewrite (t_lget_nth (incr v s) s 0) by (rewrite incr_length; lia). rewrite tbind_some.
      rewrite count_connected. unfold visit_succ. fold s. unfold is_seq.
      destruct (Nat.eqb (nth s (incr v s) 0) (connected (n_ins (get_node c s)))), (is_dff (get_node c s)), (is_latch (get_node c s)); reflexivity. }
    split; [exact E|].
    assert (Ef : fst (visit_succ c (v, q) l) = incr v s).
    { unfold visit_succ. fold s. destruct (_ && _); reflexivity. }
    rewrite Ef. split; [rewrite incr_length; exact Hl|]. split; [intros l' Hl'; apply Hin; now right|].
    intros m Hm. specialize (Hbd m Hm). cbn [map count_occ] in Hbd. fold s in Hbd.
    rewrite nth_incr by lia. destruct (Nat.eq_dec s m) as [<-|Hne].
    + rewrite Nat.eqb_refl. replace (nth s v 0 + 1 + count_occ Nat.eq_dec (map (fun l0 => l_rdr (get_line c l0)) ls) s)
        with (nth s v 0 + S (count_occ Nat.eq_dec (map (fun l0 => l_rdr (get_line c l0)) ls) s)) by lia. exact Hbd.
    + assert (E2 : Nat.eqb m s = false) by (apply Nat.eqb_neq; lia). rewrite E2, Nat.add_0_r. exact Hbd.
  - cbn [fst]. auto.
Qed.

(** the while loop of both Kahn traversals, over the netlist [c0] whose invariant [Inv] (Proofs/TopoProofs.v) the worklist keeps:
    c0 = c for topological_order, c0 = rev_netlist c for reversed_topological_order *)
Section While.
  Variable c0 : netlist.
  Hypothesis WF0 : wf_netlist c0.
  Variable stepw : list nat * list nat * list nat -> option ((list nat * list nat * list nat) * bool).
  Hypothesis step_nil : forall v out, stepw ([], v, out) = Some (([], v, out), false).
  Hypothesis step_cons : forall visit n q acc out, Inv c0 visit (n :: q) acc ->
    stepw (n :: q, visit, out) =
    Some ((snd (fold_left (visit_succ c0) (somes (n_outs (get_node c0 n))) (visit, q)),
           fst (fold_left (visit_succ c0) (somes (n_outs (get_node c0 n))) (visit, q)), out ++ [n]), true).

  Lemma while_eq : forall fw F visit queue acc,
    Inv c0 visit queue acc ->
    fw + List.length acc >= List.length (c_nodes c0) + 1 -> F + List.length acc >= List.length (c_nodes c0) + 1 ->
    exists v, t_while fw stepw (queue, visit, rev acc) = Some ([], v, topo_loop F c0 visit queue acc).
  Proof.
    induction fw as [|fw IH]; intros F visit queue acc I Hfw HF.
    - exfalso. assert (H : List.length (acc ++ queue) <= List.length (c_nodes c0)).
      { apply NoDup_bounded_length; [apply (I_nd _ _ _ _ I) | apply (I_lt _ _ _ _ I)]. }
      rewrite app_length in H. lia.
    - destruct queue as [|n q].
      + exists visit. cbn [t_while]. rewrite step_nil. destruct F; reflexivity.
      + destruct F as [|F].
        { exfalso. assert (H : List.length (acc ++ n :: q) <= List.length (c_nodes c0)).
          { apply NoDup_bounded_length; [apply (I_nd _ _ _ _ I) | apply (I_lt _ _ _ _ I)]. }
          rewrite app_length in H. cbn [List.length] in H. lia. }
        destruct (inv_step c0 WF0 visit n q acc I) as (visit' & added & Hfold & I').
        cbn [t_while]. rewrite (step_cons visit n q acc (rev acc) I), Hfold. cbn [fst snd].
        change (topo_loop (S F) c0 visit (n :: q) acc)
          with (let '(visit', q') := fold_left (visit_succ c0) (somes (n_outs (get_node c0 n))) (visit, q) in
                topo_loop F c0 visit' q' (n :: acc)).
        rewrite Hfold.
        destruct (IH F visit' (q ++ added) (n :: acc) I') as [v Hv]; [cbn [List.length]; lia | cbn [List.length]; lia|].
        exists v. exact Hv.
  Qed.
End While.

Lemma topo_init_src c :
  filter (fun v_n => forallb (fun v_l => t_is_none v_l) (n_ins (get_node c v_n)) || is_dff (get_node c v_n) || is_latch (get_node c v_n)) (t_nodes c)
  = topo_init c.
Proof.
  unfold topo_init. rewrite <- (filter_nodes c). apply filter_ext. intros n.
  rewrite all_none_connected, <- orb_assoc. reflexivity.
Qed.

Theorem topological_order_source_is_model c : wf_netlist c -> u32_ok c ->
  forall fuel, List.length (c_nodes c) < fuel -> topological_order_src c fuel = Some (topo_order c).
Proof.
  intros WF Hu fuel Hf. unfold topological_order_src. cbv zeta. rewrite topo_init_src, repeat_map_const.
  destruct (while_eq c WF (topological_order_while1 c fuel)) with (fw := fuel) (F := S (List.length (c_nodes c)))
    (visit := map (fun _ : node => 0) (c_nodes c)) (queue := topo_init c) (acc := @nil nat) as [v Hv].
  - intros v out. reflexivity.
  - intros visit n q acc out I. unfold topological_order_while1. cbv beta iota zeta. cbn [List.length Nat.ltb Nat.leb t_popleft tbind].
    assert (Hn : n < List.length (c_nodes c)) by (apply (I_lt _ _ _ _ I); apply in_or_app; right; now left).
    assert (Hnacc : ~ In n acc).
    { pose proof (I_nd _ _ _ _ I) as Hnd. apply NoDup_remove_2 in Hnd. intros H; apply Hnd; apply in_or_app; now left. }
    rewrite (loop2_eq c fuel out n (List.length (c_nodes c))).
    + rewrite tbind_some. destruct (fold_left (visit_succ c) (somes (n_outs (get_node c n))) (visit, q)) as [v' q']. reflexivity.
    + apply (I_len _ _ _ _ I).
    + intros l Hl. apply (wf_in_outs c WF) in Hl; [|exact Hn]. apply (wf_rdr_lt c WF). tauto.
    + intros m Hm. rewrite (I_vis _ _ _ _ I m Hm), <- (pcount_cons c WF n acc m Hn Hm Hnacc).
      pose proof (pcount_le c (n :: acc) m) as Hle. specialize (Hu m Hm). lia.
  - apply inv_init.
  - cbn [List.length]. lia.
  - cbn [List.length]. lia.
  - cbn [rev] in Hv. rewrite Hv. reflexivity.
Qed.

(* ------------------------------------------------------------------------------------------ *)
(** * reversed_topological_order (visit_count is a plain Python list: no wrap-around) *)

Lemma rloop2_eq c fuel out n NN pins visit queue :
  List.length visit = NN ->
  (forall l, In l (somes pins) -> l_drv (get_line c l) < NN) ->
  t_for (reversed_topological_order_loop2 c fuel out n) pins (visit, queue) = Some (fold_left (visit_pred c) (somes pins) (visit, queue)).
Proof.
  intros Hlen Hr.
  apply (t_for_pins _ (visit_pred c) (fun st ls => List.length (fst st) = NN /\ (forall l, In l ls -> l_drv (get_line c l) < NN))).
  - intros [v q]. reflexivity.
  - intros [v q] l ls (Hl & Hin). cbn [fst] in *.
    assert (Hs : l_drv (get_line c l) < NN) by (apply Hin; now left).
    set (s := l_drv (get_line c l)) in *.
    assert (E : reversed_topological_order_loop2 c fuel out n (Some l) (v, q) = Some (visit_pred c (v, q) l, false)).
    { unfold reversed_topological_order_loop2. cbv beta zeta iota. cbn [t_is_none negb t_index tbind]. cbv beta zeta iota. fold s.
      rewrite (t_lget_nth v s 0) by lia. rewrite tbind_some.
      rewrite Nat.add_1_r, t_lset_some by lia. rewrite tbind_some, t_set_incr.
      rewrite (t_lget_nth (incr v s) s 0) by (rewrite incr_length; lia). rewrite tbind_some.
      rewrite count_connected. unfold visit_pred. fold s. unfold is_seq.
      destruct (Nat.eqb (nth s (incr v s) 0) (connected (n_outs (get_node c s)))), (is_dff (get_node c s)), (is_latch (get_node c s)); reflexivity. }
    split; [exact E|].
    assert (Ef : fst (visit_pred c (v, q) l) = incr v s).
    { unfold visit_pred. fold s. destruct (_ && _); reflexivity. }
    rewrite Ef. split; [rewrite incr_length; exact Hl|]. intros l' Hl'; apply Hin; now right.
  - cbn [fst]. auto.
Qed.

Lemma rtopo_init_src c :
  filter (fun v_n => forallb (fun v_l => t_is_none v_l) (n_outs (get_node c v_n)) || is_dff (get_node c v_n) || is_latch (get_node c v_n)) (t_nodes c)
  = rtopo_init c.
Proof.
  unfold rtopo_init. rewrite <- (filter_nodes c). apply filter_ext. intros n.
  rewrite all_none_connected, <- orb_assoc. reflexivity.
Qed.

Theorem reversed_topological_order_source_is_model c : wf_netlist c ->
  forall fuel, List.length (c_nodes c) < fuel -> reversed_topological_order_src c fuel = Some (rtopo_order c).
Proof.
  intros WF fuel Hf. unfold reversed_topological_order_src. cbv zeta. rewrite rtopo_init_src, repeat_map_const.
  assert (Ei : Inv (rev_netlist c) (map (fun _ : node => 0) (c_nodes c)) (rtopo_init c) []).
  { pose proof (inv_init (rev_netlist c)) as H. cbn [rev_netlist c_nodes] in H. rewrite map_map in H.
    unfold topo_init in H. cbn [rev_netlist c_nodes] in H. rewrite find_idx_map in H. exact H. }
  destruct (while_eq (rev_netlist c) (rev_wf c WF) (reversed_topological_order_while1 c fuel)) with (fw := fuel) (F := S (List.length (c_nodes c)))
    (visit := map (fun _ : node => 0) (c_nodes c)) (queue := rtopo_init c) (acc := @nil nat) as [v Hv].
  - intros v out. reflexivity.
  - intros visit n q acc out I. unfold reversed_topological_order_while1. cbv beta iota zeta. cbn [List.length Nat.ltb Nat.leb t_popleft tbind].
    assert (Hn : n < List.length (c_nodes c)) by (rewrite <- (rev_nodes_length c); apply (I_lt _ _ _ _ I); apply in_or_app; right; now left).
    rewrite get_node_rev. change (n_outs (rev_node (get_node c n))) with (n_ins (get_node c n)).
    rewrite <- (fold_left_ext2 _ _ (visit_pred_rev c)).
    rewrite (rloop2_eq c fuel out n (List.length (c_nodes c))).
    + rewrite tbind_some. destruct (fold_left (visit_pred c) (somes (n_ins (get_node c n))) (visit, q)) as [v' q']. reflexivity.
    + rewrite <- (rev_nodes_length c). apply (I_len _ _ _ _ I).
    + intros l Hl. apply (wf_in_ins c WF) in Hl; [|exact Hn]. apply (wf_drv_lt c WF). tauto.
  - exact Ei.
  - rewrite rev_nodes_length. cbn [List.length]. lia.
  - rewrite rev_nodes_length. cbn [List.length]. lia.
  - cbn [rev] in Hv. rewrite Hv. unfold rtopo_order. rewrite rtopo_loop_rev. reflexivity.
Qed.

(* ------------------------------------------------------------------------------------------ *)
(** * topological_line_order: the yielded objects are the pins themselves (Line objects, never None) *)

Lemma line_loop2_eq c fuel n : forall pins out,
  t_for (topological_line_order_loop2 c fuel n) pins out = Some (out ++ map Some (somes pins)).
Proof.
  induction pins as [|[l|] r IH]; intros out; cbn [t_for].
  - now rewrite app_nil_r.
  - unfold topological_line_order_loop2 at 1. cbv beta zeta. cbn [t_is_none negb]. rewrite IH.
    change (somes (Some l :: r)) with (l :: somes r). cbn [map]. now rewrite <- app_assoc.
  - unfold topological_line_order_loop2 at 1. cbv beta zeta. cbn [t_is_none negb]. apply IH.
Qed.

Lemma line_loop1_eq c fuel : forall order out,
  t_for (topological_line_order_loop1 c fuel) order out = Some (out ++ map Some (flat_map (fun n => somes (n_outs (get_node c n))) order)).
Proof.
  induction order as [|n r IH]; intros out; cbn [t_for flat_map map].
  - now rewrite app_nil_r.
  - unfold topological_line_order_loop1 at 1. cbv beta zeta. rewrite line_loop2_eq, tbind_some, IH, map_app, app_assoc. reflexivity.
Qed.

Theorem topological_line_order_source_is_model c : wf_netlist c -> u32_ok c ->
  forall fuel, List.length (c_nodes c) < fuel -> topological_line_order_src c fuel = Some (map Some (topo_line_order c)).
Proof.
  intros WF Hu fuel Hf. unfold topological_line_order_src. cbv zeta.
  rewrite (topological_order_source_is_model c WF Hu fuel Hf), tbind_some, line_loop1_eq, tbind_some. reflexivity.
Qed.

(** whatever the producer yields, the consumer is the line-order model on it: no hypothesis on the netlist *)
Theorem topological_line_order_source_relative c fuel :
  topological_line_order_src c fuel = option_map (fun order => map Some (flat_map (fun n => somes (n_outs (get_node c n))) order)) (topological_order_src c fuel).
Proof.
  unfold topological_line_order_src. cbv zeta. destruct (topological_order_src c fuel) as [order|]; [|reflexivity].
  rewrite tbind_some, line_loop1_eq, tbind_some. reflexivity.
Qed.

(* ------------------------------------------------------------------------------------------ *)
(** * topological_order_with_level: level is an int32 array initialised to -1; the hand model counts in nat from 0 *)


Lemma mapM_connected {B} (g : nat -> B) : forall pins,
  t_mapM (fun v_l => tbind (t_index v_l) (fun t => Some (g t))) (filter (fun v_l => negb (t_is_none v_l)) pins) = Some (map g (somes pins)).
Proof.
  induction pins as [|[l|] r IH]; cbn [filter t_is_none negb]; [reflexivity | | exact IH].
  cbn [t_mapM t_index tbind]. rewrite IH. reflexivity.
Qed.

Lemma take_nth {A} (l : list A) d : forall idx, (forall i, In i idx -> i < List.length l) ->
  t_take idx l = Some (map (fun i => nth i l d) idx).
Proof.
  unfold t_take. induction idx as [|i r IH]; intros H; [reflexivity|]. cbn [t_mapM map].
  rewrite (t_lget_nth l i d) by (apply H; now left). rewrite IH by (intros j Hj; apply H; now right). reflexivity.
Qed.

Lemma fold_max_of_nat : forall r a, fold_left Z.max (map Z.of_nat r) (Z.of_nat a) = Z.of_nat (fold_left Nat.max r a).
Proof. induction r as [|x r IH]; intros a; cbn [map fold_left]; [reflexivity|]. rewrite <- Nat2Z.inj_max. apply IH. Qed.

Lemma fold_max_bound (lo hi : Z) : forall r a, (lo <= a < hi)%Z -> (forall x, In x r -> (lo <= x < hi)%Z) -> (lo <= fold_left Z.max r a < hi)%Z.
Proof.
  induction r as [|x r IH]; intros a Ha Hr; cbn [fold_left]; [exact Ha|]. apply IH.
  - specialize (Hr x (or_introl eq_refl)). lia.
  - intros y Hy. apply Hr. now right.
Qed.

Lemma level_init_src n : map (fun x_ => t_isub 32 x_ 1) (repeat 0%Z n) = repeat (-1)%Z n.
Proof. induction n as [|n IH]; cbn [repeat map]; [reflexivity|]. rewrite IH. reflexivity. Qed.

Record InvL (c : netlist) (pre : list nat) (levZ : list Z) (levN : list nat) : Prop := {
  L_lenZ : List.length levZ = List.length (c_nodes c);
  L_lenN : List.length levN = List.length (c_nodes c);
  L_val : forall d, In d pre -> nth d levZ (-1)%Z = Z.of_nat (nth d levN 0);
  L_bnd : forall i, (-1 <= nth i levZ (-1) < Z.of_nat (List.length pre))%Z }.

Lemma source_test c a :
  forallb (fun v_l => t_is_none v_l) (n_ins (get_node c a)) || is_dff (get_node c a) || is_latch (get_node c a) = is_source c a.
Proof. unfold is_source, is_seq. rewrite all_none_connected, <- orb_assoc. reflexivity. Qed.

Lemma lev_step_src c fuel a pre levZ levN outZ :
  a < List.length (c_nodes c) -> InvL c pre levZ levN ->
  (is_source c a = false -> forall d, In d (drivers c a) -> In d pre /\ d < List.length (c_nodes c)) ->
  (Z.of_nat (S (List.length pre)) < 2147483648)%Z ->
  topological_order_with_level_loop1 c fuel a (levZ, outZ)
    = Some ((t_set a (Z.of_nat (lev_val c levN a)) levZ, outZ ++ [(a, Z.of_nat (lev_val c levN a))]), false) /\
  (~ In a pre -> InvL c (pre ++ [a]) (t_set a (Z.of_nat (lev_val c levN a)) levZ) (set_nat levN a (lev_val c levN a))) /\
  (0 <= Z.of_nat (lev_val c levN a) <= Z.of_nat (List.length pre))%Z.
Proof.
  intros Ha [HlZ HlN Hval Hbnd] Hdrv Hsz.
  assert (Hlv : topological_order_with_level_loop1 c fuel a (levZ, outZ)
    = Some ((t_set a (Z.of_nat (lev_val c levN a)) levZ, outZ ++ [(a, Z.of_nat (lev_val c levN a))]), false) /\
    (0 <= Z.of_nat (lev_val c levN a) <= Z.of_nat (List.length pre))%Z).
  { unfold topological_order_with_level_loop1. cbv beta zeta iota. rewrite source_test.
    unfold lev_val. cbv zeta. fold (is_source c a). destruct (is_source c a) eqn:Hs.
    - unfold t_lset_i. rewrite i32_range by lia. rewrite t_lset_some by lia. rewrite tbind_some. split; [reflexivity | lia].
    - specialize (Hdrv eq_refl). rewrite mapM_connected, tbind_some.
      fold (drivers c a).
      rewrite (take_nth levZ (-1)%Z) by (intros i Hi; rewrite HlZ; apply (Hdrv i Hi)). rewrite tbind_some.
      assert (Ez : map (fun i => nth i levZ (-1)%Z) (drivers c a)
                   = map Z.of_nat (map (fun ln => nth (l_drv (get_line c ln)) levN 0) (somes (n_ins (get_node c a))))).
      { unfold drivers. rewrite !map_map. apply map_ext_in. intros ln Hln. apply Hval. apply Hdrv.
        unfold drivers. apply (in_map (fun l0 => l_drv (get_line c l0))). exact Hln. }
      assert (Hne : somes (n_ins (get_node c a)) <> []).
      { destruct (source_not_seq c a Hs) as [_ Hc]. rewrite connected_somes in Hc. intros E. rewrite E in Hc. now apply Hc. }
      assert (Hb : forall z, In z (map (fun i => nth i levZ (-1)%Z) (drivers c a)) -> (-1 <= z < Z.of_nat (List.length pre))%Z).
      { intros z Hz. apply in_map_iff in Hz. destruct Hz as (i & <- & _). apply Hbnd. }
      rewrite Ez in *. destruct (map (fun ln => nth (l_drv (get_line c ln)) levN 0) (somes (n_ins (get_node c a)))) as [|x r] eqn:El.
      { exfalso. apply Hne. apply map_eq_nil in El. exact El. }
      cbn [map t_max_Z tbind]. cbn [fold_left]. rewrite Nat.max_0_l.
      assert (Hm : (-1 <= fold_left Z.max (map Z.of_nat r) (Z.of_nat x) < Z.of_nat (List.length pre))%Z).
      { apply fold_max_bound; [apply Hb; now left | intros y Hy; apply Hb; now right]. }
      rewrite fold_max_of_nat in *. unfold t_iadd. rewrite i32_small by lia.
      unfold t_lset_i. rewrite i32_range by lia. rewrite t_lset_some by lia. rewrite tbind_some.
      replace (Z.of_nat (fold_left Nat.max r x) + 1)%Z with (Z.of_nat (S (fold_left Nat.max r x))) by lia.
      split; [reflexivity | lia]. }
  destruct Hlv as [E Hr]. split; [exact E|]. split; [|exact Hr].
  intros Hna. constructor.
  - rewrite t_set_length. exact HlZ.
  - rewrite TopoProofs.set_nat_length. exact HlN.
  - intros d Hd. rewrite nth_t_set by lia. apply in_app_or in Hd. destruct (Nat.eqb d a) eqn:Eda.
    + apply Nat.eqb_eq in Eda. subst d. rewrite nth_set_nat_eq by lia. reflexivity.
    + apply Nat.eqb_neq in Eda. destruct Hd as [Hd|[Hd|[]]]; [|congruence]. rewrite nth_set_nat_neq by exact Eda. apply Hval, Hd.
  - intros i. rewrite app_length. cbn [List.length]. rewrite nth_t_set by lia. destruct (Nat.eqb i a); [lia|]. specialize (Hbnd i). lia.
Qed.

Lemma lev_src_fold c fuel : forall rest pre levZ levN outZ accN,
  NoDup (pre ++ rest) -> (forall x, In x (pre ++ rest) -> x < List.length (c_nodes c)) ->
  (forall p n post, pre ++ rest = p ++ n :: post -> is_source c n = false -> forall d, In d (drivers c n) -> In d p) ->
  (Z.of_nat (List.length (pre ++ rest)) < 2147483648)%Z ->
  InvL c pre levZ levN -> outZ = map conv (rev accN) ->
  exists levZ', t_for (topological_order_with_level_loop1 c fuel) rest (levZ, outZ)
                = Some (levZ', map conv (rev (snd (fold_left (lev_step c) rest (levN, accN))))).
Proof.
  induction rest as [|a rest IH]; intros pre levZ levN outZ accN Hnd Hlt Hord Hsz HI Hout.
  - exists levZ. cbn [t_for fold_left snd]. now rewrite Hout.
  - assert (Ha : a < List.length (c_nodes c)) by (apply Hlt; apply in_or_app; right; now left).
    assert (Hna : ~ In a pre).
    { apply NoDup_remove_2 in Hnd. intros H. apply Hnd. apply in_or_app. now left. }
    assert (Eapp : (pre ++ [a]) ++ rest = pre ++ a :: rest) by (rewrite <- app_assoc; reflexivity).
    destruct (lev_step_src c fuel a pre levZ levN outZ Ha HI) as (E & HI' & _).
    { intros Hs d Hd. assert (Hp : In d pre) by (apply (Hord pre a rest eq_refl Hs d Hd)).
      split; [exact Hp|]. apply Hlt. apply in_or_app. now left. }
    { rewrite app_length in Hsz. cbn [List.length] in Hsz. lia. }
    cbn [t_for]. rewrite E, lev_fold_cons.
    apply (IH (pre ++ [a])).
    + rewrite Eapp. exact Hnd.
    + rewrite Eapp. exact Hlt.
    + rewrite Eapp. exact Hord.
    + rewrite Eapp. exact Hsz.
    + apply HI', Hna.
    + rewrite Hout. cbn [rev]. rewrite map_app. reflexivity.
Qed.

Theorem topological_order_with_level_source_is_model c : wf_netlist c -> u32_ok c -> i32_ok c ->
  forall fuel, List.length (c_nodes c) < fuel ->
  topological_order_with_level_src c fuel = Some (map conv (topo_levels c)).
Proof.
  intros WF Hu Hi fuel Hf. unfold topological_order_with_level_src. cbv zeta.
  rewrite (topological_order_source_is_model c WF Hu fuel Hf), tbind_some, level_init_src.
  destruct (topo_nodup c WF) as [Hnd Hlt].
  destruct (lev_src_fold c fuel (topo_order c) [] (repeat (-1)%Z (List.length (c_nodes c))) (map (fun _ => 0) (c_nodes c)) [] []) as [lz Hl].
  - exact Hnd.
  - exact Hlt.
  - cbn [app]. destruct (topo_final c WF) as (v & acc & rest & E & I & E2). rewrite E. apply ordered_split. apply (I_ord _ _ _ _ I).
  - cbn [app]. assert (H : List.length (topo_order c) <= List.length (c_nodes c)) by (apply NoDup_bounded_length; assumption).
    unfold i32_ok in Hi. lia.
  - constructor.
    + apply repeat_length.
    + apply map_length.
    + intros d [].
    + intros i. cbn [List.length]. assert (E : nth i (repeat (-1)%Z (List.length (c_nodes c))) (-1)%Z = (-1)%Z).
      { generalize (List.length (c_nodes c)). intros n. revert i. induction n as [|n IH]; intros [|i]; cbn; auto. }
      rewrite E. lia.
  - reflexivity.
  - rewrite Hl, tbind_some, topo_levels_eq. reflexivity.
Qed.

(* ------------------------------------------------------------------------------------------ *)
(** * fanin *)

Lemma t_set_map_seq (f : nat -> bool) : forall n s k,
  t_set k true (map f (seq s n)) = map (fun i => f i || Nat.eqb i (s + k)) (seq s n).
Proof.
  induction n as [|n IH]; intros s k; [reflexivity|]. cbn [seq map]. destruct k as [|k]; cbn [t_set].
  - rewrite Nat.add_0_r, Nat.eqb_refl, orb_true_r. f_equal. apply map_ext_in. intros i Hi. apply in_seq in Hi.
    assert (E : Nat.eqb i s = false) by (apply Nat.eqb_neq; lia). now rewrite E, orb_false_r.
  - assert (E : Nat.eqb s (s + S k) = false) by (apply Nat.eqb_neq; lia). rewrite E, orb_false_r. f_equal.
    rewrite IH. apply map_ext. intros i. now replace (S s + k) with (s + S k) by lia.
Qed.

Lemma fold_set_marks n : forall os (f : nat -> bool),
  fold_left (fun m o => t_set o true m) os (map f (seq 0 n)) = map (fun i => f i || existsb (Nat.eqb i) os) (seq 0 n).
Proof.
  induction os as [|o os IH]; intros f; cbn [fold_left existsb].
  - apply map_ext. intros i. now rewrite orb_false_r.
  - rewrite t_set_map_seq, IH. apply map_ext. intros i. cbn [Nat.add]. now rewrite orb_assoc.
Qed.

Lemma marks0_src c fuel origins out : (forall o, In o origins -> o < List.length (c_nodes c)) ->
  t_for (fanin_loop1 c fuel origins out) origins (repeat false (List.length (c_nodes c))) = Some (fanin_marks0 c origins).
Proof.
  intros Ho.
  rewrite (t_for_fold (fanin_loop1 c fuel origins out) (fun m o => t_set o true m)
             (fun st l => List.length st = List.length (c_nodes c) /\ forall o, In o l -> o < List.length (c_nodes c))).
  - f_equal. assert (E : repeat false (List.length (c_nodes c)) = map (fun _ => false) (seq 0 (List.length (c_nodes c)))).
    { rewrite <- (seq_length (List.length (c_nodes c)) 0) at 1. apply repeat_map_const. }
    rewrite E, fold_set_marks. unfold fanin_marks0. apply map_ext. intros i. reflexivity.
  - intros st x r [Hl Hin]. unfold fanin_loop1. cbv beta zeta. rewrite t_lset_some by (rewrite Hl; apply Hin; now left).
    split; [reflexivity|]. split; [now rewrite t_set_length | intros o Hi; apply Hin; now right].
  - split; [apply repeat_length | exact Ho].
Qed.

Section FaninLoop.
  Variable c : netlist.
  Variables (fuel : nat) (origins : list nat).
  Notation NN := (List.length (c_nodes c)).
  Notation rdr l := (l_rdr (get_line c l)).

  Definition mstep (n : nat) (m : list bool) (l : nat) : list bool := t_set n (nth n m false || nth (rdr l) m false) m.

  Lemma floop3_eq out0 n pins marks : List.length marks = NN -> n < NN -> (forall l, In l (somes pins) -> rdr l < NN) ->
    t_for (fanin_loop3 c fuel origins out0 n) pins marks = Some (fold_left (mstep n) (somes pins) marks).
  Proof.
    intros Hl Hn Hr.
    apply (t_for_pins _ (mstep n) (fun st ls => List.length st = NN /\ forall l, In l ls -> rdr l < NN)).
    - intros st. reflexivity.
    - intros st l ls [Hs Hin]. unfold fanin_loop3. cbv beta zeta. cbn [t_is_none negb t_index tbind].
      rewrite (t_lget_nth st n false) by lia. rewrite tbind_some.
      rewrite (t_lget_nth st (rdr l) false) by (rewrite Hs; apply Hin; now left). rewrite tbind_some.
      rewrite t_lset_some by lia. rewrite tbind_some. split; [reflexivity|]. unfold mstep. rewrite t_set_length.
      split; [exact Hs | intros l' Hl'; apply Hin; now right].
    - auto.
  Qed.

  Lemma marks_fold n m0 : n < List.length m0 -> forall ls a, (nth n m0 false = true -> a = true) ->
    fold_left (mstep n) ls (t_set n a m0) = t_set n (a || existsb (fun l => nth (rdr l) m0 false) ls) m0.
  Proof.
    intros Hn. induction ls as [|l ls IH]; intros a Ha; cbn [fold_left existsb]; [now rewrite orb_false_r|].
    unfold mstep at 2. rewrite !nth_t_set by exact Hn. rewrite Nat.eqb_refl, t_set_twice.
    rewrite IH.
    - f_equal. destruct (Nat.eqb (rdr l) n) eqn:E.
      + apply Nat.eqb_eq in E. rewrite E. destruct a; [reflexivity|]. cbn [orb].
        destruct (nth n m0 false); [specialize (Ha eq_refl); discriminate | reflexivity].
      + now rewrite orb_assoc.
    - intros H. rewrite (Ha H). reflexivity.
  Qed.

  Lemma marks_fold0 n m0 ls : n < List.length m0 ->
    fold_left (mstep n) ls m0 = t_set n (nth n m0 false || existsb (fun l => nth (rdr l) m0 false) ls) m0.
  Proof.
    intros Hn. transitivity (fold_left (mstep n) ls (t_set n (nth n m0 false) m0)); [now rewrite t_set_same|].
    apply marks_fold; auto.
  Qed.

  Lemma floop2_eq n marks acc : List.length marks = NN -> n < NN -> (forall l, In l (somes (n_outs (get_node c n))) -> rdr l < NN) ->
    fanin_loop2 c fuel origins n (marks, rev acc)
    = Some ((fst (fanin_step c (marks, acc) n), rev (snd (fanin_step c (marks, acc) n))), false).
  Proof.
    intros Hl Hn Hr. unfold fanin_loop2, fanin_step. cbv beta zeta iota.
    rewrite (setm_t_set n _ marks 0) by lia. rewrite Nat.sub_0_r. cbn [fst snd].
    rewrite (t_lget_nth marks n false) by lia. rewrite tbind_some.
    destruct (nth n marks false) eqn:Em; cbn [negb orb].
    - rewrite tbind_some.
      assert (Es : t_set n true marks = marks) by (rewrite <- Em; apply t_set_same). rewrite Es. reflexivity.
    - rewrite floop3_eq by assumption. rewrite tbind_some.
      rewrite marks_fold0 by lia. rewrite Em. cbn [orb].
      set (E := existsb (fun ln => nth (rdr ln) marks false) (somes (n_outs (get_node c n)))).
      rewrite (t_lget_nth (t_set n E marks) n false) by (rewrite t_set_length; lia). rewrite tbind_some.
      rewrite nth_t_set by lia. rewrite Nat.eqb_refl. destruct E; reflexivity.
  Qed.

  Lemma fanin_loop_eq (WF : wf_netlist c) : forall R marks acc, List.length marks = NN -> (forall n, In n R -> n < NN) ->
    t_for (fanin_loop2 c fuel origins) R (marks, rev acc)
    = Some (fst (fold_left (fanin_step c) R (marks, acc)), rev (snd (fold_left (fanin_step c) R (marks, acc)))).
  Proof.
    induction R as [|n R IH]; intros marks acc Hl Hin; cbn [t_for fold_left]; [reflexivity|].
    assert (Hn : n < NN) by (apply Hin; now left).
    rewrite floop2_eq; [|exact Hl | exact Hn |].
    - destruct (fanin_step c (marks, acc) n) as [m' a'] eqn:Es. cbn [fst snd]. apply IH.
      + assert (Em : m' = fst (fanin_step c (marks, acc) n)) by now rewrite Es.
        rewrite Em. unfold fanin_step. cbn [fst]. rewrite (setm_t_set n _ marks 0) by lia. rewrite t_set_length. exact Hl.
      + intros k Hk. apply Hin. now right.
    - intros l Hli. apply (wf_in_outs c WF) in Hli; [|exact Hn]. apply (wf_rdr_lt c WF). tauto.
  Qed.
End FaninLoop.

Theorem fanin_source_is_model c origins : wf_netlist c -> (forall o, In o origins -> o < List.length (c_nodes c)) ->
  forall fuel, List.length (c_nodes c) < fuel -> fanin_src c fuel origins = Some (fanin c origins).
Proof.
  intros WF Ho fuel Hf. unfold fanin_src. cbv zeta. rewrite marks0_src by exact Ho. rewrite tbind_some.
  rewrite (reversed_topological_order_source_is_model c WF fuel Hf), tbind_some.
  change (@nil nat) with (rev (@nil nat)).
  rewrite (fanin_loop_eq c fuel origins WF).
  - rewrite tbind_some, fanin_eq. reflexivity.
  - unfold fanin_marks0. rewrite map_length. apply seq_length.
  - intros n Hn. rewrite rtopo_is_mirror in Hn. destruct (topo_nodup _ (rev_wf c WF)) as [_ Hlt].
    rewrite <- (rev_nodes_length c). apply Hlt, Hn.
Qed.

(* ------------------------------------------------------------------------------------------ *)
(** * all six functions; what the hypotheses exclude; a concrete instance *)

Theorem traversals_source_is_model : forall c, wf_netlist c -> forall fuel, List.length (c_nodes c) < fuel ->
  s_nodes_src c = Some (s_nodes c) /\
  (u32_ok c -> topological_order_src c fuel = Some (topo_order c)) /\
  (u32_ok c -> i32_ok c -> topological_order_with_level_src c fuel = Some (map conv (topo_levels c))) /\
  (u32_ok c -> topological_line_order_src c fuel = Some (map Some (topo_line_order c))) /\
  reversed_topological_order_src c fuel = Some (rtopo_order c) /\
  (forall origins, (forall o, In o origins -> o < List.length (c_nodes c)) -> fanin_src c fuel origins = Some (fanin c origins)).
Proof.
  intros c WF fuel Hf. split; [apply s_nodes_source_is_model|]. split; [intros Hu; now apply topological_order_source_is_model|].
  split; [intros Hu Hi; now apply topological_order_with_level_source_is_model|].
  split; [intros Hu; now apply topological_line_order_source_is_model|].
  split; [now apply reversed_topological_order_source_is_model|]. intros origins Ho. now apply fanin_source_is_model.
Qed.

(** the C17 theorems about the hand models, restated for the code as written (two of them, as a pattern) *)
Corollary topological_order_source_complete c fuel : wf_netlist c -> u32_ok c -> comb_acyclic c -> List.length (c_nodes c) < fuel ->
  exists order, topological_order_src c fuel = Some order /\ Permutation.Permutation order (seq 0 (List.length (c_nodes c))).
Proof.
  intros WF Hu Ha Hf. exists (topo_order c). split; [now apply topological_order_source_is_model | now apply topo_complete].
Qed.
Corollary reversed_source_is_mirror c fuel : wf_netlist c -> List.length (c_nodes c) < fuel ->
  reversed_topological_order_src c fuel = Some (topo_order (rev_netlist c)).
Proof. intros WF Hf. rewrite <- rtopo_is_mirror. now apply reversed_topological_order_source_is_model. Qed.

Module SrcEx.
Import Coq.Strings.String.
Local Open Scope string_scope.
(** a line whose reader does not exist (no Circuit object looks like this: C09): the source raises IndexError, the hand model skips the store and lists a sixth node *)
Definition dangling : netlist :=
  {| c_nodes := [ {| n_kind := "input"; n_ins := []; n_outs := [Some 0] |} ];
     c_lines := [ {| l_drv := 0; l_dpin := 0; l_rdr := 5; l_rpin := 0 |} ];
     c_io := [0] |}.
Lemma source_needs_wf : topological_order_src dangling 9 = None /\ topo_order dangling = [0; 5].
Proof. vm_compute. split; reflexivity. Qed.
(** the bound on the fuel is tight: the loop test is evaluated (number of nodes + 1) times on [Ex.ex] *)
Lemma source_needs_fuel : topological_order_src Ex.ex 6 = None /\ topological_order_src Ex.ex 7 = Some (topo_order Ex.ex).
Proof. vm_compute. split; reflexivity. Qed.
(** an origin that is not a node of the circuit: IndexError in `marks[n] = True` *)
Lemma source_needs_origins : fanin_src Ex.ex 7 [9] = None /\ fanin Ex.ex [9] = [].
Proof. vm_compute. split; reflexivity. Qed.

Lemma ex_u32 : u32_ok Ex.ex.
Proof. intros m Hm. cbn in Hm. do 6 (destruct m as [|m]; [vm_compute; reflexivity|]). lia. Qed.
Lemma ex_i32 : i32_ok Ex.ex.
Proof. vm_compute. reflexivity. Qed.

(** the hypotheses hold on [Ex.ex] (fan-out stem, reconvergence, an unconnected middle pin, a flip-flop) and the translated loops run *)
Lemma source_example :
  wf_netlist Ex.ex /\ u32_ok Ex.ex /\ i32_ok Ex.ex /\
  topological_order_src Ex.ex 7 = Some [2; 3; 4; 5; 0; 1] /\
  topological_order_with_level_src Ex.ex 7 = Some [(2, 0%Z); (3, 0%Z); (4, 1%Z); (5, 1%Z); (0, 1%Z); (1, 2%Z)] /\
  topological_line_order_src Ex.ex 7 = Some [Some 0; Some 1; Some 5; Some 2; Some 3; Some 4] /\
  reversed_topological_order_src Ex.ex 7 = Some [0; 3; 1; 4; 5; 2] /\
  fanin_src Ex.ex 7 [1] = Some [1; 4; 5; 2] /\ fanin_src Ex.ex 7 [1] = Some (fanin Ex.ex [1]) /\
  s_nodes_src Ex.ex = Some [2; 0; 3].
Proof.
  split; [exact Ex.ex_wf|]. split; [exact ex_u32|]. split; [exact ex_i32|]. vm_compute. repeat split; reflexivity.
Qed.
End SrcEx.

Print Assumptions traversals_source_is_model.
Print Assumptions SrcEx.source_example.
